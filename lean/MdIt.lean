import MdIt.Basic
import MdIt.Generated.Tables
import MdIt.Ruler
import MdIt.Proofs.Ruler
import MdIt.Props.C11
