import MdIt.Block
import MdIt.Proto
/-! Driver: `blockloop <maxNesting> <startLine> <endLine> <blkIndent> <level> <lines> <script>`
lines = `e:sc,e:sc,…` (isEmpty flag, sCount) for every entry of the tables incl. the sentinel;
script = `line>newline,…` : the outcome of the rule chain at each dispatch line as recorded from the
implementation.  Response: `ok <line> <tight>` or `e:<err>`. -/
namespace MdIt.Drv
open MdIt.Proto

def parseLines (t : String) : List BLine :=
  if t == "~" then [] else
  (t.splitOn ",").map (fun p => match p.splitOn ":" with
    | [e, sc] => { sCount := sc.toInt!, text := if decBool e then [] else ['x'] }
    | _ => { sCount := 0 })

def parseScript (t : String) : List (Nat × Nat) :=
  if t == "~" then [] else
  (t.splitOn ",").filterMap (fun p => match p.splitOn ">" with
    | [a, b] => some (a.toNat!, b.toNat!)
    | _ => none)

def scriptRule (script : List (Nat × Nat)) : BRule := fun s line _ _ =>
  match script.find? (·.1 == line) with
  | some (_, nl) => .ok (true, { s with line := nl })
  | none => .ok (false, s)

def blockLoopLine (toks : List String) : String :=
  match toks with
  | [mn, st, en, bi, lv, ls, sc] =>
    let lines := parseLines ls
    let s : BState := { lines := lines, line := st.toNat!, lineMax := lines.length - 1, blkIndent := bi.toInt!,
                        level := lv.toInt!, tight := false, parentType := "root", tokens := [] }
    match blockTokenize [scriptRule (parseScript sc)] mn.toInt! s st.toNat! en.toNat! with
    | .ok s' => "ok " ++ toString s'.line ++ " " ++ encBool s'.tight
    | .error e => "e:" ++ e.tag
  | _ => "bad-request"

end MdIt.Drv
