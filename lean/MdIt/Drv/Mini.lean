import MdIt.BlockRules
import MdIt.BlockQuote
import MdIt.BlockList
import MdIt.BlockMore
import MdIt.Drv.Token
import MdIt.Generated.Tables
/-! Driver: `miniblock <code><fence><hr><heading> <maxNesting> <src>` — block tokens of the modelled
sub-parser (normalize + block loop over code/fence/hr/heading/paragraph).
Response: `ok <token records…>` or `e:<err>`. -/
namespace MdIt.Drv
open MdIt.Proto

def miniLine (toks : List String) : String :=
  match toks with
  | [bits, mn, src] =>
    let b := bits.toList.map (· == '1')
    let cfg : MiniCfg := { code := b.getD 0 false, fence := b.getD 1 false, hr := b.getD 2 false, heading := b.getD 3 false }
    match miniParse cfg Gen.pyWhitespace mn.toInt! (decChars src) with
    | .ok ts => "ok " ++ " ".intercalate (encToks ts)
    | .error e => "e:" ++ e.tag
  | _ => "bad-request"

/-- `qblock <code><fence><hr><heading> <maxNesting> <src>` — the same with the block quote rule in the chain -/
def qLine (toks : List String) : String :=
  match toks with
  | [bits, mn, src] =>
    let b := bits.toList.map (· == '1')
    let cfg : MiniCfg := { code := b.getD 0 false, fence := b.getD 1 false, hr := b.getD 2 false, heading := b.getD 3 false }
    match qParse cfg Gen.pyWhitespace mn.toInt! (decChars src) with
    | .ok ts => "ok " ++ " ".intercalate (encToks ts)
    | .error e => "e:" ++ e.tag
  | _ => "bad-request"

/-- `lblock <code><fence><hr><heading> <maxNesting> <src>` — block quotes and lists in the chain -/
def lLine (toks : List String) : String :=
  match toks with
  | [bits, mn, src] =>
    let b := bits.toList.map (· == '1')
    let cfg : MiniCfg := { code := b.getD 0 false, fence := b.getD 1 false, hr := b.getD 2 false, heading := b.getD 3 false }
    match lParse cfg Gen.pyWhitespace mn.toInt! (decChars src) with
    | .ok ts => "ok " ++ " ".intercalate (encToks ts)
    | .error e => "e:" ++ e.tag
  | _ => "bad-request"

/-- `mblock <code><fence><hr><heading><html_block><lheading><html> <maxNesting> <src>` — nine of the eleven block rules -/
def mLine (toks : List String) : String :=
  match toks with
  | [bits, mn, src] =>
    let b := bits.toList.map (· == '1')
    let cfg : MCfg := { code := b.getD 0 false, fence := b.getD 1 false, hr := b.getD 2 false, heading := b.getD 3 false,
                        htmlBlock := b.getD 4 false, lheading := b.getD 5 false, html := b.getD 6 false }
    match mParse cfg Gen.pyWhitespace mn.toInt! (decChars src) with
    | .ok ts => "ok " ++ " ".intercalate (encToks ts)
    | .error e => "e:" ++ e.tag
  | _ => "bad-request"

/-- `linescan <src>` — the line tables `StateBlock.__init__` builds (source already normalised): per line
    `len,tShift,sCount,bsCount,hasLF` -/
def lineScanLine (toks : List String) : String :=
  match toks with
  | [src] =>
    let ls := scanGo (decChars src) [] false 0 0
    "ok " ++ " ".intercalate (ls.map (fun l => s!"{l.text.length},{l.tShift},{l.sCount},{l.bs},{encBool l.hasLF}"))
  | _ => "bad-request"

end MdIt.Drv
