import MdIt.Refs
import MdIt.Proto
/-! Driver: `refs <defs-batch> <defs-batch> …` — every batch is one parse on the same env (`~` = no
definition); a definition is `label/href/title/a-b`, definitions of a batch joined by `;`.
Response: `R:<label=href,…> D:<label=href@a-b,…>` after the last batch. -/
namespace MdIt.Drv
open MdIt.Proto

def parseDef (t : String) : Option RefDef :=
  match t.splitOn "/" with
  | [l, h, ti, m] =>
    match m.splitOn "-" with
    | [a, b] => some ⟨decStr l, decStr h, decStr ti, (a.toNat!, b.toNat!)⟩
    | _ => none
  | _ => none

def refsLine (toks : List String) : String :=
  let e := toks.foldl (fun (e : RefEnv) batch =>
    e.recordAll ((if batch == "~" then [] else batch.splitOn ";").filterMap parseDef)) ⟨[], []⟩
  let enc1 (d : RefDef) := encStr d.label ++ "=" ++ encStr d.href ++ "=" ++ encStr d.title ++ "@" ++ toString d.map.1 ++ "-" ++ toString d.map.2
  "R:" ++ ",".intercalate (e.references.map (fun p => enc1 p.2)) ++ " D:" ++ ",".intercalate (e.duplicates.map enc1)

end MdIt.Drv
