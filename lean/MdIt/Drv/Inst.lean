import MdIt.Instance
import MdIt.Drv.Ruler
/-! Driver section for instance-level models.
`reset <preset> <tok>…` : run a body inside `reset_rules` on a freshly configured instance.
body tokens: `en:<names>:<ign>` `dis:<names>:<ign>` `raise:<n>` `push:<which>:<name>` `eo:<which>:<names>`
`[` … `]` (nested reset_rules block).  Response: `<outcome> <active-after>`. -/
namespace MdIt.Drv
open MdIt.Proto

def decWhich : String → Which
  | "core" => .core | "block" => .block | "inline" => .inline | _ => .inline2

instance : Inhabited Body := ⟨fun m => (m, .ok ())⟩

/-- parse a token list into a body; returns the body and the remaining tokens (after a `]`) -/
partial def parseBody : List String → Body × List String
  | [] => (fun m => (m, .ok ()), [])
  | "]" :: rest => (fun m => (m, .ok ()), rest)
  | "[" :: rest =>
    let (inner, rest1) := parseBody rest
    let (tail, rest2) := parseBody rest1
    (Body.seq (Body.reset inner) tail, rest2)
  | t :: rest =>
    let b : Body := match t.splitOn ":" with
      | ["en", ns, ig] => Body.setMany true (decList ns) (decBool ig)
      | ["dis", ns, ig] => Body.setMany false (decList ns) (decBool ig)
      | ["raise", n] => Body.raise n.toNat!
      | ["push", w, n] => Body.rop (decWhich w) (.push (decStr n) 999 [])
      | ["eo", w, ns] => Body.rop (decWhich w) (.enableOnly (decList ns) false)
      | _ => Body.raise 99999
    let (tail, rest2) := parseBody rest
    (Body.seq b tail, rest2)

def resetLine (toks : List String) : String :=
  match toks with
  | [] => "bad-request"
  | p :: body =>
    match findPreset (decStr p) with
    | none => "e:KeyError"
    | some preset =>
      let (m0, r0) := Rulers.fresh.configure preset
      match r0 with
      | .error e => "e:" ++ e.tag
      | .ok _ =>
        let (b, _) := parseBody body
        let (m1, r) := resetRules m0 b
        (match r with | .ok _ => "u" | .error e => "e:" ++ e.tag) ++ " " ++ encActive m1.active

end MdIt.Drv
