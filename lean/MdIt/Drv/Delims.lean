import MdIt.Delims
import MdIt.Proto
/-! Driver: `delims <d>,<d>,…` with `<d>` = `marker:length:token:end:open:close` (decimal; `end` may be negative; `~` = empty list);
answer: the array after `processDelimiters` in the same format -/
namespace MdIt.Drv
open MdIt.Proto

def decInt (s : String) : Int := s.toInt?.getD 0

def decDelim (s : String) : Option Delim :=
  match s.splitOn ":" with
  | [m, l, t, e, o, c] => some { marker := m.toNat!, length := l.toNat!, token := decInt t, end_ := decInt e, open_ := o == "1", close := c == "1" }
  | _ => none

def encDelim (d : Delim) : String :=
  s!"{d.marker}:{d.length}:{d.token}:{d.end_}:{if d.open_ then 1 else 0}:{if d.close then 1 else 0}"

def delimsLine (toks : List String) : String :=
  match toks with
  | [t] =>
    let ds := if t == "~" then [] else (t.splitOn ",").filterMap decDelim
    let out := processDelims ds
    if out.isEmpty then "~" else ",".intercalate (out.map encDelim)
  | _ => "bad-request"

end MdIt.Drv
