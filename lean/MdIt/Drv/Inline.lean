import MdIt.Emphasis
import MdIt.Drv.Core
import MdIt.Drv.Token
/-! Driver: `inline <maxNesting> <rules> <fragjoin> <textjoin> <src>` with rules a string over
`t` (text) `n` (newline) `e` (escape) `b` (backticks) `s` (strikethrough) `m` (emphasis) — the last two with balance_pairs and their post-processing, in chain order -/
namespace MdIt.Drv
open MdIt.Proto

def ruleOfChar : Char → Option IRule
  | 't' => some ruleText
  | 'n' => some ruleNewline
  | 'e' => some ruleEscape
  | 'b' => some ruleBackticks
  | 's' => some (ruleStrike drvCls)
  | 'm' => some (ruleEmphasis drvCls)
  | _ => none

def inlineLine (toks : List String) : String :=
  match toks with
  | [mn, rs, fj, tj, src] =>
    let rules := rs.toList.filterMap ruleOfChar
    let post := (if rs.toList.contains 'm' || rs.toList.contains 's' then [balancePairs] else [])
      ++ (if rs.toList.contains 's' then [strikePost] else []) ++ (if rs.toList.contains 'm' then [emphasisPost] else [])
    match inlineParse rules post (decBool fj) mn.toInt! (decChars src) with
    | .error e => "e:" ++ e.tag
    | .ok ts =>
      let ts' := if decBool tj then joinToks [] ts else ts
      "ok " ++ " ".intercalate (encToks ts')
  | _ => "bad-request"

end MdIt.Drv
