import MdIt.Instance
import MdIt.Proto
/-! Driver section for the Ruler model: `ruler <op> <op> ...` → one result per op. -/
namespace MdIt.Drv
open MdIt.Proto

def encOut : ROut → String
  | .unit => "u"
  | .names l => "n:" ++ encList l
  | .fns l => "f:" ++ encNats l
  | .err e => "e:" ++ e.tag

def parseROp (t : String) : Option ROp :=
  match t.splitOn ":" with
  | ["push", n, f, a] => some (.push (decStr n) f.toNat! (decList a))
  | ["at", n, f, a] => some (.at (decStr n) f.toNat! (decList a))
  | ["before", r, n, f, a] => some (.before (decStr r) (decStr n) f.toNat! (decList a))
  | ["after", r, n, f, a] => some (.after (decStr r) (decStr n) f.toNat! (decList a))
  | ["enable", ns, ig] => some (.enable (decList ns) (decBool ig))
  | ["enableOnly", ns, ig] => some (.enableOnly (decList ns) (decBool ig))
  | ["disable", ns, ig] => some (.disable (decList ns) (decBool ig))
  | ["get", c] => some (.getRules (decStr c))
  | ["lazy", b, items] =>
    -- items: `cb>name` joined by ',', cb = `!` (no callback) or an encoded chain name
    let l := (if items == "~" then [] else items.splitOn ",").filterMap (fun it => match it.splitOn ">" with
      | [cb, n] => some ((if cb == "!" then none else some (decStr cb)), decStr n)
      | _ => none)
    some (.setLazy (decBool b) l)
  | _ => none

def rulerLine (toks : List String) : String :=
  let rec go (r : Ruler) (ts : List String) (acc : List String) : List String :=
    match ts with
    | [] => acc.reverse
    | t :: rest =>
      if t == "active" then go r rest (("n:" ++ encList r.activeRules) :: acc)
      else if t == "all" then go r rest (("n:" ++ encList r.allRules) :: acc)
      else match parseROp t with
        | none => go r rest ("bad-op" :: acc)
        | some op => let (r', o) := r.step op; go r' rest (encOut o :: acc)
  " ".intercalate (go Ruler.empty toks [])

end MdIt.Drv

namespace MdIt.Drv
open MdIt.Proto

def encActive (a : Active) : String :=
  "a:" ++ encList a.core ++ "/" ++ encList a.block ++ "/" ++ encList a.inline ++ "/" ++ encList a.inline2

def encAllR (m : Rulers) : String :=
  "a:" ++ encList m.core.allRules ++ "/" ++ encList m.block.allRules ++ "/" ++ encList m.inline.allRules
    ++ "/" ++ encList m.inline2.allRules

def encChains (m : Rulers) : String :=
  let (_, c) := m.core.getRules ""
  let (_, b) := m.block.getRules ""
  let (_, i) := m.inline.getRules ""
  let (_, i2) := m.inline2.getRules ""
  "c:" ++ encNats c ++ "/" ++ encNats b ++ "/" ++ encNats i ++ "/" ++ encNats i2

/-- `facade <preset> <op>...` ; ops `en:<names>:<ign>`, `dis:<names>:<ign>`, `active`, `all`, `chains`,
    `alt:<chain>` (block ruler's named chain) -/
def facadeLine (toks : List String) : String :=
  match toks with
  | [] => "bad-request"
  | p :: ops =>
    match findPreset (decStr p) with
    | none => "e:KeyError"
    | some preset =>
      let (m0, r0) := Rulers.fresh.configure preset
      match r0 with
      | .error e => "e:" ++ e.tag
      | .ok _ =>
      let rec go (m : Rulers) (ts : List String) (acc : List String) : List String :=
        match ts with
        | [] => acc.reverse
        | t :: rest =>
          match t.splitOn ":" with
          | ["en", ns, ig] =>
            let (m', o) := m.setMany true (decList ns) (decBool ig)
            go m' rest ((match o with | .ok _ => "u" | .error e => "e:" ++ e.tag) :: acc)
          | ["dis", ns, ig] =>
            let (m', o) := m.setMany false (decList ns) (decBool ig)
            go m' rest ((match o with | .ok _ => "u" | .error e => "e:" ++ e.tag) :: acc)
          | ["active"] => go m rest (encActive m.active :: acc)
          | ["all"] => go m rest (encAllR m :: acc)
          | ["chains"] => go m rest (encChains m :: acc)
          | ["alt", c] => go m rest (("f:" ++ encNats (m.block.getRules (decStr c)).2) :: acc)
          | _ => go m rest ("bad-op" :: acc)
      " ".intercalate (go m0 ops [])

end MdIt.Drv
