import MdIt.Token
import MdIt.Tree
import MdIt.Proto
/-! Token wire format and driver sections `dictrt` and `tree`.

A token list is a flat pre-order sequence of records separated by spaces; a record is 13 fields
joined by `|`: type tag nesting attrs map level nchildren content markup info meta block hidden,
where nchildren is `N` (None) or a count of records that follow as its children. -/
namespace MdIt.Drv
open MdIt.Proto

def encAttrVal : AttrVal → String
  | .s v => "s" ++ encStr v
  | .i v => "i" ++ toString v
  | .f v => "f" ++ encStr v

def decAttrVal (t : String) : AttrVal :=
  match t.toList with
  | 's' :: r => .s (decStr (String.ofList r))
  | 'i' :: r => .i (String.ofList r).toInt!
  | 'f' :: r => .f (decStr (String.ofList r))
  | _ => .s ""

def encAttrs (a : List (String × AttrVal)) : String :=
  if a.isEmpty then "~" else ",".intercalate (a.map (fun p => encStr p.1 ++ "=" ++ encAttrVal p.2))

def decAttrs (t : String) : List (String × AttrVal) :=
  if t == "~" || t == "" then [] else
  (t.splitOn ",").filterMap (fun kv => match kv.splitOn "=" with
    | [k, v] => some (decStr k, decAttrVal v) | _ => none)

def encMeta (a : List (String × String)) : String :=
  if a.isEmpty then "~" else ",".intercalate (a.map (fun p => encStr p.1 ++ "=" ++ encStr p.2))

def decMeta (t : String) : List (String × String) :=
  if t == "~" || t == "" then [] else
  (t.splitOn ",").filterMap (fun kv => match kv.splitOn "=" with
    | [k, v] => some (decStr k, decStr v) | _ => none)

mutual
  partial def encTok : Tok → List String
    | .mk type tag nesting attrs map level children content markup info metaD block hidden =>
      let head := "|".intercalate [encStr type, encStr tag, toString nesting, encAttrs attrs,
        (match map with | none => "N" | some (a, b) => toString a ++ "-" ++ toString b), toString level,
        (match children with | none => "N" | some cs => toString cs.length),
        encStr content, encStr markup, encStr info, encMeta metaD, encBool block, encBool hidden]
      head :: (match children with | none => [] | some cs => encToks cs)
  partial def encToks : List Tok → List String
    | [] => []
    | t :: ts => encTok t ++ encToks ts
end

/-- decode `n` tokens from the record stream -/
partial def decToks : Nat → List String → List Tok × List String
  | 0, rest => ([], rest)
  | n + 1, [] => ([], [])
  | n + 1, r :: rest =>
    match r.splitOn "|" with
    | [ty, tag, nest, attrs, map, level, nch, content, markup, info, metaS, block, hidden] =>
      let (children, rest1) : Option (List Tok) × List String :=
        if nch == "N" then (none, rest) else
          let (cs, r1) := decToks nch.toNat! rest
          (some cs, r1)
      let mp : Option (Nat × Nat) := if map == "N" then none else
        match map.splitOn "-" with
        | [a, b] => some (a.toNat!, b.toNat!)
        | _ => none
      let t := Tok.mk (decStr ty) (decStr tag) nest.toInt! (decAttrs attrs) mp level.toInt! children
        (decStr content) (decStr markup) (decStr info) (decMeta metaS) (decBool block) (decBool hidden)
      let (ts, rest2) := decToks n rest1
      (t :: ts, rest2)
    | _ => ([], [])

def decAllToks (toks : List String) : List Tok :=
  -- top level: decode until the stream is exhausted
  let rec go (fuel : Nat) (rest : List String) (acc : List Tok) : List Tok :=
    match fuel, rest with
    | 0, _ => acc.reverse
    | _, [] => acc.reverse
    | f + 1, _ => let (ts, r) := decToks 1 rest; go f r (ts.reverse ++ acc)
  go toks.length toks []

/-- `dictrt <up> <ch> <records…>` : `from_dict(as_dict(…))` of every top-level token -/
def dictrtLine (toks : List String) : String :=
  match toks with
  | up :: ch :: recs =>
    let ts := decAllToks recs
    let out := ts.map (fun t => match fromDict (asDict (decBool up) (decBool ch) t) with
      | .ok t' => " ".intercalate (encTok t')
      | .error e => "e:" ++ e.tag)
    " ".intercalate out
  | _ => "bad-request"

/-- `tree <records…>` : build, then `ok <flattened records> # <walk types>` or `e:ValueError` -/
def treeLine (recs : List String) : String :=
  let ts := decAllToks recs
  match buildTree ts with
  | .error e => "e:" ++ e.tag
  | .ok f =>
    let kidsOk := (Node.walkList f).all (fun n => match n with
      | .leaf t => (match Node.kidsOfLeaf t with | .ok _ => true | .error _ => false)
      | _ => true)
    if !kidsOk then "e:ValueError" else
    "ok " ++ " ".intercalate (encToks (Node.toTokensList f)) ++ " # " ++
      ",".intercalate ((Node.walkList f).map (fun n => encStr n.tok.type))

end MdIt.Drv
