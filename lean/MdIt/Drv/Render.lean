import MdIt.Render
import MdIt.Drv.Token
/-! Driver: `render <xhtmlOut> <breaks> <langPrefix> <records…>` → rendered HTML (hex) ; the fence
language computed by the real `unescapeAll/strip/split` travels in the record's meta under `@lang`. -/
namespace MdIt.Drv
open MdIt.Proto

def drvExt : Ext := { fenceLang := fun t => (dictGet t.metaD "@lang").map String.toList }

def renderLine (toks : List String) : String :=
  match toks with
  | xh :: br :: lp :: recs =>
    let o : ROpts := ⟨decBool xh, decBool br, decChars lp⟩
    match render drvExt o (decAllToks recs) with
    | .ok s => "ok " ++ encChars s
    | .error e => "e:" ++ e.tag
  | _ => "bad-request"

/-- `alt <records…>` → the token stream after one render (image alt written) -/
def afterRenderLine (recs : List String) : String :=
  " ".intercalate (encToks (afterRender (decAllToks recs)))

end MdIt.Drv
