import MdIt.Str
import MdIt.Verbatim
import MdIt.Proto
/-! Driver sections for string functions: `normalize <s>`, `cols <col> <s>`, `quote <fixed> <bs> <sc> <s>` -/
namespace MdIt.Drv
open MdIt.Proto

def strLine (op : String) (toks : List String) : String :=
  match op, toks with
  | "normalize", [s] => encChars (normalize (decChars s))
  | "cols", [c, s] => toString (colAfter c.toNat! (decChars s))
  | "quote", [f, bs, sc, s] =>
    let q := quoteOffsets (decBool f) bs.toNat! sc.toNat! (decChars s)
    toString q.sCount ++ "," ++ toString q.bsCount ++ "," ++ toString q.tShiftEnd
  | _, _ => "bad-request"

end MdIt.Drv

namespace MdIt.Drv
open MdIt.Proto
/-- `unescape <s>` with the entity callback returning the match unchanged (the tie only sends inputs
    without real character references) -/
def unescapeLine (toks : List String) : String :=
  match toks with
  | [s] => encChars (unescapeAll (fun _ whole => whole) (decChars s))
  | _ => "bad-request"
end MdIt.Drv

namespace MdIt.Drv
open MdIt.Proto
/-- `cutline <tShift> <bs> <indent> <chars>` · `codespan <inner>` · `hr <text>` -/
def verbatimLine (op : String) (toks : List String) : String :=
  match op, toks with
  | "cutline", [ts, bs, ind, s] => encChars (cutLine (decChars s) ts.toNat! bs.toNat! ind.toNat!)
  | "codespan", [s] => encChars (codeSpanContent (decChars s))
  | "hr", [s] => (match hrMarkup (decChars s) with | some m => "s" ++ encChars m | none => "N")
  | _, _ => "bad-request"
end MdIt.Drv
