import MdIt.Url
import MdIt.Proto
/-! Driver: `encode <s>` `validate <s>` `scheme <s>` -/
namespace MdIt.Drv
open MdIt.Proto

def urlLine (op : String) (toks : List String) : String :=
  match op, toks with
  | "encode", [s] => encChars (encode (decChars s))
  | "validate", [s] => encBool (validateLink (decChars s))
  | "scheme", [s] => (match browserScheme (decChars s) with | some x => "s" ++ encChars x | none => "N")
  | _, _ => "bad-request"

end MdIt.Drv
