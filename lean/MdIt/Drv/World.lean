import MdIt.World
import MdIt.Drv.Ruler
/-! Driver section for the multi-instance model: `world <op>…`
ops: `new:<preset>:<k=v;…>` `set:<i>:<route>:<k>:<v>` `en:<i>:<names>:<ign>` `dis:<i>:<names>:<ign>`
`rr:<i>:<name>:<fn>` `parse:<i>` `q:<i>`.  Values: `N` | `b0`/`b1` | `n<int>` | `s<hex>` | `l<list>`. -/
namespace MdIt.Drv
open MdIt.Proto

def decVal (t : String) : OptVal :=
  if t == "N" then .none
  else if t == "b1" then .b true
  else if t == "b0" then .b false
  else match t.toList with
    | 'n' :: rest => .n (String.ofList rest).toInt!
    | 's' :: rest => .s (decStr (String.ofList rest))
    | 'l' :: rest => .l (decList (String.ofList rest))
    | _ => .none

def encVal : OptVal → String
  | .none => "N"
  | .b true => "b1"
  | .b false => "b0"
  | .n v => "n" ++ toString v
  | .s v => "s" ++ encStr v
  | .l v => "l" ++ encList v

def decKVs (t : String) : List (String × OptVal) :=
  if t == "~" || t == "" then [] else
  (t.splitOn ";").filterMap (fun kv => match kv.splitOn "=" with
    | [k, v] => some (decStr k, decVal v)
    | _ => none)

def insertSortedS {β} (p : String × β) : List (String × β) → List (String × β)
  | [] => [p]
  | q :: qs => if p.1 < q.1 then p :: q :: qs else q :: insertSortedS p qs

def sortKV {β} (l : List (String × β)) : List (String × β) := l.foldl (fun acc p => insertSortedS p acc) []

def encInst (x : Inst) : String :=
  encActive x.rulers.active ++ "|" ++
  ";".intercalate ((sortKV x.options).map (fun p => encStr p.1 ++ "=" ++ encVal p.2)) ++ "|" ++
  encList ((sortKV x.renderRules).map (·.1))

def decRoute : String → Route
  | "ctor" => .ctor | "item" => .item | _ => .attr

def worldLine (toks : List String) : String :=
  let P : Config → String → Env → Unit × Env := fun _ _ e => ((), e)
  let rec go (w : World) (ts : List String) (acc : List String) : List String :=
    match ts with
    | [] => acc.reverse
    | t :: rest =>
      match t.splitOn ":" with
      | ["new", p, kvs] =>
        (match construct (decStr p) (decKVs kvs) with
         | .ok _ => go (w.step P (.construct (decStr p) (decKVs kvs))).1 rest ("u" :: acc)
         | .error e => go w rest (("e:" ++ e.tag) :: acc))
      | ["set", i, r, k, v] => go (w.step P (.setOpt i.toNat! (decRoute r) (decStr k) (decVal v))).1 rest ("u" :: acc)
      | ["en", i, ns, ig] =>
        let o := match w.insts[i.toNat!]? with
          | some x => (match (x.rulers.setMany true (decList ns) (decBool ig)).2 with | .ok _ => "u" | .error e => "e:" ++ e.tag)
          | none => "bad-index"
        go (w.step P (.enable i.toNat! (decList ns) (decBool ig))).1 rest (o :: acc)
      | ["dis", i, ns, ig] =>
        let o := match w.insts[i.toNat!]? with
          | some x => (match (x.rulers.setMany false (decList ns) (decBool ig)).2 with | .ok _ => "u" | .error e => "e:" ++ e.tag)
          | none => "bad-index"
        go (w.step P (.disable i.toNat! (decList ns) (decBool ig))).1 rest (o :: acc)
      | ["rr", i, n, f] => go (w.step P (.addRenderRule i.toNat! (decStr n) f.toNat!)).1 rest ("u" :: acc)
      | ["parse", i] => go (w.step P (.parse i.toNat! "" none)).1 rest ("u" :: acc)
      | ["q", i] => go w rest ((match w.insts[i.toNat!]? with | some x => encInst x | none => "bad-index") :: acc)
      | _ => go w rest ("bad-op" :: acc)
  " ".intercalate (go ⟨[], []⟩ toks [])

end MdIt.Drv
