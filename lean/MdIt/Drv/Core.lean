import MdIt.Smart
import MdIt.Drv.Token
import MdIt.Generated.Tables
/-! Driver: `textjoin <records…>`, `smart <q0> <q1> <q2> <q3> <records…>` (children of one inline token) -/
namespace MdIt.Drv
open MdIt.Proto

def drvCls : QCls :=
  { isPunct := fun c => Gen.mdAsciiPunct.contains c || Gen.unicodePunctRanges.any (fun r => r.1 ≤ c && c ≤ r.2)
    isWhite := fun c => (0x2000 ≤ c && c ≤ 0x200A) || Gen.mdWhitespace.contains c }

def textJoinLine (recs : List String) : String :=
  " ".intercalate (encToks (joinToks [] (decAllToks recs)))

def smartLine (toks : List String) : String :=
  match toks with
  | a :: b :: c :: d :: recs =>
    let q : Quotes := ⟨decChars a, decChars b, decChars c, decChars d⟩
    " ".intercalate (encToks (smartInline drvCls q (decAllToks recs)))
  | _ => "bad-request"

end MdIt.Drv
