import MdIt.InlineLeaf
import MdIt.InlineLink
import MdIt.InlineImage
import MdIt.Drv.Inline
/-! Driver: `inlinex <maxNesting> <rules> <fragjoin> <textjoin> <html> <entities> <reformat> <normtext> <src>` — as `inline`, with the
rules `a` (autolink) `h` (html_inline) `y` (entity); the three tables are `key=value,…` pairs (`~` = empty) of what the harness
observed on the implementation's side for the external functions (`html.entities.html5`, `mdurl` parse/format, `normalizeLinkText`).
`rx <name> <m|s> <str>`: the translated regular expressions on their own (`m`: length of the match at 0 or `N`; `s`: search). -/
namespace MdIt.Drv
open MdIt.Proto

def decPairs (t : String) : List (List Char × List Char) :=
  if t == "~" || t == "" then [] else
  (t.splitOn ",").filterMap (fun kv => match kv.splitOn "=" with
    | [k, v] => some (decChars k, decChars v) | _ => none)

def lookupC (tbl : List (List Char × List Char)) (k : List Char) : Option (List Char) :=
  (tbl.find? (·.1 == k)).map (·.2)

/-- a lookup miss is made visible in the output (never defaulted) -/
def missMark : List Char := "￿MISS".toList

def mkExt (html : Bool) (ents refm ntxt : List (List Char × List Char)) : IExt :=
  { entity := lookupC ents
    reformat := fun u => (lookupC refm u).getD missMark
    normText := fun u => (lookupC ntxt u).getD missMark
    html := html }

def ruleOfCharX (ext : IExt) : Char → Option IRule
  | 'a' => some (ruleAutolink ext)
  | 'h' => some (ruleHtmlInline ext)
  | 'y' => some (ruleEntity ext)
  | c => ruleOfChar c

def inlineXLine (toks : List String) : String :=
  match toks with
  | [mn, rs, fj, tj, html, ents, refm, ntxt, src] =>
    let ext := mkExt (decBool html) (decPairs ents) (decPairs refm) (decPairs ntxt)
    let rules := rs.toList.filterMap (ruleOfCharX ext)
    let post := (if rs.toList.contains 'm' || rs.toList.contains 's' then [balancePairs] else [])
      ++ (if rs.toList.contains 's' then [strikePost] else []) ++ (if rs.toList.contains 'm' then [emphasisPost] else [])
    match inlineParse rules post (decBool fj) mn.toInt! (decChars src) with
    | .error e => "e:" ++ e.tag
    | .ok ts =>
      let ts' := if decBool tj then joinToks [] ts else ts
      "ok " ++ " ".intercalate (encToks ts')
  | _ => "bad-request"

def rxByName : String → Option Rx
  | "digitalRe" => some Gen.digitalRe
  | "namedRe" => some Gen.namedRe
  | "emailRe" => some Gen.emailRe
  | "autolinkRe" => some Gen.autolinkRe
  | "htmlTagRe" => some Gen.htmlTagRe
  | "htmlOpenCloseTagRe" => some Gen.htmlOpenCloseTagRe
  | "linkOpenRe" => some Gen.linkOpenRe
  | "linkCloseRe" => some Gen.linkCloseRe
  | "tableHeaderRe" => some Gen.tableHeaderRe
  | n =>
    if n.startsWith "htmlSeqStart" then (Gen.htmlSequences[(n.drop 12).toNat!]?).map (·.1)
    else if n.startsWith "htmlSeqEnd" then (Gen.htmlSequences[(n.drop 10).toNat!]?).map (·.2.1)
    else none

def rxLine (toks : List String) : String :=
  match toks with
  | [name, mode, s] =>
    match rxByName name with
    | none => "bad-request"
    | some r =>
      if mode == "m" then (match r.matchLen (decChars s) with | some n => toString n | none => "N")
      else encBool (r.search (decChars s))
  | _ => "bad-request"

end MdIt.Drv

namespace MdIt.Drv
open MdIt.Proto

/-- `inlinel <maxNesting> <rules> <fragjoin> <textjoin> <html> <entities> <reformat> <normtext> <hasrefs> <storelabels> <refhref>
<reftitle> <normref> <src>` — as `inlinex`, with the rule `l` (link); references are keyed by the normalised label -/
def inlineLLine (toks : List String) : String :=
  match toks with
  | [mn, rs, fj, tj, html, ents, refm, ntxt, hasRefs, storeLabels, refHref, refTitle, normRef, src] =>
    let ext := mkExt (decBool html) (decPairs ents) (decPairs refm) (decPairs ntxt)
    let hrefs := decPairs refHref
    let titles := decPairs refTitle
    let nrefs := decPairs normRef
    let lx : LExt := { hasRefs := decBool hasRefs, storeLabels := decBool storeLabels
                       normRef := fun l => (lookupC nrefs l).getD missMark
                       refs := fun l => match lookupC hrefs l with
                         | some h => some (h, (lookupC titles l).getD [])
                         | none => none }
    let has := fun (c : Char) => rs.toList.contains c
    let m := mn.toInt!
    let rules := if has 't' then
        linkChain drvCls ext lx (has 'n') (has 'e') (has 'b') (has 's') (has 'm') (has 'l') (has 'a') (has 'h') (has 'y') m (m.toNat + 2)
      else (linkChain drvCls ext lx (has 'n') (has 'e') (has 'b') (has 's') (has 'm') (has 'l') (has 'a') (has 'h') (has 'y') m (m.toNat + 2)).drop 1
    match inlineParse rules (linkPost (has 's') (has 'm')) (decBool fj) m (decChars src) with
    | .error e => "e:" ++ e.tag
    | .ok ts =>
      let ts' := if decBool tj then joinToks [] ts else ts
      "ok " ++ " ".intercalate (encToks ts')
  | _ => "bad-request"

end MdIt.Drv

namespace MdIt.Drv
open MdIt.Proto

/-- `inlinei …` — the arguments of `inlinel`, with the rule `i` (image): eleven of the twelve inline rules.  The budget covers
    `maxNesting + 2` re-entries for every image nesting the source has room for. -/
def inlineILine (toks : List String) : String :=
  match toks with
  | [mn, rs, fj, tj, html, ents, refm, ntxt, hasRefs, storeLabels, refHref, refTitle, normRef, src] =>
    let ext := mkExt (decBool html) (decPairs ents) (decPairs refm) (decPairs ntxt)
    let hrefs := decPairs refHref
    let titles := decPairs refTitle
    let nrefs := decPairs normRef
    let lx : LExt := { hasRefs := decBool hasRefs, storeLabels := decBool storeLabels
                       normRef := fun l => (lookupC nrefs l).getD missMark
                       refs := fun l => match lookupC hrefs l with
                         | some h => some (h, (lookupC titles l).getD [])
                         | none => none }
    let has := fun (c : Char) => rs.toList.contains c
    let m := mn.toInt!
    let cs := decChars src
    let rules := imgChain drvCls ext lx (has 't') (has 'n') (has 'e') (has 'b') (has 's') (has 'm') (has 'l') (has 'i') (has 'a') (has 'h')
      (has 'y') (decBool fj) m ((m.toNat + 2) * (cs.length / 4 + 2))
    match inlineParse rules (imgPost (has 's') (has 'm')) (decBool fj) m cs with
    | .error e => "e:" ++ e.tag
    | .ok ts =>
      let ts' := if decBool tj then joinToks [] ts else ts
      "ok " ++ " ".intercalate (encToks ts')
  | _ => "bad-request"

end MdIt.Drv
