import MdIt.Pipeline
import MdIt.Drv.InlineX
import MdIt.Drv.Mini
import MdIt.Drv.Render
/-! Driver: `fullparse <blockbits> <maxNesting> <inlinerules> <fragjoin> <inlineOn> <textjoin> <entities> <reformat> <normtext> <hasrefs>
<storelabels> <refhref> <reftitle> <normref> <src>` — `MarkdownIt.parse` end to end for the modelled sub-language: block bits as for
`mblock` (`code fence hr heading html_block lheading html`), inline rule letters as for `inlinei`; full token records, children included. -/
namespace MdIt.Drv
open MdIt.Proto

def fullParseLine (toks : List String) : String :=
  match toks with
  | [bits, mn, rs, fj, inl, tj, ents, refm, ntxt, hasRefs, storeLabels, refHref, refTitle, normRef, src] =>
    let b := bits.toList.map (· == '1')
    let bc : MCfg := { code := b.getD 0 false, fence := b.getD 1 false, hr := b.getD 2 false, heading := b.getD 3 false,
                       htmlBlock := b.getD 4 false, lheading := b.getD 5 false, html := b.getD 6 false }
    let ext := mkExt bc.html (decPairs ents) (decPairs refm) (decPairs ntxt)
    let hrefs := decPairs refHref
    let titles := decPairs refTitle
    let nrefs := decPairs normRef
    let lx : LExt := { hasRefs := decBool hasRefs, storeLabels := decBool storeLabels
                       normRef := fun l => (lookupC nrefs l).getD missMark
                       refs := fun l => match lookupC hrefs l with
                         | some h => some (h, (lookupC titles l).getD [])
                         | none => none }
    let has := fun (c : Char) => rs.toList.contains c
    let ic : ICfg := { text := has 't', newline := has 'n', escape := has 'e', backticks := has 'b', strike := has 's', emphasis := has 'm',
                       link := has 'l', image := has 'i', autolink := has 'a', htmlInline := has 'h', entity := has 'y',
                       fragJoin := decBool fj, inlineOn := decBool inl, textJoinOn := decBool tj }
    let m := mn.toInt!
    let cs := decChars src
    match fullParse drvCls ext lx bc ic Gen.pyWhitespace m ((m.toNat + 2) * (cs.length / 4 + 2)) cs with
    | .error e => "e:" ++ e.tag
    | .ok ts => "ok " ++ " ".intercalate (encToks ts)
  | _ => "bad-request"

def encRefs (rs : List (List Char × List Char × List Char)) : String :=
  if rs.isEmpty then "~" else ",".intercalate (rs.map (fun r => encChars r.1 ++ "=" ++ encChars r.2.1 ++ "=" ++ encChars r.2.2))

/-- `fullparser <blockbits><reference><inline_definitions> …` — the arguments of `fullparse`, with two more block bits; the response
    carries the env entries after the tokens: `ok <tokens…> #refs <label=href=title,…> #dups <…>` -/
def fullParseRLine (toks : List String) : String :=
  match toks with
  | [bits, mn, rs, fj, inl, tj, ents, refm, ntxt, hasRefs, storeLabels, refHref, refTitle, normRef, src] =>
    let b := bits.toList.map (· == '1')
    let rc : RCfg := { code := b.getD 0 false, fence := b.getD 1 false, hr := b.getD 2 false, heading := b.getD 3 false,
                       htmlBlock := b.getD 4 false, lheading := b.getD 5 false, html := b.getD 6 false,
                       reference := b.getD 7 false, inlineDefs := b.getD 8 false }
    let ext := mkExt rc.html (decPairs ents) (decPairs refm) (decPairs ntxt)
    let hrefs := decPairs refHref
    let titles := decPairs refTitle
    let nrefs := decPairs normRef
    let lx : LExt := { hasRefs := decBool hasRefs, storeLabels := decBool storeLabels
                       normRef := fun l => (lookupC nrefs l).getD missMark
                       refs := fun l => match lookupC hrefs l with
                         | some h => some (h, (lookupC titles l).getD [])
                         | none => none }
    let has := fun (c : Char) => rs.toList.contains c
    let ic : ICfg := { text := has 't', newline := has 'n', escape := has 'e', backticks := has 'b', strike := has 's', emphasis := has 'm',
                       link := has 'l', image := has 'i', autolink := has 'a', htmlInline := has 'h', entity := has 'y',
                       fragJoin := decBool fj, inlineOn := decBool inl, textJoinOn := decBool tj }
    let m := mn.toInt!
    let cs := decChars src
    match fullParseR drvCls ext lx rc ic Gen.pyWhitespace m ((m.toNat + 2) * (cs.length / 4 + 2)) cs with
    | .error e => "e:" ++ e.tag
    | .ok (ts, refs, dups) => "ok " ++ " ".intercalate (encToks ts) ++ " #refs " ++ encRefs refs ++ " #dups " ++ encRefs dups
  | _ => "bad-request"

/-- `fullparset <blockbits><reference><inline_definitions><table> …` — the arguments of `fullparser` with one more block bit: all eleven
    block rules (`fullParseT`) -/
def fullParseTLine (toks : List String) : String :=
  match toks with
  | [bits, mn, rs, fj, inl, tj, ents, refm, ntxt, hasRefs, storeLabels, refHref, refTitle, normRef, src] =>
    let b := bits.toList.map (· == '1')
    let tc : TCfg := { code := b.getD 0 false, fence := b.getD 1 false, hr := b.getD 2 false, heading := b.getD 3 false,
                       htmlBlock := b.getD 4 false, lheading := b.getD 5 false, html := b.getD 6 false,
                       reference := b.getD 7 false, inlineDefs := b.getD 8 false, table := b.getD 9 false }
    let ext := mkExt tc.html (decPairs ents) (decPairs refm) (decPairs ntxt)
    let hrefs := decPairs refHref
    let titles := decPairs refTitle
    let nrefs := decPairs normRef
    let lx : LExt := { hasRefs := decBool hasRefs, storeLabels := decBool storeLabels
                       normRef := fun l => (lookupC nrefs l).getD missMark
                       refs := fun l => match lookupC hrefs l with
                         | some h => some (h, (lookupC titles l).getD [])
                         | none => none }
    let has := fun (c : Char) => rs.toList.contains c
    let ic : ICfg := { text := has 't', newline := has 'n', escape := has 'e', backticks := has 'b', strike := has 's', emphasis := has 'm',
                       link := has 'l', image := has 'i', autolink := has 'a', htmlInline := has 'h', entity := has 'y',
                       fragJoin := decBool fj, inlineOn := decBool inl, textJoinOn := decBool tj }
    let m := mn.toInt!
    let cs := decChars src
    match fullParseT drvCls ext lx tc ic Gen.pyWhitespace m ((m.toNat + 2) * (cs.length / 4 + 2)) cs with
    | .error e => "e:" ++ e.tag
    | .ok (ts, refs, dups) => "ok " ++ " ".intercalate (encToks ts) ++ " #refs " ++ encRefs refs ++ " #dups " ++ encRefs dups
  | _ => "bad-request"

/-- the fence renderer's language name: first word of `unescapeAll(info).strip()` -/
def fenceLangOf (ext : IExt) (ws : List Nat) (t : Tok) : Option (List Char) :=
  let i := pyStrip ws (unescapeAllX ext t.info.toList)
  if i.isEmpty then none else some (i.takeWhile (fun c => !ws.contains c.toNat))

/-- `fullrender <xhtmlOut> <breaks> <langPrefix> <fullparser arguments…>` — `MarkdownIt.render` end to end: the HTML of the whole
    pipeline (parse as `fullparser`, then the renderer model) -/
def fullRenderLine (toks : List String) : String :=
  match toks with
  | [xh, brk, lp, bits, mn, rs, fj, inl, tj, ents, refm, ntxt, hasRefs, storeLabels, refHref, refTitle, normRef, src] =>
    let b := bits.toList.map (· == '1')
    let rc : RCfg := { code := b.getD 0 false, fence := b.getD 1 false, hr := b.getD 2 false, heading := b.getD 3 false,
                       htmlBlock := b.getD 4 false, lheading := b.getD 5 false, html := b.getD 6 false,
                       reference := b.getD 7 false, inlineDefs := b.getD 8 false }
    let ext := mkExt rc.html (decPairs ents) (decPairs refm) (decPairs ntxt)
    let hrefs := decPairs refHref
    let titles := decPairs refTitle
    let nrefs := decPairs normRef
    let lx : LExt := { hasRefs := decBool hasRefs, storeLabels := decBool storeLabels
                       normRef := fun l => (lookupC nrefs l).getD missMark
                       refs := fun l => match lookupC hrefs l with
                         | some h => some (h, (lookupC titles l).getD [])
                         | none => none }
    let has := fun (c : Char) => rs.toList.contains c
    let ic : ICfg := { text := has 't', newline := has 'n', escape := has 'e', backticks := has 'b', strike := has 's', emphasis := has 'm',
                       link := has 'l', image := has 'i', autolink := has 'a', htmlInline := has 'h', entity := has 'y',
                       fragJoin := decBool fj, inlineOn := decBool inl, textJoinOn := decBool tj }
    let m := mn.toInt!
    let cs := decChars src
    match fullParseR drvCls ext lx rc ic Gen.pyWhitespace m ((m.toNat + 2) * (cs.length / 4 + 2)) cs with
    | .error e => "e:" ++ e.tag
    | .ok (ts, _, _) =>
      match render { fenceLang := fenceLangOf ext Gen.pyWhitespace } ⟨decBool xh, decBool brk, decChars lp⟩ ts with
      | .ok h => "ok " ++ encChars h
      | .error e => "e:render:" ++ e.tag
  | _ => "bad-request"

/-- `parseinline <arguments of inlinei>` — `MarkdownIt.parseInline`: the wrapper token and its children (`parseInlineM`) -/
def parseInlineLine (toks : List String) : String :=
  match toks with
  | [mn, rs, fj, tj, html, ents, refm, ntxt, hasRefs, storeLabels, refHref, refTitle, normRef, src] =>
    let ext := mkExt (decBool html) (decPairs ents) (decPairs refm) (decPairs ntxt)
    let hrefs := decPairs refHref
    let titles := decPairs refTitle
    let nrefs := decPairs normRef
    let lx : LExt := { hasRefs := decBool hasRefs, storeLabels := decBool storeLabels
                       normRef := fun l => (lookupC nrefs l).getD missMark
                       refs := fun l => match lookupC hrefs l with
                         | some h => some (h, (lookupC titles l).getD [])
                         | none => none }
    let has := fun (c : Char) => rs.toList.contains c
    let ic : ICfg := { text := has 't', newline := has 'n', escape := has 'e', backticks := has 'b', strike := has 's', emphasis := has 'm',
                       link := has 'l', image := has 'i', autolink := has 'a', htmlInline := has 'h', entity := has 'y',
                       fragJoin := decBool fj, inlineOn := true, textJoinOn := decBool tj }
    let m := mn.toInt!
    let cs := decChars src
    match parseInlineM drvCls ext lx ic m ((m.toNat + 2) * (cs.length / 4 + 2)) cs with
    | .error e => "e:" ++ e.tag
    | .ok ts => "ok " ++ " ".intercalate (encToks ts)
  | _ => "bad-request"

end MdIt.Drv
