import MdIt.Conc
import MdIt.Proto
/-! Driver section for the interleaving model:
`conc <rules> <work> <sched>` with rules `name/enabled/fn/alts;…`, work `chains|chains`, sched `i,i,i`.
Response: `got:<t0>|<t1>… trace:<c0>><c1>…` — the responses of each thread and the distinct
consecutive values of the shared cache. -/
namespace MdIt.Drv
open MdIt.Proto

def parseRule (t : String) : Option Rule :=
  match t.splitOn "/" with
  | [n, e, f, a] => some ⟨decStr n, decBool e, f.toNat!, decList a⟩
  | _ => none

def insertSorted (p : String × List Nat) : List (String × List Nat) → List (String × List Nat)
  | [] => [p]
  | q :: qs => if p.1 < q.1 then p :: q :: qs else q :: insertSorted p qs

def canonCache : Option Cache → String
  | none => "N"
  | some c =>
    let dedup := c.foldl (fun acc p => if acc.any (·.1 == p.1) then acc else acc ++ [p]) []
    let sorted := dedup.foldl (fun acc p => insertSorted p acc) []
    "D" ++ ";".intercalate (sorted.map (fun p => encStr p.1 ++ "=" ++ encNats p.2))

def encGot (g : List (String × List Nat)) : String :=
  if g.isEmpty then "~" else ";".intercalate (g.map (fun p => encStr p.1 ++ "=" ++ encNats p.2))

def concLine (toks : List String) : String :=
  match toks with
  | [rs, ws, ss] =>
    let rules := ((if rs == "~" then [] else rs.splitOn ";").filterMap parseRule)
    let work := (if ws == "~" then [] else ws.splitOn "|").map decList
    let sched := decNats ss
    let s0 : Sys := ⟨rules, none, work.map Thread.start⟩
    let (sEnd, trace) := sched.foldl (fun (acc : Sys × List String) i =>
        let s' := acc.1.step i
        let c := canonCache s'.cache
        (s', if acc.2.getLast? == some c then acc.2 else acc.2 ++ [c])) (s0, [canonCache s0.cache])
    "got:" ++ "|".intercalate (sEnd.threads.map (fun t => encGot t.got)) ++ " trace:" ++ ">".intercalate trace
  | _ => "bad-request"

end MdIt.Drv
