import MdIt.BlockRef
/-!
# MdIt.BlockTable — the `table` block rule (`rules_block/table.py`): GFM tables

The rule looks at the *second* line first (the delimiter row: only `|`, `-`, `:` and blanks, at least two characters, not `-` followed
by a blank), splits it at `|` and checks every column against the translated `headerLineRe`; then the first line (stripped, must hold a
`|`, must not be an indented code line) is cut into cells by `escapedSplit` and must have as many cells as the delimiter row has columns.
In silent mode (as a terminator of `paragraph` and `reference`) it answers there, before touching the state.  Otherwise it pushes
`table_open thead_open tr_open (th_open inline th_close)* tr_close thead_close`, then scans body rows until a line is outdented, ends the
table by the terminator chain `getRules("blockquote")`, is blank or is an indented code line; each row gives exactly as many cells as the
header (missing ones empty, surplus ones dropped).  The maps of `table_open` / `tbody_open` are filled in at the end.
-/
namespace MdIt

def isTblCh (c : Char) : Bool := c == '|' || c == '-' || c == ':'

/-- Python `str.split(sep)` for a one-character separator -/
def splitOnCh (sep : Char) : List Char → List Char → List (List Char)
  | [], cur => [cur]
  | c :: rest, cur => if c == sep then cur :: splitOnCh sep rest [] else splitOnCh sep rest (cur ++ [c])

/-- `escapedSplit`: cells of a row; `\|` is a pipe inside the cell (the backslash is dropped), anything else is kept as written.
    `cell` = `current + string[lastPos:pos]`; `esc` = `isEscaped`. -/
def escSplitGo : List Char → Bool → List Char → List (List Char)
  | [], _, cell => [cell]
  | c :: rest, esc, cell =>
    if c == '|' then
      if !esc then cell :: escSplitGo rest false []
      else escSplitGo rest false (cell.dropLast ++ ['|'])
    else escSplitGo rest (c == '\\') (cell ++ [c])

/-- the two `pop`s: an empty first cell, then an empty last cell -/
def popEnds (cols : List (List Char)) : List (List Char) :=
  let c1 := match cols with
    | [] :: rest => rest
    | _ => cols
  match c1.getLast? with
  | some [] => c1.dropLast
  | _ => c1

/-- the shape test of the delimiter row: `/^[-:|][-:|\s]*$/` with at least two characters, and not `-` + blank -/
def delimRowOk (body : List Char) : Bool :=
  match body with
  | [] => false
  | [_] => false
  | c0 :: c1 :: rest =>
    isTblCh c0 && (isTblCh c1 || isSpaceTab c1) && !(c0 == '-' && isSpaceTab c1) && rest.all (fun c => isTblCh c || isSpaceTab c)

def alignOf (t : List Char) : String :=
  if t.getLast? == some ':' then (if t.head? == some ':' then "center" else "right")
  else if t.head? == some ':' then "left" else ""

/-- the `for i in range(len(columns))` loop over the delimiter row; `none` = "return False" -/
def alignsGo (ws : List Nat) (n : Nat) : Nat → List (List Char) → Option (List String)
  | _, [] => some []
  | i, c :: rest =>
    let t := pyStrip ws c
    if t.isEmpty then
      if i == 0 || i + 1 == n then alignsGo ws n (i + 1) rest else none
    else if !Gen.tableHeaderRe.search t then none
    else (alignsGo ws n (i + 1) rest).map (alignOf t :: ·)

/-- `state.push` plus the fields the table rule assigns afterwards -/
def BState.pushT (s : BState) (type tag : String) (nesting : Int) (attrs : List (String × AttrVal)) (map : Option (Nat × Nat))
    (children : Option (List Tok)) (content : String) : BState :=
  let lvl := if nesting < 0 then s.level - 1 else s.level
  let t : Tok := .mk type tag nesting attrs map lvl children content "" "" [] true false
  { s with tokens := s.tokens ++ [t], level := if nesting > 0 then lvl + 1 else lvl }

/-- the cells of one row: one `open inline close` triple per column of the header (`aligns` has one entry per column) -/
def pushCells (ws : List Nat) (opn cls tag : String) (line : Nat) (cols : List (List Char)) : List String → Nat → BState → BState
  | [], _, s => s
  | a :: as, i, s =>
    let attrs := if a.isEmpty then [] else [("style", AttrVal.s ("text-align:" ++ a))]
    let s1 := s.pushT opn tag 1 attrs none none ""
    let content := match cols[i]? with
      | some c => pyStrip ws c
      | none => []                                  -- `except IndexError: token.content = ""`
    let s2 := s1.pushT "inline" "" 0 [] (some (line, line + 1)) (some []) (String.ofList content)
    let s3 := s2.pushT cls tag (-1) [] none none ""
    pushCells ws opn cls tag line cols as (i + 1) s3

/-- what the rule decides before it touches the state: the alignments and the header cells; `none` = "return False" -/
def tableHead (codeOn : Bool) (ws : List Nat) (s : BState) (startLine endLine : Nat) : Except PyErr (Option (List String × List (List Char))) :=
  if startLine + 2 > endLine then .ok none else
  match getL s (startLine + 1) with
  | .error e => .error e
  | .ok l1 =>
    if l1.sCount < s.blkIndent then .ok none else
    if isCodeLine codeOn s l1 then .ok none else
    if !delimRowOk l1.body then .ok none else
    let columns := splitOnCh '|' l1.body []
    match alignsGo ws columns.length 0 columns with
    | none => .ok none
    | some aligns =>
      match getL s startLine with
      | .error e => .error e
      | .ok l0 =>
        let lineText := pyStrip ws l0.body
        if !lineText.contains '|' then .ok none else
        if isCodeLine codeOn s l0 then .ok none else
        let cols := popEnds (escSplitGo lineText false [])
        if cols.length == 0 || cols.length != aligns.length then .ok none
        else .ok (some (aligns, cols))

/-- the `while nextLine < endLine` loop over the body rows -/
def tableBody (codeOn : Bool) (terms : List BRule) (ws : List Nat) (aligns : List String) (startLine endLine : Nat) :
    Nat → Nat → BState → Except PyErr (Nat × BState)
  | 0, _, _ => .error (.noProgress "table")
  | fuel + 1, next, s =>
    if next < endLine then
      match getL s next with
      | .error e => .error e
      | .ok l =>
        if l.sCount < s.blkIndent then .ok (next, s) else
        match runTerminators terms s next endLine with
        | .error e => .error e
        | .ok (true, s1) => .ok (next, s1)
        | .ok (false, s1) =>
          match getL s1 next with
          | .error e => .error e
          | .ok l1 =>
            let lineText := pyStrip ws l1.body
            if lineText.isEmpty then .ok (next, s1)
            else if isCodeLine codeOn s1 l1 then .ok (next, s1)
            else
              let cols := popEnds (escSplitGo lineText false [])
              let s2 := if next == startLine + 2 then s1.pushT "tbody_open" "tbody" 1 [] (some (startLine + 2, 0)) none "" else s1
              let s3 := s2.pushT "tr_open" "tr" 1 [] (some (next, next + 1)) none ""
              let s4 := pushCells ws "td_open" "td_close" "td" next cols aligns 0 s3
              let s5 := s4.pushT "tr_close" "tr" (-1) [] none none ""
              tableBody codeOn terms ws aligns startLine endLine fuel (next + 1) s5
    else .ok (next, s)

/-- `table(state, startLine, endLine, silent)`; `terms` is `getRules("blockquote")` -/
def ruleTable (codeOn : Bool) (terms : List BRule) (ws : List Nat) : BRule := fun s startLine endLine silent =>
  match tableHead codeOn ws s startLine endLine with
  | .error e => .error e
  | .ok none => .ok (false, s)
  | .ok (some (aligns, cols)) =>
    if silent then .ok (true, s) else
    let old := s.parentType
    let ntok := s.tokens.length
    let s1 := ({ s with parentType := "table" }).pushT "table_open" "table" 1 [] (some (startLine, 0)) none ""
    let s2 := s1.pushT "thead_open" "thead" 1 [] (some (startLine, startLine + 1)) none ""
    let s3 := s2.pushT "tr_open" "tr" 1 [] (some (startLine, startLine + 1)) none ""
    let s4 := pushCells ws "th_open" "th_close" "th" startLine cols aligns 0 s3
    let s5 := s4.pushT "tr_close" "tr" (-1) [] none none ""
    let s6 := s5.pushT "thead_close" "thead" (-1) [] none none ""
    let tbodyIdx := s6.tokens.length
    match tableBody codeOn terms ws aligns startLine endLine (endLine - startLine + 1) (startLine + 2) s6 with
    | .error e => .error e
    | .ok (next, s7) =>
      let hasBody := decide (next > startLine + 2)
      let s8 := if hasBody then s7.pushT "tbody_close" "tbody" (-1) [] none none "" else s7
      let s9 := s8.pushT "table_close" "table" (-1) [] none none ""
      let toks1 := s9.tokens.modify ntok (fun t => t.setMap (some (startLine, next)))
      let toks2 := if hasBody then toks1.modify tbodyIdx (fun t => t.setMap (some (startLine + 2, next))) else toks1
      .ok (true, { s9 with tokens := toks2, parentType := old, line := next })

/-! ### chains: all eleven block rules -/

structure TCfg extends RCfg where
  table : Bool
deriving Repr, DecidableEq

/-- `getRules("paragraph")` = `getRules("reference")`: table, fence, blockquote, hr, list, html_block, heading.  (`getRules("blockquote")`,
    which the table rule itself and the block quote use, is the same list without `table`: `mTerminators`.)  A terminator is called in
    silent mode only, where the table rule answers before it looks at its own chain. -/
def tParaTerms (c : TCfg) (ws : List Nat) (maxNesting : Int) : List BRule :=
  (if c.table then [ruleTable c.code [] ws] else []) ++ mTerminators c.toMCfg ws maxNesting

/-- `getRules("")` with a depth budget: table, code, fence, blockquote, hr, list, reference, html_block, heading, lheading, paragraph —
    all eleven block rules of the library -/
def tChain (ext : IExt) (lx : LExt) (c : TCfg) (ws : List Nat) (maxNesting : Int) : Nat → List BRule
  | 0 => []
  | d + 1 =>
    (if c.table then [ruleTable c.code (mTerminators c.toMCfg ws maxNesting) ws] else [])
      ++ (if c.code then [ruleCode c.code] else []) ++ (if c.fence then [ruleFence c.code] else [])
      ++ [ruleBlockquote c.code (mTerminators c.toMCfg ws maxNesting) (tChain ext lx c ws maxNesting d) maxNesting]
      ++ (if c.hr then [ruleHr c.code] else [])
      ++ [ruleList c.code (mListTerms c.toMCfg maxNesting) (tChain ext lx c ws maxNesting d) maxNesting]
      ++ (if c.reference then [ruleReference ext lx c.inlineDefs c.code (tParaTerms c ws maxNesting) ws] else [])
      ++ (if c.htmlBlock then [ruleHtmlBlock c.code c.html] else [])
      ++ (if c.heading then [ruleHeading c.code ws] else [])
      ++ (if c.lheading then [ruleLheading c.code (tParaTerms c ws maxNesting) ws] else [])
      ++ [ruleParagraph (tParaTerms c ws maxNesting) ws]

/-- `normalize` + `block` with every block rule: the final block state -/
def tParse (ext : IExt) (lx : LExt) (c : TCfg) (ws : List Nat) (maxNesting : Int) (src : List Char) : Except PyErr BState :=
  let s := initBState (normalize src)
  if src.isEmpty then .ok s else
  blockTokenize (tChain ext lx c ws maxNesting (maxNesting.toNat + 1)) maxNesting s 0 s.lineMax

end MdIt
