import MdIt.Basic
/-! Line-protocol helpers for the driver (not part of the verified model; part of the trusted tie). -/
namespace MdIt.Proto

def hexVal (c : Char) : Nat :=
  if '0' ≤ c ∧ c ≤ '9' then c.toNat - '0'.toNat
  else if 'a' ≤ c ∧ c ≤ 'f' then c.toNat - 'a'.toNat + 10
  else if 'A' ≤ c ∧ c ≤ 'F' then c.toNat - 'A'.toNat + 10
  else 0

def hexToNat (s : String) : Nat := s.foldl (fun acc c => acc * 16 + hexVal c) 0

def natToHex (n : Nat) : String := String.ofList (Nat.toDigits 16 n)

/-- '-' = empty string, else code points in hex joined by '.' -/
def decStr (t : String) : String :=
  if t == "-" || t == "" then "" else
  String.ofList ((t.splitOn ".").map (fun h => Char.ofNat (hexToNat h)))

def encStr (s : String) : String :=
  if s.isEmpty then "-" else ".".intercalate (s.toList.map (fun c => natToHex c.toNat))

def decChars (t : String) : List Char := (decStr t).toList
def encChars (l : List Char) : String := encStr (String.ofList l)

/-- '~' = empty list, else items joined by ',' -/
def decList (t : String) : List String :=
  if t == "~" || t == "" then [] else (t.splitOn ",").map decStr

def encList (l : List String) : String :=
  if l.isEmpty then "~" else ",".intercalate (l.map encStr)

def encNats (l : List Nat) : String :=
  if l.isEmpty then "~" else ",".intercalate (l.map toString)

def decNats (t : String) : List Nat :=
  if t == "~" || t == "" then [] else (t.splitOn ",").map String.toNat!

def decBool (t : String) : Bool := t == "1"
def encBool (b : Bool) : String := if b then "1" else "0"

end MdIt.Proto
