import MdIt.InlineLink
/-!
# MdIt.InlineImage — the `image` rule (`rules_inline/image.py`)

`![description](src "title")` and the three reference forms.  The rule shares the label walk (`parseLinkLabel`, here with nested
brackets allowed), the destination / title helpers and the reference lookup with `link`, but differs in three places the model keeps:
the title is looked for whether or not a destination was found, a failed inline form is *not* retried as a reference, and — for a match
in normal mode — the description is not tokenized in place: `state.md.inline.parse(content, …)` runs the **whole inline parser** (a
fresh `StateInline` at level 0 with its own memo, then the second chain) on the description and the result becomes the `children` of
one `image` token.  That third re-entry is open recursion again (`parse`), tied with the same depth budget as the other two:
`imgChain … (d+1)` holds a link rule and an image rule over `imgChain … d`.  A nested parse starts again at level 0, so here the budget
is bounded by the length of the source (a description is strictly shorter than the construct that holds it), not by `maxNesting`.
-/
namespace MdIt

/-- the destination at `p1`: where it ends and the normalised, validated `href` — or `(p1, "")` -/
def imageDest (ext : IExt) (s : IState) (p1 : Nat) : Nat × List Char :=
  match parseLinkDestination ext s.src p1 s.posMax with
  | some (dpos, dstr) => if validateLink (ext.normLink dstr) then (dpos, ext.normLink dstr) else (p1, [])
  | none => (p1, [])

/-- destination and optional title from `p1` on, as `image` does it: `(pos, href, title)` -/
def imageDestTitle (ext : IExt) (s : IState) (maximum p1 : Nat) : Nat × List Char × List Char :=
  let dh := imageDest ext s p1
  let p3 := skipBlanksNl s.src maximum (maximum - dh.1) dh.1
  match parseLinkTitle ext s.src p3 s.posMax with
  | some (tpos, tstr) =>
    if p3 < maximum && dh.1 != p3 then (skipBlanksNl s.src maximum (maximum - tpos) tpos, dh.2, tstr)
    else (p3, dh.2, [])
  | none => (p3, dh.2, [])

/-- the inline form `( src "title" )` after the description: `(pos, href, title)`, or `none` for "return False" -/
def imageInline (ext : IExt) (s : IState) (labelEnd maximum : Nat) : Option (Nat × List Char × List Char) :=
  let p1 := skipBlanksNl s.src maximum (maximum - (labelEnd + 1)) (labelEnd + 2)
  if p1 ≥ maximum then none else
  let r := imageDestTitle ext s maximum p1
  if decide (r.1 ≥ maximum) || !(s.src[r.1]? == some ')') then none
  else some (r.1 + 1, r.2.1, r.2.2)

/-- `state.push("image", "img", 0)` and the assignments that follow it -/
def IState.pushImage (s : IState) (attrs : List (String × AttrVal)) (children : Option (List Tok)) (content : String)
    (metaD : List (String × String)) : IState :=
  let s1 := s.pushA "image" "img" 0 attrs content "" ""
  { s1 with tokens := s1.tokens.modify (s1.tokens.length - 1) (fun t => match t with
              | .mk ty tg n a m l _ co mu i _ b h => .mk ty tg n a m l children co mu i metaD b h) }

/-- the token of a matched image: the description parsed by the whole inline parser becomes its children -/
def imageEmit (lx : LExt) (parse : List Char → Except PyErr (List Tok)) (s : IState) (labelStart labelEnd : Nat)
    (href title label : List Char) : Except PyErr IState :=
  let content := (s.src.take labelEnd).drop labelStart
  match parse content with
  | .error e => .error e
  | .ok ts =>
    let attrs : List (String × AttrVal) := [("src", .s (String.ofList href)), ("alt", .s "")]
      ++ (if title.isEmpty then [] else [("title", .s (String.ofList title))])
    let metaD : List (String × String) := if !label.isEmpty && lx.storeLabels then [("label", String.ofList label)] else []
    .ok (s.pushImage attrs (if ts.isEmpty then none else some ts) (String.ofList content) metaD)

/-- `state.pos + 1 < state.posMax and state.src[state.pos + 1] != "["` -/
def imageSecond (s : IState) : Except PyErr Bool :=
  if s.pos + 1 < s.posMax then (match s.src[s.pos + 1]? with | none => .error .indexError | some c1 => .ok (c1 != '['))
  else .ok false

/-- what follows the description: the inline form, or (only when no `(` follows) one of the reference forms -/
def imageFound (ext : IExt) (lx : LExt) (mn : Int) (inner : List IRule) (s : IState) (labelStart labelEnd maximum : Nat) :
    Except PyErr (IState × Option (Nat × List Char × List Char × List Char)) :=
  if labelEnd + 1 < maximum && s.src[labelEnd + 1]? == some '(' then
    match imageInline ext s labelEnd maximum with
    | none => .ok (s, none)
    | some (pos, href, title) => .ok (s, some (pos, href, title, []))
  else linkRef lx mn inner s labelStart labelEnd maximum (labelEnd + 1)

/-- `image(state, silent)`; `inner` is `ruler.getRules("")` for the silent walks, `parse` is `state.md.inline.parse` -/
def ruleImage (ext : IExt) (lx : LExt) (mn : Int) (inner : List IRule) (parse : List Char → Except PyErr (List Tok)) : IRule :=
  fun s silent =>
  match s.src[s.pos]? with
  | none => .error .indexError
  | some c0 =>
    if c0 != '!' then .ok (false, s) else
    match imageSecond s with
    | .error e => .error e
    | .ok true => .ok (false, s)
    | .ok false =>
    let oldPos := s.pos
    let maximum := s.posMax
    let labelStart := s.pos + 2
    match parseLinkLabel inner mn s (s.pos + 1) false with
    | .error e => .error e
    | .ok (labelEndI, s) =>
      if labelEndI < 0 then .ok (false, s) else
      let labelEnd := labelEndI.toNat
      match imageFound ext lx mn inner s labelStart labelEnd maximum with
      | .error e => .error e
      | .ok (s, none) => .ok (false, { s with pos := oldPos })
      | .ok (s, some (pos, href, title, label)) =>
        if silent then .ok (true, { s with pos := pos, posMax := maximum }) else
        match imageEmit lx parse s labelStart labelEnd href title label with
        | .error e => .error e
        | .ok s3 => .ok (true, { s3 with pos := pos, posMax := maximum })

/-- the second chain before `fragments_join`, over all delimiter scopes (as `linkPost`) -/
abbrev imgPost := linkPost

/-- `ruler.getRules("")` of the inline parser restricted to the modelled rules (registration order: text, newline, escape, backticks,
    strikethrough, emphasis, link, image, autolink, html_inline, entity — eleven of the twelve; `linkify` needs a package that is not
    installed), with a depth budget for the re-entries of `link` and `image` -/
def imgChain (cls : QCls) (ext : IExt) (lx : LExt)
    (text newline escape backticks strike emphasis link image autolink htmlInline entity fragJoin : Bool) (mn : Int) : Nat → List IRule
  | 0 => []
  | d + 1 =>
    let inner := imgChain cls ext lx text newline escape backticks strike emphasis link image autolink htmlInline entity fragJoin mn d
    (if text then [ruleText] else []) ++ (if newline then [ruleNewline] else []) ++ (if escape then [ruleEscape] else [])
      ++ (if backticks then [ruleBackticks] else []) ++ (if strike then [ruleStrike cls] else [])
      ++ (if emphasis then [ruleEmphasis cls] else [])
      ++ (if link then [ruleLink ext lx mn inner] else [])
      ++ (if image then [ruleImage ext lx mn inner (inlineParse inner (imgPost strike emphasis) fragJoin mn)] else [])
      ++ (if autolink then [ruleAutolink ext] else []) ++ (if htmlInline then [ruleHtmlInline ext] else [])
      ++ (if entity then [ruleEntity ext] else [])

end MdIt
