import MdIt.BlockRules
/-!
# MdIt.BlockQuote — the block quote rule (`rules_block/blockquote.py`) as a `BRule`, and the rule chains of
the sub-parser `code, fence, blockquote, hr, heading, paragraph` with their recursion through containers

The rule rewrites the line tables of the lines it covers (`bMarks`, `tShift`, `sCount`, `bsCount` — here: the
`BLine` record of the line), saves the old entries, runs the *whole* block chain on the range, and restores
the saved entries.  The nested run is open recursion through `state.md.block.tokenize`; the model ties the
knot with a depth budget: `qChain … (d+1)` contains a quote rule whose nested chain is `qChain … d`.  The
loop never dispatches at `level ≥ maxNesting`, each quote raises the level by one, so a budget of
`maxNesting + 1` is never exhausted (`qChain … 0 = []` would make the loop report `noProgress`).
-/
namespace MdIt

/-- the `while pos < max` blank scan of a quoted line: `(offset, blanks consumed)`; Python `int` arithmetic -/
def qLoop (bs : Nat) (adj : Int) : Int → List Char → Nat → Int × Nat
  | offset, [], n => (offset, n)
  | offset, c :: rest, n =>
    if c = '\t' then qLoop bs adj (offset + (4 - (offset + bs + adj) % 4)) rest (n + 1)
    else if c = ' ' then qLoop bs adj (offset + 1) rest (n + 1)
    else (offset, n)

/-- the optional blank after `>`: (characters skipped after '>', initial, adjustTab, spaceAfterMarker) -/
def quoteHead (bs : Nat) (sc : Int) (after : List Char) : Nat × Int × Int × Bool :=
  match after with
  | ' ' :: _ => (1, sc + 2, 0, true)
  | '\t' :: _ => if ((bs : Int) + (sc + 1)) % 4 = 3 then (1, sc + 2, 0, true) else (0, sc + 1, 1, true)
  | _ => (0, sc + 1, 0, false)

/-- what the rule makes of a line whose first non-blank character is `>`: the line as the nested loop sees it
    (text from the new `bMarks`, `tShift`, `sCount`, `bsCount`), and `lastLineEmpty` -/
def quoteStrip (l : BLine) : BLine × Bool :=
  let after := l.body.drop 1
  let sc : Int := l.sCount
  let r := quoteHead l.bs sc after
  let text' := after.drop r.1
  let q := qLoop l.bs r.2.2.1 r.2.1 text' 0
  let bs' : Int := (l.bs : Int) + sc + 1 + (if r.2.2.2 then 1 else 0)
  let e := decide (text'.length ≤ q.2)
  ({ sCount := q.1 - r.2.1, text := text', tShift := q.2, bs := bs'.toNat, hasLF := l.hasLF }, e)

def BState.setLine (s : BState) (i : Nat) (l : BLine) : BState := { s with lines := s.lines.set i l }

def Tok.setMap : Tok → Option (Nat × Nat) → Tok
  | .mk ty tag n a _ lvl ch c mku info md b h, m => .mk ty tag n a m lvl ch c mku info md b h

/-- the `while nextLine < endLine` search for the end of the quote: `(nextLine, state, saved old line entries)` -/
def quoteScan (terms : List BRule) (endLine : Nat) :
    Nat → Nat → Bool → BState → List BLine → Except PyErr (Nat × BState × List BLine)
  | 0, _, _, _, _ => .error (.noProgress "blockquote")
  | fuel + 1, next, lastEmpty, s, saved =>
    if next < endLine then
      match getL s next with
      | .error e => .error e
      | .ok l =>
        if l.empty then .ok (next, s, saved)                                     -- case 1
        else if l.body.head? == some '>' && !decide (l.sCount < s.blkIndent) then
          let r := quoteStrip l
          quoteScan terms endLine fuel (next + 1) r.2 (s.setLine next r.1) (saved ++ [l])
        else if lastEmpty then .ok (next, s, saved)                              -- case 2
        else
          match runTerminators terms s next endLine with                         -- case 3
          | .error e => .error e
          | .ok (true, s1) =>
            let s2 := { s1 with lineMax := next }
            if s1.blkIndent != 0 then
              match getL s1 next with
              | .error e => .error e
              | .ok l1 => .ok (next, s2.setLine next { l1 with sCount := l1.sCount - s1.blkIndent }, saved ++ [l1])
            else .ok (next, s2, saved)
          | .ok (false, s1) =>                                                   -- lazy continuation line
            match getL s1 next with
            | .error e => .error e
            | .ok l1 => quoteScan terms endLine fuel (next + 1) lastEmpty (s1.setLine next { l1 with sCount := -1 }) (saved ++ [l1])
    else .ok (next, s, saved)

/-- the restore loop `for i, item in enumerate(oldTShift)` -/
def restoreLines (s : BState) (start : Nat) : List BLine → BState
  | [] => s
  | l :: rest => restoreLines (s.setLine start l) (start + 1) rest

/-- `blockquote(state, startLine, endLine, silent)`; `inner` is `ruler.getRules("")` for the nested run -/
def ruleBlockquote (codeOn : Bool) (terms inner : List BRule) (maxNesting : Int) : BRule := fun s startLine endLine silent =>
  match getL s startLine with
  | .error e => .error e
  | .ok l0 =>
    if isCodeLine codeOn s l0 then .ok (false, s) else
    if !(l0.body.head? == some '>') then .ok (false, s) else
    if silent then .ok (true, s) else
    let oldLineMax := s.lineMax
    let r0 := quoteStrip l0
    let s1 := { (s.setLine startLine r0.1) with parentType := "blockquote" }
    match quoteScan terms endLine (endLine - startLine + 1) (startLine + 1) r0.2 s1 [l0] with
    | .error e => .error e
    | .ok (next, s2, saved) =>
      let oldIndent := s2.blkIndent
      let ntok := s2.tokens.length
      let s3 := ({ s2 with blkIndent := 0 }).pushFull "blockquote_open" "blockquote" 1 (some (startLine, 0)) none "" ">" ""
      match blockTokenize inner maxNesting s3 startLine next with
      | .error e => .error e
      | .ok s4 =>
        let s5 := s4.pushFull "blockquote_close" "blockquote" (-1) none none "" ">" ""
        let s6 := { s5 with lineMax := oldLineMax, parentType := s.parentType,
                            tokens := s5.tokens.modify ntok (fun t => t.setMap (some (startLine, s5.line))) }
        let s7 := restoreLines s6 startLine saved
        .ok (true, { s7 with blkIndent := oldIndent })

/-! ### chains -/

/-- `getRules("paragraph")` = `getRules("blockquote")` for these rules: fence, blockquote, hr, heading.  A
    terminator is only ever called in silent mode, where the quote rule answers before using its chains. -/
def qTerminators (c : MiniCfg) (ws : List Nat) (maxNesting : Int) : List BRule :=
  (if c.fence then [ruleFence c.code] else []) ++ [ruleBlockquote c.code [] [] maxNesting]
    ++ (if c.hr then [ruleHr c.code] else []) ++ (if c.heading then [ruleHeading c.code ws] else [])

/-- `getRules("")` with a depth budget for the nested runs -/
def qChain (c : MiniCfg) (ws : List Nat) (maxNesting : Int) : Nat → List BRule
  | 0 => []
  | d + 1 =>
    (if c.code then [ruleCode c.code] else []) ++ (if c.fence then [ruleFence c.code] else [])
      ++ [ruleBlockquote c.code (qTerminators c ws maxNesting) (qChain c ws maxNesting d) maxNesting]
      ++ (if c.hr then [ruleHr c.code] else []) ++ (if c.heading then [ruleHeading c.code ws] else [])
      ++ [ruleParagraph (qTerminators c ws maxNesting) ws]

/-- normalize + block for the configuration `zero + {code, fence, hr, heading}? + blockquote` -/
def qParse (c : MiniCfg) (ws : List Nat) (maxNesting : Int) (src : List Char) : Except PyErr (List Tok) :=
  let s := initBState (normalize src)
  if src.isEmpty then .ok [] else
  match blockTokenize (qChain c ws maxNesting (maxNesting.toNat + 1)) maxNesting s 0 s.lineMax with
  | .ok s' => .ok s'.tokens
  | .error e => .error e

end MdIt
