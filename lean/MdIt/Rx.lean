import MdIt.Basic
/-!
# MdIt.Rx — Python `re` patterns as data, and a backtracking-order matcher for them

The regular expressions of the library (`HTML_TAG_RE`, `HTML_SEQUENCES`, `AUTOLINK_RE`, `EMAIL_RE`, `DIGITAL_RE`, `NAMED_RE`, …) are
*translated from the live pattern objects on every run* (T1, `harness/gen_tables.py: rx_of`, via `re._parser`) into terms of `Rx`
(`MdIt/Generated/Regex.lean`).  A character set is the list of closed code-point ranges it accepts, evaluated with the
interpreter's own `re` under the pattern's flags (IGNORECASE, `\s`, negation are resolved there); groups are transparent (no
pattern of the library has a back-reference).

`Rx.ends src r p` lists the positions where a match of `r` starting at `p` can end, *in the order in which Python's backtracking
matcher would try them* (first element = the match `re` reports), without duplicates.  Loops whose body can match the empty string
get Python's zero-width guard (an iteration past `min` must consume something); fuel `len - p + min + 1` covers every chain of
iterations (each either counts towards `min` or consumes a character).
-/
namespace MdIt

inductive Rx where
  | eps
  | set (ranges : List (Nat × Nat))
  | seq (a b : Rx)
  | alt (a b : Rx)
  | rep (greedy : Bool) (min : Nat) (max : Option Nat) (r : Rx)
  | bol
  | eol
  | look (neg : Bool) (r : Rx)
deriving Repr

def inRanges (rs : List (Nat × Nat)) (n : Nat) : Bool := rs.any (fun r => decide (r.1 ≤ n) && decide (n ≤ r.2))

/-- drop later duplicates, keep the order of first occurrences -/
def dedupN : List Nat → List Nat
  | [] => []
  | x :: xs => x :: (dedupN xs).filter (· != x)

def canMore : Option Nat → Nat → Bool
  | some m, count => decide (count < m)
  | none, _ => true

/-- `r{min,max}` / `r{min,max}?` from position `p` after `count` iterations -/
def repEnds (body : Nat → List Nat) (greedy : Bool) (min : Nat) (max : Option Nat) : Nat → Nat → Nat → List Nat
  | 0, count, p => if count ≥ min then [p] else []
  | fuel + 1, count, p =>
    let stop := if count ≥ min then [p] else []
    if !canMore max count then stop else
    let nexts := (body p).filter (fun e => decide (count < min) || decide (e > p))
    let more := dedupN (nexts.flatMap (fun e => repEnds body greedy min max fuel (count + 1) e))
    dedupN (if greedy then more ++ stop else stop ++ more)

def Rx.ends (src : List Char) : Rx → Nat → List Nat
  | .eps, p => [p]
  | .set rs, p =>
    match src[p]? with
    | some c => if inRanges rs c.toNat then [p + 1] else []
    | none => []
  | .seq a b, p => dedupN ((a.ends src p).flatMap (fun e => b.ends src e))
  | .alt a b, p => dedupN (a.ends src p ++ b.ends src p)
  | .rep g mn mx r, p => repEnds (fun q => r.ends src q) g mn mx (src.length - p + mn + 1) 0 p
  | .bol, p => if p = 0 then [p] else []
  -- `$`: at the end, or before a line feed that ends the string
  | .eol, p => if p = src.length ∨ (p + 1 = src.length ∧ src[p]? = some '\n') then [p] else []
  | .look neg r, p => if (r.ends src p).isEmpty == neg then [p] else []

/-- `pattern.match(s)`: the end of the match, if any -/
def Rx.matchLen (r : Rx) (s : List Char) : Option Nat := (r.ends s 0).head?

/-- `pattern.search(s) is not None` -/
def Rx.search (r : Rx) (s : List Char) : Bool := (List.range (s.length + 1)).any (fun i => !(r.ends s i).isEmpty)

/-- can the pattern match without consuming a character? (over-approximation: assertions count as nullable) -/
def Rx.nullable : Rx → Bool
  | .eps => true
  | .set _ => false
  | .seq a b => a.nullable && b.nullable
  | .alt a b => a.nullable || b.nullable
  | .rep _ mn _ r => mn == 0 || r.nullable
  | .bol => true
  | .eol => true
  | .look _ _ => true

/-! ### where a match can end -/

theorem mem_dedupN {x : Nat} : ∀ {l : List Nat}, x ∈ dedupN l ↔ x ∈ l
  | [] => by simp [dedupN]
  | y :: ys => by
    simp only [dedupN, List.mem_cons, List.mem_filter, bne_iff_ne, ne_eq]
    rw [mem_dedupN (l := ys)]
    constructor
    · rintro (h | ⟨h, _⟩)
      · exact .inl h
      · exact .inr h
    · rintro (h | h)
      · exact .inl h
      · by_cases hxy : x = y
        · exact .inl hxy
        · exact .inr ⟨h, hxy⟩

/-- an end of `fuel + 1` iterations is the stop position, or an end of the remaining iterations after one more body match -/
theorem repEnds_succ_mem (body : Nat → List Nat) (g : Bool) (mn : Nat) (mx : Option Nat) (fuel count p e : Nat)
    (h : e ∈ repEnds body g mn mx (fuel + 1) count p) :
    (count ≥ mn ∧ e = p) ∨ ∃ e' ∈ body p, (count < mn ∨ e' > p) ∧ e ∈ repEnds body g mn mx fuel (count + 1) e' := by
  simp only [repEnds] at h
  have hstop : ∀ e, e ∈ (if count ≥ mn then [p] else []) → count ≥ mn ∧ e = p := by
    intro e he; split at he
    · simp at he; exact ⟨by assumption, he⟩
    · simp at he
  have hmore : ∀ e, e ∈ dedupN (List.flatMap (fun e => repEnds body g mn mx fuel (count + 1) e)
      (List.filter (fun e => decide (count < mn) || decide (e > p)) (body p))) →
      ∃ e' ∈ body p, (count < mn ∨ e' > p) ∧ e ∈ repEnds body g mn mx fuel (count + 1) e' := by
    intro e he
    rw [mem_dedupN, List.mem_flatMap] at he
    obtain ⟨e', he', hin⟩ := he
    rw [List.mem_filter] at he'
    refine ⟨e', he'.1, ?_, hin⟩
    have := he'.2
    simp only [Bool.or_eq_true, decide_eq_true_eq] at this
    exact this
  split at h
  · exact .inl (hstop e h)
  · rw [mem_dedupN] at h
    split at h <;> rw [List.mem_append] at h <;> rcases h with h | h
    · exact .inr (hmore e h)
    · exact .inl (hstop e h)
    · exact .inl (hstop e h)
    · exact .inr (hmore e h)

theorem repEnds_ge (body : Nat → List Nat) (hb : ∀ q e, e ∈ body q → q ≤ e) (g : Bool) (mn : Nat) (mx : Option Nat) :
    ∀ fuel count p e, e ∈ repEnds body g mn mx fuel count p → p ≤ e := by
  intro fuel
  induction fuel with
  | zero =>
    intro count p e h
    simp only [repEnds] at h
    split at h
    · simp at h; omega
    · simp at h
  | succ n ih =>
    intro count p e h
    rcases repEnds_succ_mem body g mn mx n count p e h with ⟨_, h⟩ | ⟨e', he', _, hin⟩
    · omega
    · have := ih _ _ _ hin
      have := hb p e' he'
      omega

/-- with a body that always consumes: an end reached before `min` iterations are done lies strictly ahead -/
theorem repEnds_gt (body : Nat → List Nat) (hb : ∀ q e, e ∈ body q → q < e) (g : Bool) (mn : Nat) (mx : Option Nat) :
    ∀ fuel count p e, count < mn → e ∈ repEnds body g mn mx fuel count p → p < e := by
  intro fuel
  cases fuel with
  | zero =>
    intro count p e hc h
    simp only [repEnds] at h
    split at h
    · omega
    · simp at h
  | succ n =>
    intro count p e hc h
    rcases repEnds_succ_mem body g mn mx n count p e h with ⟨h, _⟩ | ⟨e', he', _, hin⟩
    · omega
    · have := repEnds_ge body (fun q e h => Nat.le_of_lt (hb q e h)) g mn mx _ _ _ _ hin
      have := hb p e' he'
      omega

theorem Rx.ends_ge (src : List Char) : ∀ (r : Rx) (p e : Nat), e ∈ r.ends src p → p ≤ e := by
  intro r
  induction r with
  | eps => intro p e h; simp [Rx.ends] at h; omega
  | set rs =>
    intro p e h
    simp only [Rx.ends] at h
    split at h
    · split at h
      · simp at h; omega
      · simp at h
    · simp at h
  | seq a b iha ihb =>
    intro p e h
    simp only [Rx.ends, mem_dedupN, List.mem_flatMap] at h
    obtain ⟨m, hm, he⟩ := h
    have := iha _ _ hm; have := ihb _ _ he; omega
  | alt a b iha ihb =>
    intro p e h
    simp only [Rx.ends, mem_dedupN, List.mem_append] at h
    rcases h with h | h
    · exact iha _ _ h
    · exact ihb _ _ h
  | rep g mn mx r ih =>
    intro p e h
    simp only [Rx.ends] at h
    exact repEnds_ge _ (fun q e h => ih q e h) g mn mx _ _ _ _ h
  | bol => intro p e h; simp only [Rx.ends] at h; split at h <;> simp at h; omega
  | eol => intro p e h; simp only [Rx.ends] at h; split at h <;> simp at h; omega
  | look n r _ => intro p e h; simp only [Rx.ends] at h; split at h <;> simp at h; omega

/-- a pattern that is not nullable consumes at least one character -/
theorem Rx.ends_gt (src : List Char) : ∀ (r : Rx), r.nullable = false → ∀ (p e : Nat), e ∈ r.ends src p → p < e := by
  intro r
  induction r with
  | eps => intro h; simp [Rx.nullable] at h
  | set rs =>
    intro _ p e h
    simp only [Rx.ends] at h
    split at h
    · split at h
      · simp at h; omega
      · simp at h
    · simp at h
  | seq a b iha ihb =>
    intro hn p e h
    simp only [Rx.ends, mem_dedupN, List.mem_flatMap] at h
    obtain ⟨m, hm, he⟩ := h
    simp only [Rx.nullable, Bool.and_eq_false_iff] at hn
    rcases hn with hn | hn
    · have := iha hn _ _ hm; have := Rx.ends_ge src b _ _ he; omega
    · have := ihb hn _ _ he; have := Rx.ends_ge src a _ _ hm; omega
  | alt a b iha ihb =>
    intro hn p e h
    simp only [Rx.nullable, Bool.or_eq_false_iff] at hn
    simp only [Rx.ends, mem_dedupN, List.mem_append] at h
    rcases h with h | h
    · exact iha hn.1 _ _ h
    · exact ihb hn.2 _ _ h
  | rep g mn mx r ih =>
    intro hn p e h
    simp only [Rx.nullable, Bool.or_eq_false_iff, beq_eq_false_iff_ne, ne_eq] at hn
    simp only [Rx.ends] at h
    exact repEnds_gt _ (fun q e h => ih hn.2 q e h) g mn mx _ _ _ _ (by omega) h
  | bol => intro h; simp [Rx.nullable] at h
  | eol => intro h; simp [Rx.nullable] at h
  | look n r _ => intro h; simp [Rx.nullable] at h

theorem Rx.matchLen_pos (r : Rx) (hn : r.nullable = false) (s : List Char) (n : Nat) (h : r.matchLen s = some n) : 0 < n := by
  unfold Rx.matchLen at h
  have hm : n ∈ r.ends s 0 := List.mem_of_mem_head? h
  exact Rx.ends_gt s r hn 0 n hm

/-! ### membership lemmas (for reasoning about a pattern of known shape) -/

theorem Rx.ends_seq {src : List Char} {a b : Rx} {p e : Nat} :
    e ∈ (Rx.seq a b).ends src p ↔ ∃ m ∈ a.ends src p, e ∈ b.ends src m := by
  simp only [Rx.ends, mem_dedupN, List.mem_flatMap]

theorem Rx.ends_alt {src : List Char} {a b : Rx} {p e : Nat} :
    e ∈ (Rx.alt a b).ends src p ↔ e ∈ a.ends src p ∨ e ∈ b.ends src p := by
  simp only [Rx.ends, mem_dedupN, List.mem_append]

theorem Rx.ends_set {src : List Char} {rs : List (Nat × Nat)} {p e : Nat} :
    e ∈ (Rx.set rs).ends src p ↔ ∃ c, src[p]? = some c ∧ inRanges rs c.toNat = true ∧ e = p + 1 := by
  simp only [Rx.ends]
  cases hc : src[p]? with
  | none => simp
  | some c =>
    simp only [Option.some.injEq, exists_eq_left']
    by_cases hin : inRanges rs c.toNat = true
    · simp [hin]
    · simp [hin]

theorem Rx.ends_bol {src : List Char} {p e : Nat} : e ∈ Rx.bol.ends src p ↔ p = 0 ∧ e = p := by
  simp only [Rx.ends]
  split
  · rename_i h; simp [h]
  · rename_i h; simp [h]

/-- the characters a loop over one character set consumes all lie in the set -/
theorem repEnds_set_chars (src : List Char) (rs : List (Nat × Nat)) (g : Bool) (mn : Nat) (mx : Option Nat) :
    ∀ fuel count p e, e ∈ repEnds (fun q => (Rx.set rs).ends src q) g mn mx fuel count p →
      p ≤ e ∧ ∀ i, p ≤ i → i < e → ∃ c, src[i]? = some c ∧ inRanges rs c.toNat = true := by
  intro fuel
  induction fuel with
  | zero =>
    intro count p e h
    simp only [repEnds] at h
    split at h
    · simp at h; subst h; exact ⟨Nat.le_refl _, fun i h1 h2 => by omega⟩
    · simp at h
  | succ n ih =>
    intro count p e h
    rcases repEnds_succ_mem _ g mn mx n count p e h with ⟨_, h⟩ | ⟨e', he', _, hin⟩
    · subst h; exact ⟨Nat.le_refl _, fun i h1 h2 => by omega⟩
    · obtain ⟨c, hc, hr, he'⟩ := Rx.ends_set.mp he'
      subst he'
      obtain ⟨h1, h2⟩ := ih _ _ _ hin
      refine ⟨by omega, fun i hi1 hi2 => ?_⟩
      by_cases hip : i = p
      · subst hip; exact ⟨c, hc, hr⟩
      · exact h2 i (by omega) hi2

theorem Rx.ends_rep_set {src : List Char} {rs : List (Nat × Nat)} {g : Bool} {mn : Nat} {mx : Option Nat} {p e : Nat}
    (h : e ∈ (Rx.rep g mn mx (.set rs)).ends src p) :
    p ≤ e ∧ ∀ i, p ≤ i → i < e → ∃ c, src[i]? = some c ∧ inRanges rs c.toNat = true := by
  simp only [Rx.ends] at h
  exact repEnds_set_chars src rs g mn mx _ _ _ _ h

/-- every range of `rs` lies inside one range of `al` -/
def rangesSub (rs al : List (Nat × Nat)) : Bool :=
  rs.all (fun r => al.any (fun a => decide (a.1 ≤ r.1) && decide (r.2 ≤ a.2)))

theorem inRanges_sub {rs al : List (Nat × Nat)} (h : rangesSub rs al = true) {n : Nat} (hn : inRanges rs n = true) :
    inRanges al n = true := by
  unfold inRanges at hn ⊢
  rw [List.any_eq_true] at hn ⊢
  obtain ⟨r, hr, hin⟩ := hn
  unfold rangesSub at h
  rw [List.all_eq_true] at h
  have := h r hr
  rw [List.any_eq_true] at this
  obtain ⟨a, ha, hsub⟩ := this
  refine ⟨a, ha, ?_⟩
  simp only [Bool.and_eq_true, decide_eq_true_eq] at hin hsub ⊢
  omega

/-- the members of a slice are characters at positions inside it -/
theorem mem_slice {α} {l : List α} {a b : Nat} {c : α} (h : c ∈ (l.take b).drop a) : ∃ i, a ≤ i ∧ i < b ∧ l[i]? = some c := by
  rw [List.mem_iff_getElem?] at h
  obtain ⟨j, hj⟩ := h
  rw [List.getElem?_drop, List.getElem?_take] at hj
  split at hj
  · exact ⟨a + j, by omega, by assumption, hj⟩
  · cases hj

end MdIt
