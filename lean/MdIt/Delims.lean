import MdIt.Basic
/-!
# MdIt.Delims — `rules_inline/balance_pairs.py: processDelimiters` on an abstract delimiter array

The function is self-contained: it reads and writes the delimiter records (`marker`, `length`, `token`, `end`, `open`, `close`) and its
own bookkeeping (`openersBottom`, `jumps`, `headerIdx`, `lastTokenIdx`).  The model follows it statement by statement; Python's
unbounded `while` loops are recursion on fuel (the model returns the array as it stands if the fuel runs out — `pd_fuel` shows it
never does).
-/
namespace MdIt

structure Delim where
  marker : Nat
  length : Nat          -- `closer.length or 0`
  token : Int
  end_ : Int
  open_ : Bool
  close : Bool
deriving Repr, DecidableEq

/-- `openersBottom`: marker ↦ six lower bounds -/
abbrev Bottoms := List (Nat × List Int)

def bottomGet (b : Bottoms) (marker : Nat) (k : Nat) : Int :=
  match b.find? (·.1 == marker) with
  | some p => p.2.getD k (-1)
  | none => -1

def bottomSet (b : Bottoms) (marker : Nat) (k : Nat) (v : Int) : Bottoms :=
  match b.find? (·.1 == marker) with
  | some p => (marker, p.2.set k v) :: b.filter (·.1 != marker)
  | none => (marker, ([-1, -1, -1, -1, -1, -1] : List Int).set k v) :: b

/-- the rule of 3 -/
def oddMatch (opener closer : Delim) : Bool :=
  (opener.close || closer.open_) && ((opener.length + closer.length) % 3 == 0)
    && (opener.length % 3 != 0 || closer.length % 3 != 0)

/-- the `while openerIdx > minOpenerIdx` search: the opener found, if any -/
def findDelimOpener (ds : List Delim) (jumps : List Nat) (closer : Delim) (minOpenerIdx : Int) : Nat → Int → Option Nat
  | 0, _ => none
  | fuel + 1, openerIdx =>
    if openerIdx > minOpenerIdx then
      match ds[openerIdx.toNat]? with
      | none => none
      | some opener =>
        let next := openerIdx - ((jumps.getD openerIdx.toNat 0 : Nat) : Int) - 1
        if opener.marker != closer.marker then findDelimOpener ds jumps closer minOpenerIdx fuel next
        else if opener.open_ && decide (opener.end_ < 0) && !oddMatch opener closer then some openerIdx.toNat
        else findDelimOpener ds jumps closer minOpenerIdx fuel next
    else none

structure PDState where
  ds : List Delim
  bottoms : Bottoms
  headerIdx : Nat
  lastTokenIdx : Int
  jumps : List Nat
deriving Repr

/-- one iteration of the outer loop at `closerIdx` -/
def pdStep (st : PDState) (closerIdx : Nat) : PDState :=
  match st.ds[closerIdx]? with
  | none => st
  | some closer =>
    let jumps := st.jumps ++ [0]
    let header := st.ds.getD st.headerIdx closer
    let headerIdx := if header.marker != closer.marker || st.lastTokenIdx != closer.token - 1 then closerIdx else st.headerIdx
    let st1 : PDState := { st with jumps := jumps, headerIdx := headerIdx, lastTokenIdx := closer.token }
    if !closer.close then st1 else
    let k := (if closer.open_ then 3 else 0) + closer.length % 3
    let minOpenerIdx := bottomGet st.bottoms closer.marker k
    let bottoms1 := if (st.bottoms.find? (·.1 == closer.marker)).isSome then st.bottoms else (closer.marker, [-1, -1, -1, -1, -1, -1]) :: st.bottoms
    let start : Int := (headerIdx : Int) - ((jumps.getD headerIdx 0 : Nat) : Int) - 1
    match findDelimOpener st.ds jumps closer minOpenerIdx (closerIdx + 1) start with
    | some openerIdx =>
      let lastJump : Nat :=
        if openerIdx > 0 && !((st.ds.getD (openerIdx - 1) closer).open_) then jumps.getD (openerIdx - 1) 0 + 1 else 0
      let jumps2 := (jumps.set closerIdx (closerIdx - openerIdx + lastJump)).set openerIdx lastJump
      let ds2 := (st.ds.modify closerIdx (fun d => { d with open_ := false })).modify openerIdx
                    (fun d => { d with end_ := (closerIdx : Int), close := false })
      { st1 with ds := ds2, bottoms := bottoms1, jumps := jumps2, lastTokenIdx := -2 }
    | none =>
      { st1 with bottoms := bottomSet bottoms1 closer.marker k start }

/-- `processDelimiters(state, delimiters)`: the delimiter array afterwards -/
def processDelims (ds : List Delim) : List Delim :=
  ((List.range ds.length).foldl pdStep { ds := ds, bottoms := [], headerIdx := 0, lastTokenIdx := -2, jumps := [] }).ds

end MdIt
