import MdIt.BlockMore
import MdIt.BlockRef
import MdIt.BlockTable
import MdIt.InlineImage
import MdIt.Core
/-!
# MdIt.Pipeline — `MarkdownIt.parse` end to end for the modelled sub-language

The core chain `normalize → block → inline → text_join` (`parser_core.py`, `rules_core/block.py`, `rules_core/inline.py`) over the
modelled block sub-parser (`mParse`: nine of the eleven block rules) and the modelled inline sub-parser (`imgChain`: eleven of the
twelve inline rules).  The `inline` core rule walks the block tokens and, for every token of type `inline`, runs the inline parser on
its `content`; the result becomes the token's `children`.  `text_join` then merges the text tokens of every `inline` token's children.
The other core rules (`linkify`, `replacements`, `smartquotes`) are off in this configuration family (`zero` preset + enabled rules,
typographer off).
-/
namespace MdIt

/-- which inline rules and which core rules are on (the block side is an `MCfg`) -/
structure ICfg where
  text : Bool
  newline : Bool
  escape : Bool
  backticks : Bool
  strike : Bool
  emphasis : Bool
  link : Bool
  image : Bool
  autolink : Bool
  htmlInline : Bool
  entity : Bool
  fragJoin : Bool       -- `fragments_join` of `ruler2`
  inlineOn : Bool       -- the core rule `inline`
  textJoinOn : Bool     -- the core rule `text_join`
deriving Repr, DecidableEq

/-- `rules_core/inline.py`: every `inline` token gets the inline parser's tokens for its content as children -/
def coreInline (parse : List Char → Except PyErr (List Tok)) : List Tok → Except PyErr (List Tok)
  | [] => .ok []
  | t :: ts =>
    if t.type == "inline" then
      match parse t.content.toList with
      | .error e => .error e
      | .ok cs =>
        match coreInline parse ts with
        | .error e => .error e
        | .ok r => .ok (t.setChildren (some cs) :: r)
    else
      match coreInline parse ts with
      | .error e => .error e
      | .ok r => .ok (t :: r)

/-- the inline parser of a configuration: `md.inline.parse(content, md, env, children)` -/
def inlineOf (cls : QCls) (ext : IExt) (lx : LExt) (ic : ICfg) (mn : Int) (d : Nat) : List Char → Except PyErr (List Tok) :=
  inlineParse (imgChain cls ext lx ic.text ic.newline ic.escape ic.backticks ic.strike ic.emphasis ic.link ic.image ic.autolink ic.htmlInline
    ic.entity ic.fragJoin mn d) (imgPost ic.strike ic.emphasis) ic.fragJoin mn

/-- `MarkdownIt.parse(src, env)` for the modelled sub-language -/
def fullParse (cls : QCls) (ext : IExt) (lx : LExt) (bc : MCfg) (ic : ICfg) (ws : List Nat) (mn : Int) (d : Nat) (src : List Char) :
    Except PyErr (List Tok) :=
  match mParse bc ws mn src with
  | .error e => .error e
  | .ok bts =>
    match (if ic.inlineOn then coreInline (inlineOf cls ext lx ic mn d) bts else .ok bts) with
    | .error e => .error e
    | .ok ts => .ok (if ic.textJoinOn then textJoin ts else ts)

end MdIt

namespace MdIt

/-- `MarkdownIt.parse(src, env)` with the `reference` block rule in the chain (ten of the eleven block rules): the inline parser sees
    the env as the block parse left it.  Result: tokens, and the `references` / `duplicate_refs` entries the parse added to env. -/
def fullParseR (cls : QCls) (ext : IExt) (lx : LExt) (rc : RCfg) (ic : ICfg) (ws : List Nat) (mn : Int) (d : Nat) (src : List Char) :
    Except PyErr (List Tok × List (List Char × List Char × List Char) × List (List Char × List Char × List Char)) :=
  match rParse ext lx rc ws mn src with
  | .error e => .error e
  | .ok s =>
    match (if ic.inlineOn then coreInline (inlineOf cls ext (envAfter lx s) ic mn d) s.tokens else .ok s.tokens) with
    | .error e => .error e
    | .ok ts => .ok (if ic.textJoinOn then textJoin ts else ts, s.refs, s.dups)

end MdIt

namespace MdIt

/-- `MarkdownIt.parseInline(src, env)`: the `block` core rule in inline mode makes one `inline` token holding the whole source; the
    rest of the core chain is the same -/
def parseInlineM (cls : QCls) (ext : IExt) (lx : LExt) (ic : ICfg) (mn : Int) (d : Nat) (src : List Char) : Except PyErr (List Tok) :=
  let tok : Tok := .mk "inline" "" 0 [] (some (0, 1)) 0 (some []) (String.ofList (normalize src)) "" "" [] false false
  match (if ic.inlineOn then coreInline (inlineOf cls ext lx ic mn d) [tok] else .ok [tok]) with
  | .error e => .error e
  | .ok ts => .ok (if ic.textJoinOn then textJoin ts else ts)

end MdIt

namespace MdIt

/-- `MarkdownIt.parse(src, env)` with **all eleven block rules** (`tChain`: the `table` rule in the main chain and in the terminator
    chains of `paragraph`, `reference`, `lheading`) and eleven of the twelve inline rules.  Result as for `fullParseR`. -/
def fullParseT (cls : QCls) (ext : IExt) (lx : LExt) (tc : TCfg) (ic : ICfg) (ws : List Nat) (mn : Int) (d : Nat) (src : List Char) :
    Except PyErr (List Tok × List (List Char × List Char × List Char) × List (List Char × List Char × List Char)) :=
  match tParse ext lx tc ws mn src with
  | .error e => .error e
  | .ok s =>
    match (if ic.inlineOn then coreInline (inlineOf cls ext (envAfter lx s) ic mn d) s.tokens else .ok s.tokens) with
    | .error e => .error e
    | .ok ts => .ok (if ic.textJoinOn then textJoin ts else ts, s.refs, s.dups)

end MdIt
