import MdIt.Instance
/-!
# MdIt.World — several live `MarkdownIt` instances, caller-owned envs, API histories (C12, C10 routes)

The parser itself is a parameter `P : Config → String → Env → Out × Env` (the sequential semantics of
one parse/render as a function of configuration, source and the env passed in): C12 is about what
*else* a result could depend on — other instances, earlier calls, module-level state.  The model
has the module-level state the code has: the preset table, which no operation writes.
-/
namespace MdIt

/-- configuration = everything of an instance except its caches -/
structure Config where
  core : List Rule
  block : List Rule
  inline : List Rule
  inline2 : List Rule
  options : List (String × OptVal)
  renderRules : List (String × Nat)
deriving Repr, DecidableEq

def Inst.config (i : Inst) : Config :=
  ⟨i.rulers.core.rules, i.rulers.block.rules, i.rulers.inline.rules, i.rulers.inline2.rules, i.options, i.renderRules⟩

def presetOptions (p : Gen.Preset) : List (String × OptVal) :=
  [("maxNesting", .n p.maxNesting), ("html", .b p.html), ("linkify", .b p.linkify),
   ("typographer", .b p.typographer), ("quotes", .s p.quotes), ("xhtmlOut", .b p.xhtmlOut),
   ("breaks", .b p.breaks), ("langPrefix", .s p.langPrefix), ("highlight", .none)]

/-- `MarkdownIt(preset, options_update)` : fresh parsers, options = preset options merged with the
    update, components configured.  (An unknown preset name raises `KeyError`.) -/
def construct (presetName : String) (update : List (String × OptVal)) : Except PyErr Inst :=
  match findPreset presetName with
  | none => .error (.keyError presetName)
  | some p =>
    let opts := update.foldl (fun d kv => dictSet d kv.1 kv.2) (presetOptions p)
    let (rs, r) := Rulers.fresh.configure p
    match r with
    | .error e => .error e
    | .ok _ => .ok { rulers := rs, options := opts, renderRules := [] }

abbrev Env := List (String × String)      -- caller-owned mapping (references etc.), abstract content

structure World where
  insts : List Inst
  envs : List Env                          -- env objects the caller holds
deriving Repr

inductive AOp where
  | construct (preset : String) (update : List (String × OptVal))
  | setOpt (i : Nat) (route : Route) (k : String) (v : OptVal)
  | enable (i : Nat) (names : List String) (ign : Bool)
  | disable (i : Nat) (names : List String) (ign : Bool)
  | addRenderRule (i : Nat) (name : String) (fn : Nat)
  | newEnv                                                -- caller creates a fresh `{}`
  | parse (i : Nat) (src : String) (env : Option Nat)     -- `none`: env omitted
deriving Repr

/-- the env a call sees: omitted ≡ a new empty mapping -/
def World.envOf (w : World) : Option Nat → Env
  | none => []
  | some k => (w.envs[k]?).getD []

/-- the chains a parse asks for (at least the four main chains; named chains do not change state
    beyond the same cache) -/
def compileAll (m : Rulers) : Rulers :=
  ⟨(m.core.getRules "").1, (m.block.getRules "").1, (m.inline.getRules "").1, (m.inline2.getRules "").1⟩

variable {Out : Type}

/-- one API call; returns the new world and, for `parse`, its result -/
def World.step (P : Config → String → Env → Out × Env) (w : World) : AOp → World × Option Out
  | .construct p u =>
    match construct p u with
    | .ok i => ({ w with insts := w.insts ++ [i] }, none)
    | .error _ => (w, none)
  | .setOpt i r k v => ({ w with insts := w.insts.modify i (fun x => x.setOpt r k v) }, none)
  | .enable i ns ig => ({ w with insts := w.insts.modify i (fun x => { x with rulers := (x.rulers.setMany true ns ig).1 }) }, none)
  | .disable i ns ig => ({ w with insts := w.insts.modify i (fun x => { x with rulers := (x.rulers.setMany false ns ig).1 }) }, none)
  | .addRenderRule i n f => ({ w with insts := w.insts.modify i (fun x => x.addRenderRule n f) }, none)
  | .newEnv => ({ w with envs := w.envs ++ [[]] }, none)
  | .parse i src e =>
    match w.insts[i]? with
    | none => (w, none)
    | some inst =>
      let envIn : Env := w.envOf e
      let (out, envOut) := P inst.config src envIn
      let insts' := w.insts.modify i (fun x => { x with rulers := compileAll x.rulers })
      let envs' := match e with
        | none => w.envs
        | some k => w.envs.modify k (fun _ => envOut)
      ({ insts := insts', envs := envs' }, some out)

def World.run (P : Config → String → Env → Out × Env) (w : World) : List AOp → World
  | [] => w
  | op :: ops => (w.step P op).1.run P ops

/-- does the operation configure instance `i`? -/
def AOp.configures (i : Nat) : AOp → Bool
  | .setOpt j _ _ _ => i == j
  | .enable j _ _ => i == j
  | .disable j _ _ => i == j
  | .addRenderRule j _ _ => i == j
  | _ => false

/-- apply a configuration op to a single instance (the spec side: no world, no other instances) -/
def Inst.applyCfg (x : Inst) : AOp → Inst
  | .setOpt _ r k v => x.setOpt r k v
  | .enable _ ns ig => { x with rulers := (x.rulers.setMany true ns ig).1 }
  | .disable _ ns ig => { x with rulers := (x.rulers.setMany false ns ig).1 }
  | .addRenderRule _ n f => x.addRenderRule n f
  | _ => x

end MdIt
