import MdIt.Inline
import MdIt.Smart
/-!
# MdIt.Emphasis — `rules_inline/emphasis.py` (`tokenize`, `_postProcess`), `StateInline.scanDelims`, and `balance_pairs` on the
inline state

Character classification (`isMdAsciiPunct or isPunctChar`, `isWhiteSpace`) is the parameter `QCls` (instantiated from T1 tables by
the driver); the theorems hold for every classification.
-/
namespace MdIt

/-- `while pos < maximum and src[pos] == marker: pos += 1` -/
def markerRun (src : List Char) (marker : Char) (max : Nat) : Nat → Nat → Nat
  | 0, pos => pos
  | fuel + 1, pos => if pos < max then (match src[pos]? with
      | some c => if c == marker then markerRun src marker max fuel (pos + 1) else pos
      | none => pos) else pos

/-- `StateInline.scanDelims(start, canSplitWord)`: `(can_open, can_close, length)` -/
def scanDelims (cls : QCls) (s : IState) (start : Nat) (canSplitWord : Bool) : Bool × Bool × Nat :=
  let marker := s.src.getD start ' '
  let lastChar := if start > 0 then s.src.getD (start - 1) ' ' else ' '
  let pos := markerRun s.src marker s.posMax (s.posMax - start) start
  let count := pos - start
  let nextChar := if pos < s.posMax then s.src.getD pos ' ' else ' '
  let isLastPunct := cls.isPunct lastChar.toNat
  let isNextPunct := cls.isPunct nextChar.toNat
  let isLastWhite := cls.isWhite lastChar.toNat
  let isNextWhite := cls.isWhite nextChar.toNat
  let left := !(isNextWhite || (isNextPunct && !(isLastWhite || isLastPunct)))
  let right := !(isLastWhite || (isLastPunct && !(isNextWhite || isNextPunct)))
  if !canSplitWord then (left && (!right || isLastPunct), right && (!left || isNextPunct), count)
  else (left, right, count)

/-- the `for _ in range(scanned.length)` loop: one text token and one delimiter record per marker character -/
def emphPush (marker : Char) (count : Nat) (o c : Bool) : Nat → IState → IState
  | 0, s => s
  | k + 1, s =>
    let s1 := s.push "text" "" 0 (String.singleton marker) "" ""
    emphPush marker count o c k
      { s1 with delimiters := s1.delimiters ++ [{ marker := marker.toNat, length := count, token := (s1.tokens.length : Int) - 1, end_ := -1, open_ := o, close := c }] }

/-- `emphasis.tokenize` -/
def ruleEmphasis (cls : QCls) : IRule := fun s silent =>
  match s.src[s.pos]? with
  | none => .error .indexError
  | some marker =>
    if silent then .ok (false, s) else
    if !(marker == '_' || marker == '*') then .ok (false, s) else
    let sc := scanDelims cls s s.pos (marker == '*')
    let s1 := emphPush marker sc.2.2 sc.1 sc.2.1 sc.2.2 s
    .ok (true, { s1 with pos := s.pos + sc.2.2 })

/-- `balance_pairs.link_pairs` when no token carries a delimiter list of its own -/
def balancePairs (s : IState) : IState := { s with delimiters := processDelims s.delimiters }

def Tok.setEmph (t : Tok) (ty tag : String) (n : Int) (mk : String) : Tok :=
  match t with
  | .mk _ _ _ a m l c _ _ i md b h => .mk ty tag n a m l c "" mk i md b h

/-- the `isStrong` test: the previous delimiter is the adjacent marker of the same run and closes on the adjacent marker after this
    one's closer -/
def isStrongAt (ds : List Delim) (i : Int) (sd ed : Delim) : Bool :=
  decide (i > 0) &&
    (match ds[(i - 1).toNat]? with
     | some p => p.end_ == sd.end_ + 1 && p.marker == sd.marker && p.token == sd.token - 1 &&
        (match ds[(sd.end_ + 1).toNat]? with
         | some a => a.token == ed.token + 1
         | none => false)
     | none => false)

/-- the `while i >= 0` loop of `_postProcess` -/
def emphPostGo (ds : List Delim) : Nat → Int → List Tok → List Tok
  | 0, _, ts => ts
  | fuel + 1, i, ts =>
    if i < 0 then ts else
    match ds[i.toNat]? with
    | none => ts
    | some sd =>
      if sd.marker != 0x5F && sd.marker != 0x2A then emphPostGo ds fuel (i - 1) ts
      else if sd.end_ == -1 then emphPostGo ds fuel (i - 1) ts
      else
        match ds[sd.end_.toNat]? with
        | none => ts
        | some ed =>
          let isStrong := isStrongAt ds i sd ed
          let ch := Char.ofNat sd.marker
          let mk := if isStrong then String.ofList [ch, ch] else String.singleton ch
          let ts1 := ts.modify sd.token.toNat (fun t => t.setEmph (if isStrong then "strong_open" else "em_open") (if isStrong then "strong" else "em") 1 mk)
          let ts2 := ts1.modify ed.token.toNat (fun t => t.setEmph (if isStrong then "strong_close" else "em_close") (if isStrong then "strong" else "em") (-1) mk)
          if isStrong then
            let ts3 := ts2.modify ((ds[(i - 1).toNat]?.map Delim.token).getD 0).toNat (fun t => t.setContent "")
            let ts4 := ts3.modify ((ds[(sd.end_ + 1).toNat]?.map Delim.token).getD 0).toNat (fun t => t.setContent "")
            emphPostGo ds fuel (i - 2) ts4
          else emphPostGo ds fuel (i - 1) ts2

/-- `emphasis.postProcess` when no token carries a delimiter list of its own -/
def emphasisPost (s : IState) : IState :=
  { s with tokens := emphPostGo s.delimiters s.delimiters.length ((s.delimiters.length : Int) - 1) s.tokens }

/-! ### `strikethrough` -/

/-- the `while i < length` loop of `strikethrough.tokenize`: one `~~` text token and one delimiter record per pair of markers -/
def strikePush (o c : Bool) : Nat → IState → IState
  | 0, s => s
  | k + 1, s =>
    let s1 := s.push "text" "" 0 "~~" "" ""
    strikePush o c k
      { s1 with delimiters := s1.delimiters ++ [{ marker := 0x7E, length := 0, token := (s1.tokens.length : Int) - 1, end_ := -1, open_ := o, close := c }] }

/-- `strikethrough.tokenize` -/
def ruleStrike (cls : QCls) : IRule := fun s silent =>
  match s.src[s.pos]? with
  | none => .error .indexError
  | some ch =>
    if silent then .ok (false, s) else
    if ch != '~' then .ok (false, s) else
    let sc := scanDelims cls s s.pos true
    if sc.2.2 < 2 then .ok (false, s) else
    let s0 := if sc.2.2 % 2 = 1 then s.push "text" "" 0 "~" "" "" else s
    let s1 := strikePush sc.1 sc.2.1 (sc.2.2 / 2) s0
    .ok (true, { s1 with pos := s.pos + sc.2.2 })

/-- first loop of `strikethrough._postProcess`: the pairs become `s_open` / `s_close`; returns the tokens and `loneMarkers` -/
def strikeMark (ds : List Delim) : Nat → Nat → List Tok → List Nat → List Tok × List Nat
  | 0, _, ts, lone => (ts, lone)
  | fuel + 1, i, ts, lone =>
    match ds[i]? with
    | none => (ts, lone)
    | some sd =>
      if sd.marker != 0x7E then strikeMark ds fuel (i + 1) ts lone
      else if sd.end_ == -1 then strikeMark ds fuel (i + 1) ts lone
      else
        match ds[sd.end_.toNat]? with
        | none => (ts, lone)
        | some ed =>
          let ts1 := ts.modify sd.token.toNat (fun t => t.setEmph "s_open" "s" 1 "~~")
          let ts2 := ts1.modify ed.token.toNat (fun t => t.setEmph "s_close" "s" (-1) "~~")
          let lone' := match ts2[(ed.token - 1).toNat]? with
            | some p => if p.type == "text" && p.content == "~" then lone ++ [(ed.token - 1).toNat] else lone
            | none => lone
          strikeMark ds fuel (i + 1) ts2 lone'

/-- `while j < len(tokens) and tokens[j].type == "s_close": j += 1` -/
def closeRun (ts : List Tok) : Nat → Nat → Nat
  | 0, j => j
  | fuel + 1, j => match ts[j]? with
    | some t => if t.type == "s_close" then closeRun ts fuel (j + 1) else j
    | none => j

/-- second loop: every lone marker is moved behind the `s_close` tokens that follow it (`loneMarkers.pop()` takes the last first) -/
def strikeSwap : List Nat → List Tok → List Tok
  | [], ts => ts
  | i :: rest, ts =>
    let j := closeRun ts ts.length (i + 1) - 1
    let ts' := if i != j then
        match ts[i]?, ts[j]? with
        | some a, some b => (ts.set j a).set i b
        | _, _ => ts
      else ts
    strikeSwap rest ts'

/-- `strikethrough.postProcess` when no token carries a delimiter list of its own -/
def strikePost (s : IState) : IState :=
  let r := strikeMark s.delimiters s.delimiters.length 0 s.tokens []
  { s with tokens := strikeSwap r.2.reverse r.1 }

end MdIt
