import MdIt.Token
/-!
# MdIt.Core — core-chain rules that post-process inline children
(`rules_core/text_join.py`, `rules_core/replacements.py`, `replaceAt` of `smartquotes.py`)

The regular-expression substitutions of `replacements.py` are parameters (`sub : String → String`):
the theorems about the *shape* of the stream hold for every substitution.
-/
namespace MdIt

def Tok.setType (t : Tok) (ty : String) : Tok :=
  match t with
  | .mk _ tag n a m l c co mu i md b h => .mk ty tag n a m l c co mu i md b h

def Tok.setContent (t : Tok) (s : String) : Tok :=
  match t with
  | .mk ty tag n a m l c _ mu i md b h => .mk ty tag n a m l c s mu i md b h

def Tok.setChildren (t : Tok) (cs : Option (List Tok)) : Tok :=
  match t with
  | .mk ty tag n a m l _ co mu i md b h => .mk ty tag n a m l cs co mu i md b h

/-- the accumulation step of `_join`: merge into the previous `text` token or append -/
def joinPush (acc : List Tok) (t : Tok) : List Tok :=
  match acc.getLast? with
  | some last =>
    if t.type == "text" && last.type == "text" then acc.dropLast ++ [last.setContent (last.content ++ t.content)]
    else acc ++ [t]
  | none => acc ++ [t]

mutual
  /-- `_join(children)` of `rules_core/text_join.py`: `text_special` → `text`, image descriptions
      joined recursively, adjacent `text` tokens merged -/
  def joinToks : List Tok → List Tok → List Tok
    | acc, [] => acc
    | acc, t :: rest => joinToks (joinPush acc (joinOne t)) rest
  /-- per-token part: retype, and recurse into a non-empty image description -/
  def joinOne : Tok → Tok
    | .mk ty tag n a m l c co mu i md b h =>
      let ty' := if ty == "text_special" then "text" else ty
      if ty' == "image" then .mk ty' tag n a m l (joinOpt c) co mu i md b h
      else .mk ty' tag n a m l c co mu i md b h
  def joinOpt : Option (List Tok) → Option (List Tok)
    | none => none
    | some [] => some []                       -- `and child_token.children` is falsy: untouched
    | some (c :: cs) => some (joinToks [] (c :: cs))
end

/-- `text_join(state)`: every inline token's children become `_join(children or [])` -/
def textJoin (ts : List Tok) : List Tok :=
  ts.map (fun t => if t.type == "inline" then t.setChildren (some (joinToks [] (t.children.getD []))) else t)

/-! ### replacements -/

/-- `replace_scoped` / `replace_rare`: one pass over the children with the autolink counter
    (`-1` on an `auto` link_open, `+1` on the close); `sub` is the chain of regex substitutions -/
def replacePass (sub : String → String) : Int → List Tok → List Tok
  | _, [] => []
  | k, t :: rest =>
    let t' := if t.type == "text" && k == 0 then t.setContent (sub t.content) else t
    let k1 := if t.type == "link_open" && t.info == "auto" then k - 1 else k
    let k2 := if t.type == "link_close" && t.info == "auto" then k1 + 1 else k1
    t' :: replacePass sub k2 rest

/-- `replace(state)` with the typographer on: for every inline token with children, the scoped pass
    if its content matches `SCOPED_ABBR_RE`, then the rare pass if it matches `RARE_RE` -/
def replacements (scopedHit rareHit : String → Bool) (subScoped subRare : String → String)
    (ts : List Tok) : List Tok :=
  ts.map (fun t =>
    if t.type == "inline" then
      match t.children with
      | none => t
      | some cs =>
        let cs1 := if scopedHit t.content then replacePass subScoped 0 cs else cs
        let cs2 := if rareHit t.content then replacePass subRare 0 cs1 else cs1
        t.setChildren (some cs2)
    else t)

/-- `replaceAt(string, index, ch)` -/
def replaceAt (s : List Char) (index : Nat) (ch : List Char) : List Char :=
  s.take index ++ ch ++ s.drop (index + 1)

/-- two tokens agree on everything except `content`, and agree on `content` too unless they are `text` -/
def SameButText (a b : Tok) : Prop :=
  a.type = b.type ∧ a.tag = b.tag ∧ a.nesting = b.nesting ∧ a.attrs = b.attrs ∧ a.map = b.map ∧ a.level = b.level
  ∧ a.markup = b.markup ∧ a.info = b.info ∧ a.metaD = b.metaD ∧ a.block = b.block ∧ a.hidden = b.hidden
  ∧ (a.type ≠ "text" → a = b)

/-- two lists of equal length related element by element -/
inductive AllRel {α} (R : α → α → Prop) : List α → List α → Prop where
  | nil : AllRel R [] []
  | cons {a b l1 l2} : R a b → AllRel R l1 l2 → AllRel R (a :: l1) (b :: l2)

theorem AllRel.length_eq {α} {R : α → α → Prop} {l1 l2 : List α} (h : AllRel R l1 l2) : l1.length = l2.length := by
  induction h with
  | nil => rfl
  | cons _ _ ih => simp [ih]

end MdIt
