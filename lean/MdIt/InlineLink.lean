import MdIt.InlineLeaf
import MdIt.Str
/-!
# MdIt.InlineLink — the `link` rule (`rules_inline/link.py`) with its helpers: `ParserInline.skipToken` (position memo, silent
calls one level down), `parseLinkLabel`, `parseLinkDestination`, `parseLinkTitle`, `replaceEntityPattern` / `unescapeAll`, the
delimiter scopes `StateInline.push` opens and closes around link text (`_prev_delimiters`, `tokens_meta`), and the second rule
chain over all scopes (`balance_pairs.link_pairs`, the `postProcess` loops over `tokens_meta`)

The rule re-enters the engine twice: `skipToken` runs the whole chain in silent mode (one level deeper), and a matched link runs
`tokenize` on its label.  As for the block containers the knot is tied with a depth budget: `linkChain … (d+1)` holds a link rule whose
inner chain is `linkChain … d`; rules are only dispatched at `level < maxNesting`, every re-entry raises the level, so a budget of
`maxNesting + 1` is never exhausted.

A delimiter list is shared by reference in the code (`token_meta = {"delimiters": self.delimiters}` while the list is still being
appended to); here the list of a scope is recorded when the scope closes (`metas`: index of the opening token ↦ its final list) —
nothing can be appended to it afterwards, and `balance_pairs` runs after tokenization.
-/
namespace MdIt

/-- what the link rule reads outside the inline state: `env["references"]`, `normalizeReference` (Unicode case folding is the
    interpreter's), the `store_labels` option -/
structure LExt where
  hasRefs : Bool
  normRef : List Char → List Char
  refs : List Char → Option (List Char × List Char)
  storeLabels : Bool

/-! ### `replaceEntityPattern`, `unescapeAll` -/

def allDigits (base : Nat) (l : List Char) : Bool := l.all (fun c => match digitVal c with | some d => decide (d < base) | none => false)

/-- `replaceEntityPattern(match, name)`; `whole` is the matched text `&name;` -/
def replaceEntity (ext : IExt) (name whole : List Char) : List Char :=
  match ext.entity name with
  | some v => v
  | none =>
    let code : Option Nat :=
      match name with
      | '#' :: rest =>
        if 1 ≤ rest.length ∧ rest.length ≤ 8 ∧ allDigits 10 rest = true then
          (match parseIntBase 10 rest 0 with | .ok n => some n | .error _ => none)
        else match rest with
          | x :: hex =>
            if (x == 'x' || x == 'X') && decide (1 ≤ hex.length) && decide (hex.length ≤ 8) && allDigits 16 hex then
              (match parseIntBase 16 hex 0 with | .ok n => some n | .error _ => none)
            else none
          | [] => none
      | _ => none
    match code with
    | some n => if isValidEntityCode n then [Char.ofNat n] else whole
    | none => whole

def unescapeAllX (ext : IExt) (s : List Char) : List Char := unescapeAll (replaceEntity ext) s

/-! ### `parseLinkDestination`, `parseLinkTitle` -/

/-- `<…>` form: position after `>` and the raw text between, or `none` -/
def destAngle (src : List Char) (max : Nat) : Nat → Nat → Option Nat
  | 0, _ => none
  | fuel + 1, pos =>
    if pos < max then
      match src[pos]? with
      | none => destAngle src max fuel (pos + 1)            -- `charCodeAt` gives None: no branch taken
      | some c =>
        if c == '\n' then none
        else if c == '<' then none
        else if c == '>' then some pos
        else if c == '\\' && decide (pos + 1 < max) then destAngle src max fuel (pos + 2)
        else destAngle src max fuel (pos + 1)
    else none

/-- bare form: `(end position, balanced?)`; `none` = more than 32 open parentheses -/
def destBare (src : List Char) (max : Nat) : Nat → Nat → Nat → Option (Nat × Nat)
  | 0, pos, level => some (pos, level)
  | fuel + 1, pos, level =>
    if pos < max then
      match src[pos]? with
      | none => some (pos, level)
      | some c =>
        if c == ' ' then some (pos, level)
        else if c.toNat < 0x20 || c.toNat == 0x7F then some (pos, level)
        else if c == '\\' && decide (pos + 1 < max) then
          if src[pos + 1]? == some ' ' then some (pos, level) else destBare src max fuel (pos + 2) level
        else if c == '(' then
          if level + 1 > 32 then none else destBare src max fuel (pos + 1) (level + 1)
        else if c == ')' then
          if level == 0 then some (pos, level) else destBare src max fuel (pos + 1) (level - 1)
        else destBare src max fuel (pos + 1) level
    else some (pos, level)

/-- `parseLinkDestination(string, pos, maximum)`: `(pos, str)` when `ok` -/
def parseLinkDestination (ext : IExt) (src : List Char) (pos max : Nat) : Option (Nat × List Char) :=
  if src[pos]? == some '<' then
    match destAngle src max (max - pos + 1) (pos + 1) with
    | some e => some (e + 1, unescapeAllX ext ((src.take e).drop (pos + 1)))
    | none => none
  else
    match destBare src max (max - pos + 1) pos 0 with
    | none => none
    | some (e, level) =>
      if e == pos then none else if level != 0 then none
      else some (e, unescapeAllX ext ((src.take e).drop pos))

def titleScan (src : List Char) (max : Nat) (marker : Char) : Nat → Nat → Option Nat
  | 0, _ => none
  | fuel + 1, pos =>
    if pos < max then
      match src[pos]? with
      | none => titleScan src max marker fuel (pos + 1)
      | some c =>
        if c == marker then some pos
        else if c == '(' && marker == ')' then none
        else if c == '\\' && decide (pos + 1 < max) then titleScan src max marker fuel (pos + 2)
        else titleScan src max marker fuel (pos + 1)
    else none

/-- `parseLinkTitle(string, pos, maximum)`: `(pos, str)` when `ok` -/
def parseLinkTitle (ext : IExt) (src : List Char) (pos max : Nat) : Option (Nat × List Char) :=
  if pos ≥ max then none else
  match src[pos]? with
  | none => none
  | some m =>
    if !(m == '"' || m == '\'' || m == '(') then none else
    let marker := if m == '(' then ')' else m
    match titleScan src max marker (max - pos + 1) (pos + 1) with
    | some e => some (e + 1, unescapeAllX ext ((src.take e).drop (pos + 1)))
    | none => none

/-! ### `skipToken`, `parseLinkLabel` -/

def cacheGet (c : List (Nat × Nat)) (k : Nat) : Option Nat := (c.find? (·.1 == k)).map (·.2)

/-- the `for rule in rules` loop of `skipToken`: every rule in silent mode, one level down -/
def runSilent : List IRule → IState → Except PyErr (Bool × IState)
  | [], s => .ok (false, s)
  | r :: rest, s =>
    match r { s with level := s.level + 1 } true with
    | .error e => .error e
    | .ok (ok, s') =>
      let s'' := { s' with level := s'.level - 1 }
      if ok then .ok (true, s'') else runSilent rest s''

/-- `ParserInline.skipToken(state)` -/
def skipToken (chain : List IRule) (mn : Int) (s : IState) : Except PyErr IState :=
  match cacheGet s.cache s.pos with
  | some p => .ok { s with pos := p }
  | none =>
    let pos0 := s.pos
    let r : Except PyErr (Bool × IState) :=
      if s.level < mn then runSilent chain s else .ok (false, { s with pos := s.posMax })
    match r with
    | .error e => .error e
    | .ok (ok, s1) =>
      let s2 := if ok then s1 else { s1 with pos := s1.pos + 1 }
      .ok { s2 with cache := (pos0, s2.pos) :: s2.cache }

/-- the `while state.pos < state.posMax` loop of `parseLinkLabel`: `labelEnd` (or −1) and the state (caches as the silent calls
    left them; `pos` is restored by the caller) -/
def labelLoop (chain : List IRule) (mn : Int) (disableNested : Bool) : Nat → Nat → IState → Except PyErr (Int × IState)
  | 0, _, _ => .error (.noProgress "parseLinkLabel")
  | fuel + 1, level, s =>
    if s.pos < s.posMax then
      match s.src[s.pos]? with
      | none => .error .indexError
      | some marker =>
        if marker == ']' && level == 1 then .ok ((s.pos : Int), s) else
        let level1 := if marker == ']' then level - 1 else level
        match skipToken chain mn s with
        | .error e => .error e
        | .ok s' =>
          if s'.pos ≤ s.pos then .error (.noProgress "parseLinkLabel") else       -- the real loop would spin
          if marker == '[' then
            if s.pos + 1 == s'.pos then labelLoop chain mn disableNested fuel (level1 + 1) s'
            else if disableNested then .ok (-1, s')
            else labelLoop chain mn disableNested fuel level1 s'
          else labelLoop chain mn disableNested fuel level1 s'
    else .ok (-1, s)

/-- `parseLinkLabel(state, start, disableNested)` -/
def parseLinkLabel (chain : List IRule) (mn : Int) (s : IState) (start : Nat) (disableNested : Bool) : Except PyErr (Int × IState) :=
  match labelLoop chain mn disableNested (s.posMax - start + 1) 1 { s with pos := start + 1 } with
  | .error e => .error e
  | .ok (r, s') => .ok (r, { s' with pos := s.pos })

/-! ### delimiter scopes -/

/-- `state.push(type, tag, 1)` + `token.attrs = …` + `token.meta = …`: a new delimiter scope opens -/
def IState.pushOpen (s : IState) (type tag : String) (attrs : List (String × AttrVal)) (metaD : List (String × String)) : IState :=
  let s1 := s.pushA type tag 1 attrs "" "" ""
  let idx := s1.tokens.length - 1
  { s1 with tokens := s1.tokens.modify idx (fun t => match t with
              | .mk ty tg n a m l c co mu i _ b h => .mk ty tg n a m l c co mu i metaD b h),
            scopes := s1.delimiters :: s1.scopes, openAt := idx :: s1.openAt, delimiters := [] }

/-- `state.push(type, tag, -1)`: the scope closes, its delimiter list is final -/
def IState.pushClose (s : IState) (type tag : String) : Except PyErr IState :=
  let s0 := if s.pending.isEmpty then s else s.pushPending
  match s0.scopes, s0.openAt with
  | outer :: rest, i :: is =>
    .ok (({ s0 with metas := (i, s0.delimiters) :: s0.metas, delimiters := outer, scopes := rest, openAt := is }).push type tag (-1) "" "" "")
  | _, _ => .error .indexError

def skipBlanksNl (src : List Char) (max : Nat) : Nat → Nat → Nat
  | 0, pos => pos
  | fuel + 1, pos => if pos < max then (match src[pos]? with
      | some c => if isBlank c || c == '\n' then skipBlanksNl src max fuel (pos + 1) else pos
      | none => pos) else pos

/-- `ParserInline.tokenize` as the link rule calls it on the label: `rules` at the current level, then back -/
def innerTokenize (rules : List IRule) (mn : Int) (s : IState) : Except PyErr IState :=
  match tokenizeLoop rules mn s.posMax (s.posMax - s.pos + 1) false s with
  | .error e => .error e
  | .ok s' => .ok (if s'.pending.isEmpty then s' else s'.pushPending)

/-- destination and optional title from `p1` on: `(pos, href, title)` -/
def linkDestTitle (ext : IExt) (s : IState) (maximum p1 : Nat) : Nat × List Char × List Char :=
  match parseLinkDestination ext s.src p1 s.posMax with
  | some (dpos, dstr) =>
    let ok := validateLink (ext.normLink dstr)
    let p2 := if ok then dpos else p1
    let href := if ok then ext.normLink dstr else []
    let p3 := skipBlanksNl s.src maximum (maximum - p2) p2
    match parseLinkTitle ext s.src p3 s.posMax with
    | some (tpos, tstr) =>
      if p3 < maximum && p2 != p3 then (skipBlanksNl s.src maximum (maximum - tpos) tpos, href, tstr)
      else (p3, href, [])
    | none => (p3, href, [])
  | none => (p1, [], [])

/-- the inline form `( dest "title" )` after the label: `(pos, href, title, parseReference)`, or `none` for "return False" -/
def linkInline (ext : IExt) (s : IState) (labelEnd maximum : Nat) : Option (Nat × List Char × List Char × Bool) :=
  let pos0 := labelEnd + 1
  if pos0 < maximum && s.src[pos0]? == some '(' then
    let p1 := skipBlanksNl s.src maximum (maximum - pos0) (pos0 + 1)
    if p1 ≥ maximum then none else
    let r := linkDestTitle ext s maximum p1
    let bad := decide (r.1 ≥ maximum) || !(s.src[r.1]? == some ')')
    some (r.1 + 1, r.2.1, r.2.2, bad)
  else some (pos0, [], [], true)

/-- the second label of the reference form `[text][label]`: `(pos, label, state)` -/
def linkSecondLabel (mn : Int) (inner : List IRule) (s : IState) (labelEnd maximum pos1 : Nat) : Except PyErr (Nat × List Char × IState) :=
  if pos1 < maximum && s.src[pos1]? == some '[' then
    match parseLinkLabel inner mn s pos1 false with
    | .error e => .error e
    | .ok (e2, s2) =>
      if e2 ≥ 0 then .ok (e2.toNat + 1, (s2.src.take e2.toNat).drop (pos1 + 1), s2) else .ok (labelEnd + 1, [], s2)
  else .ok (labelEnd + 1, [], s)

/-- the reference form: the state (caches of a second label walk) and, if a link was found, `(pos, href, title, label)` -/
def linkRef (lx : LExt) (mn : Int) (inner : List IRule) (s : IState) (labelStart labelEnd maximum pos1 : Nat) :
    Except PyErr (IState × Option (Nat × List Char × List Char × List Char)) :=
  if !lx.hasRefs then .ok (s, none) else
  match linkSecondLabel mn inner s labelEnd maximum pos1 with
  | .error e => .error e
  | .ok (pos2, label, s2) =>
    let label := if label.isEmpty then (s2.src.take labelEnd).drop labelStart else label
    let label := lx.normRef label
    match lx.refs label with
    | none => .ok (s2, none)
    | some (h, t) => .ok (s2, some (pos2, h, t, label))

/-- the tokens of a matched link: opening token (a new delimiter scope), the label tokenized one level down, closing token -/
def linkEmit (lx : LExt) (mn : Int) (inner : List IRule) (s : IState) (labelStart labelEnd : Nat) (href title label : List Char) :
    Except PyErr IState :=
  let attrs : List (String × AttrVal) := [("href", .s (String.ofList href))]
    ++ (if title.isEmpty then [] else [("title", .s (String.ofList title))])
  let metaD : List (String × String) := if !label.isEmpty && lx.storeLabels then [("label", String.ofList label)] else []
  let s1 := ({ s with pos := labelStart, posMax := labelEnd }).pushOpen "link_open" "a" attrs metaD
  match innerTokenize inner mn { s1 with linkLevel := s1.linkLevel + 1 } with
  | .error e => .error e
  | .ok s2 => ({ s2 with linkLevel := s2.linkLevel - 1 }).pushClose "link_close" "a"

/-- `link(state, silent)`; `inner` is `ruler.getRules("")` for the silent walks and the nested run -/
def ruleLink (ext : IExt) (lx : LExt) (mn : Int) (inner : List IRule) : IRule := fun s silent =>
  match s.src[s.pos]? with
  | none => .error .indexError
  | some c0 =>
    if c0 != '[' then .ok (false, s) else
    let oldPos := s.pos
    let maximum := s.posMax
    let labelStart := s.pos + 1
    match parseLinkLabel inner mn s s.pos true with
    | .error e => .error e
    | .ok (labelEndI, s) =>
      if labelEndI < 0 then .ok (false, s) else
      let labelEnd := labelEndI.toNat
      match linkInline ext s labelEnd maximum with
      | none => .ok (false, s)
      | some (pos1, href1, title1, parseReference) =>
        let refE : Except PyErr (IState × Option (Nat × List Char × List Char × List Char)) :=
          if !parseReference then .ok (s, some (pos1, href1, title1, []))
          else linkRef lx mn inner s labelStart labelEnd maximum pos1
        match refE with
        | .error e => .error e
        | .ok (s, none) => .ok (false, { s with pos := oldPos })
        | .ok (s, some (pos, href, title, label)) =>
          if silent then .ok (true, { s with pos := pos, posMax := maximum }) else
          match linkEmit lx mn inner s labelStart labelEnd href title label with
          | .error e => .error e
          | .ok s3 => .ok (true, { s3 with pos := pos, posMax := maximum })

/-! ### the second chain over all scopes -/

/-- insertion by the index of the opening token -/
def insertMeta (p : Nat × List Delim) : List (Nat × List Delim) → List (Nat × List Delim)
  | [] => [p]
  | q :: rest => if p.1 ≤ q.1 then p :: q :: rest else q :: insertMeta p rest

/-- the closed scopes in token order (the order in which `tokens_meta` is walked) -/
def metasSorted (s : IState) : List (Nat × List Delim) := s.metas.foldr insertMeta []

/-- `balance_pairs.link_pairs` -/
def balancePairsL (s : IState) : IState :=
  { s with delimiters := processDelims s.delimiters, metas := s.metas.map (fun p => (p.1, processDelims p.2)) }

/-- `emphasis.postProcess`: the top-level list, then every scope in token order -/
def emphasisPostL (s : IState) : IState :=
  let go := fun (ts : List Tok) (ds : List Delim) => emphPostGo ds ds.length ((ds.length : Int) - 1) ts
  { s with tokens := (metasSorted s).foldl (fun ts p => go ts p.2) (go s.tokens s.delimiters) }

/-- `strikethrough.postProcess` likewise -/
def strikePostL (s : IState) : IState :=
  let go := fun (ts : List Tok) (ds : List Delim) =>
    let r := strikeMark ds ds.length 0 ts []
    strikeSwap r.2.reverse r.1
  { s with tokens := (metasSorted s).foldl (fun ts p => go ts p.2) (go s.tokens s.delimiters) }

end MdIt

namespace MdIt

/-- `ruler.getRules("")` of the inline parser restricted to the modelled rules (registration order: text, newline, escape,
    backticks, strikethrough, emphasis, link, autolink, html_inline, entity), with a depth budget for the re-entries of `link` -/
def linkChain (cls : QCls) (ext : IExt) (lx : LExt) (newline escape backticks strike emphasis link autolink htmlInline entity : Bool)
    (mn : Int) : Nat → List IRule
  | 0 => []
  | d + 1 =>
    [ruleText] ++ (if newline then [ruleNewline] else []) ++ (if escape then [ruleEscape] else [])
      ++ (if backticks then [ruleBackticks] else []) ++ (if strike then [ruleStrike cls] else [])
      ++ (if emphasis then [ruleEmphasis cls] else [])
      ++ (if link then [ruleLink ext lx mn (linkChain cls ext lx newline escape backticks strike emphasis link autolink htmlInline entity mn d)] else [])
      ++ (if autolink then [ruleAutolink ext] else []) ++ (if htmlInline then [ruleHtmlInline ext] else [])
      ++ (if entity then [ruleEntity ext] else [])

/-- the second chain before `fragments_join`, over all delimiter scopes -/
def linkPost (strike emphasis : Bool) : List (IState → IState) :=
  (if strike || emphasis then [balancePairsL] else []) ++ (if strike then [strikePostL] else []) ++ (if emphasis then [emphasisPostL] else [])

end MdIt
