import MdIt.Basic
/-!
# MdIt.Verbatim — what ends up verbatim in tokens: `StateBlock.getLines` (per line), code span content
(`rules_inline/backticks.py`), thematic break markup (`rules_block/hr.py`)
-/
namespace MdIt

/-- the `while first < last and lineIndent < indent` loop of `getLines` on one line.
    `chars` = `src[bMarks : last]`, `i` = `first - lineStart`; returns what is left and the indent reached -/
def cutGo (tShift bs indent : Nat) : List Char → Nat → Nat → List Char × Nat
  | [], _, li => ([], li)
  | c :: cs, i, li =>
    if li < indent then
      if c = '\t' then cutGo tShift bs indent cs (i + 1) (li + (4 - (li + bs) % 4))
      else if c = ' ' then cutGo tShift bs indent cs (i + 1) (li + 1)
      else if i < tShift then cutGo tShift bs indent cs (i + 1) (li + 1)
      else (c :: cs, li)
    else (c :: cs, li)

/-- one line of `getLines`: strip `indent` columns, re-pad a partially consumed tab -/
def cutLine (chars : List Char) (tShift bs indent : Nat) : List Char :=
  let r := cutGo tShift bs indent chars 0 0
  (if r.2 > indent then List.replicate (r.2 - indent) ' ' else []) ++ r.1

/-- `getLines(begin, end, indent, keepLastLF)`: the lines are given with what `src[bMarks:last]` holds
    (the line feed included for all but possibly the last) -/
def getLinesOf (indent : Nat) (lines : List (List Char × Nat × Nat)) : List Char :=
  lines.flatMap (fun l => cutLine l.1 l.2.1 l.2.2 indent)

/-- code span content: line endings become spaces; one space is stripped from each side when both
    are present and the text is not all spaces -/
def codeSpanContent (inner : List Char) : List Char :=
  let c := inner.map (fun ch => if ch = '\n' then ' ' else ch)
  if c.head? = some ' ' ∧ c.getLast? = some ' ' ∧ c.any (· ≠ ' ') then (c.drop 1).dropLast else c

/-- `hr`: scan of the line text after the first marker; `none` = not a thematic break -/
def hrCount (marker : Char) : List Char → Nat → Option Nat
  | [], cnt => some cnt
  | ch :: rest, cnt =>
    if ch ≠ marker ∧ ¬ (ch = ' ' ∨ ch = '\t') then none
    else hrCount marker rest (if ch = marker then cnt + 1 else cnt)

/-- markup of the `hr` token for a line text (after indentation), `none` if the rule does not match -/
def hrMarkup (text : List Char) : Option (List Char) :=
  match text with
  | [] => none
  | m :: rest =>
    if m = '*' ∨ m = '-' ∨ m = '_' then
      match hrCount m rest 1 with
      | some cnt => if cnt < 3 then none else some (List.replicate cnt m)
      | none => none
    else none

end MdIt
