import MdIt.Basic
/-!
# MdIt.Ruler — model of `markdown_it/ruler.py` (class `Ruler`) and of the rule-management
façade of `markdown_it/main.py` (`MarkdownIt.enable/disable/get_active_rules/...`).

A rule function is represented by a natural number (its identity); the harness maps every Python
function object to such an id.  Every mutator is transcribed *including the position of the cache
invalidation and the mid-loop `KeyError`*: the state after a failed call is the partially applied
one, exactly as in the code.
-/
namespace MdIt

structure Rule where
  name : String
  enabled : Bool
  fn : Nat
  alt : List String
deriving Repr, DecidableEq

/-- compiled cache: chain name ↦ list of fns (Python: `dict[str, list[fn]]`). -/
abbrev Cache := List (String × List Nat)

structure Ruler where
  rules : List Rule
  cache : Option Cache
deriving Repr

/-- The specification: enabled rules, in registration order, filtered by chain membership. -/
def chainOf (rules : List Rule) (chain : String) : List Nat :=
  (rules.filter (fun r => r.enabled && (chain == "" || r.alt.contains chain))).map (·.fn)

/-- all chain names: "" plus every alt of an enabled rule (dict keys; order irrelevant) -/
def chainNames (rules : List Rule) : List String :=
  "" :: (rules.filter (·.enabled)).flatMap (·.alt)

/-- `Ruler.__compile__` -/
def compile (rules : List Rule) : Cache :=
  (chainNames rules).map (fun c => (c, chainOf rules c))

/-- `cache.get(chain, []) or []` -/
def lookup (c : Cache) (chain : String) : List Nat :=
  match c.find? (fun p => p.1 == chain) with
  | some p => p.2
  | none => []

/-- `Ruler.__find__` : index of the first rule with this name -/
def findRule (rules : List Rule) (name : String) : Option Nat :=
  rules.findIdx? (fun x => x.name == name)

def Ruler.empty : Ruler := { rules := [], cache := none }

/-- `Ruler.getRules` -/
def Ruler.getRules (r : Ruler) (chain : String) : Ruler × List Nat :=
  match r.cache with
  | some c => (r, lookup c chain)
  | none =>
    let c := compile r.rules
    ({ r with cache := some c }, lookup c chain)

/-- `Ruler.push` -/
def Ruler.push (r : Ruler) (name : String) (fn : Nat) (alt : List String) : Ruler :=
  { rules := r.rules ++ [⟨name, true, fn, alt⟩], cache := none }

/-- `Ruler.at` : replace fn and alt of the named rule; unknown name raises and changes nothing -/
def Ruler.at (r : Ruler) (name : String) (fn : Nat) (alt : List String) : Ruler × Except PyErr Unit :=
  match findRule r.rules name with
  | none => (r, .error (.keyError name))
  | some i => ({ rules := r.rules.modify i (fun x => { x with fn := fn, alt := alt }), cache := none }, .ok ())

/-- Python `list.insert(i, x)` for `0 ≤ i` -/
def insertAt {α} (l : List α) (i : Nat) (x : α) : List α := l.take i ++ x :: l.drop i

/-- `Ruler.before` -/
def Ruler.before (r : Ruler) (beforeName name : String) (fn : Nat) (alt : List String) :
    Ruler × Except PyErr Unit :=
  match findRule r.rules beforeName with
  | none => (r, .error (.keyError beforeName))
  | some i => ({ rules := insertAt r.rules i ⟨name, true, fn, alt⟩, cache := none }, .ok ())

/-- `Ruler.after` -/
def Ruler.after (r : Ruler) (afterName name : String) (fn : Nat) (alt : List String) :
    Ruler × Except PyErr Unit :=
  match findRule r.rules afterName with
  | none => (r, .error (.keyError afterName))
  | some i => ({ rules := insertAt r.rules (i + 1) ⟨name, true, fn, alt⟩, cache := none }, .ok ())

def setEnabled (rules : List Rule) (i : Nat) (b : Bool) : List Rule :=
  rules.modify i (fun x => { x with enabled := b })

/-- The loop of `Ruler.enable` / `Ruler.disable`: mutates rule by rule and raises mid-way.
    Returns the rules as they are when the loop is left (normally or by the raise). -/
def enableLoop (b : Bool) (ignoreInvalid : Bool) :
    List String → List Rule → List String → (List Rule × Except PyErr (List String))
  | [], rules, acc => (rules, .ok acc.reverse)
  | n :: ns, rules, acc =>
    match findRule rules n with
    | none => if ignoreInvalid then enableLoop b ignoreInvalid ns rules acc
              else (rules, .error (.keyError n))
    | some i => enableLoop b ignoreInvalid ns (setEnabled rules i b) (n :: acc)

/-- `Ruler.enable` (the cache is invalidated before the loop, so also when the loop raises) -/
def Ruler.enable (r : Ruler) (names : List String) (ign : Bool) : Ruler × Except PyErr (List String) :=
  let (rules', res) := enableLoop true ign names r.rules []
  ({ rules := rules', cache := none }, res)

/-- `Ruler.disable` -/
def Ruler.disable (r : Ruler) (names : List String) (ign : Bool) : Ruler × Except PyErr (List String) :=
  let (rules', res) := enableLoop false ign names r.rules []
  ({ rules := rules', cache := none }, res)

/-- `Ruler.enableOnly` -/
def Ruler.enableOnly (r : Ruler) (names : List String) (ign : Bool) : Ruler × Except PyErr (List String) :=
  let r1 : Ruler := { rules := r.rules.map (fun x => { x with enabled := false }), cache := none }
  r1.enable names ign

/-- `enable`/`disable` with a *lazy* `names` iterable: before it yields its k-th name the iterable may
    run arbitrary code — here a `getRules(chain)` on the same ruler (a re-entrant parse).  The cache is
    dropped before the loop, may be recompiled from half-updated flags inside it, and is dropped again
    after it (the trailing `self.__cache__ = None`). -/
def enableLoopLazy (b : Bool) (ignoreInvalid : Bool) :
    List (Option String × String) → Ruler → List String → (Ruler × Except PyErr (List String))
  | [], r, acc => (r, .ok acc.reverse)
  | (cb, n) :: ns, r, acc =>
    let r1 := match cb with
      | some chain => (r.getRules chain).1
      | none => r
    match findRule r1.rules n with
    | none => if ignoreInvalid then enableLoopLazy b ignoreInvalid ns r1 acc
              else (r1, .error (.keyError n))
    | some i => enableLoopLazy b ignoreInvalid ns { r1 with rules := setEnabled r1.rules i b } (n :: acc)

/-- `Ruler.enable(lazy_names)` / `Ruler.disable(lazy_names)`.  When the loop raises, the trailing
    invalidation is skipped: the cache is whatever the loop left. -/
def Ruler.setLazy (r : Ruler) (b : Bool) (names : List (Option String × String)) (ign : Bool) :
    Ruler × Except PyErr (List String) :=
  let (r', res) := enableLoopLazy b ign names { r with cache := none } []
  match res with
  | .ok l => ({ r' with cache := none }, .ok l)
  | .error e => (r', .error e)

def Ruler.allRules (r : Ruler) : List String := r.rules.map (·.name)
def Ruler.activeRules (r : Ruler) : List String := (r.rules.filter (·.enabled)).map (·.name)

/-! ## Operation histories -/

inductive ROp where
  | push (name : String) (fn : Nat) (alt : List String)
  | at (name : String) (fn : Nat) (alt : List String)
  | before (ref name : String) (fn : Nat) (alt : List String)
  | after (ref name : String) (fn : Nat) (alt : List String)
  | enable (names : List String) (ign : Bool)
  | enableOnly (names : List String) (ign : Bool)
  | disable (names : List String) (ign : Bool)
  | getRules (chain : String)
  | setLazy (b : Bool) (names : List (Option String × String))   -- lazy iterable, `ignoreInvalid=True`
deriving Repr

inductive ROut where
  | unit
  | names (l : List String)
  | fns (l : List Nat)
  | err (e : PyErr)
deriving Repr, DecidableEq

def outU : Except PyErr Unit → ROut
  | .ok _ => .unit
  | .error e => .err e
def outL : Except PyErr (List String) → ROut
  | .ok l => .names l
  | .error e => .err e

def Ruler.step (r : Ruler) : ROp → Ruler × ROut
  | .push n f a => (r.push n f a, .unit)
  | .at n f a => let (r', o) := r.at n f a; (r', outU o)
  | .before b n f a => let (r', o) := r.before b n f a; (r', outU o)
  | .after b n f a => let (r', o) := r.after b n f a; (r', outU o)
  | .enable ns ig => let (r', o) := r.enable ns ig; (r', outL o)
  | .enableOnly ns ig => let (r', o) := r.enableOnly ns ig; (r', outL o)
  | .disable ns ig => let (r', o) := r.disable ns ig; (r', outL o)
  | .getRules c => let (r', o) := r.getRules c; (r', .fns o)
  | .setLazy b ns => let (r', o) := r.setLazy b ns true; (r', outL o)

def Ruler.run (r : Ruler) : List ROp → Ruler
  | [] => r
  | op :: ops => (r.step op).1.run ops

/-! ## The façade: four rulers behind `MarkdownIt.enable/disable/reset_rules` -/

structure Rulers where
  core : Ruler
  block : Ruler
  inline : Ruler
  inline2 : Ruler
deriving Repr

def okNames : Except PyErr (List String) → List String
  | .ok l => l
  | .error _ => []

/-- `MarkdownIt.enable` / `MarkdownIt.disable` (b = true / false): fan out with
    `ignoreInvalid=True`, then report the names no ruler knew. -/
def Rulers.setMany (m : Rulers) (b : Bool) (names : List String) (ign : Bool) :
    Rulers × Except PyErr Unit :=
  let f (r : Ruler) := if b then r.enable names true else r.disable names true
  let (c, rc) := f m.core
  let (bl, rb) := f m.block
  let (i, ri) := f m.inline
  let (i2, ri2) := f m.inline2
  let result := okNames rc ++ okNames rb ++ okNames ri ++ okNames ri2
  let missed := names.filter (fun n => !result.contains n)
  let m' : Rulers := ⟨c, bl, i, i2⟩
  (m', if !missed.isEmpty && !ign then .error (.valueError "unknown rule(s)") else .ok ())

structure Active where
  core : List String
  block : List String
  inline : List String
  inline2 : List String
deriving Repr, DecidableEq

/-- `MarkdownIt.get_active_rules` -/
def Rulers.active (m : Rulers) : Active :=
  ⟨m.core.activeRules, m.block.activeRules, m.inline.activeRules, m.inline2.activeRules⟩

/-- the `finally` part of `MarkdownIt.reset_rules`: `enableOnly` the snapshot on every ruler.
    (`enableOnly(rules)` with `ignoreInvalid=False`: a snapshot name that no longer exists raises.) -/
def Rulers.restore (m : Rulers) (a : Active) : Rulers × Except PyErr Unit :=
  let (c, rc) := m.core.enableOnly a.core false
  match rc with
  | .error e => ({ m with core := c }, .error e)
  | .ok _ =>
  let (bl, rb) := m.block.enableOnly a.block false
  match rb with
  | .error e => ({ m with core := c, block := bl }, .error e)
  | .ok _ =>
  let (i, ri) := m.inline.enableOnly a.inline false
  match ri with
  | .error e => ({ m with core := c, block := bl, inline := i }, .error e)
  | .ok _ =>
  let (i2, ri2) := m.inline2.enableOnly a.inline2 false
  match ri2 with
  | .error e => (⟨c, bl, i, i2⟩, .error e)
  | .ok _ => (⟨c, bl, i, i2⟩, .ok ())

end MdIt
