import MdIt.Basic
/-!
# MdIt.Token — model of `markdown_it/token.py`: `Token`, `as_dict`, `from_dict`, `convert_attrs`

Python values that occur in token dictionaries are modelled by `Val`.  `Token.attrs` is a Python
`dict` (insertion ordered, distinct keys): an association list whose keys are distinct (`Tok.WF`).
-/
namespace MdIt

/-- attribute values: `str | int | float` (floats are carried by their repr; the library never
    computes with them) -/
inductive AttrVal where
  | s (v : String)
  | i (v : Int)
  | f (repr : String)
deriving Repr, DecidableEq

inductive Tok where
  | mk (type tag : String) (nesting : Int) (attrs : List (String × AttrVal)) (map : Option (Nat × Nat))
       (level : Int) (children : Option (List Tok)) (content markup info : String)
       (metaD : List (String × String)) (block hidden : Bool)
deriving Repr

namespace Tok
def type : Tok → String | mk t _ _ _ _ _ _ _ _ _ _ _ _ => t
def tag : Tok → String | mk _ t _ _ _ _ _ _ _ _ _ _ _ => t
def nesting : Tok → Int | mk _ _ n _ _ _ _ _ _ _ _ _ _ => n
def attrs : Tok → List (String × AttrVal) | mk _ _ _ a _ _ _ _ _ _ _ _ _ => a
def map : Tok → Option (Nat × Nat) | mk _ _ _ _ m _ _ _ _ _ _ _ _ => m
def level : Tok → Int | mk _ _ _ _ _ l _ _ _ _ _ _ _ => l
def children : Tok → Option (List Tok) | mk _ _ _ _ _ _ c _ _ _ _ _ _ => c
def content : Tok → String | mk _ _ _ _ _ _ _ c _ _ _ _ _ => c
def markup : Tok → String | mk _ _ _ _ _ _ _ _ m _ _ _ _ => m
def info : Tok → String | mk _ _ _ _ _ _ _ _ _ i _ _ _ => i
def metaD : Tok → List (String × String) | mk _ _ _ _ _ _ _ _ _ _ m _ _ => m
def block : Tok → Bool | mk _ _ _ _ _ _ _ _ _ _ _ b _ => b
def hidden : Tok → Bool | mk _ _ _ _ _ _ _ _ _ _ _ _ h => h
end Tok

/-- the three shapes `attrs` can have in a dictionary: `None`, `[[k, v], …]` (upstream format),
    or a dict -/
inductive AttrsRepr where
  | none
  | pairs (l : List (String × AttrVal))
  | dict (l : List (String × AttrVal))
deriving Repr, DecidableEq

/-- the dictionary `as_dict` returns (its thirteen keys), or — only as an element of a `children`
    list — a `Token` object left unconverted (`children=False`) -/
inductive TD where
  | tok (t : Tok)
  | mk (type tag : String) (nesting : Int) (attrs : AttrsRepr) (map : Option (Nat × Nat))
       (level : Int) (children : Option (List TD)) (content markup info : String)
       (metaD : List (String × String)) (block hidden : Bool)
deriving Repr

/-- `dict(list_of_pairs)`: a later pair with the same key overwrites the value in place -/
def dictOfPairs {β} : List (String × β) → List (String × β) → List (String × β)
  | acc, [] => acc
  | acc, (k, v) :: rest =>
    if acc.any (·.1 == k) then dictOfPairs (acc.map (fun p => if p.1 == k then (k, v) else p)) rest
    else dictOfPairs (acc ++ [(k, v)]) rest

mutual
  /-- `Token.as_dict(children=ch, as_upstream=up)` with the default serializer/filter/factory -/
  def asDict (up ch : Bool) : Tok → TD
    | .mk type tag nesting attrs map level children content markup info metaD block hidden =>
      .mk type tag nesting
        (if up then (if attrs.isEmpty then .none else .pairs attrs) else .dict attrs)
        map level (asDictOpt up ch children) content markup info metaD block hidden
  /-- the `children` entry: `None` and `[]` are falsy and left as they are -/
  def asDictOpt (up ch : Bool) : Option (List Tok) → Option (List TD)
    | none => none
    | some cs => some (asDictList up ch cs)
  def asDictList (up ch : Bool) : List Tok → List TD
    | [] => []
    | t :: ts => (if ch then asDict up ch t else .tok t) :: asDictList up ch ts
end

/-- `convert_attrs` (run by `__post_init__`): falsy → `{}`; list of pairs → `dict(value)`; dict stays -/
def convertAttrs : AttrsRepr → List (String × AttrVal)
  | .none => []
  | .pairs l => dictOfPairs [] l
  | .dict d => d

mutual
  /-- `Token.from_dict` : `cls(**dct)`, then children that are not tokens already are converted.
      (`cls(**token_object)` is a `TypeError`.) -/
  def fromDict : TD → Except PyErr Tok
    | .tok _ => .error .typeError
    | .mk type tag nesting attrs map level children content markup info metaD block hidden =>
      match fromDictOpt children with
      | .ok cs => .ok (.mk type tag nesting (convertAttrs attrs) map level cs content markup info metaD block hidden)
      | .error e => .error e
  def fromDictOpt : Option (List TD) → Except PyErr (Option (List Tok))
    | none => .ok none
    | some l =>
      match fromDictList l with
      | .ok cs => .ok (some cs)
      | .error e => .error e
  def fromDictList : List TD → Except PyErr (List Tok)
    | [] => .ok []
    | .tok t :: rest =>                                   -- `c if isinstance(c, cls)`
      match fromDictList rest with
      | .ok r => .ok (t :: r)
      | .error e => .error e
    | .mk a b c d e f g h i j k l m :: rest =>
      match fromDict (.mk a b c d e f g h i j k l m) with
      | .error e => .error e
      | .ok t =>
        match fromDictList rest with
        | .ok r => .ok (t :: r)
        | .error e => .error e
end

mutual
  /-- attrs/meta are Python dicts: keys distinct, recursively -/
  def Tok.WF : Tok → Prop
    | .mk _ _ _ attrs _ _ children _ _ _ metaD _ _ =>
      (attrs.map (·.1)).Nodup ∧ (metaD.map (·.1)).Nodup ∧ Tok.WFOpt children
  def Tok.WFOpt : Option (List Tok) → Prop
    | none => True
    | some cs => Tok.WFList cs
  def Tok.WFList : List Tok → Prop
    | [] => True
    | t :: ts => t.WF ∧ Tok.WFList ts
end

end MdIt
