import MdIt.Emphasis
import MdIt.Url
import MdIt.Generated.Regex
/-!
# MdIt.InlineLeaf — the inline rules `entity`, `autolink`, `html_inline` (`rules_inline/*.py`)

Their regular expressions are the T1-translated pattern objects (`MdIt/Generated/Regex.lean`), run by `Rx.ends` in Python's
backtracking order.  What lies outside `/repo` is a parameter (`IExt`): the html5 entity table of the interpreter, `mdurl`'s
parse/format with the punycode step (`normalizeLink u = encode (reformat u)`, `encode` and `validateLink` are modelled),
`normalizeLinkText`, and the `html` option.
-/
namespace MdIt

structure IExt where
  /-- `entities.get(name)` (`html.entities.html5`, names without `&` and `;`) -/
  entity : List Char → Option (List Char)
  /-- `mdurl.format(mdurl.parse(url))` with the host punycoded where `normalizeLink` does it -/
  reformat : List Char → List Char
  /-- `md.normalizeLinkText` -/
  normText : List Char → List Char
  /-- `md.options.html` -/
  html : Bool

/-- `md.normalizeLink` -/
def IExt.normLink (ext : IExt) (u : List Char) : List Char := encode (ext.reformat u)

/-- `common/utils.py: isValidEntityCode` -/
def isValidEntityCode (c : Nat) : Bool :=
  !(decide (0xD800 ≤ c) && decide (c ≤ 0xDFFF)) && !(decide (0xFDD0 ≤ c) && decide (c ≤ 0xFDEF))
    && !(c % 0x10000 == 0xFFFF || c % 0x10000 == 0xFFFE)
    && !decide (c ≤ 0x08) && !(c == 0x0B) && !(decide (0x0E ≤ c) && decide (c ≤ 0x1F))
    && !(decide (0x7F ≤ c) && decide (c ≤ 0x9F)) && !decide (c > 0x10FFFF)

def digitVal (c : Char) : Option Nat :=
  let n := c.toNat
  if 48 ≤ n ∧ n ≤ 57 then some (n - 48)
  else if 97 ≤ n ∧ n ≤ 102 then some (n - 87)
  else if 65 ≤ n ∧ n ≤ 70 then some (n - 55)
  else none

/-- `int(s, base)` on ASCII digits; anything else is Python's `ValueError` -/
def parseIntBase (base : Nat) : List Char → Nat → Except PyErr Nat
  | [], acc => .ok acc
  | c :: rest, acc =>
    match digitVal c with
    | some d => if d < base then parseIntBase base rest (acc * base + d) else .error (.valueError "int")
    | none => .error (.valueError "int")

/-- `int(match1[1:], 16) if match1[0].lower() == "x" else int(match1, 10)` -/
def entityCode (g1 : List Char) : Except PyErr Nat :=
  match g1 with
  | [] => .error .indexError
  | c :: h => if c == 'x' || c == 'X' then parseIntBase 16 h 0 else parseIntBase 10 g1 0

def Tok.setAttrs' (t : Tok) (a : List (String × AttrVal)) : Tok :=
  match t with
  | .mk ty tag n _ m l c co mu i md b h => .mk ty tag n a m l c co mu i md b h

/-- `state.push(...)` followed by `token.attrs = {...}` -/
def IState.pushA (s : IState) (type tag : String) (nesting : Int) (attrs : List (String × AttrVal))
    (content markup info : String) : IState :=
  let s1 := s.push type tag nesting content markup info
  { s1 with tokens := s1.tokens.modify (s1.tokens.length - 1) (fun t => t.setAttrs' attrs) }

/-- `rules_inline/entity.py` -/
def ruleEntity (ext : IExt) : IRule := fun s silent =>
  match s.src[s.pos]? with
  | none => .error .indexError
  | some c =>
    if c != '&' then .ok (false, s) else
    if s.pos + 1 ≥ s.posMax then .ok (false, s) else
    match s.src[s.pos + 1]? with
    | none => .error .indexError
    | some c1 =>
      let rest := s.src.drop s.pos                      -- `state.src[pos:]` (not cut at `posMax`)
      if c1 == '#' then
        match Gen.digitalRe.matchLen rest with
        | none => .ok (false, s)
        | some n =>
          if silent then .ok (true, { s with pos := s.pos + n }) else
          match entityCode ((rest.take (n - 1)).drop 2) with   -- `match.group(1)`: between `&#` and `;`
          | .error e => .error e
          | .ok code =>
            let ch := if isValidEntityCode code then Char.ofNat code else Char.ofNat 0xFFFD
            let s1 := s.push "text_special" "" 0 (String.singleton ch) (String.ofList (rest.take n)) "entity"
            .ok (true, { s1 with pos := s.pos + n })
      else
        match Gen.namedRe.matchLen rest with
        | none => .ok (false, s)
        | some n =>
          match ext.entity ((rest.take (n - 1)).drop 1) with       -- `match.group(1) in entities`
          | none => .ok (false, s)
          | some v =>
            let s1 := if silent then s else
              s.push "text_special" "" 0 (String.ofList v) (String.ofList (rest.take n)) "entity"
            .ok (true, { s1 with pos := s.pos + n })

/-- the `while True` scan of `autolink` for the closing `>`: its position, or `none` for "no autolink here" -/
def autolinkScan (src : List Char) (max : Nat) : Nat → Nat → Except PyErr (Option Nat)
  | 0, _ => .ok none
  | fuel + 1, pos =>
    let pos := pos + 1
    if pos ≥ max then .ok none else
    match src[pos]? with
    | none => .error .indexError
    | some ch =>
      if ch == '<' then .ok none
      else if ch == '>' then .ok (some pos)
      else autolinkScan src max fuel pos

/-- the three tokens of an autolink -/
def autolinkPush (ext : IExt) (s : IState) (href url : List Char) : IState :=
  let s1 := s.pushA "link_open" "a" 1 [("href", .s (String.ofList href))] "" "autolink" "auto"
  let s2 := s1.push "text" "" 0 (String.ofList (ext.normText url)) "" ""
  s2.push "link_close" "a" (-1) "" "autolink" "auto"

/-- `rules_inline/autolink.py` -/
def ruleAutolink (ext : IExt) : IRule := fun s silent =>
  match s.src[s.pos]? with
  | none => .error .indexError
  | some c =>
    if c != '<' then .ok (false, s) else
    match autolinkScan s.src s.posMax (s.posMax - s.pos + 1) s.pos with
    | .error e => .error e
    | .ok none => .ok (false, s)
    | .ok (some close) =>
      let url := (s.src.take close).drop (s.pos + 1)
      if Gen.autolinkRe.search url then
        let full := ext.normLink url
        if !validateLink full then .ok (false, s) else
        let s1 := if silent then s else autolinkPush ext s full url
        .ok (true, { s1 with pos := s.pos + url.length + 2 })
      else if Gen.emailRe.search url then
        let full := ext.normLink ("mailto:".toList ++ url)
        if !validateLink full then .ok (false, s) else
        let s1 := if silent then s else autolinkPush ext s full url
        .ok (true, { s1 with pos := s.pos + url.length + 2 })
      else .ok (false, s)

def isLetterAscii (c : Char) : Bool := ('a' ≤ c && c ≤ 'z') || ('A' ≤ c && c ≤ 'Z')

/-- `rules_inline/html_inline.py`; `isLetter(ord(ch))` is `(ch | 0x20) in a..z` on the code point -/
def ruleHtmlInline (ext : IExt) : IRule := fun s silent =>
  if !ext.html then .ok (false, s) else
  match s.src[s.pos]? with
  | none => .error .indexError
  | some c =>
    if c != '<' || decide (s.pos + 2 ≥ s.posMax) then .ok (false, s) else
    match s.src[s.pos + 1]? with
    | none => .error .indexError
    | some ch =>
      let lc := ch.toNat ||| 0x20
      if !(ch == '!' || ch == '?' || ch == '/') && !(decide (0x61 ≤ lc) && decide (lc ≤ 0x7A)) then .ok (false, s) else
      let rest := s.src.drop s.pos
      match Gen.htmlTagRe.matchLen rest with
      | none => .ok (false, s)
      | some n =>
        let content := rest.take n
        let s1 := if silent then s else
          let s0 := s.push "html_inline" "" 0 (String.ofList content) "" ""
          let lv1 := if Gen.linkOpenRe.search content then s0.linkLevel + 1 else s0.linkLevel
          let lv2 := if Gen.linkCloseRe.search content then lv1 - 1 else lv1
          { s0 with linkLevel := lv2 }
        .ok (true, { s1 with pos := s.pos + n })

end MdIt
