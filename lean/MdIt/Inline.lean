import MdIt.Core
import MdIt.Verbatim
import MdIt.Delims
import MdIt.Generated.Tables
/-!
# MdIt.Inline — the inline tokenizer engine (`parser_inline.py`, `rules_inline/state_inline.py`) and the
rules `text`, `newline`, `escape`, `backticks` (`rules_inline/*.py`), `fragments_join`

The engine is generic in the rule chain: a rule is a function `IState → Bool → Except PyErr (Bool × IState)`
(`silent` flag, match result, new state).  Python's unbounded `while` is well-founded recursion on
fuel; a rule that reports a match without advancing `pos` makes the real loop spin forever — the
model returns `.error (.noProgress "inline")` for it, so "never hangs" is a statement about values.
-/
namespace MdIt

structure IState where
  src : List Char
  pos : Nat
  posMax : Nat
  level : Int
  pending : List Char
  pendingLevel : Int
  tokens : List Tok
  delims : Nat                 -- number of emphasis-like delimiters recorded so far (0 ⇒ ruler2 has nothing to do)
  backticks : List (Nat × Nat) := []     -- `state.backticks`: run length ↦ last position seen (a dict: the first entry for a key counts)
  backticksScanned : Bool := false       -- `state.backticksScanned`
  delimiters : List Delim := []          -- `state.delimiters` (one list: no rule of the modelled chains opens a nested scope)
  linkLevel : Int := 0                   -- `state.linkLevel` (written by `html_inline`; read by `linkify` only)
  cache : List (Nat × Nat) := []         -- `state.cache`: position memo of `skipToken` (the first entry for a key counts)
  scopes : List (List Delim) := []       -- `state._prev_delimiters`: the delimiter lists of the enclosing scopes
  openAt : List Nat := []                -- token index of the opening token of each open scope (innermost first)
  metas : List (Nat × List Delim) := []  -- closed scopes: index of the opening token ↦ its delimiter list (`tokens_meta`)
deriving Repr

def IState.init (src : List Char) : IState :=
  { src := src, pos := 0, posMax := src.length, level := 0, pending := [], pendingLevel := 0, tokens := [], delims := 0 }

def mkInlineTok (type tag : String) (nesting level : Int) (content markup info : String) : Tok :=
  .mk type tag nesting [] none level none content markup info [] false false

/-- `StateInline.pushPending` -/
def IState.pushPending (s : IState) : IState :=
  { s with tokens := s.tokens ++ [mkInlineTok "text" "" 0 s.pendingLevel (String.ofList s.pending) "" ""], pending := [] }

/-- `StateInline.push` followed by the assignments of `content`, `markup`, `info` every rule makes
    right after it -/
def IState.push (s : IState) (type tag : String) (nesting : Int) (content markup info : String) : IState :=
  let s1 := if s.pending.isEmpty then s else s.pushPending
  let lvl := if nesting < 0 then s1.level - 1 else s1.level
  let lvl' := if nesting > 0 then lvl + 1 else lvl
  { s1 with tokens := s1.tokens ++ [mkInlineTok type tag nesting lvl content markup info],
            level := lvl', pendingLevel := lvl' }

abbrev IRule := IState → Bool → Except PyErr (Bool × IState)

def isBlank (c : Char) : Bool := c == ' ' || c == '\t'

def isTerminator (c : Char) : Bool := Gen.terminatorChars.contains c.toNat

/-- where the `text` rule stops: the next terminator character in `src` (searched without regard to
    `posMax`, as the regex search does), or `posMax` if there is none -/
def textEnd (s : IState) : Nat :=
  match (s.src.drop s.pos).findIdx? isTerminator with
  | some j => s.pos + j
  | none => s.posMax

/-- `rules_inline/text.py` : skip to the next terminator character -/
def ruleText : IRule := fun s silent =>
  if textEnd s == s.pos then .ok (false, s)
  else .ok (true, { s with pending := if silent then s.pending else s.pending ++ (s.src.take (textEnd s)).drop s.pos,
                           pos := textEnd s })

def skipBlanks (src : List Char) (pos max : Nat) : Nat → Nat
  | 0 => pos
  | fuel + 1 => if pos < max then (match src[pos]? with
      | some c => if isBlank c then skipBlanks src (pos + 1) max fuel else pos
      | none => pos) else pos

/-- number of trailing spaces to strip for a hard break: `ws` of the rule -/
def trailingSpaces (p : List Char) : Nat := (p.reverse.takeWhile (· == ' ')).length

/-- `rules_inline/newline.py` -/
def ruleNewline : IRule := fun s silent =>
  match s.src[s.pos]? with
  | none => .error .indexError
  | some c =>
    if c != '\n' then .ok (false, s) else
    let s1 : IState :=
      if silent then s else
        let n := trailingSpaces s.pending
        if n ≥ 2 then ({ s with pending := s.pending.take (s.pending.length - n) }).push "hardbreak" "br" 0 "" "" ""
        else if n = 1 then ({ s with pending := s.pending.dropLast }).push "softbreak" "br" 0 "" "" ""
        else s.push "softbreak" "br" 0 "" "" ""
    .ok (true, { s1 with pos := skipBlanks s.src (s.pos + 1) s.posMax (s.posMax - s.pos) })

/-- `rules_inline/escape.py` (scalar values only: the surrogate-pair branch is unreachable) -/
def ruleEscape : IRule := fun s silent =>
  match s.src[s.pos]? with
  | none => .error .indexError
  | some c =>
    if c != '\\' then .ok (false, s) else
    let pos := s.pos + 1
    if pos ≥ s.posMax then .ok (false, s) else
    match s.src[pos]? with
    | none => .error .indexError
    | some ch1 =>
      if ch1 == '\n' then
        let s1 := if silent then s else s.push "hardbreak" "br" 0 "" "" ""
        .ok (true, { s1 with pos := skipBlanks s.src (pos + 1) s.posMax (s.posMax - pos) })
      else
        let orig := String.ofList ['\\', ch1]
        let s1 := if silent then s else
          s.push "text_special" "" 0 (if Gen.escaped.contains ch1.toNat then String.singleton ch1 else orig) orig "escape"
        .ok (true, { s1 with pos := pos + 1 })

/-! ### `backticks` -/

/-- `dict.get(k, 0)` -/
def btGet (d : List (Nat × Nat)) (k : Nat) : Nat :=
  match d.find? (·.1 == k) with
  | some p => p.2
  | none => 0

/-- `d[k] = v` -/
def btSet (d : List (Nat × Nat)) (k v : Nat) : List (Nat × Nat) := (k, v) :: d.filter (·.1 != k)

/-- `while pos < maximum and src[pos] == "`": pos += 1` -/
def btRun (src : List Char) (max : Nat) : Nat → Nat → Nat
  | 0, pos => pos
  | fuel + 1, pos => if pos < max then (match src[pos]? with
      | some c => if c == '`' then btRun src max fuel (pos + 1) else pos
      | none => pos) else pos

/-- `src.index("`", from)` — over the whole source, not only up to `posMax` -/
def btFind (src : List Char) (from_ : Nat) : Option Nat :=
  match (src.drop from_).findIdx? (· == '`') with
  | some j => some (from_ + j)
  | none => none

/-- the `while True` search for a closing run of the opener's length: the closer found (`matchStart`, `matchEnd`) and the
    cache as the loop leaves it (it is written in silent mode too) -/
def btScan (src : List Char) (max openerLength : Nat) : Nat → Nat → List (Nat × Nat) → Option (Nat × Nat) × List (Nat × Nat)
  | 0, _, bt => (none, bt)
  | fuel + 1, matchEnd, bt =>
    match btFind src matchEnd with
    | none => (none, bt)
    | some matchStart =>
      let matchEnd' := btRun src max (max - matchStart) (matchStart + 1)
      let closerLength := matchEnd' - matchStart
      if closerLength == openerLength then (some (matchStart, matchEnd'), bt)
      else btScan src max openerLength fuel matchEnd' (btSet bt closerLength matchStart)

/-- `rules_inline/backticks.py` -/
def ruleBackticks : IRule := fun s silent =>
  match s.src[s.pos]? with
  | none => .error .indexError
  | some c =>
    if c != '`' then .ok (false, s) else
    let start := s.pos
    let pos := btRun s.src s.posMax (s.posMax - start) (start + 1)
    let openerLength := pos - start
    let marker := (s.src.take pos).drop start
    if s.backticksScanned && decide (btGet s.backticks openerLength ≤ start) then
      .ok (true, { s with pending := if silent then s.pending else s.pending ++ marker, pos := s.pos + openerLength })
    else
      match btScan s.src s.posMax openerLength (s.src.length - pos + 1) pos s.backticks with
      | (some (matchStart, matchEnd), bt) =>
        let s0 := { s with backticks := bt }
        let s1 := if silent then s0 else
          s0.push "code_inline" "code" 0 (String.ofList (codeSpanContent ((s.src.take matchStart).drop pos))) (String.ofList marker) ""
        .ok (true, { s1 with pos := matchEnd })
      | (none, bt) =>
        .ok (true, { s with backticks := bt, backticksScanned := true,
                            pending := if silent then s.pending else s.pending ++ marker, pos := s.pos + openerLength })

/-- run the chain at the current position until a rule matches -/
def runChain : List IRule → IState → Except PyErr (Bool × IState)
  | [], s => .ok (false, s)
  | r :: rest, s =>
    match r s false with
    | .error e => .error e
    | .ok (true, s') => .ok (true, s')
    | .ok (false, s') => runChain rest s'

/-- `ParserInline.tokenize` -/
def tokenizeLoop (rules : List IRule) (maxNesting : Int) (end_ : Nat) : Nat → Bool → IState → Except PyErr IState
  | 0, _, s => if s.pos < end_ then .error (.noProgress "inline") else .ok s
  | fuel + 1, ok, s =>
    if s.pos < end_ then
      let step : Except PyErr (Bool × IState) :=
        if s.level < maxNesting then runChain rules s else .ok (ok, s)
      match step with
      | .error e => .error e
      | .ok (ok', s') =>
        if ok' then
          if s'.pos ≥ end_ then .ok s'
          else if s'.pos ≤ s.pos then .error (.noProgress "inline")     -- the real loop would spin
          else tokenizeLoop rules maxNesting end_ fuel ok' s'
        else
          match s'.src[s'.pos]? with
          | none => .error .indexError
          | some c => tokenizeLoop rules maxNesting end_ fuel ok' { s' with pending := s'.pending ++ [c], pos := s'.pos + 1 }
    else .ok s

def tokenize (rules : List IRule) (maxNesting : Int) (s : IState) : Except PyErr IState :=
  match tokenizeLoop rules maxNesting s.posMax (s.posMax - s.pos + 1) false s with
  | .error e => .error e
  | .ok s' => .ok (if s'.pending.isEmpty then s' else s'.pushPending)

def Tok.setLevel (t : Tok) (lvl : Int) : Tok :=
  match t with
  | .mk ty tag n a m _ c co mu i md b h => .mk ty tag n a m lvl c co mu i md b h

/-- `rules_inline/fragments_join.py` : levels recomputed from nestings, adjacent `text` merged -/
def fragmentsJoin (level : Int) : List Tok → List Tok
  | [] => []
  | [t] => [t.setLevel (if t.nesting < 0 then level - 1 else level)]
  | t :: n :: rest =>
    let lvl := if t.nesting < 0 then level - 1 else level
    let level' := if t.nesting > 0 then lvl + 1 else lvl
    if t.type == "text" && n.type == "text" then
      fragmentsJoin level' (n.setContent (t.content ++ n.content) :: rest)
    else t.setLevel lvl :: fragmentsJoin level' (n :: rest)
termination_by l => l.length

/-- `ParserInline.parse`: tokenize, then the `ruler2` chain; `post` are the rules before
    `fragments_join` (balance_pairs, strikethrough/emphasis post-processing) -/
def inlineParse (rules : List IRule) (post : List (IState → IState)) (fragJoin : Bool) (maxNesting : Int)
    (src : List Char) : Except PyErr (List Tok) :=
  match tokenize rules maxNesting (IState.init src) with
  | .error e => .error e
  | .ok s =>
    let s2 := post.foldl (fun acc f => f acc) s
    .ok (if fragJoin then fragmentsJoin 0 s2.tokens else s2.tokens)

end MdIt
