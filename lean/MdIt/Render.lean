import MdIt.Token
import MdIt.Instance
/-!
# MdIt.Render — model of `markdown_it/renderer.py` (`RendererHTML`) and `common/utils.escapeHtml`

The renderer is modelled as a function from tokens to *pieces* (tags with attribute lists, escaped
text, the renderer's own literal newlines, raw pass-through) and `render = flatten ∘ pieces`; the
flattened string is what T2 compares with the real HTML.  `unescapeAll(info).strip().split()` of the
fence rule is an external parameter (`Ext.fenceLang`): the theorems hold for every value of it.
-/
namespace MdIt

def replaceChar (c : Char) (by_ : List Char) (s : List Char) : List Char :=
  s.flatMap (fun x => if x = c then by_ else [x])

/-- Python: raw.replace("&","&amp;").replace("<","&lt;").replace(">","&gt;").replace('"',"&quot;") -/
def escapeHtml (s : List Char) : List Char :=
  replaceChar '"' "&quot;".toList (replaceChar '>' "&gt;".toList (replaceChar '<' "&lt;".toList
    (replaceChar '&' "&amp;".toList s)))

def escChar (x : Char) : List Char :=
  if x = '&' then "&amp;".toList else if x = '<' then "&lt;".toList
  else if x = '>' then "&gt;".toList else if x = '"' then "&quot;".toList else [x]

structure ROpts where
  xhtmlOut : Bool
  breaks : Bool
  langPrefix : List Char
deriving Repr, DecidableEq

structure Ext where
  /-- `unescapeAll(info).strip()` non-empty ⇒ `some (first whitespace-separated word)` -/
  fenceLang : Tok → Option (List Char)

inductive Piece where
  | tag (closing : Bool) (name : List Char) (attrs : List (List Char × List Char)) (slash : Bool)
  | text (raw : List Char)          -- input-derived characters: always emitted through `escapeHtml`
  | nl                              -- the renderer's own "\n"
  | raw (s : List Char)             -- html_block / html_inline pass-through
deriving Repr, DecidableEq

def attrValStr : AttrVal → List Char
  | .s v => v.toList
  | .i v => (toString v).toList
  | .f r => r.toList

/-- `RendererHTML.renderAttrs` as data -/
def attrsP (attrs : List (String × AttrVal)) : List (List Char × List Char) :=
  attrs.map (fun kv => (kv.1.toList, attrValStr kv.2))

def Piece.str : Piece → List Char
  | .tag closing name attrs slash =>
    (if closing then "</".toList else "<".toList) ++ name ++
    attrs.flatMap (fun kv => " ".toList ++ escapeHtml kv.1 ++ "=\"".toList ++ escapeHtml kv.2 ++ "\"".toList) ++
    (if slash then " /".toList else []) ++ ">".toList
  | .text r => escapeHtml r
  | .nl => ['\n']
  | .raw s => s

def flatten (ps : List Piece) : List Char := ps.flatMap Piece.str

/-- `RendererHTML.renderToken` -/
def renderTokenP (o : ROpts) (prev : Option Tok) (t : Tok) (next : Option Tok) : List Piece :=
  if t.hidden then [] else
  let lead : List Piece :=
    match prev with
    | some p => if t.block && t.nesting != -1 && p.hidden then [.nl] else []
    | none => []
  let needLf : Bool :=
    if t.block then
      (if t.nesting == 1 then
        match next with
        | some n => if n.type == "inline" || n.hidden then false
                    else if n.nesting == -1 && n.tag == t.tag then false else true
        | none => true
       else true)
    else false
  lead ++ [.tag (t.nesting == -1) t.tag.toList (attrsP t.attrs) (t.nesting == 0 && o.xhtmlOut)] ++
    (if needLf then [.nl] else [])

mutual
  /-- `RendererHTML.renderInlineAsText` -/
  def inlineAsText : Tok → List Char
    | .mk type _ _ _ _ _ children content _ _ _ _ _ =>
      if type == "text" then content.toList
      else if type == "image" then inlineAsTextOpt children
      else if type == "softbreak" then ['\n']
      else []
  def inlineAsTextOpt : Option (List Tok) → List Char
    | none => []
    | some cs => inlineAsTextList cs
  def inlineAsTextList : List Tok → List Char
    | [] => []
    | t :: ts => inlineAsText t ++ inlineAsTextList ts
end

/-- `token.attrSet("alt", …)` of the image rule (the only write the renderer makes to a token) -/
def setAlt (t : Tok) : Tok :=
  match t with
  | .mk type tag nesting attrs map level children content markup info metaD block hidden =>
    .mk type tag nesting (dictSet attrs "alt" (.s (String.ofList (inlineAsTextOpt children)))) map level children
      content markup info metaD block hidden

def br (o : ROpts) : List Piece := [.tag false "br".toList [] o.xhtmlOut, .nl]

/-- `Token.attrJoin("class", value)` on a copy of the attrs -/
def attrJoinClass (attrs : List (String × AttrVal)) (value : List Char) : Except PyErr (List (String × AttrVal)) :=
  match dictGet attrs "class" with
  | some (.s cur) => .ok (dictSet attrs "class" (.s (cur ++ " " ++ String.ofList value)))
  | some _ => .error .typeError
  | none => .ok (dictSet attrs "class" (.s (String.ofList value)))

/-- one token through `self.rules[type]` or `renderToken` (both `render` and `renderInline` do this) -/
def renderOne (x : Ext) (o : ROpts) (prev : Option Tok) (t : Tok) (next : Option Tok) : Except PyErr (List Piece) :=
  if t.type == "code_inline" then
    .ok [.tag false "code".toList (attrsP t.attrs) false, .text t.content.toList, .tag true "code".toList [] false]
  else if t.type == "code_block" then
    .ok [.tag false "pre".toList (attrsP t.attrs) false, .tag false "code".toList [] false, .text t.content.toList,
         .tag true "code".toList [] false, .tag true "pre".toList [] false, .nl]
  else if t.type == "fence" then
    match x.fenceLang t with
    | some lang =>
      match attrJoinClass t.attrs (o.langPrefix ++ lang) with
      | .error e => .error e
      | .ok a =>
        .ok [.tag false "pre".toList [] false, .tag false "code".toList (attrsP a) false, .text t.content.toList,
             .tag true "code".toList [] false, .tag true "pre".toList [] false, .nl]
    | none =>
      .ok [.tag false "pre".toList [] false, .tag false "code".toList (attrsP t.attrs) false, .text t.content.toList,
           .tag true "code".toList [] false, .tag true "pre".toList [] false, .nl]
  else if t.type == "image" then .ok (renderTokenP o prev (setAlt t) next)
  else if t.type == "hardbreak" then .ok (br o)
  else if t.type == "softbreak" then .ok (if o.breaks then br o else [.nl])
  else if t.type == "text" then .ok [.text t.content.toList]
  else if t.type == "html_block" || t.type == "html_inline" then .ok [.raw t.content.toList]
  else if t.type == "definition" then .ok []
  else .ok (renderTokenP o prev t next)

/-- `result += …` : the first error wins, otherwise the pieces are concatenated -/
def seqE (A B : Except PyErr (List Piece)) : Except PyErr (List Piece) :=
  match A with
  | .error e => .error e
  | .ok ps =>
    match B with
    | .error e => .error e
    | .ok qs => .ok (ps ++ qs)

/-- `RendererHTML.renderInline` (prev/next are the neighbours in the same list) -/
def renderInlineP (x : Ext) (o : ROpts) : Option Tok → List Tok → Except PyErr (List Piece)
  | _, [] => .ok []
  | prev, t :: rest => seqE (renderOne x o prev t rest.head?) (renderInlineP x o (some t) rest)

/-- `RendererHTML.render` -/
def renderP (x : Ext) (o : ROpts) : Option Tok → List Tok → Except PyErr (List Piece)
  | _, [] => .ok []
  | prev, t :: rest =>
    let here : Except PyErr (List Piece) :=
      if t.type == "inline" then
        match t.children with
        | some (c :: cs) => renderInlineP x o none (c :: cs)
        | _ => .ok []
      else renderOne x o prev t rest.head?
    seqE here (renderP x o (some t) rest)

def render (x : Ext) (o : ROpts) (ts : List Tok) : Except PyErr (List Char) :=
  match renderP x o none ts with
  | .ok ps => .ok (flatten ps)
  | .error e => .error e

/-- the tokens as the renderer leaves them: `alt` written on the image tokens it rendered
    (children of `inline` tokens at the top level, or images at the top level of `renderInline`) -/
def afterRenderInline (ts : List Tok) : List Tok := ts.map (fun t => if t.type == "image" then setAlt t else t)

def afterRender (ts : List Tok) : List Tok :=
  ts.map (fun t =>
    if t.type == "inline" then
      match t with
      | .mk type tag nesting attrs map level (some (c :: cs)) content markup info metaD block hidden =>
        .mk type tag nesting attrs map level (some (afterRenderInline (c :: cs))) content markup info metaD block hidden
      | other => other
    else if t.type == "image" then setAlt t else t)

end MdIt
