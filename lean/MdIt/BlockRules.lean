import MdIt.Block
import MdIt.Verbatim
import MdIt.Str
/-!
# MdIt.BlockRules — the line scan of `StateBlock.__init__` and the leaf block rules
`code`, `fence`, `hr`, `heading` and `paragraph` (`rules_block/*.py`), as `BRule`s

A line is modelled relative to itself: `BLine.text = src[bMarks[line] : eMarks[line]]`, `tShift`,
`sCount`, `bsCount`, and whether a line feed follows.  The scanning helpers of `StateBlock`
(`skipSpaces`, `skipCharsStr`, …) stop at the line feed (it is neither a blank nor a marker), so
every read these rules make stays inside the line's own text; where the real code would read one
position past it (`src[eMarks]`), the model distinguishes "line feed" from "end of source"
(`hasLF`) exactly as Python does (`'\n'` vs `IndexError`).

The rules do not re-enter the engine (no containers); `paragraph` runs its terminator chain in
silent mode and threads the state through it, as the shared mutable `state` does.
-/
namespace MdIt

def isSpaceTab (c : Char) : Bool := c == ' ' || c == '\t'

/-! ### `StateBlock.__init__`: the line tables -/

def mkLine (text : List Char) (indent offset : Nat) (lf : Bool) : BLine :=
  { sCount := offset, text := text, tShift := indent, bs := 0, hasLF := lf }

/-- the `for pos, character in enumerate(self.src)` loop; `cur` = characters of the current line so
    far.  Blanks at the very end of the source that follow the last line feed never reach the
    "emit a line" test (`continue`) and belong to no line. -/
def scanGo : List Char → List Char → Bool → Nat → Nat → List BLine
  | [], _, _, _, _ => []
  | c :: rest, cur, found, indent, offset =>
    if !found && isSpaceTab c then
      scanGo rest (cur ++ [c]) false (indent + 1) (if c == '\t' then offset + (4 - offset % 4) else offset + 1)
    else if c == '\n' then
      mkLine cur indent offset true :: scanGo rest [] false 0 0
    else if rest.isEmpty then
      [mkLine (cur ++ [c]) indent offset false]
    else scanGo rest (cur ++ [c]) true indent offset

def sentinelLine : BLine := { sCount := 0, text := [], tShift := 0, bs := 0, hasLF := false }

/-- the state `ParserBlock.parse` starts from -/
def initBState (src : List Char) : BState :=
  let ls := scanGo src [] false 0 0
  { lines := ls ++ [sentinelLine], line := 0, lineMax := ls.length, blkIndent := 0, level := 0, tight := false,
    parentType := "root", tokens := [] }

/-! ### helpers -/

/-- `state.xxx[line]` for a line index computed by the rule (always non-negative) -/
def getL (s : BState) (i : Nat) : Except PyErr BLine :=
  match s.lines[i]? with
  | some l => .ok l
  | none => .error .indexError

/-- `state.is_code_block(line)` -/
def isCodeLine (codeOn : Bool) (s : BState) (l : BLine) : Bool := codeOn && decide (l.sCount - s.blkIndent ≥ 4)

/-- the characters from `bMarks + tShift` to `eMarks` -/
def BLine.body (l : BLine) : List Char := l.text.drop l.tShift

/-- `getLines`' per-line cut with a Python `int` indent: a negative indent runs no loop and pads -/
def cutLineI (chars : List Char) (tShift bs : Nat) (indent : Int) : List Char :=
  if indent < 0 then List.replicate (-indent).toNat ' ' ++ chars else cutLine chars tShift bs indent.toNat

/-- the `while line < end` loop of `getLines` -/
def getLinesGo (s : BState) (end_ : Nat) (indent : Int) (keepLastLF : Bool) : Nat → Nat → List Char → Except PyErr (List Char)
  | 0, _, acc => .ok acc
  | n + 1, line, acc =>
    match getL s line with
    | .error e => .error e
    | .ok l =>
      let lf := (decide (line + 1 < end_) || keepLastLF) && l.hasLF
      getLinesGo s end_ indent keepLastLF n (line + 1) (acc ++ cutLineI (l.text ++ (if lf then ['\n'] else [])) l.tShift l.bs indent)

/-- `state.getLines(begin, end, indent, keepLastLF)` -/
def getLinesB (s : BState) (begin_ end_ : Nat) (indent : Int) (keepLastLF : Bool) : Except PyErr (List Char) :=
  getLinesGo s end_ indent keepLastLF (end_ - begin_) begin_ []

/-- Python `str.strip()`: the white space of `str.isspace` (table regenerated from the interpreter) -/
def pyStrip (ws : List Nat) (s : List Char) : List Char :=
  let isWs := fun (c : Char) => ws.contains c.toNat
  ((s.dropWhile isWs).reverse.dropWhile isWs).reverse

/-- a block token as `state.push` creates it, with the fields the rule assigns afterwards -/
def BState.pushFull (s : BState) (type tag : String) (nesting : Int) (map : Option (Nat × Nat))
    (children : Option (List Tok)) (content markup info : String) : BState :=
  let lvl := if nesting < 0 then s.level - 1 else s.level
  let t : Tok := .mk type tag nesting [] map lvl children content markup info [] true false
  { s with tokens := s.tokens ++ [t], level := if nesting > 0 then lvl + 1 else lvl }

/-! ### `code` -/

def codeScan (codeOn : Bool) (s : BState) (endLine : Nat) : Nat → Nat → Nat → Except PyErr Nat
  | 0, _, _ => .error (.noProgress "code")
  | fuel + 1, next, last =>
    if next < endLine then
      match getL s next with
      | .error e => .error e
      | .ok l =>
        if l.empty then codeScan codeOn s endLine fuel (next + 1) last
        else if isCodeLine codeOn s l then codeScan codeOn s endLine fuel (next + 1) (next + 1)
        else .ok last
    else .ok last

def ruleCode (codeOn : Bool) : BRule := fun s startLine endLine _ =>
  match getL s startLine with
  | .error e => .error e
  | .ok l0 =>
    if !isCodeLine codeOn s l0 then .ok (false, s) else
    match codeScan codeOn s endLine (endLine - startLine + 1) (startLine + 1) (startLine + 1) with
    | .error e => .error e
    | .ok last =>
      match getLinesB s startLine last (4 + s.blkIndent) false with
      | .error e => .error e
      | .ok c =>
        .ok (true, ({ s with line := last }).pushFull "code_block" "code" 0 (some (startLine, last)) none
                      (String.ofList (c ++ ['\n'])) "" "")

/-! ### `hr` -/

def ruleHr (codeOn : Bool) : BRule := fun s startLine _ silent =>
  match getL s startLine with
  | .error e => .error e
  | .ok l =>
    if isCodeLine codeOn s l then .ok (false, s) else
    match hrMarkup l.body with
    | none => .ok (false, s)
    | some mk =>
      if silent then .ok (true, s) else
      .ok (true, ({ s with line := startLine + 1 }).pushFull "hr" "hr" 0 (some (startLine, startLine + 1)) none
                    "" (String.ofList mk) "")

/-! ### `heading` (ATX) -/

def dropTrailing (p : Char → Bool) (l : List Char) : List Char := (l.reverse.dropWhile p).reverse

/-- after the opening run: `skipSpacesBack`, `skipCharsStrBack('#')`, and the "closing run must follow a blank" test -/
def headingBody (body : List Char) : List Char :=
  let b1 := dropTrailing isSpaceTab body
  let t := dropTrailing (· == '#') b1
  match t.getLast? with
  | some c => if isSpaceTab c then t else b1
  | none => b1

/-- after the opening run: end of line, or a blank -/
def headingSep : List Char → Bool
  | [] => true
  | ch :: _ => isSpaceTab ch

def ruleHeading (codeOn : Bool) (ws : List Nat) : BRule := fun s startLine _ silent =>
  match getL s startLine with
  | .error e => .error e
  | .ok l =>
    if isCodeLine codeOn s l then .ok (false, s) else
    match l.body with
    | [] => .ok (false, s)
    | c :: _ =>
      if c != '#' then .ok (false, s) else
      let k := (l.body.takeWhile (· == '#')).length
      -- the counting loop stops at level 7
      if k > 6 then .ok (false, s) else
      let after := l.body.drop k
      if !headingSep after then .ok (false, s) else
      if silent then .ok (true, s) else
      let content := pyStrip ws (headingBody after)
      let tag := "h" ++ toString k
      let mk := String.ofList (List.replicate k '#')
      let s1 := ({ s with line := startLine + 1 }).pushFull "heading_open" tag 1 (some (startLine, startLine + 1)) none "" mk ""
      let s2 := s1.pushFull "inline" "" 0 (some (startLine, startLine + 1)) (some []) (String.ofList content) "" ""
      .ok (true, s2.pushFull "heading_close" tag (-1) none none "" mk "")

/-! ### `fence` -/

/-- the search for the closing fence: returns `(nextLine, haveEndMarker)` -/
def fenceScan (codeOn : Bool) (s : BState) (endLine : Nat) (marker : Char) (len : Nat) : Nat → Nat → Except PyErr (Nat × Bool)
  | 0, _ => .error (.noProgress "fence")
  | fuel + 1, prev =>
    let next := prev + 1
    if next ≥ endLine then .ok (next, false) else
    match getL s next with
    | .error e => .error e
    | .ok l =>
      if !l.empty && decide (l.sCount < s.blkIndent) then .ok (next, false) else
      match l.body with
      | [] => if l.hasLF then fenceScan codeOn s endLine marker len fuel next else .ok (next, false)   -- `src[pos]`: '\n' / IndexError
      | c :: _ =>
        if c != marker then fenceScan codeOn s endLine marker len fuel next else
        if isCodeLine codeOn s l then fenceScan codeOn s endLine marker len fuel next else
        let run := (l.body.takeWhile (· == marker)).length
        if run < len then fenceScan codeOn s endLine marker len fuel next else
        if ((l.body.drop run).dropWhile isSpaceTab).isEmpty then .ok (next, true)
        else fenceScan codeOn s endLine marker len fuel next

def ruleFence (codeOn : Bool) : BRule := fun s startLine endLine silent =>
  match getL s startLine with
  | .error e => .error e
  | .ok l =>
    if isCodeLine codeOn s l then .ok (false, s) else
    if l.body.length < 3 then .ok (false, s) else
    match l.body with
    | [] => .ok (false, s)
    | marker :: _ =>
      if !(marker == '~' || marker == '`') then .ok (false, s) else
      let len := (l.body.takeWhile (· == marker)).length
      if len < 3 then .ok (false, s) else
      let params := l.body.drop len
      if marker == '`' && params.contains '`' then .ok (false, s) else
      if silent then .ok (true, s) else
      match fenceScan codeOn s endLine marker len (endLine - startLine + 1) startLine with
      | .error e => .error e
      | .ok (next, have_) =>
        match getLinesB s (startLine + 1) next l.sCount true with
        | .error e => .error e
        | .ok c =>
          let line' := next + (if have_ then 1 else 0)
          .ok (true, ({ s with line := line' }).pushFull "fence" "code" 0 (some (startLine, line')) none
                        (String.ofList c) (String.ofList (List.replicate len marker)) (String.ofList params))

/-! ### `paragraph` -/

/-- the terminator chain at one line (silent calls; the shared state is threaded through) -/
def runTerminators : List BRule → BState → Nat → Nat → Except PyErr (Bool × BState)
  | [], s, _, _ => .ok (false, s)
  | t :: ts, s, line, endLine =>
    match t s line endLine true with
    | .error e => .error e
    | .ok (true, s') => .ok (true, s')
    | .ok (false, s') => runTerminators ts s' line endLine

/-- the `while nextLine < endLine` loop of `paragraph` (`endLine` there is `state.lineMax`) -/
def paraScan (terms : List BRule) (endLine : Nat) : Nat → Nat → BState → Except PyErr (Nat × BState)
  | 0, _, _ => .error (.noProgress "paragraph")
  | fuel + 1, next, s =>
    if next < endLine then
      match getL s next with
      | .error e => .error e
      | .ok l =>
        if l.empty then .ok (next, s)
        else if l.sCount - s.blkIndent > 3 then paraScan terms endLine fuel (next + 1) s
        else if l.sCount < 0 then paraScan terms endLine fuel (next + 1) s
        else
          match runTerminators terms s next endLine with
          | .error e => .error e
          | .ok (true, s') => .ok (next, s')
          | .ok (false, s') => paraScan terms endLine fuel (next + 1) s'
    else .ok (next, s)

def ruleParagraph (terms : List BRule) (ws : List Nat) : BRule := fun s startLine _ _ =>
  let endLine := s.lineMax
  let old := s.parentType
  match paraScan terms endLine (endLine - startLine + 1) (startLine + 1) { s with parentType := "paragraph" } with
  | .error e => .error e
  | .ok (next, s1) =>
    match getLinesB s1 startLine next s1.blkIndent false with
    | .error e => .error e
    | .ok c =>
      let content := pyStrip ws c
      let s2 := ({ s1 with line := next }).pushFull "paragraph_open" "p" 1 (some (startLine, next)) none "" "" ""
      let s3 := s2.pushFull "inline" "" 0 (some (startLine, next)) (some []) (String.ofList content) "" ""
      let s4 := s3.pushFull "paragraph_close" "p" (-1) none none "" "" ""
      .ok (true, { s4 with parentType := old })

/-! ### the chain of a configuration -/

/-- which of the four optional leaf rules are enabled (`paragraph` always is: "supported" configurations) -/
structure MiniCfg where
  code : Bool
  fence : Bool
  hr : Bool
  heading : Bool
deriving Repr, DecidableEq

/-- `ruler.getRules("paragraph")` restricted to the modelled rules: fence, hr, heading (in registration order) -/
def miniTerminators (c : MiniCfg) (ws : List Nat) : List BRule :=
  (if c.fence then [ruleFence c.code] else []) ++ (if c.hr then [ruleHr c.code] else [])
    ++ (if c.heading then [ruleHeading c.code ws] else [])

/-- `ruler.getRules("")`: code, fence, hr, heading, paragraph (registration order of `parser_block._rules`) -/
def miniChain (c : MiniCfg) (ws : List Nat) : List BRule :=
  (if c.code then [ruleCode c.code] else []) ++ (if c.fence then [ruleFence c.code] else [])
    ++ (if c.hr then [ruleHr c.code] else []) ++ (if c.heading then [ruleHeading c.code ws] else [])
    ++ [ruleParagraph (miniTerminators c ws) ws]

/-- `normalize` + `block` of the core chain for such a configuration: the block tokens of a source -/
def miniParse (c : MiniCfg) (ws : List Nat) (maxNesting : Int) (src : List Char) : Except PyErr (List Tok) :=
  let s := initBState (normalize src)
  if src.isEmpty then .ok [] else
  match blockTokenize (miniChain c ws) maxNesting s 0 s.lineMax with
  | .ok s' => .ok s'.tokens
  | .error e => .error e

end MdIt
