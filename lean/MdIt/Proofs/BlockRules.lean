import MdIt.BlockRules
/-!
# Lemmas about the modelled leaf block rules: their scans are total and bounded, their pushes keep the
frame — the ingredients of `RuleOK` / `MapOK` for `code`, `fence`, `hr`, `heading`, `paragraph`.
-/
namespace MdIt

theorem getL_ok (s : BState) (i : Nat) (h : i < s.lines.length) : ∃ l, getL s i = .ok l ∧ s.lines[i]? = some l := by
  unfold getL
  cases hq : s.lines[i]? with
  | none => rw [List.getElem?_eq_none_iff] at hq; omega
  | some l => exact ⟨l, rfl, rfl⟩

theorem getL_of_here {s : BState} {i : Nat} {l : BLine} (h : s.lines[i]? = some l) : getL s i = .ok l := by
  unfold getL; rw [h]

/-! ### `pushFull` -/

@[simp] theorem pushFull_lines (s : BState) (a b : String) (n : Int) (m c d e f) : (s.pushFull a b n m c d e f).lines = s.lines := rfl
@[simp] theorem pushFull_lineMax (s : BState) (a b : String) (n : Int) (m c d e f) : (s.pushFull a b n m c d e f).lineMax = s.lineMax := rfl
@[simp] theorem pushFull_blkIndent (s : BState) (a b : String) (n : Int) (m c d e f) : (s.pushFull a b n m c d e f).blkIndent = s.blkIndent := rfl
@[simp] theorem pushFull_line (s : BState) (a b : String) (n : Int) (m c d e f) : (s.pushFull a b n m c d e f).line = s.line := rfl
@[simp] theorem pushFull_parentType (s : BState) (a b : String) (n : Int) (m c d e f) : (s.pushFull a b n m c d e f).parentType = s.parentType := rfl

theorem pushFull_level0 (s : BState) (a b : String) (m c d e f) : (s.pushFull a b 0 m c d e f).level = s.level := by
  simp [BState.pushFull]
theorem pushFull_level_open (s : BState) (a b : String) (m c d e f) : (s.pushFull a b 1 m c d e f).level = s.level + 1 := by
  simp [BState.pushFull]
theorem pushFull_level_close (s : BState) (a b : String) (m c d e f) : (s.pushFull a b (-1) m c d e f).level = s.level - 1 := by
  simp [BState.pushFull]

/-- the token a `pushFull` appends -/
def pushedTok (s : BState) (type tag : String) (nesting : Int) (map : Option (Nat × Nat)) (children : Option (List Tok))
    (content markup info : String) : Tok :=
  .mk type tag nesting [] map (if nesting < 0 then s.level - 1 else s.level) children content markup info [] true false

theorem pushFull_tokens (s : BState) (a b : String) (n : Int) (m c d e f) :
    (s.pushFull a b n m c d e f).tokens = s.tokens ++ [pushedTok s a b n m c d e f] := rfl

@[simp] theorem pushedTok_map (s : BState) (a b : String) (n : Int) (m c d e f) : (pushedTok s a b n m c d e f).map = m := rfl

/-! ### `getLines` -/

theorem getLinesGo_ok (s : BState) (end_ : Nat) (indent : Int) (keep : Bool) :
    ∀ (n line : Nat) (acc : List Char), line + n ≤ s.lines.length → ∃ c, getLinesGo s end_ indent keep n line acc = .ok c := by
  intro n
  induction n with
  | zero => intro line acc _; exact ⟨acc, rfl⟩
  | succ k ih =>
    intro line acc h
    obtain ⟨l, hl, _⟩ := getL_ok s line (by omega)
    simp only [getLinesGo, hl]
    exact ih (line + 1) _ (by omega)

theorem getLinesB_ok (s : BState) (b e : Nat) (indent : Int) (keep : Bool) (h : e ≤ s.lines.length) :
    ∃ c, getLinesB s b e indent keep = .ok c := by
  unfold getLinesB
  by_cases hbe : b ≤ e
  · exact getLinesGo_ok s e indent keep (e - b) b [] (by omega)
  · have : e - b = 0 := by omega
    rw [this]; exact ⟨[], rfl⟩

/-! ### `code` -/

theorem codeScan_ok (codeOn : Bool) (s : BState) (endLine : Nat) (hlen : endLine < s.lines.length) :
    ∀ (fuel next last : Nat), endLine - next < fuel → last ≤ endLine → last ≤ next →
      ∃ r, codeScan codeOn s endLine fuel next last = .ok r ∧ last ≤ r ∧ r ≤ endLine := by
  intro fuel
  induction fuel with
  | zero => intro next last h; omega
  | succ n ih =>
    intro next last hf hl hln
    simp only [codeScan]
    split
    · rename_i hlt
      obtain ⟨l, hg, _⟩ := getL_ok s next (by omega)
      simp only [hg]
      split
      · exact ih (next + 1) last (by omega) hl (by omega)
      · split
        · obtain ⟨r, h1, h2, h3⟩ := ih (next + 1) (next + 1) (by omega) (by omega) (Nat.le_refl _)
          exact ⟨r, h1, by omega, h3⟩
        · exact ⟨last, rfl, Nat.le_refl _, hl⟩
    · exact ⟨last, rfl, Nat.le_refl _, hl⟩

/-! ### `fence` -/

theorem fenceScan_ok (codeOn : Bool) (s : BState) (endLine : Nat) (marker : Char) (len : Nat) (hlen : endLine < s.lines.length) :
    ∀ (fuel prev : Nat), endLine - prev ≤ fuel → prev < endLine →
      ∃ next b, fenceScan codeOn s endLine marker len fuel prev = .ok (next, b) ∧ prev < next ∧ next ≤ endLine
        ∧ (b = true → next < endLine) := by
  intro fuel
  induction fuel with
  | zero => intro prev h1 h2; omega
  | succ n ih =>
    intro prev hf hp
    simp only [fenceScan]
    split
    · rename_i hge
      exact ⟨prev + 1, false, rfl, by omega, by omega, by simp⟩
    · rename_i hnge
      have hlt : prev + 1 < endLine := by omega
      obtain ⟨l, hg, _⟩ := getL_ok s (prev + 1) (by omega)
      simp only [hg]
      have hrec := ih (prev + 1) (by omega) hlt
      have recOK : ∃ next b, fenceScan codeOn s endLine marker len n (prev + 1) = .ok (next, b) ∧ prev < next ∧ next ≤ endLine
          ∧ (b = true → next < endLine) := by
        obtain ⟨nx, b, h1, h2, h3, h4⟩ := hrec
        exact ⟨nx, b, h1, by omega, h3, h4⟩
      have stop : ∃ next b, (Except.ok (prev + 1, false) : Except PyErr (Nat × Bool)) = .ok (next, b) ∧ prev < next ∧ next ≤ endLine
          ∧ (b = true → next < endLine) := ⟨prev + 1, false, rfl, by omega, by omega, by simp⟩
      split
      · exact stop
      · split
        · split
          · exact recOK
          · exact stop
        · split
          · exact recOK
          · split
            · exact recOK
            · split
              · exact recOK
              · split
                · exact ⟨prev + 1, true, rfl, by omega, by omega, fun _ => hlt⟩
                · exact recOK

/-! ### `paragraph` -/

/-- a rule that, called in silent mode on a line of the tables, answers without touching the state -/
def SilentInert (t : BRule) : Prop :=
  ∀ s line endLine, line < s.lines.length → ∃ b, t s line endLine true = .ok (b, s)

theorem runTerminators_inert (ts : List BRule) (h : ∀ t ∈ ts, SilentInert t) (s : BState) (line endLine : Nat)
    (hl : line < s.lines.length) : ∃ b, runTerminators ts s line endLine = .ok (b, s) := by
  induction ts with
  | nil => exact ⟨false, rfl⟩
  | cons t rest ih =>
    obtain ⟨b, hb⟩ := h t (by simp) s line endLine hl
    simp only [runTerminators, hb]
    cases b with
    | true => exact ⟨true, rfl⟩
    | false => exact ih (fun q hq => h q (by simp [hq]))

theorem paraScan_ok (ts : List BRule) (h : ∀ t ∈ ts, SilentInert t) (s : BState) (endLine : Nat) (hlen : endLine < s.lines.length) :
    ∀ (fuel next : Nat), endLine - next < fuel → next ≤ endLine →
      ∃ r, paraScan ts endLine fuel next s = .ok (r, s) ∧ next ≤ r ∧ r ≤ endLine := by
  intro fuel
  induction fuel with
  | zero => intro next h1; omega
  | succ n ih =>
    intro next hf hle
    simp only [paraScan]
    split
    · rename_i hlt
      obtain ⟨l, hg, _⟩ := getL_ok s next (by omega)
      simp only [hg]
      have hrec : ∃ r, paraScan ts endLine n (next + 1) s = .ok (r, s) ∧ next ≤ r ∧ r ≤ endLine := by
        obtain ⟨r, h1, h2, h3⟩ := ih (next + 1) (by omega) (by omega)
        exact ⟨r, h1, by omega, h3⟩
      split
      · exact ⟨next, rfl, Nat.le_refl _, hle⟩
      · split
        · exact hrec
        · split
          · exact hrec
          · obtain ⟨b, hb⟩ := runTerminators_inert ts h s next endLine (by omega)
            simp only [hb]
            cases b with
            | true => exact ⟨next, rfl, Nat.le_refl _, hle⟩
            | false => exact hrec
    · exact ⟨next, rfl, Nat.le_refl _, hle⟩

/-! ### the three terminators are inert in silent mode -/

theorem hr_inert (codeOn : Bool) : SilentInert (ruleHr codeOn) := by
  intro s line endLine hl
  obtain ⟨l, hg, _⟩ := getL_ok s line hl
  simp only [ruleHr, hg]
  repeat' split
  all_goals first | exact ⟨_, rfl⟩ | simp_all

theorem heading_inert (codeOn : Bool) (ws : List Nat) : SilentInert (ruleHeading codeOn ws) := by
  intro s line endLine hl
  obtain ⟨l, hg, _⟩ := getL_ok s line hl
  simp only [ruleHeading, hg]
  repeat' split
  all_goals first | exact ⟨_, rfl⟩ | simp_all

theorem fence_inert (codeOn : Bool) : SilentInert (ruleFence codeOn) := by
  intro s line endLine hl
  obtain ⟨l, hg, _⟩ := getL_ok s line hl
  simp only [ruleFence, hg]
  repeat' split
  all_goals first | exact ⟨_, rfl⟩ | simp_all

theorem miniTerminators_inert (c : MiniCfg) (ws : List Nat) : ∀ t ∈ miniTerminators c ws, SilentInert t := by
  intro t ht
  simp only [miniTerminators, List.mem_append] at ht
  rcases ht with (ht | ht) | ht
  · split at ht
    · simp at ht; subst ht; exact fence_inert _
    · cases ht
  · split at ht
    · simp at ht; subst ht; exact hr_inert _
    · cases ht
  · split at ht
    · simp at ht; subst ht; exact heading_inert _ _
    · cases ht

end MdIt
