import MdIt.Proofs.Literal
import MdIt.Props.C09
/-! The inline loop on backslash-escaped text (C09.inline_literal): loop invariant and step lemmas. -/
namespace MdIt
open C09

theorem escapeAll_append (a b : List Char) : escapeAll (a ++ b) = escapeAll a ++ escapeAll b := by
  simp [escapeAll, List.flatMap_append]

theorem escapeAll_plain (run : List Char) (h : ∀ c ∈ run, isAsciiPunct c = false) : escapeAll run = run := by
  induction run with
  | nil => rfl
  | cons c cs ih =>
    have hc := h c (by simp)
    simp only [escapeAll, List.flatMap_cons, hc, Bool.false_eq_true, if_false, List.cons_append, List.nil_append]
    congr 1
    exact ih (fun x hx => h x (by simp [hx]))

theorem not_terminator (c : Char) (hp : isAsciiPunct c = false) (hn : c ≠ '\n') :
    Gen.terminatorChars.contains c.toNat = false := by
  cases hc : Gen.terminatorChars.contains c.toNat with
  | false => rfl
  | true =>
    have hm : c.toNat ∈ Gen.terminatorChars := by simpa using hc
    rcases terminators_punct c.toNat hm with h | h
    · exfalso; apply hn
      have : c = Char.ofNat c.toNat := by simp
      rw [this, h]
    · rw [Char.ofNat_toNat] at h; rw [hp] at h; cases h

/-- the rules between `text` and `escape` in the chain decline at a backslash without touching the state -/
def DeclinesAtBackslash (m : IRule) : Prop :=
  ∀ s : IState, s.src[s.pos]? = some '\\' → m s false = .ok (false, s)

theorem runChain_declines (mid : List IRule) (hmid : ∀ m ∈ mid, DeclinesAtBackslash m) (tail : List IRule) (s : IState)
    (h0 : s.src[s.pos]? = some '\\') : runChain (mid ++ tail) s = runChain tail s := by
  induction mid with
  | nil => rfl
  | cons m ms ih =>
    simp only [List.cons_append, runChain, hmid m (by simp) s h0]
    exact ih (fun x hx => hmid x (by simp [hx]))

/-- invariant of the loop between units of `escapeAll t0 = escapeAll (pre ++ rest)` -/
structure LitState (t0 pre : List Char) (s : IState) : Prop where
  src : s.src = escapeAll t0
  posMax : s.posMax = s.src.length
  pos : s.pos = (escapeAll pre).length
  level : s.level = 0
  pendingLevel : s.pendingLevel = 0
  delims : s.delims = 0
  lit : ∀ t ∈ s.tokens, IsLit t
  contents : litContents s.tokens ++ s.pending = pre

theorem push_special_lit (t0 pre : List Char) (s : IState) (c : Char) (h : LitState t0 pre s) :
    let s2 := { (s.push "text_special" "" 0 (String.singleton c) (String.ofList ['\\', c]) "escape") with pos := s.pos + 2 }
    s2.src = s.src ∧ s2.posMax = s.posMax ∧ s2.level = 0 ∧ s2.pendingLevel = 0 ∧ s2.delims = 0
      ∧ (∀ t ∈ s2.tokens, IsLit t) ∧ litContents s2.tokens ++ s2.pending = pre ++ [c] := by
  intro s2
  have hl := h.level
  have hpl := h.pendingLevel
  by_cases hp : s.pending.isEmpty = true
  · have hpe : s.pending = [] := by simpa using hp
    simp only [s2, IState.push, hp, if_true, hl]
    refine ⟨trivial, trivial, by simp, by simp, h.delims, ?_, ?_⟩
    · intro t ht
      simp only [List.mem_append, List.mem_singleton] at ht
      rcases ht with ht | rfl
      · exact h.lit t ht
      · simpa using isLit_mk_special _ _
    · have := h.contents
      rw [hpe, List.append_nil] at this
      simp [litContents, List.flatMap_append, mkInlineTok, Tok.content] at this ⊢
      rw [← this]; simp [hpe]
  · have hp' : s.pending.isEmpty = false := by simpa using hp
    simp only [s2, IState.push, hp', Bool.false_eq_true, if_false, IState.pushPending, hl, hpl]
    refine ⟨trivial, trivial, by simp, by simp, h.delims, ?_, ?_⟩
    · intro t ht
      simp only [List.mem_append, List.mem_singleton] at ht
      rcases ht with (ht | rfl) | rfl
      · exact h.lit t ht
      · exact isLit_mk_text _
      · simpa using isLit_mk_special _ _
    · have := h.contents
      simp [litContents, List.flatMap_append, mkInlineTok, Tok.content] at this ⊢
      rw [← this]; simp

theorem getElem?_after {α} (a b : List α) (k : Nat) : (a ++ b)[a.length + k]? = b[k]? := by
  rw [List.getElem?_append_right (by omega)]
  congr 1; omega

theorem findIdx?_none_of_all_false {α} (p : α → Bool) (l : List α) (h : ∀ x ∈ l, p x = false) :
    l.findIdx? p = none := by
  induction l with
  | nil => rfl
  | cons x xs ih =>
    rw [List.findIdx?_cons, h x (by simp)]
    simp [ih (fun y hy => h y (by simp [hy]))]

theorem findIdx?_run {α} (p : α → Bool) (run : List α) (d : α) (rest : List α) (h : ∀ x ∈ run, p x = false)
    (hd : p d = true) : (run ++ d :: rest).findIdx? p = some run.length := by
  induction run with
  | nil => simp [List.findIdx?_cons, hd]
  | cons x xs ih =>
    rw [List.cons_append, List.findIdx?_cons, h x (by simp)]
    simp [ih (fun y hy => h y (by simp [hy]))]

theorem length_pos_of_ne {α} (l : List α) (h : l ≠ []) : 0 < l.length := by
  cases l with
  | nil => exact absurd rfl h
  | cons a as => simp

/-- S1: at an escaped punctuation character the chain runs `escape`, which emits that character -/
theorem step_punct (mid post : List IRule) (hmid : ∀ m ∈ mid, DeclinesAtBackslash m) (t0 pre rest : List Char)
    (c : Char) (hc : isAsciiPunct c = true) (ht0 : t0 = pre ++ c :: rest) (s : IState) (h : LitState t0 pre s) :
    ∃ s2, runChain (ruleText :: (mid ++ ruleEscape :: post)) s = .ok (true, s2) ∧ LitState t0 (pre ++ [c]) s2
      ∧ s.pos < s2.pos ∧ s2.delimiters = s.delimiters ∧ s2.metas = s.metas := by
  have hsrc : s.src = escapeAll pre ++ ('\\' :: c :: escapeAll rest) := by
    rw [h.src, ht0, escapeAll_append]
    simp [escapeAll, hc]
  have h0 : s.src[s.pos]? = some '\\' := by
    rw [hsrc, h.pos]; have := getElem?_after (escapeAll pre) ('\\' :: c :: escapeAll rest) 0; simpa using this
  have h1 : s.src[s.pos + 1]? = some c := by
    rw [hsrc, h.pos]; have := getElem?_after (escapeAll pre) ('\\' :: c :: escapeAll rest) 1; simpa using this
  have hlen : s.pos + 1 < s.src.length := by rw [hsrc, h.pos]; simp
  have hmax : s.pos + 1 < s.posMax := by rw [h.posMax]; exact hlen
  have htext := text_declines_at_backslash s h0 (by omega)
  have hesc := escape_punct s c hc h0 h1 hmax
  refine ⟨{ (s.push "text_special" "" 0 (String.singleton c) (String.ofList ['\\', c]) "escape") with pos := s.pos + 2 }, ?_, ?_, ?_, ?_, ?_⟩
  rotate_left 3
  · show (s.push "text_special" "" 0 (String.singleton c) (String.ofList ['\\', c]) "escape").delimiters = s.delimiters
    unfold IState.push IState.pushPending; simp only; split <;> rfl
  · show (s.push "text_special" "" 0 (String.singleton c) (String.ofList ['\\', c]) "escape").metas = s.metas
    unfold IState.push IState.pushPending; simp only; split <;> rfl
  · simp only [runChain, htext]
    rw [runChain_declines mid hmid _ s h0]
    simp only [runChain, hesc]
  · have hp := push_special_lit t0 pre s c h
    simp only at hp
    obtain ⟨p1, p2, p3, p4, p5, p6, p7⟩ := hp
    exact ⟨p1.trans h.src, by rw [p2, p1]; exact h.posMax,
      by simp only; rw [h.pos, escapeAll_append]; simp [escapeAll, hc], p3, p4, p5, p6, p7⟩
  · simp

/-- S2: at a plain character `text` consumes the whole run of non-punctuation characters -/
theorem step_plain (tail : List IRule) (t0 pre run rest2 : List Char) (hrun : run ≠ [])
    (hplain : ∀ c ∈ run, isAsciiPunct c = false ∧ c ≠ '\n')
    (hrest2 : rest2 = [] ∨ ∃ d r, rest2 = d :: r ∧ isAsciiPunct d = true)
    (ht0 : t0 = pre ++ run ++ rest2) (s : IState) (h : LitState t0 pre s) :
    ∃ s2, runChain (ruleText :: tail) s = .ok (true, s2) ∧ LitState t0 (pre ++ run) s2 ∧ s.pos < s2.pos
      ∧ s2.delimiters = s.delimiters ∧ s2.metas = s.metas := by
  have hesc_run : escapeAll run = run := escapeAll_plain run (fun c hc => (hplain c hc).1)
  have hsrc : s.src = escapeAll pre ++ (run ++ escapeAll rest2) := by
    rw [h.src, ht0, escapeAll_append, escapeAll_append, hesc_run, List.append_assoc]
  have hdrop : s.src.drop s.pos = run ++ escapeAll rest2 := by
    rw [hsrc, h.pos]; simp
  have hnot : ∀ c ∈ run, isTerminator c = false :=
    fun c hc => not_terminator c (hplain c hc).1 (hplain c hc).2
  have hlenpos : 0 < run.length := length_pos_of_ne run hrun
  have hend : textEnd s = s.pos + run.length := by
    unfold textEnd
    rw [hdrop]
    rcases hrest2 with rfl | ⟨d, r, rfl, hd⟩
    · have : escapeAll ([] : List Char) = [] := rfl
      rw [this, List.append_nil, findIdx?_none_of_all_false _ run hnot]
      simp only
      rw [h.posMax, hsrc, h.pos, this]
      simp
    · have he : escapeAll (d :: r) = '\\' :: d :: escapeAll r := by simp [escapeAll, hd]
      rw [he, findIdx?_run _ run '\\' _ hnot (by decide)]
  have htake : (s.src.take (s.pos + run.length)).drop s.pos = run := by
    rw [hsrc, h.pos, List.take_length_add_append]
    simp
  refine ⟨{ s with pending := s.pending ++ run, pos := s.pos + run.length }, ?_, ?_, ?_, rfl, rfl⟩
  · have hne : (s.pos + run.length == s.pos) = false := by
      simp; omega
    simp only [runChain, ruleText, hend, hne, Bool.false_eq_true, if_false, htake]
  · refine ⟨h.src, h.posMax, ?_, h.level, h.pendingLevel, h.delims, h.lit, ?_⟩
    · simp only; rw [h.pos, escapeAll_append, hesc_run]; simp
    · simp only; rw [← List.append_assoc, h.contents]
  · simp only; omega

theorem takeWhile_all {α} (p : α → Bool) (l : List α) : ∀ x ∈ l.takeWhile p, p x = true := by
  induction l with
  | nil => intro x hx; cases hx
  | cons a as ih =>
    intro x hx
    rw [List.takeWhile_cons] at hx
    split at hx
    · rename_i ha
      simp only [List.mem_cons] at hx
      rcases hx with rfl | hx
      · exact ha
      · exact ih x hx
    · cases hx

theorem dropWhile_head {α} (p : α → Bool) (l : List α) (d : α) (r : List α) (h : l.dropWhile p = d :: r) : p d = false := by
  induction l with
  | nil => simp at h
  | cons a as ih =>
    rw [List.dropWhile_cons] at h
    split at h
    · exact ih h
    · rename_i ha
      injection h with h1 _
      subst h1
      simpa using ha

theorem escapeAll_length_cons (c : Char) (rest : List Char) : 0 < (escapeAll (c :: rest)).length := by
  simp only [escapeAll, List.flatMap_cons]
  split <;> simp

/-- the whole loop on `escapeAll t0`: it ends with every character of `t0` in the literal tokens or
    the pending text, in order -/
theorem loop_literal (mid post : List IRule) (hmid : ∀ m ∈ mid, DeclinesAtBackslash m) (mn : Int) (hmn : 1 ≤ mn)
    (t0 : List Char) (hlf : '\n' ∉ t0) :
    ∀ (n : Nat) (rest pre : List Char) (s : IState) (fuel : Nat) (ok : Bool), rest.length ≤ n → t0 = pre ++ rest →
      LitState t0 pre s → s.posMax - s.pos < fuel →
      ∃ s', tokenizeLoop (ruleText :: (mid ++ ruleEscape :: post)) mn s.posMax fuel ok s = .ok s' ∧ LitState t0 t0 s'
        ∧ s'.delimiters = s.delimiters ∧ s'.metas = s.metas := by
  intro n
  induction n with
  | zero =>
    intro rest pre s fuel ok hl ht0 h hf
    have hr : rest = [] := by cases rest with | nil => rfl | cons _ _ => simp at hl
    subst hr
    rw [List.append_nil] at ht0; subst ht0
    have hpos : ¬ (s.pos < s.posMax) := by rw [h.posMax, h.pos, h.src]; omega
    cases fuel with
    | zero => omega
    | succ f => exact ⟨s, by simp [tokenizeLoop, hpos], h, rfl, rfl⟩
  | succ k ih =>
    intro rest pre s fuel ok hl ht0 h hf
    cases rest with
    | nil =>
      rw [List.append_nil] at ht0; subst ht0
      have hpos : ¬ (s.pos < s.posMax) := by rw [h.posMax, h.pos, h.src]; omega
      cases fuel with
      | zero => omega
      | succ f => exact ⟨s, by simp [tokenizeLoop, hpos], h, rfl, rfl⟩
    | cons c rest' =>
      have hposlt : s.pos < s.posMax := by
        rw [h.posMax, h.pos, h.src, ht0, escapeAll_append, List.length_append]
        have := escapeAll_length_cons c rest'
        omega
      cases fuel with
      | zero => omega
      | succ f =>
        have hlvl : s.level < mn := by rw [h.level]; omega
        -- one step of the chain
        have hstep : ∃ s2 pre2 rest2, runChain (ruleText :: (mid ++ ruleEscape :: post)) s = .ok (true, s2)
            ∧ LitState t0 pre2 s2 ∧ s.pos < s2.pos ∧ t0 = pre2 ++ rest2 ∧ rest2.length ≤ k
            ∧ s2.delimiters = s.delimiters ∧ s2.metas = s.metas := by
          by_cases hc : isAsciiPunct c = true
          · obtain ⟨s2, h1, h2, h3, h4, h5⟩ := step_punct mid post hmid t0 pre rest' c hc ht0 s h
            exact ⟨s2, pre ++ [c], rest', h1, h2, h3, by rw [ht0]; simp, by simp at hl; omega, h4, h5⟩
          · have hc' : isAsciiPunct c = false := by simpa using hc
            -- the maximal run of plain characters
            let run := (c :: rest').takeWhile (fun x => !isAsciiPunct x)
            let r2 := (c :: rest').dropWhile (fun x => !isAsciiPunct x)
            have hsplit : c :: rest' = run ++ r2 := (List.takeWhile_append_dropWhile).symm
            have hrun : run ≠ [] := by simp [run, List.takeWhile_cons, hc']
            have hplain : ∀ x ∈ run, isAsciiPunct x = false ∧ x ≠ '\n' := by
              intro x hx
              have h1 := takeWhile_all _ _ x hx
              have hmem : x ∈ t0 := by
                rw [ht0, hsplit]; simp [hx]
              exact ⟨by simpa using h1, fun e => hlf (e ▸ hmem)⟩
            have hr2 : r2 = [] ∨ ∃ d r, r2 = d :: r ∧ isAsciiPunct d = true := by
              cases hr : r2 with
              | nil => exact Or.inl rfl
              | cons d r =>
                right
                have := dropWhile_head (fun x => !isAsciiPunct x) (c :: rest') d r hr
                exact ⟨d, r, rfl, by simpa using this⟩
            obtain ⟨s2, h1, h2, h3, h4, h5⟩ := step_plain (mid ++ ruleEscape :: post) t0 pre run r2 hrun hplain hr2
              (by rw [ht0, hsplit, List.append_assoc]) s h
            refine ⟨s2, pre ++ run, r2, h1, h2, h3, by rw [ht0, hsplit, List.append_assoc], ?_, h4, h5⟩
            have hlen := congrArg List.length hsplit
            simp only [List.length_append, List.length_cons] at hlen hl
            have : 0 < run.length := length_pos_of_ne run hrun
            omega
        obtain ⟨s2, pre2, rest2, hc1, hc2, hc3, hc4, hc5, hc6, hc7⟩ := hstep
        have hpm : s2.posMax = s.posMax := by rw [hc2.posMax, hc2.src, h.posMax, h.src]
        simp only [tokenizeLoop, hposlt, if_true, hlvl, hc1]
        by_cases hend : s2.pos ≥ s.posMax
        · simp only [hend, if_true]
          refine ⟨s2, rfl, ?_, hc6, hc7⟩
          -- the position reached the end: nothing is left
          have hr2 : rest2 = [] := by
            cases rest2 with
            | nil => rfl
            | cons d r =>
              exfalso
              have : s2.pos < s2.posMax := by
                rw [hc2.posMax, hc2.pos, hc2.src, hc4, escapeAll_append, List.length_append]
                have := escapeAll_length_cons d r
                omega
              omega
          subst hr2
          rw [List.append_nil] at hc4
          rw [← hc4] at hc2
          exact hc2
        · simp only [hend, if_false]
          have hnle : ¬ (s2.pos ≤ s.pos) := by omega
          simp only [hnle, if_false]
          obtain ⟨s', e1, e2, e3, e4⟩ := ih rest2 pre2 s2 f true hc5 hc4 hc2 (by rw [hpm]; omega)
          rw [hpm] at e1
          exact ⟨s', e1, e2, e3.trans hc6, e4.trans hc7⟩

end MdIt
