import MdIt.Inline
import MdIt.Str
/-! Lemmas for C09.inline_literal: literal token streams through `fragments_join` and `text_join`. -/
namespace MdIt

def litContents (ts : List Tok) : List Char := ts.flatMap (fun t => t.content.toList)

/-- the tokens the inline loop produces on escaped text: `text` / `text_special`, nothing else set -/
def IsLit (t : Tok) : Prop :=
  (t.type = "text" ∨ t.type = "text_special") ∧ t.tag = "" ∧ t.nesting = 0 ∧ t.attrs = [] ∧ t.map = none
  ∧ t.level = 0 ∧ t.children = none ∧ t.metaD = [] ∧ t.block = false ∧ t.hidden = false

theorem isLit_mk_text (c : String) : IsLit (mkInlineTok "text" "" 0 0 c "" "") := by
  simp [IsLit, mkInlineTok, Tok.type, Tok.tag, Tok.nesting, Tok.attrs, Tok.map, Tok.level, Tok.children,
    Tok.metaD, Tok.block, Tok.hidden]

theorem isLit_mk_special (c mu : String) : IsLit (mkInlineTok "text_special" "" 0 0 c mu "escape") := by
  simp [IsLit, mkInlineTok, Tok.type, Tok.tag, Tok.nesting, Tok.attrs, Tok.map, Tok.level, Tok.children,
    Tok.metaD, Tok.block, Tok.hidden]

theorem isLit_setContent (t : Tok) (c : String) (h : IsLit t) : IsLit (t.setContent c) := by
  cases t
  simpa [IsLit, Tok.setContent, Tok.type, Tok.tag, Tok.nesting, Tok.attrs, Tok.map, Tok.level, Tok.children,
    Tok.metaD, Tok.block, Tok.hidden] using h

theorem setContent_content (t : Tok) (c : String) : (t.setContent c).content = c := by
  cases t; simp [Tok.setContent, Tok.content]

theorem setLevel_lit (t : Tok) (h : IsLit t) : t.setLevel 0 = t := by
  cases t
  simp only [IsLit, Tok.level] at h
  simp [Tok.setLevel, h.2.2.2.2.2.1]

/-- `fragments_join` on a literal stream: still literal, same characters -/
theorem fragmentsJoin_lit (ts : List Tok) (h : ∀ t ∈ ts, IsLit t) :
    (∀ t ∈ fragmentsJoin 0 ts, IsLit t) ∧ litContents (fragmentsJoin 0 ts) = litContents ts := by
  generalize hl : (0 : Int) = level
  fun_induction fragmentsJoin level ts with
  | case1 => exact ⟨(by intro t ht; cases ht), rfl⟩
  | case2 level t =>
    subst hl
    have ht := h t (by simp)
    have hn : t.nesting = 0 := ht.2.2.1
    simp only [hn, Int.lt_irrefl, if_false]
    rw [setLevel_lit t ht]
    exact ⟨(by intro x hx; simp at hx; subst hx; exact ht), rfl⟩
  | case3 level t n rest lvl level' hmerge ih =>
    subst hl
    have ht := h t (by simp)
    have hnn := h n (by simp)
    have hn : t.nesting = 0 := ht.2.2.1
    have hl' : level' = 0 := by simp only [level', lvl, hn]; simp
    have := ih (by
      intro x hx
      simp only [List.mem_cons] at hx
      rcases hx with rfl | hx
      · exact isLit_setContent n _ hnn
      · exact h x (by simp [hx])) hl'.symm
    refine ⟨this.1, ?_⟩
    rw [this.2]
    simp [litContents, setContent_content]
  | case4 level t n rest lvl level' hmerge ih =>
    subst hl
    have ht := h t (by simp)
    have hn : t.nesting = 0 := ht.2.2.1
    have hlvl : lvl = 0 := by simp only [lvl, hn]; simp
    have hl' : level' = 0 := by simp only [level', hn, hlvl]; simp
    have := ih (fun x hx => h x (by simp at hx ⊢; exact Or.inr hx)) hl'.symm
    rw [hlvl, setLevel_lit t ht]
    refine ⟨?_, ?_⟩
    · intro x hx
      simp only [List.mem_cons] at hx
      rcases hx with rfl | hx
      · exact ht
      · exact this.1 x hx
    · simp only [litContents, List.flatMap_cons] at this ⊢
      rw [this.2]

theorem joinOne_lit (t : Tok) (h : IsLit t) : IsLit (joinOne t) ∧ (joinOne t).type = "text"
    ∧ (joinOne t).content = t.content := by
  cases t with
  | mk ty tag n a m l c co mu i md b hh =>
    simp only [IsLit, Tok.type, Tok.tag, Tok.nesting, Tok.attrs, Tok.map, Tok.level, Tok.children, Tok.metaD,
      Tok.block, Tok.hidden] at h
    obtain ⟨hty, rfl, rfl, rfl, rfl, rfl, rfl, rfl, rfl, rfl⟩ := h
    rcases hty with rfl | rfl <;>
      simp [joinOne, IsLit, Tok.type, Tok.tag, Tok.nesting, Tok.attrs, Tok.map, Tok.level, Tok.children, Tok.metaD,
        Tok.block, Tok.hidden, Tok.content]

/-- `_join` on a literal stream: one `text` token holding all the characters -/
theorem joinToks_lit (ts : List Tok) (h : ∀ t ∈ ts, IsLit t) (a : Tok) (ha : IsLit a) (hat : a.type = "text") :
    ∃ tk, joinToks [a] ts = [tk] ∧ IsLit tk ∧ tk.type = "text" ∧ tk.content.toList = a.content.toList ++ litContents ts := by
  induction ts generalizing a with
  | nil => exact ⟨a, rfl, ha, hat, by simp [litContents]⟩
  | cons t rest ih =>
    have ht := joinOne_lit t (h t (by simp))
    simp only [joinToks]
    have hpush : joinPush [a] (joinOne t) = [a.setContent (a.content ++ (joinOne t).content)] := by
      simp [joinPush, ht.2.1, hat]
    rw [hpush]
    obtain ⟨tk, h1, h2, h3, h4⟩ := ih (fun x hx => h x (by simp [hx])) (a.setContent (a.content ++ (joinOne t).content))
      (isLit_setContent a _ ha) (by cases a; simpa [Tok.setContent, Tok.type] using hat)
    refine ⟨tk, h1, h2, h3, ?_⟩
    rw [h4, setContent_content, ht.2.2]
    simp [litContents]

theorem joinToks_lit_nil (ts : List Tok) (h : ∀ t ∈ ts, IsLit t) (hne : ts ≠ []) :
    ∃ tk, joinToks [] ts = [tk] ∧ IsLit tk ∧ tk.type = "text" ∧ tk.content.toList = litContents ts := by
  cases ts with
  | nil => exact absurd rfl hne
  | cons t rest =>
    have ht := joinOne_lit t (h t (by simp))
    simp only [joinToks]
    have : joinPush [] (joinOne t) = [joinOne t] := by simp [joinPush]
    rw [this]
    obtain ⟨tk, h1, h2, h3, h4⟩ := joinToks_lit rest (fun x hx => h x (by simp [hx])) (joinOne t) ht.1 ht.2.1
    exact ⟨tk, h1, h2, h3, by rw [h4, ht.2.2]; simp [litContents]⟩

end MdIt
