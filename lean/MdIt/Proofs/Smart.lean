import MdIt.Smart
/-! Frame lemmas for the smartquotes model: which `content`s can change. -/
namespace MdIt

theorem setAt_other (cs : List (List Char)) (i j : Nat) (f : List Char → List Char) (h : j ≠ i) :
    (setAt cs i f)[j]? = cs[j]? := by
  simp [setAt, List.getElem?_modify, h.symm]

theorem setAt_length (cs : List (List Char)) (i : Nat) (f : List Char → List Char) :
    (setAt cs i f).length = cs.length := by simp [setAt]

/-- what a run of the model may touch, for a set `P` of editable indices -/
structure Framed (P : Nat → Prop) (st st' : QState) : Prop where
  same : ∀ j, ¬ P j → st'.contents[j]? = st.contents[j]?
  stackP : ∀ it ∈ st'.stack, P it.token
  len : st'.contents.length = st.contents.length

theorem Framed.refl (P : Nat → Prop) (st : QState) (h : ∀ it ∈ st.stack, P it.token) : Framed P st st :=
  ⟨fun _ _ => rfl, h, rfl⟩

theorem Framed.trans {P : Nat → Prop} {a b c : QState} (h1 : Framed P a b) (h2 : Framed P b c) : Framed P a c :=
  ⟨fun j hj => (h2.same j hj).trans (h1.same j hj), h2.stackP, h2.len.trans h1.len⟩

theorem findOpener_lt (stack : List QItem) (s : Bool) (lvl : Int) (n j : Nat)
    (h : findOpener stack s lvl n = some j) : j < n := by
  induction n with
  | zero => simp [findOpener] at h
  | succ k ih =>
    simp only [findOpener] at h
    split at h
    · cases h
    · split at h
      · cases h
      · split at h
        · simp only [Option.some.injEq] at h; omega
        · have := ih h; omega

theorem aposAt_framed (P : Nat → Prop) (st : QState) (i idx : Nat) (hi : P i)
    (hst : ∀ it ∈ st.stack, P it.token) : Framed P st (aposAt st i idx) :=
  ⟨fun j hj => setAt_other _ _ _ _ (fun e => hj (e ▸ hi)), hst, setAt_length _ _ _⟩

theorem tryClose_framed (P : Nat → Prop) (q : Quotes) (i : Nat) (lvl : Int) (st : QState) (idx : Nat)
    (isSingle : Bool) (hi : P i) (hst : ∀ it ∈ st.stack, P it.token)
    (r : QState × List Char × Nat) (h : tryClose q i lvl st idx isSingle = some r) : Framed P st r.1 := by
  unfold tryClose at h
  split at h
  · cases h
  · split at h
    · cases h
    · rename_i j _ item hitem
      simp only [Option.some.injEq] at h
      subst h
      have hPitem : P item.token := hst item (List.mem_of_getElem? hitem)
      refine ⟨?_, ?_, ?_⟩
      · intro k hk
        simp only
        rw [setAt_other _ _ _ _ (fun (e : k = item.token) => hk (e ▸ hPitem)),
          setAt_other _ _ _ _ (fun (e : k = i) => hk (e ▸ hi))]
      · intro it hit; exact hst it (List.mem_of_mem_take hit)
      · simp [setAt_length]

theorem quoteStep_framed (P : Nat → Prop) (cls : QCls) (q : Quotes) (toks : List Tok) (i : Nat) (lvl : Int)
    (st : QState) (text : List Char) (idx : Nat) (hi : P i) (hst : ∀ it ∈ st.stack, P it.token) :
    Framed P st (quoteStep cls q toks i lvl st text idx).1 := by
  unfold quoteStep
  generalize classifyQuote cls toks i st text idx = c
  obtain ⟨isSingle, canOpen, canClose⟩ := c
  simp only
  split
  · split
    · exact aposAt_framed P st i idx hi hst
    · exact Framed.refl P st hst
  · split
    · rename_i r hr
      split at hr
      · exact tryClose_framed P q i lvl st idx isSingle hi hst r hr
      · cases hr
    · split
      · refine ⟨fun _ _ => rfl, ?_, rfl⟩
        intro it hit
        rcases List.mem_append.1 hit with h | h
        · exact hst it h
        · simp at h; subst h; exact hi
      · split
        · exact aposAt_framed P st i idx hi hst
        · exact Framed.refl P st hst

/-- the inner loop edits only index `i` and indices recorded on the stack -/
theorem quoteLoop2_framed (P : Nat → Prop) (cls : QCls) (q : Quotes) (toks : List Tok) (i : Nat) (lvl : Int)
    (hi : P i) (fuel : Nat) (st : QState) (text : List Char) (pos : Nat)
    (hst : ∀ it ∈ st.stack, P it.token) :
    Framed P st (quoteLoop2 cls q toks i lvl fuel st text pos) := by
  induction fuel generalizing st text pos with
  | zero => exact Framed.refl P st hst
  | succ n ih =>
    simp only [quoteLoop2]
    split
    · exact Framed.refl P st hst
    · split
      · exact Framed.refl P st hst
      · rename_i idx _
        have h1 := quoteStep_framed P cls q toks i lvl st text idx hi hst
        generalize quoteStep cls q toks i lvl st text idx = r at h1
        obtain ⟨st', text', pos'⟩ := r
        exact h1.trans (ih st' text' pos' h1.stackP)

theorem truncStack_sub (stack : List QItem) (lvl : Int) : ∀ it ∈ truncStack stack lvl, it ∈ stack := by
  intro it h
  simp only [truncStack, List.mem_reverse] at h
  have := (List.dropWhile_sublist (fun (it : QItem) => decide (it.level > lvl))).subset h
  simpa using this

theorem processInlines_framed (cls : QCls) (q : Quotes) (toks : List Tok) (n i : Nat) (st : QState)
    (hst : ∀ it ∈ st.stack, editable toks it.token = true) :
    Framed (fun j => editable toks j = true) st (processInlines cls q toks n i st) := by
  induction n generalizing i st with
  | zero => exact Framed.refl _ st hst
  | succ k ih =>
    simp only [processInlines]
    split
    · exact Framed.refl _ st hst
    · rename_i t ht
      have hst1 : ∀ it ∈ truncStack st.stack t.level, editable toks it.token = true :=
        fun it h => hst it (truncStack_sub _ _ it h)
      have hfr1 : Framed (fun j => editable toks j = true) st { st with stack := truncStack st.stack t.level } :=
        ⟨fun _ _ => rfl, hst1, rfl⟩
      split
      · exact hfr1.trans (ih _ _ hst1)
      · rename_i hed
        have hi : editable toks i = true := by simpa using hed
        have h2 := quoteLoop2_framed (fun j => editable toks j = true) cls q toks i t.level hi
          ((({ st with stack := truncStack st.stack t.level } : QState).contents[i]?).getD []).length.succ
          { st with stack := truncStack st.stack t.level }
          ((({ st with stack := truncStack st.stack t.level } : QState).contents[i]?).getD []) 0 hst1
        exact hfr1.trans (h2.trans (ih _ _ h2.stackP))

end MdIt
