import MdIt.Str
/-! Equation lemmas for `normNewlines` in rewrite-friendly form. -/
namespace MdIt

@[simp] theorem nn_nil : normNewlines [] = [] := rfl

theorem nn_crlf (rest : List Char) : normNewlines ('\r' :: '\n' :: rest) = '\n' :: normNewlines rest := by
  simp [normNewlines]

theorem nn_cr (rest : List Char) (h : rest.head? ≠ some '\n') :
    normNewlines ('\r' :: rest) = '\n' :: normNewlines rest := by
  cases rest with
  | nil => simp [normNewlines]
  | cons d r =>
    have hd : d ≠ '\n' := by intro e; apply h; simp [e]
    rw [normNewlines.eq_3]
    intro r' e
    injection e with e1 _
    exact hd e1

theorem nn_other (c : Char) (rest : List Char) (h : c ≠ '\r') :
    normNewlines (c :: rest) = c :: normNewlines rest := by
  rw [normNewlines.eq_4]
  · intro r e; exact absurd e h
  · intro e; exact absurd e h

end MdIt
