import MdIt.Ruler
/-! Helper lemmas about the Ruler model (used by C10, C11, C13, C14). -/
namespace MdIt

/-- Invariant: a published cache agrees with the specification on every chain. -/
def Ruler.Coherent (r : Ruler) : Prop :=
  ∀ c, r.cache = some c → ∀ chain, lookup c chain = chainOf r.rules chain

theorem lookup_compile (rules : List Rule) (chain : String) :
    lookup (compile rules) chain = chainOf rules chain := by
  unfold lookup compile
  cases h : List.find? (fun p => p.1 == chain) (List.map (fun c => (c, chainOf rules c)) (chainNames rules)) with
  | some p =>
    have hm := List.mem_of_find?_eq_some h
    have hp := List.find?_some h
    simp only [List.mem_map] at hm
    obtain ⟨c, _, rfl⟩ := hm
    simp at hp
    simp [hp]
  | none =>
    simp only
    rw [List.find?_eq_none] at h
    unfold chainOf
    symm
    rw [List.map_eq_nil_iff, List.filter_eq_nil_iff]
    intro r hr
    simp only [Bool.and_eq_true, Bool.or_eq_true, beq_iff_eq, List.contains_iff_mem, not_and, not_or]
    intro hen
    constructor
    · intro hc
      have := h ("", chainOf rules "") (by simp [chainNames])
      simp [hc] at this
    · intro hmem
      have := h (chain, chainOf rules chain) (by
        simp only [List.mem_map]
        refine ⟨chain, ?_, rfl⟩
        simp only [chainNames, List.mem_cons, List.mem_flatMap, List.mem_filter]
        exact Or.inr ⟨r, ⟨hr, hen⟩, hmem⟩)
      simp at this

theorem coherent_of_cache_none (r : Ruler) (h : r.cache = none) : r.Coherent := by
  intro c hc; rw [h] at hc; cases hc

theorem getRules_spec (r : Ruler) (h : r.Coherent) (chain : String) :
    (r.getRules chain).2 = chainOf r.rules chain ∧ (r.getRules chain).1.Coherent
      ∧ (r.getRules chain).1.rules = r.rules := by
  unfold Ruler.getRules
  cases hc : r.cache with
  | some c => exact ⟨h c hc chain, h, rfl⟩
  | none =>
    refine ⟨lookup_compile _ _, ?_, rfl⟩
    intro c hc' ch
    simp at hc'
    subst hc'
    exact lookup_compile _ _

/-- every operation, succeeding or raising, preserves coherence -/
theorem step_coherent (r : Ruler) (h : r.Coherent) (op : ROp) : (r.step op).1.Coherent := by
  cases op with
  | push n f a => exact coherent_of_cache_none _ rfl
  | «at» n f a =>
    simp only [Ruler.step, Ruler.at]
    cases findRule r.rules n with
    | none => exact h
    | some i => exact coherent_of_cache_none _ rfl
  | before b n f a =>
    simp only [Ruler.step, Ruler.before]
    cases findRule r.rules b with
    | none => exact h
    | some i => exact coherent_of_cache_none _ rfl
  | after b n f a =>
    simp only [Ruler.step, Ruler.after]
    cases findRule r.rules b with
    | none => exact h
    | some i => exact coherent_of_cache_none _ rfl
  | enable ns ig => exact coherent_of_cache_none _ rfl
  | enableOnly ns ig => exact coherent_of_cache_none _ rfl
  | disable ns ig => exact coherent_of_cache_none _ rfl
  | getRules c => exact (getRules_spec r h c).2.1
  | setLazy b ns =>
    simp only [Ruler.step, Ruler.setLazy]
    have : ∀ (l : List (Option String × String)) (r0 : Ruler) (acc : List String),
        ∃ x, (enableLoopLazy b true l r0 acc).2 = .ok x := by
      intro l
      induction l with
      | nil => intro r0 acc; exact ⟨_, rfl⟩
      | cons p ps ih =>
        intro r0 acc
        obtain ⟨cb, n⟩ := p
        simp only [enableLoopLazy]
        split <;> exact ih _ _
    obtain ⟨x, hx⟩ := this ns { r with cache := none } []
    generalize enableLoopLazy b true ns { r with cache := none } [] = res at hx
    obtain ⟨r', o⟩ := res
    simp only at hx
    subst hx
    exact coherent_of_cache_none _ rfl

theorem run_coherent (r : Ruler) (h : r.Coherent) (ops : List ROp) : (r.run ops).Coherent := by
  induction ops generalizing r with
  | nil => exact h
  | cons op ops ih => exact ih _ (step_coherent r h op)

/-! ### set semantics of the enable/disable loop -/

/-- The names of the loop that are applied: all known names when `ign`, otherwise the known names
    before the first unknown one. -/
def appliedNames (rules : List Rule) (ign : Bool) : List String → List String
  | [] => []
  | n :: ns =>
    match findRule rules n with
    | some _ => n :: appliedNames rules ign ns
    | none => if ign then appliedNames rules ign ns else []

/-- does the loop raise? -/
def firstUnknown (rules : List Rule) : List String → Option String
  | [] => none
  | n :: ns => match findRule rules n with
    | some _ => firstUnknown rules ns
    | none => some n

theorem findRule_setEnabled (rules : List Rule) (i : Nat) (b : Bool) (n : String) :
    findRule (setEnabled rules i b) n = findRule rules n := by
  unfold findRule setEnabled
  induction rules generalizing i with
  | nil => simp
  | cons x xs ih =>
    cases i with
    | zero => simp [List.modify, List.findIdx?_cons]
    | succ k =>
      simp only [List.modify_succ_cons, List.findIdx?_cons]
      rw [ih]

theorem setEnabled_length (rules : List Rule) (i : Nat) (b : Bool) :
    (setEnabled rules i b).length = rules.length := by simp [setEnabled]

theorem setEnabled_names (rules : List Rule) (i : Nat) (b : Bool) :
    (setEnabled rules i b).map (·.name) = rules.map (·.name) := by
  apply List.ext_getElem?
  intro j
  simp only [setEnabled, List.getElem?_map, List.getElem?_modify]
  cases rules[j]? with
  | none => simp
  | some x => by_cases h : i = j <;> simp [h]

/-- rule-wise effect of one `setEnabled` -/
theorem setEnabled_getElem? (rules : List Rule) (i j : Nat) (b : Bool) :
    (setEnabled rules i b)[j]? =
      (rules[j]?).map (fun x => if j = i then { x with enabled := b } else x) := by
  unfold setEnabled
  rw [List.getElem?_modify]
  by_cases h : i = j
  · subst h; simp
  · have : ¬ j = i := fun e => h e.symm
    simp [h, this]

theorem appliedNames_setEnabled (rules : List Rule) (i : Nat) (b ign : Bool) (ns : List String) :
    appliedNames (setEnabled rules i b) ign ns = appliedNames rules ign ns := by
  induction ns with
  | nil => rfl
  | cons m ms ihm => simp only [appliedNames, findRule_setEnabled, ihm]

theorem firstUnknown_setEnabled (rules : List Rule) (i : Nat) (b : Bool) (ns : List String) :
    firstUnknown (setEnabled rules i b) ns = firstUnknown rules ns := by
  induction ns with
  | nil => rfl
  | cons m ms ihm => simp only [firstUnknown, findRule_setEnabled, ihm]

/-- Enabled flag of rule `j` after the loop: it is `b` if some applied name finds `j`, else unchanged;
    name, fn and alt never change. -/
theorem enableLoop_rules (b ign : Bool) (names : List String) (rules : List Rule) (acc : List String) (j : Nat) :
    ((enableLoop b ign names rules acc).1)[j]? = (rules[j]?).map (fun x =>
        if (appliedNames rules ign names).any (fun n => findRule rules n == some j)
        then { x with enabled := b } else x) := by
  induction names generalizing rules acc with
  | nil => simp [enableLoop, appliedNames]
  | cons n ns ih =>
    cases hf : findRule rules n with
    | none =>
      cases ign with
      | true =>
        have e1 : enableLoop b true (n :: ns) rules acc = enableLoop b true ns rules acc := by
          simp [enableLoop, hf]
        have e2 : appliedNames rules true (n :: ns) = appliedNames rules true ns := by
          simp [appliedNames, hf]
        rw [e1, e2]; exact ih rules acc
      | false =>
        have e1 : enableLoop b false (n :: ns) rules acc = (rules, .error (.keyError n)) := by
          simp [enableLoop, hf]
        have e2 : appliedNames rules false (n :: ns) = [] := by simp [appliedNames, hf]
        rw [e1, e2]; simp
    | some i =>
      have e1 : enableLoop b ign (n :: ns) rules acc
          = enableLoop b ign ns (setEnabled rules i b) (n :: acc) := by simp [enableLoop, hf]
      have e2 : appliedNames rules ign (n :: ns) = n :: appliedNames rules ign ns := by
        simp [appliedNames, hf]
      rw [e1, e2, ih, setEnabled_getElem?, appliedNames_setEnabled]
      simp only [findRule_setEnabled, List.any_cons, hf]
      cases hj : rules[j]? with
      | none => simp
      | some x =>
        simp only [Option.map_some, Option.some.injEq]
        by_cases hji : j = i
        · subst hji; simp
        · have : ¬ i = j := fun e => hji e.symm
          simp [hji, this]

/-- What the loop returns: the applied names (after `acc`), or `KeyError` for the first unknown name. -/
def loopResult (rules : List Rule) (ign : Bool) (names acc : List String) : Except PyErr (List String) :=
  if ign then .ok (acc ++ appliedNames rules ign names)
  else match firstUnknown rules names with
    | none => .ok (acc ++ appliedNames rules ign names)
    | some n => .error (.keyError n)

theorem enableLoop_result (b ign : Bool) (names : List String) (rules : List Rule) (acc : List String) :
    (enableLoop b ign names rules acc).2 = loopResult rules ign names acc.reverse := by
  unfold loopResult
  induction names generalizing rules acc with
  | nil => cases ign <;> simp [enableLoop, appliedNames, firstUnknown]
  | cons n ns ih =>
    cases hf : findRule rules n with
    | none =>
      cases ign with
      | true =>
        have e1 : enableLoop b true (n :: ns) rules acc = enableLoop b true ns rules acc := by
          simp [enableLoop, hf]
        have e2 : appliedNames rules true (n :: ns) = appliedNames rules true ns := by
          simp [appliedNames, hf]
        rw [e1, e2, ih]; simp
      | false =>
        simp [enableLoop, hf, firstUnknown]
    | some i =>
      have e1 : enableLoop b ign (n :: ns) rules acc
          = enableLoop b ign ns (setEnabled rules i b) (n :: acc) := by simp [enableLoop, hf]
      have e2 : appliedNames rules ign (n :: ns) = n :: appliedNames rules ign ns := by
        simp [appliedNames, hf]
      have e3 : firstUnknown rules (n :: ns) = firstUnknown rules ns := by simp [firstUnknown, hf]
      rw [e1, e2, e3, ih, appliedNames_setEnabled, firstUnknown_setEnabled]
      simp

end MdIt
