import MdIt.Proofs.Ruler
import MdIt.Props.C11
/-! Lemmas for `MarkdownIt.reset_rules` (C14): `enableOnly` of a snapshot restores the active list. -/
namespace MdIt

theorem findRule_of_nodup (rules : List Rule) (hn : (rules.map (·.name)).Nodup) (j : Nat)
    (hj : j < rules.length) (n : String) :
    findRule rules n = some j ↔ rules[j].name = n := by
  unfold findRule
  rw [List.findIdx?_eq_some_iff_getElem]
  constructor
  · rintro ⟨_, h, _⟩; simpa using h
  · intro h
    refine ⟨hj, by simpa using h, ?_⟩
    intro k hk
    simp only [beq_iff_eq]
    intro hkn
    have hk' : k < rules.length := Nat.lt_trans hk hj
    have h1 : (rules.map (·.name))[k]'(by simpa using hk') = (rules.map (·.name))[j]'(by simpa using hj) := by
      simp [hkn, h]
    have := (List.getElem_inj hn).1 h1
    omega

theorem appliedNames_all_known (rules : List Rule) (ign : Bool) (names : List String)
    (h : ∀ n ∈ names, n ∈ rules.map (·.name)) :
    appliedNames rules ign names = names ∧ firstUnknown rules names = none := by
  induction names with
  | nil => exact ⟨rfl, rfl⟩
  | cons n ns ih =>
    have hn := h n (by simp)
    have ih' := ih (fun m hm => h m (by simp [hm]))
    have : ∃ i, findRule rules n = some i := by
      unfold findRule
      cases hf : List.findIdx? (fun x => x.name == n) rules with
      | some i => exact ⟨i, rfl⟩
      | none =>
        rw [List.findIdx?_eq_none_iff] at hf
        simp only [List.mem_map] at hn
        obtain ⟨r, hr, hrn⟩ := hn
        have := hf r hr
        simp [hrn] at this
    obtain ⟨i, hi⟩ := this
    simp [appliedNames, firstUnknown, hi, ih'.1, ih'.2]

/-- On a ruler whose rule names are distinct, `enableOnly names` (all names known) leaves exactly
    the rules named in `names` enabled, changes nothing else, and does not raise. -/
theorem enableOnly_nodup (r : Ruler) (names : List String)
    (hn : (r.rules.map (·.name)).Nodup) (hk : ∀ n ∈ names, n ∈ r.rules.map (·.name)) :
    (r.enableOnly names false).1.rules = r.rules.map (fun x => { x with enabled := names.contains x.name })
    ∧ (r.enableOnly names false).2 = .ok names := by
  have hak := appliedNames_all_known r.rules false names hk
  constructor
  · apply List.ext_getElem?
    intro j
    rw [C11.enableOnly_sets, hak.1, List.getElem?_map]
    cases hj : r.rules[j]? with
    | none => rfl
    | some x =>
      have hlt : j < r.rules.length := by
        rcases Nat.lt_or_ge j r.rules.length with h | h
        · exact h
        · rw [List.getElem?_eq_none h] at hj; cases hj
      have hx : r.rules[j] = x := by
        have := List.getElem?_eq_getElem hlt; rw [hj] at this; exact (Option.some.inj this).symm
      simp only [Option.map_some, Option.some.injEq]
      congr 1
      rw [Bool.eq_iff_iff]
      simp only [List.any_eq_true, beq_iff_eq, List.contains_iff_mem]
      constructor
      · rintro ⟨n, hnm, hf⟩
        have := (findRule_of_nodup r.rules hn j hlt n).1 hf
        rw [hx] at this; rw [this]; exact hnm
      · intro hmem
        exact ⟨x.name, hmem, (findRule_of_nodup r.rules hn j hlt x.name).2 (by rw [hx])⟩
  · have hfind : ∀ n, findRule (r.rules.map (fun x => { x with enabled := false })) n = findRule r.rules n := by
      intro n; simp [findRule, List.findIdx?_map, Function.comp_def]
    have hk' : ∀ n ∈ names, n ∈ (r.rules.map (fun x => { x with enabled := false })).map (·.name) := by
      intro n h; simpa [Function.comp_def] using hk n h
    have hak' := appliedNames_all_known _ false names hk'
    simp only [Ruler.enableOnly]
    rw [C11.enable_result]
    simp [loopResult, hak'.1, hak'.2]

theorem filter_mem_sublist_of_nodup {α} [DecidableEq α] (L S : List α) (hs : S.Sublist L) (hn : L.Nodup) :
    L.filter (fun a => S.contains a) = S := by
  induction hs with
  | slnil => rfl
  | cons a hs ih =>
    rename_i S' L'
    rw [List.nodup_cons] at hn
    have : a ∉ S' := fun h => hn.1 (hs.subset h)
    have ih' := ih hn.2
    simp only [List.contains_eq_mem] at ih'
    simp [List.filter_cons, this, ih']
  | cons_cons a hs ih =>
    rename_i S' L'
    rw [List.nodup_cons] at hn
    have ih' := ih hn.2
    simp only [List.filter_cons, List.contains_cons, BEq.rfl, Bool.true_or, if_true]
    congr 1
    have hc : L'.filter (fun b => (b == a || S'.contains b)) = L'.filter (fun b => S'.contains b) := by
      apply List.filter_congr
      intro b hb
      have : b ≠ a := fun e => hn.1 (e ▸ hb)
      simp [this]
    rw [hc]; exact ih'

/-- the active list after `enableOnly snapshot`, when the snapshot is a sub-list of the (distinct)
    rule names, is the snapshot itself -/
theorem enableOnly_restores (r : Ruler) (snap : List String)
    (hn : (r.rules.map (·.name)).Nodup) (hs : snap.Sublist (r.rules.map (·.name))) :
    (r.enableOnly snap false).1.activeRules = snap ∧ (r.enableOnly snap false).2 = .ok snap
    ∧ (r.enableOnly snap false).1.allRules = r.allRules := by
  have h := enableOnly_nodup r snap hn (fun n hm => hs.subset hm)
  refine ⟨?_, h.2, ?_⟩
  · rw [Ruler.activeRules, h.1, List.filter_map, List.map_map]
    have : (r.rules.filter ((fun x : Rule => x.enabled) ∘ fun x => { x with enabled := snap.contains x.name })).map
        ((fun x : Rule => x.name) ∘ fun x => { x with enabled := snap.contains x.name })
        = (r.rules.map (·.name)).filter (fun a => snap.contains a) := by
      rw [List.filter_map]
      simp [Function.comp_def]
    rw [this]
    exact filter_mem_sublist_of_nodup _ _ hs hn
  · rw [Ruler.allRules, h.1]; simp [Ruler.allRules, Function.comp_def]

/-- every ruler operation keeps the old rule names, in order (rules are only ever inserted) -/
theorem step_names_sublist (r : Ruler) (op : ROp) : r.allRules.Sublist (r.step op).1.allRules := by
  cases op with
  | push n f a => simp [Ruler.step, Ruler.push, Ruler.allRules]
  | «at» n f a =>
    simp only [Ruler.step, Ruler.at]
    cases findRule r.rules n with
    | none => exact List.Sublist.refl _
    | some i =>
      have : (r.rules.modify i (fun x => { x with fn := f, alt := a })).map (·.name) = r.rules.map (·.name) := by
        apply List.ext_getElem?; intro j
        simp only [List.getElem?_map, List.getElem?_modify]
        cases r.rules[j]? with
        | none => simp
        | some x => by_cases h : i = j <;> simp [h]
      simp [Ruler.allRules, this]
  | before b n f a =>
    simp only [Ruler.step, Ruler.before]
    cases findRule r.rules b with
    | none => exact List.Sublist.refl _
    | some i =>
      simp only [Ruler.allRules, insertAt, List.map_append, List.map_cons]
      conv => lhs; rw [← List.take_append_drop i r.rules]
      rw [List.map_append]
      exact List.Sublist.append (List.Sublist.refl _) (List.sublist_cons_self _ _)
  | after b n f a =>
    simp only [Ruler.step, Ruler.after]
    cases findRule r.rules b with
    | none => exact List.Sublist.refl _
    | some i =>
      simp only [Ruler.allRules, insertAt, List.map_append, List.map_cons]
      conv => lhs; rw [← List.take_append_drop (i + 1) r.rules]
      rw [List.map_append]
      exact List.Sublist.append (List.Sublist.refl _) (List.sublist_cons_self _ _)
  | enable ns ig => simp only [Ruler.step]; rw [C11.enable_keeps_names]; exact List.Sublist.refl _
  | enableOnly ns ig =>
    simp only [Ruler.step, Ruler.enableOnly]
    rw [C11.enable_keeps_names]
    simp [Ruler.allRules, Function.comp_def]
  | disable ns ig => simp only [Ruler.step]; rw [C11.disable_keeps_names]; exact List.Sublist.refl _
  | getRules c =>
    simp only [Ruler.step]
    unfold Ruler.getRules
    cases r.cache <;> exact List.Sublist.refl _
  | setLazy b ns =>
    simp only [Ruler.step, Ruler.setLazy]
    have key : ∀ (l : List (Option String × String)) (r0 : Ruler) (acc : List String),
        (enableLoopLazy b true l r0 acc).1.allRules = r0.allRules := by
      intro l
      induction l with
      | nil => intro r0 acc; rfl
      | cons p ps ih =>
        intro r0 acc
        obtain ⟨cb, n⟩ := p
        have hg : ∀ (q : Ruler) (c : String), (q.getRules c).1.allRules = q.allRules := by
          intro q c; unfold Ruler.getRules; cases q.cache <;> rfl
        simp only [enableLoopLazy]
        cases cb with
        | none =>
          simp only
          split
          · simp only [if_true]; exact ih _ _
          · rw [ih]; simp [Ruler.allRules, setEnabled_names]
        | some chain =>
          simp only
          split
          · simp only [if_true]; rw [ih]; exact hg _ _
          · rw [ih]; simp only [Ruler.allRules, setEnabled_names]; exact hg _ _
    have := key ns { r with cache := none } []
    generalize enableLoopLazy b true ns { r with cache := none } [] = res at this
    obtain ⟨r', o⟩ := res
    simp only at this
    have h2 : r'.allRules = r.allRules := this
    cases o with
    | error e => simp only; rw [h2]; exact List.Sublist.refl _
    | ok l =>
      simp only
      have : ({ r' with cache := none } : Ruler).allRules = r'.allRules := rfl
      rw [this, h2]; exact List.Sublist.refl _

theorem run_names_sublist (r : Ruler) (ops : List ROp) : r.allRules.Sublist (r.run ops).allRules := by
  induction ops generalizing r with
  | nil => exact List.Sublist.refl _
  | cons op ops ih => exact (step_names_sublist r op).trans (ih _)

theorem active_sublist_all (r : Ruler) : r.activeRules.Sublist r.allRules := by
  simp only [Ruler.activeRules, Ruler.allRules]
  exact List.Sublist.map _ List.filter_sublist

end MdIt
