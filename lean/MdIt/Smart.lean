import MdIt.Core
/-!
# MdIt.Smart — model of `rules_core/smartquotes.py` (`process_inlines`, `smartquotes`)

A transcription of the control flow (quote stack, level truncation, position bookkeeping, the three
`replaceAt` sites).  Character classification (`isMdAsciiPunct or isPunctChar`, `isWhiteSpace`) is a
parameter `QCls`; the driver instantiates it from T1 tables.
-/
namespace MdIt

structure QCls where
  isPunct : Nat → Bool
  isWhite : Nat → Bool

structure QItem where
  token : Nat
  pos : Nat
  single : Bool
  level : Int
deriving Repr, DecidableEq

/-- `quotes[0..3]` (a 4-character string or a list of four strings) -/
structure Quotes where
  dOpen : List Char
  dClose : List Char
  sOpen : List Char
  sClose : List Char
deriving Repr, DecidableEq

def apostrophe : List Char := ['’']

/-- `stack = stack[: j + 1]` where `j` is the topmost entry with `level <= thisLevel` (or -1) -/
def truncStack (stack : List QItem) (lvl : Int) : List QItem :=
  (stack.reverse.dropWhile (fun it => decide (it.level > lvl))).reverse

def isBreak (t : Tok) : Bool := t.type == "softbreak" || t.type == "hardbreak"

/-- scan neighbouring tokens for the nearest character (`for j in range(i)[::-1]` / `range(i+1, n)`) -/
def scanChar (last : Bool) : List (Tok × List Char) → Nat
  | [] => 0x20
  | (t, c) :: rest =>
    if isBreak t then 0x20
    else match (if last then c.getLast? else c.head?) with
      | none => scanChar last rest
      | some ch => ch.toNat

/-- first index `≥ from` holding `'` or `"` -/
def findQuote (text : List Char) (start : Nat) : Option Nat :=
  let rest := text.drop start
  match rest.findIdx? (fun c => c == '\'' || c == '"') with
  | some k => some (start + k)
  | none => none

structure QState where
  contents : List (List Char)     -- current `content` of every token of the list
  stack : List QItem
deriving Repr

def setAt (cs : List (List Char)) (i : Nat) (f : List Char → List Char) : List (List Char) :=
  cs.modify i f

/-- search the stack from the top for an opener to close (`for j in range(len(stack))[::-1]`);
    returns the index `j` of the match -/
def findOpener (stack : List QItem) (isSingle : Bool) (lvl : Int) : Nat → Option Nat
  | 0 => none
  | j + 1 =>
    match stack[j]? with
    | none => none
    | some it =>
      if it.level < lvl then none
      else if it.single == isSingle && it.level == lvl then some j
      else findOpener stack isSingle lvl j

/-- the flanking decision for the quote at `idx` of `text`: (isSingle, canOpen, canClose) -/
def classifyQuote (cls : QCls) (toks : List Tok) (i : Nat) (st : QState) (text : List Char) (idx : Nat) :
    Bool × Bool × Bool :=
  let pos1 := idx + 1
  let isSingle := text[idx]? == some '\''
  let lastChar : Nat :=
    if idx ≥ 1 then (match text[idx - 1]? with | some c => c.toNat | none => 0x20)
    else scanChar true (((toks.zip st.contents).take i).reverse)
  let nextChar : Nat :=
    if pos1 < text.length then (match text[pos1]? with | some c => c.toNat | none => 0x20)
    else scanChar false ((toks.zip st.contents).drop (i + 1))
  let isLastPunct := cls.isPunct lastChar
  let isNextPunct := cls.isPunct nextChar
  let isLastWhite := cls.isWhite lastChar
  let isNextWhite := cls.isWhite nextChar
  let canOpen0 := !(isNextWhite || (isNextPunct && !(isLastWhite || isLastPunct)))
  let canClose0 := !(isLastWhite || (isLastPunct && !(isNextWhite || isNextPunct)))
  let dq := nextChar == 0x22 && !isSingle && (0x30 ≤ lastChar && lastChar ≤ 0x39)
  let canOpen1 := canOpen0 && !dq
  let canClose1 := canClose0 && !dq
  let canOpen := if canOpen1 && canClose1 then isLastPunct else canOpen1
  let canClose := if canOpen1 && canClose1 then isNextPunct else canClose1
  (isSingle, canOpen, canClose)

/-- `token.content = replaceAt(token.content, idx, APOSTROPHE)` -/
def aposAt (st : QState) (i idx : Nat) : QState :=
  { st with contents := setAt st.contents i (fun c => replaceAt c idx apostrophe) }

/-- the `if canClose:` search: on a match both quotes are written, the stack is cut, `text`/`pos`
    are refreshed -/
def tryClose (q : Quotes) (i : Nat) (lvl : Int) (st : QState) (idx : Nat) (isSingle : Bool) :
    Option (QState × List Char × Nat) :=
  match findOpener st.stack isSingle lvl st.stack.length with
  | none => none
  | some j =>
    match st.stack[j]? with
    | none => none
    | some item =>
      let openQ := if isSingle then q.sOpen else q.dOpen
      let closeQ := if isSingle then q.sClose else q.dClose
      let c1 := setAt st.contents i (fun c => replaceAt c idx closeQ)
      let c2 := setAt c1 item.token (fun c => replaceAt c item.pos openQ)
      let pos2 := idx + 1 + closeQ.length - 1
      let pos3 := if item.token == i then pos2 + openQ.length - 1 else pos2
      some ({ contents := c2, stack := st.stack.take j }, (c2[i]?).getD [], pos3)

/-- one iteration of the inner loop for the quote found at `idx` -/
def quoteStep (cls : QCls) (q : Quotes) (toks : List Tok) (i : Nat) (lvl : Int) (st : QState)
    (text : List Char) (idx : Nat) : QState × List Char × Nat :=
  match classifyQuote cls toks i st text idx with
  | (isSingle, canOpen, canClose) =>
    if !canOpen && !canClose then ((if isSingle then aposAt st i idx else st), text, idx + 1)
    else
      match (if canClose then tryClose q i lvl st idx isSingle else none) with
      | some r => r
      | none =>
        if canOpen then ({ st with stack := st.stack ++ [⟨i, idx, isSingle, lvl⟩] }, text, idx + 1)
        else if canClose && isSingle then (aposAt st i idx, text, idx + 1)
        else (st, text, idx + 1)

/-- the inner `while pos < maximum` loop on token `i` -/
def quoteLoop2 (cls : QCls) (q : Quotes) (toks : List Tok) (i : Nat) (lvl : Int) :
    Nat → QState → List Char → Nat → QState
  | 0, st, _, _ => st
  | fuel + 1, st, text, pos =>
    if pos ≥ text.length then st else
    match findQuote text pos with
    | none => st
    | some idx =>
      match quoteStep cls q toks i lvl st text idx with
      | (st', text', pos') => quoteLoop2 cls q toks i lvl fuel st' text' pos'

/-- the `inside_autolink` flag as it stands when each token is examined (after the update for that
    token): true from an `auto` link_open up to (not including) the matching link_close -/
def autoFlags : List Tok → Bool → List Bool
  | [], _ => []
  | t :: rest, a =>
    let a' := if t.type == "link_open" && t.info == "auto" then true
              else if t.type == "link_close" && t.info == "auto" then false else a
    a' :: autoFlags rest a'

/-- tokens `process_inlines` may edit: `text` tokens outside autolinks -/
def editable (toks : List Tok) (j : Nat) : Bool :=
  match toks[j]?, (autoFlags toks false)[j]? with
  | some t, some false => t.type == "text"
  | _, _ => false

/-- `process_inlines(tokens, state)`: the outer loop over tokens -/
def processInlines (cls : QCls) (q : Quotes) (toks : List Tok) : Nat → Nat → QState → QState
  | 0, _, st => st
  | n + 1, i, st =>
    match toks[i]? with
    | none => st
    | some t =>
      let st1 := { st with stack := truncStack st.stack t.level }
      if !editable toks i then processInlines cls q toks n (i + 1) st1
      else
        let text := (st1.contents[i]?).getD []
        let st2 := quoteLoop2 cls q toks i t.level (text.length + 1) st1 text 0
        processInlines cls q toks n (i + 1) st2

/-- children of one inline token after `process_inlines` -/
def smartInline (cls : QCls) (q : Quotes) (toks : List Tok) : List Tok :=
  let st := processInlines cls q toks toks.length 0 ⟨toks.map (·.content.toList), []⟩
  List.zipWith (fun t c => if t.content.toList = c then t else t.setContent (String.ofList c)) toks st.contents

/-- `smartquotes(state)` with the typographer on -/
def smartquotes (cls : QCls) (q : Quotes) (hasQuote : String → Bool) (ts : List Tok) : List Tok :=
  ts.map (fun t =>
    if t.type == "inline" && hasQuote t.content then
      match t.children with
      | some cs => t.setChildren (some (smartInline cls q cs))
      | none => t
    else t)

end MdIt
