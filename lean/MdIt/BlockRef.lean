import MdIt.BlockMore
import MdIt.InlineLink
/-!
# MdIt.BlockRef — the `reference` block rule (`rules_block/reference.py`): link reference definitions

`[label]: destination "title"` over one or more lines.  The rule has the paragraph's continuation scan (with the terminator chain
`getRules("reference")`, which holds the same rules as the paragraph's), cuts the lines with `getLines`, strips them and then parses the
resulting *string*: label (no unescaped `[`; backslash skips a character; line feeds counted), `:`, optional blanks and line feeds,
destination (`parseLinkDestination`, then `normalizeLink` / `validateLink`), optional title on the same or a later line
(`parseLinkTitle`) with the roll-back to "destination only" when text follows the title, nothing else up to the end of the line.
A match records `label ↦ (href, title)` in `env["references"]` unless the label is known already (then in `env["duplicate_refs"]`),
pushes a `definition` token if `inline_definitions` is on, and moves `state.line` past the definition's lines — the lines counted in the
string, not the lines scanned.  As in `lheading`, every "return False" after the scan leaves `state.parentType = "reference"` behind.
-/
namespace MdIt

/-- the quick scan of the first line for `]` (not after a backslash) followed by `:`; `false` = "return False" -/
def refQuickGo (body : List Char) : Nat → Nat → Bool
  | 0, _ => true
  | fuel + 1, pos =>
    if pos < body.length then
      if body[pos]? == some ']' && !(body[pos - 1]? == some '\\') then
        if pos + 1 == body.length then false
        else if !(body[pos + 1]? == some ':') then false
        else true
      else refQuickGo body fuel (pos + 1)
    else true

/-- the label loop over the string: `(labelEnd, lines)`; `none` = an unescaped `[`, or no `]` at all -/
def refLabelGo (str : List Char) (max : Nat) : Nat → Nat → Nat → Option (Nat × Nat)
  | 0, _, _ => none
  | fuel + 1, pos, lines =>
    if pos < max then
      match str[pos]? with
      | none => none
      | some ch =>
        if ch == '[' then none
        else if ch == ']' then some (pos, lines)
        else if ch == '\n' then refLabelGo str max fuel (pos + 1) (lines + 1)
        else if ch == '\\' then
          let lines1 := if pos + 1 < max && str[pos + 1]? == some '\n' then lines + 1 else lines
          refLabelGo str max fuel (pos + 2) lines1
        else refLabelGo str max fuel (pos + 1) lines
    else none

/-- skip blanks and line feeds, counting the line feeds -/
def refSkipNl (str : List Char) (max : Nat) : Nat → Nat → Nat → Nat × Nat
  | 0, pos, lines => (pos, lines)
  | fuel + 1, pos, lines =>
    if pos < max then
      match str[pos]? with
      | some ch =>
        if ch == '\n' then refSkipNl str max fuel (pos + 1) (lines + 1)
        else if isBlank ch then refSkipNl str max fuel (pos + 1) lines
        else (pos, lines)
      | none => (pos, lines)
    else (pos, lines)

/-- skip blanks only -/
def refSkipSp (str : List Char) (max : Nat) : Nat → Nat → Nat
  | 0, pos => pos
  | fuel + 1, pos =>
    if pos < max then (match str[pos]? with
      | some ch => if isBlank ch then refSkipSp str max fuel (pos + 1) else pos
      | none => pos) else pos

def countNl (l : List Char) : Nat := (l.filter (· == '\n')).length

/-- what a definition is made of: the number of line feeds inside it, the raw and the normalised label, destination, title -/
structure RefParsed where
  lines : Nat
  label : List Char
  raw : List Char
  href : List Char
  title : List Char

/-- what follows the destination: optional title (with the roll-back when text follows it), nothing else up to the end of the line;
    `(lines, title)`, or `none` for "return False" -/
def refTail (ext : IExt) (str : List Char) (max dpos lines1 : Nat) : Option (Nat × List Char) :=
  let r2 := refSkipNl str max (max + 1) dpos lines1
  let tl : Nat × Nat × List Char :=                       -- position, lines, title
    match parseLinkTitle ext str r2.1 max with
    | some (tpos, tstr) =>
      if r2.1 < max && dpos != r2.1 then (tpos, r2.2 + countNl ((str.take tpos).drop r2.1), tstr) else (dpos, lines1, [])
    | none => (dpos, lines1, [])
  let p3 := refSkipSp str max (max + 1) tl.1
  let tl2 : Nat × Nat × List Char :=                      -- text after the title: roll back to the destination
    if p3 < max && !(str[p3]? == some '\n') && !tl.2.2.isEmpty then (refSkipSp str max (max + 1) dpos, lines1, [])
    else (p3, tl.2.1, tl.2.2)
  if tl2.1 < max && !(str[tl2.1]? == some '\n') then none else some (tl2.2.1, tl2.2.2)

/-- the parse of the stripped string; `none` = "return False" -/
def refParse (ext : IExt) (normRef : List Char → List Char) (str : List Char) : Option RefParsed :=
  let max := str.length
  match refLabelGo str max (max + 1) 1 0 with
  | none => none
  | some (labelEnd, lines0) =>
    if !(str[labelEnd + 1]? == some ':') then none else
    let r1 := refSkipNl str max (max + 1) (labelEnd + 2) lines0
    match parseLinkDestination ext str r1.1 max with
    | none => none
    | some (dpos, dstr) =>
      if !validateLink (ext.normLink dstr) then none else
      match refTail ext str max dpos r1.2 with
      | none => none
      | some (lines, title) =>
        let raw := (str.take labelEnd).drop 1
        if (normRef raw).isEmpty then none
        else some { lines := lines, label := normRef raw, raw := raw, href := ext.normLink dstr, title := title }

def lookupRef (refs : List (List Char × List Char × List Char)) (k : List Char) : Option (List Char × List Char) :=
  (refs.find? (·.1 == k)).map (·.2)

/-- `reference(state, startLine, _endLine, silent)`; `lx` is the env the parse was started with (seeded references) -/
def ruleReference (ext : IExt) (lx : LExt) (inlineDefs codeOn : Bool) (terms : List BRule) (ws : List Nat) : BRule :=
  fun s startLine _ silent =>
  match getL s startLine with
  | .error e => .error e
  | .ok l0 =>
    if isCodeLine codeOn s l0 then .ok (false, s) else
    match l0.body with
    | [] => if l0.hasLF then .ok (false, s) else .error .indexError        -- `state.src[pos]` at the end of the source
    | c0 :: _ =>
      if c0 != '[' then .ok (false, s) else
      if !refQuickGo l0.body (l0.body.length + 1) 0 then .ok (false, s) else
      let old := s.parentType
      match paraScan terms s.lineMax (s.lineMax - startLine + 1) (startLine + 1) { s with parentType := "reference" } with
      | .error e => .error e
      | .ok (next, s1) =>
        match getLinesB s1 startLine next s1.blkIndent false with
        | .error e => .error e
        | .ok c =>
          match refParse ext lx.normRef (pyStrip ws c) with
          | none => .ok (false, s1)
          | some d =>
            if silent then .ok (true, s1) else
            let newLine := startLine + d.lines + 1
            let tok : Tok := .mk "definition" "" 0 [] (some (startLine, newLine)) s1.level none "" "" ""
              [("id", String.ofList d.label), ("title", String.ofList d.title), ("url", String.ofList d.href), ("label", String.ofList d.raw)] true false
            let s2 := { s1 with line := newLine, tokens := if inlineDefs then s1.tokens ++ [tok] else s1.tokens }
            let known := (lx.hasRefs && (lx.refs d.label).isSome) || (lookupRef s2.refs d.label).isSome
            let s3 := if known then { s2 with dups := s2.dups ++ [(d.label, d.href, d.title)] }
                      else { s2 with refs := s2.refs ++ [(d.label, d.href, d.title)] }
            .ok (true, { s3 with parentType := old })

/-! ### chains -/

structure RCfg extends MCfg where
  reference : Bool
  inlineDefs : Bool
deriving Repr, DecidableEq

/-- `getRules("")` with a depth budget: code, fence, blockquote, hr, list, reference, html_block, heading, lheading, paragraph — ten
    of the eleven block rules.  `getRules("reference")` holds the same rules as `getRules("paragraph")`; `reference` itself names no
    terminator chain. -/
def rChain (ext : IExt) (lx : LExt) (c : RCfg) (ws : List Nat) (maxNesting : Int) : Nat → List BRule
  | 0 => []
  | d + 1 =>
    (if c.code then [ruleCode c.code] else []) ++ (if c.fence then [ruleFence c.code] else [])
      ++ [ruleBlockquote c.code (mTerminators c.toMCfg ws maxNesting) (rChain ext lx c ws maxNesting d) maxNesting]
      ++ (if c.hr then [ruleHr c.code] else [])
      ++ [ruleList c.code (mListTerms c.toMCfg maxNesting) (rChain ext lx c ws maxNesting d) maxNesting]
      ++ (if c.reference then [ruleReference ext lx c.inlineDefs c.code (mTerminators c.toMCfg ws maxNesting) ws] else [])
      ++ (if c.htmlBlock then [ruleHtmlBlock c.code c.html] else [])
      ++ (if c.heading then [ruleHeading c.code ws] else [])
      ++ (if c.lheading then [ruleLheading c.code (mTerminators c.toMCfg ws maxNesting) ws] else [])
      ++ [ruleParagraph (mTerminators c.toMCfg ws maxNesting) ws]

/-- `normalize` + `block`: the final block state (tokens, and the references the parse recorded) -/
def rParse (ext : IExt) (lx : LExt) (c : RCfg) (ws : List Nat) (maxNesting : Int) (src : List Char) : Except PyErr BState :=
  let s := initBState (normalize src)
  if src.isEmpty then .ok s else
  blockTokenize (rChain ext lx c ws maxNesting (maxNesting.toNat + 1)) maxNesting s 0 s.lineMax

/-- the env after the block parse, as the inline rules read it: seeded entries first, then what the parse recorded -/
def envAfter (lx : LExt) (s : BState) : LExt :=
  { lx with hasRefs := lx.hasRefs || !s.refs.isEmpty || !s.dups.isEmpty
            refs := fun l => match (if lx.hasRefs then lx.refs l else none) with
              | some r => some r
              | none => lookupRef s.refs l }

end MdIt
