import MdIt.Ruler
/-!
# MdIt.Conc — interleaving semantics of `Ruler.getRules` / `Ruler.__compile__` on a shared instance

The only instance state written during a parse is the rulers' `__cache__`.  A parse, as far as the
shared instance is concerned, is a sequence of `getRules(chain)` requests (a parse is a deterministic
function of the responses, its own source and env — that is the sequential model; the harness's
shared-write audit checks that nothing else is written).  `getRules` is split into the atomic
steps its bytecode exposes:

* `r1`    : test `self.__cache__ is None`
* `built` : `__compile__` has built the dict in a *local* variable (no shared write)
* publish : the single store `self.__cache__ = cache`
* `r2`    : read `self.__cache__` again and look the chain up (`.get(chain, []) or []`)

Re-entrancy (a parse started from inside another one) is the schedule in which one thread runs all
its steps between two steps of another.
-/
namespace MdIt

inductive PC where
  | idle
  | r1 (chain : String)
  | built (chain : String) (c : Cache)
  | r2 (chain : String)
deriving Repr

structure Thread where
  orig : List String                     -- all chains this parse asks for, in order (never changes)
  todo : List String                     -- those not yet started
  pc : PC := .idle
  got : List (String × List Nat) := []   -- responses so far
deriving Repr

def Thread.start (chains : List String) : Thread := { orig := chains, todo := chains }

/-- one atomic step of thread `t` against the shared cache -/
def stepThread (rules : List Rule) (cache : Option Cache) (t : Thread) : Option Cache × Thread :=
  match t.pc with
  | .idle => match t.todo with
    | [] => (cache, t)
    | ch :: rest => (cache, { t with todo := rest, pc := .r1 ch })
  | .r1 ch => match cache with
    | some _ => (cache, { t with pc := .r2 ch })
    | none => (cache, { t with pc := .built ch (compile rules) })
  | .built ch c => (some c, { t with pc := .r2 ch })
  | .r2 ch => match cache with
    | some c => (cache, { t with pc := .idle, got := t.got ++ [(ch, lookup c ch)] })
    | none => (cache, { t with pc := .idle, got := t.got ++ [(ch, [])] })  -- would raise; shown unreachable

structure Sys where
  rules : List Rule
  cache : Option Cache
  threads : List Thread
deriving Repr

def Sys.step (s : Sys) (i : Nat) : Sys :=
  match s.threads[i]? with
  | none => s
  | some t =>
    let (c', t') := stepThread s.rules s.cache t
    { s with cache := c', threads := s.threads.set i t' }

/-- a schedule is any list of thread indices -/
def Sys.run (s : Sys) : List Nat → Sys
  | [] => s
  | i :: sched => (s.step i).run sched

def Thread.done (t : Thread) : Bool :=
  t.todo.isEmpty && (match t.pc with | .idle => true | _ => false)

/-- what a thread gets when it runs alone on a coherent instance -/
def soloResult (rules : List Rule) (chains : List String) : List (String × List Nat) :=
  chains.map (fun ch => (ch, chainOf rules ch))

/-! ## The pre-fix code, for contrast: `self.__cache__ = {}` is published first and filled
afterwards, one chain at a time.  A second thread that tests the cache in between sees a dict that
is not `None` and reads an empty chain. -/

inductive PCold where
  | idle
  | r1 (chain : String)
  | filling (chain : String) (remaining : List String)   -- `{}` published, chains still to add
  | r2 (chain : String)
deriving Repr

structure ThreadOld where
  todo : List String
  pc : PCold := .idle
  got : List (String × List Nat) := []
deriving Repr

def stepOld (rules : List Rule) (cache : Option Cache) (t : ThreadOld) : Option Cache × ThreadOld :=
  match t.pc with
  | .idle => match t.todo with
    | [] => (cache, t)
    | ch :: rest => (cache, { t with todo := rest, pc := .r1 ch })
  | .r1 ch => match cache with
    | some _ => (cache, { t with pc := .r2 ch })
    | none => (some [], { t with pc := .filling ch (chainNames rules) })     -- publish the empty dict
  | .filling ch rem => match rem with
    | [] => (cache, { t with pc := .r2 ch })
    | c :: rest => ((cache.map (fun d => d ++ [(c, chainOf rules c)])), { t with pc := .filling ch rest })
  | .r2 ch => match cache with
    | some c => (cache, { t with pc := .idle, got := t.got ++ [(ch, lookup c ch)] })
    | none => (cache, { t with pc := .idle, got := t.got ++ [(ch, [])] })

def runOld (rules : List Rule) : Option Cache → List ThreadOld → List Nat → Option Cache × List ThreadOld
  | c, ts, [] => (c, ts)
  | c, ts, i :: sched =>
    match ts[i]? with
    | none => runOld rules c ts sched
    | some t => let (c', t') := stepOld rules c t; runOld rules c' (ts.set i t') sched

end MdIt
