import MdIt.Token
/-!
# MdIt.Block — the block tokenizer engine (`parser_block.py: ParserBlock.tokenize`,
`StateBlock.skipEmptyLines/isEmpty/push`) over an abstract rule chain

A rule is `BState → startLine → endLine → silent → Except PyErr (Bool × BState)`.  Container rules
re-enter the engine themselves (open recursion); at the engine level they are rules like the others,
constrained by their contract.  The real loop has no progress check: if no rule matches (or a rule
matches without advancing `state.line`) it spins forever — the model returns
`.error (.noProgress "block")` there, so totality is a statement about values.
-/
namespace MdIt

/-- one line of the line tables.  The loop reads `isEmpty(line)` (computed from the entry) and `sCount[line]`; the modelled rules
    (`MdIt/BlockRules.lean`) also read the line's characters `src[bMarks[line] : eMarks[line]]`, `tShift`,
    `bsCount` and whether a line feed follows `eMarks[line]` -/
structure BLine where
  sCount : Int
  text : List Char := []
  tShift : Nat := 0
  bs : Nat := 0
  hasLF : Bool := true
deriving Repr, DecidableEq

/-- `StateBlock.isEmpty(line)`: `bMarks + tShift >= eMarks` — computed, as in the code, not stored -/
def BLine.empty (l : BLine) : Bool := decide (l.text.length ≤ l.tShift)

structure BState where
  lines : List BLine       -- one entry per line, plus the trailing sentinel entry (empty)
  line : Nat
  lineMax : Nat
  blkIndent : Int
  level : Int
  tight : Bool
  parentType : String
  tokens : List Tok
  listIndent : Int := -1   -- `state.listIndent` (read and written by the list rule only)
  refs : List (List Char × List Char × List Char) := []   -- `env["references"]` entries this parse added: label ↦ (href, title), in order
  dups : List (List Char × List Char × List Char) := []   -- `env["duplicate_refs"]` entries this parse added
deriving Repr

abbrev BRule := BState → Nat → Nat → Bool → Except PyErr (Bool × BState)

def BState.isEmpty (s : BState) (i : Int) : Except PyErr Bool :=
  match idx s.lines i with          -- Python list indexing (a negative index wraps)
  | .ok l => .ok l.empty
  | .error e => .error e

/-- `StateBlock.skipEmptyLines` (the `except IndexError: pass` branch included) -/
def skipEmptyLines (s : BState) : Nat → Nat → Nat
  | 0, from_ => from_
  | fuel + 1, from_ =>
    if from_ < s.lineMax then
      match s.lines[from_]? with
      | some l => if l.empty then skipEmptyLines s fuel (from_ + 1) else from_
      | none => skipEmptyLines s fuel (from_ + 1)
    else from_

/-- `StateBlock.push` -/
def BState.push (s : BState) (type tag : String) (nesting : Int) : BState × Tok :=
  let lvl := if nesting < 0 then s.level - 1 else s.level
  let t : Tok := .mk type tag nesting [] none lvl none "" "" "" [] true false
  ({ s with tokens := s.tokens ++ [t], level := if nesting > 0 then lvl + 1 else lvl }, t)

/-- try the rules in order at `line` -/
def runBlockChain : List BRule → BState → Nat → Nat → Except PyErr (Bool × BState)
  | [], s, _, _ => .ok (false, s)
  | r :: rest, s, line, endLine =>
    match r s line endLine false with
    | .error e => .error e
    | .ok (true, s') => .ok (true, s')
    | .ok (false, s') => runBlockChain rest s' line endLine

/-- the `while line < endLine` loop of `ParserBlock.tokenize` -/
def blockLoop (rules : List BRule) (maxNesting : Int) (endLine : Nat) :
    Nat → Nat → Bool → BState → Except PyErr BState
  | 0, line, _, s => if line < endLine then .error (.noProgress "block") else .ok s
  | fuel + 1, line, hasEmpty, s =>
    if line < endLine then
      let line1 := skipEmptyLines s (s.lineMax + 1) line
      let s1 := { s with line := line1 }
      if line1 ≥ endLine then .ok s1 else
      match s1.lines[line1]? with
      | none => .error .indexError
      | some l =>
        if l.sCount < s1.blkIndent then .ok s1
        else if s1.level ≥ maxNesting then .ok { s1 with line := endLine }
        else
          match runBlockChain rules s1 line1 endLine with
          | .error e => .error e
          | .ok (_, s2) =>
            let s3 := { s2 with tight := !hasEmpty }
            let line2 := s3.line
            if line2 ≤ line1 then .error (.noProgress "block") else       -- the real loop would spin
            match (if (line2 : Int) - 1 < endLine then s3.isEmpty ((line2 : Int) - 1) else .ok false) with
            | .error e => .error e
            | .ok e1 =>
              let hasEmpty1 := hasEmpty || e1
              if line2 < endLine then
                match s3.isEmpty line2 with
                | .error e => .error e
                | .ok e2 =>
                  if e2 then blockLoop rules maxNesting endLine fuel (line2 + 1) true { s3 with line := line2 + 1 }
                  else blockLoop rules maxNesting endLine fuel line2 hasEmpty1 s3
              else blockLoop rules maxNesting endLine fuel line2 hasEmpty1 s3
    else .ok s

/-- `ParserBlock.tokenize(state, startLine, endLine)` -/
def blockTokenize (rules : List BRule) (maxNesting : Int) (s : BState) (startLine endLine : Nat) :
    Except PyErr BState :=
  blockLoop rules maxNesting endLine (endLine - startLine + 1) startLine false s

/-! ### rule contracts (what the engine theorems assume of every rule of the chain; monitored on the
real rules by the harness, proved for the rules modelled in `MdIt/Block/Rules`) -/

/-- the fields of the state the loop itself depends on are as on entry -/
def BState.FrameEq (s s' : BState) : Prop :=
  (s'.lines = s.lines ∧ s'.listIndent = s.listIndent) ∧ s'.lineMax = s.lineMax ∧ s'.blkIndent = s.blkIndent ∧ s'.level = s.level

/-- what every call made by the loop guarantees to the rule: the line tables carry their sentinel entry,
    `line` is a non-empty, not outdented line inside the range, the range ends inside the tables, and the
    caller-specific condition `P` on the frame and the range end holds (e.g. `endLine = lineMax`, which
    is what the top-level call and a terminated block quote give the `paragraph` rule) -/
structure CallCtx (P : BState → Nat → Prop) (s : BState) (line endLine : Nat) : Prop where
  len : s.lineMax + 1 ≤ s.lines.length
  lt : line < endLine
  le : endLine ≤ s.lineMax
  here : ∃ l, s.lines[line]? = some l ∧ l.empty = false ∧ s.blkIndent ≤ l.sCount
  /-- the loop has set `state.line` to the line it dispatches on -/
  cur : s.line = line
  extra : P s endLine

/-- `P` reads only the frame fields -/
def FrameClosed (P : BState → Nat → Prop) : Prop :=
  ∀ s s' e, s.FrameEq s' → P s e → P s' e

theorem CallCtx.transfer {P : BState → Nat → Prop} (hP : FrameClosed P) {s s' : BState} {line endLine : Nat}
    (h : CallCtx P s line endLine) (hf : s.FrameEq s') (hl : s'.line = s.line) : CallCtx P s' line endLine :=
  ⟨by rw [hf.1.1, hf.2.1]; exact h.len, h.lt, by rw [hf.2.1]; exact h.le,
   by obtain ⟨l, h1, h2, h3⟩ := h.here; exact ⟨l, by rw [hf.1.1]; exact h1, h2, by rw [hf.2.2.1]; exact h3⟩,
   by rw [hl]; exact h.cur, hP _ _ _ hf h.extra⟩

/-- the contract of a rule, for the calls the loop makes (K1–K4) -/
structure RuleOK (P : BState → Nat → Prop) (r : BRule) : Prop where
  /-- K1: never raises (non-silent call from the loop) -/
  total : ∀ s line endLine, CallCtx P s line endLine → ∃ m s', r s line endLine false = .ok (m, s')
  /-- K3: a match advances `state.line` past the start line, not beyond the line tables.  (Not "not beyond
      `endLine`": a block quote whose last lines are empty returns with `state.line` at the next non-empty line
      of the *document* — its nested loop's `skipEmptyLines` runs to `lineMax` — which can lie beyond the `endLine`
      of an enclosing quote: `"> > \n> \n\nfoo"`.  The loop then simply stops.) -/
  progress : ∀ s line endLine s', CallCtx P s line endLine → r s line endLine false = .ok (true, s') →
    line < s'.line ∧ s'.line ≤ s.lineMax
  /-- K2 (the part the loop needs): a miss leaves `state.line` alone -/
  miss : ∀ s line endLine s', CallCtx P s line endLine → r s line endLine false = .ok (false, s') → s'.line = s.line
  /-- K4: line tables, lineMax, blkIndent and level are restored on return -/
  frame : ∀ s line endLine m s', CallCtx P s line endLine → r s line endLine false = .ok (m, s') → s.FrameEq s'

/-- the fallback rule: matches on every call the loop makes -/
def AlwaysMatches (P : BState → Nat → Prop) (r : BRule) : Prop :=
  ∀ s line endLine, CallCtx P s line endLine → ∃ s', r s line endLine false = .ok (true, s')

end MdIt
