import MdIt.Props.C08e
import MdIt.Props.C08f
import MdIt.Props.C10n
/-!
# C08 (continued) — verbatim content and recorded markup for the block parse with the `table` rule

The table rule emits no verbatim token (`table_appends`: only its own vocabulary), so `VerbM` holds of its segment trivially; with the
`…E` copies of the paragraph / lheading lemmas and the segment engine `tParse_segs`: **`t_verbatim`** — for the parse with ten of eleven
block rules, `table` in the chain and in the terminator chains, every `code_block`, `fence`, `hr`, `html_block` token holds the lines its
map points to with only a prefix removed, and every heading's markup is a run of `#` or the underline character.
-/
namespace MdIt.C08
open MdIt.C01 MdIt.C02 MdIt.C10

theorem other_types' (s : BState) (t : Tok) (h1 : t.type ≠ "code_block") (h2 : t.type ≠ "fence") (h3 : t.type ≠ "hr") :
    VerbTok s t := ⟨fun h => absurd h h1, fun h => absurd h h2, fun h => absurd h h3⟩

theorem verbM_table (P : BState → Nat → Prop) (codeOn : Bool) (terms : List BRule) (hin : ∀ t ∈ terms, SilentInert t) (ws : List Nat) :
    SegOK P VerbMS (ruleTable codeOn terms ws) := by
  refine ⟨?_, ?_⟩
  · intro s line endLine s' hc h
    obtain ⟨seg, h1, h2⟩ := table_appends codeOn terms hin ws s line endLine (by have := hc.len; have := hc.le; omega) false true s' h
    refine ⟨seg, h1, fun t ht => ?_⟩
    have hty := h2 t ht
    apply other_m <;> (intro he; rw [he] at hty; revert hty; decide)
  · intro s line endLine s' hc h
    rw [table_miss_pure _ _ _ _ _ _ _ _ h]

theorem verbOK_paragraphE (P : BState → Nat → Prop) (terms : List BRule) (hin : ∀ t ∈ terms, SilentInertE t) (ws : List Nat) :
    SegOK P VerbSeg (ruleParagraph terms ws) := by
  refine ⟨?_, ?_⟩
  · intro s line endLine s' hc h
    obtain ⟨n, c, h1, h2, h'⟩ := paragraph_shapeE P terms hin ws s line endLine hc
    rw [h'] at h; cases h
    refine ⟨?seg, ?heq, ?hv⟩
    case heq =>
      show (BState.pushFull _ _ _ _ _ _ _ _ _).tokens = _
      rw [pushFull_tokens, pushFull_tokens, pushFull_tokens, List.append_assoc, List.append_assoc]
    case hv =>
      intro t ht
      simp only [List.mem_append, List.mem_singleton] at ht
      rcases ht with rfl | rfl | rfl <;> exact other_types' _ _ (by simp [pushedTok, Tok.type]) (by simp [pushedTok, Tok.type]) (by simp [pushedTok, Tok.type])
  · intro s line endLine s' hc h
    obtain ⟨n, c, h1, h2, h'⟩ := paragraph_shapeE P terms hin ws s line endLine hc
    rw [h'] at h; cases h

theorem verbM_lheadingE (P : BState → Nat → Prop) (codeOn : Bool) (terms : List BRule) (hin : ∀ t ∈ terms, SilentInertE t) (ws : List Nat) :
    SegOK P VerbMS (ruleLheading codeOn terms ws) := by
  refine ⟨?_, ?_⟩
  · intro s line endLine s' hc h
    obtain ⟨l, hl, _, _⟩ := hc.here
    have hg := getL_of_here hl
    simp only [ruleLheading, hg] at h
    split at h
    · cases h
    · split at h
      · cases h
      · cases h
      · rename_i next marker level s1 hscan
        have hmk := lheadScan_marker _ _ _ _ _ _ _ _ _ hscan
        split at h
        · cases h
        · simp only [Except.ok.injEq, Prod.mk.injEq, true_and] at h
          subst h
          refine ⟨?seg, ?heq, ?hv⟩
          case heq =>
            show (BState.pushFull _ _ _ _ _ _ _ _ _).tokens = _
            rw [pushFull_tokens, pushFull_tokens, pushFull_tokens, List.append_assoc, List.append_assoc]
            obtain ⟨r, o, hs1, _⟩ := lheadScan_okE terms hin { s with parentType := "paragraph" } endLine
              (by show endLine < s.lines.length; have := hc.len; have := hc.le; omega) (endLine - line + 1) (line + 1) (by omega)
              (by have := hc.lt; omega)
            rw [hs1] at hscan
            simp only [Except.ok.injEq, Prod.mk.injEq] at hscan
            obtain ⟨_, _, rfl⟩ := hscan
            rfl
          case hv =>
            intro t ht
            simp only [List.mem_append, List.mem_singleton] at ht
            rcases ht with rfl | rfl | rfl
            · refine ⟨⟨fun h => by simp [pushedTok, Tok.type] at h, fun h => by simp [pushedTok, Tok.type] at h,
                fun h => by simp [pushedTok, Tok.type] at h⟩, fun h => by simp [pushedTok, Tok.type] at h, fun _ => .inr ?_⟩
              rcases hmk with rfl | rfl
              · exact .inr rfl
              · exact .inl rfl
            · exact other_m _ _ (by simp [pushedTok, Tok.type]) (by simp [pushedTok, Tok.type]) (by simp [pushedTok, Tok.type])
                (by simp [pushedTok, Tok.type]) (by simp [pushedTok, Tok.type])
            · exact other_m _ _ (by simp [pushedTok, Tok.type]) (by simp [pushedTok, Tok.type]) (by simp [pushedTok, Tok.type])
                (by simp [pushedTok, Tok.type]) (by simp [pushedTok, Tok.type])
  · intro s line endLine s' hc h
    rcases lheading_shapeE P codeOn terms hin ws s line endLine hc with h' | h' | ⟨next, tag, mk, c, h1, h2, h'⟩
    · rw [h'] at h; cases h; rfl
    · rw [h'] at h; cases h; rfl
    · rw [h'] at h; cases h

theorem verbM_tLeaves (c : TCfg) (ws : List Nat) (mn : Int) (P : BState → Nat → Prop) :
    ∀ r ∈ tLeaves c ws mn, SegOK P VerbMS r := by
  intro r hr
  have hpara := tParaTerms_inertE c ws mn
  simp only [tLeaves, List.mem_append, List.mem_singleton] at hr
  rcases hr with ((((((hr | hr) | hr) | hr) | hr) | hr) | hr) | hr
  · split at hr
    · simp at hr; subst hr; exact verbM_table _ _ _ (mTerminators_inert c.toMCfg ws mn) ws
    · cases hr
  · split at hr
    · rename_i hc
      simp at hr; subst hr
      exact sufS_types_to_m _ _ ⟨c.code, false, false, false⟩ rfl (segOK_to_suf _ _ (verbOK_code _ _))
        (C10.typesOK_code _ ⟨c.code, false, false, false⟩ hc)
    · cases hr
  · split at hr
    · simp at hr; subst hr
      exact sufS_types_to_m _ _ ⟨c.code, true, false, false⟩ rfl (segOK_to_suf _ _ (verbOK_fence _ _))
        (C10.typesOK_fence _ ⟨c.code, true, false, false⟩ rfl)
    · cases hr
  · split at hr
    · simp at hr; subst hr
      exact sufS_types_to_m _ _ ⟨c.code, false, true, false⟩ rfl (segOK_to_suf _ _ (verbOK_hr _ _))
        (C10.typesOK_hr _ ⟨c.code, false, true, false⟩ rfl)
    · cases hr
  · split at hr
    · simp at hr; subst hr; exact verbM_htmlBlock _ _ _
    · cases hr
  · split at hr
    · simp at hr; subst hr; exact verbM_heading _ _ _
    · cases hr
  · split at hr
    · simp at hr; subst hr; exact verbM_lheadingE _ _ _ hpara ws
    · cases hr
  · subst hr
    exact sufS_types_to_m _ _ ⟨c.code, false, false, false⟩ rfl (segOK_to_suf _ _ (verbOK_paragraphE _ _ hpara ws))
      (C10.typesOK_paragraphE _ ⟨c.code, false, false, false⟩ _ hpara ws)

/-- **C08.t_verbatim** -/
theorem t_verbatim (ext : IExt) (lx : LExt) (c : TCfg) (hnr : c.reference = false) (ws : List Nat) (maxNesting : Int) (src : List Char)
    (st : BState) (h : tParse ext lx c ws maxNesting src = .ok st) : ∀ t ∈ st.tokens, VerbM (initBState (normalize src)).lines t := by
  obtain ⟨segs, hts, hS⟩ := tParse_segs VerbMS verbM_wrap verbM_listWrap ext lx c hnr ws maxNesting
    (fun P => verbM_tLeaves c ws maxNesting P) src st h
  intro t ht
  rw [hts, List.mem_flatten] at ht
  obtain ⟨g, hg, htg⟩ := ht
  exact hS g hg t htg

/-- every token of the whole parse with tables is a token of the block parse with, at most, other children -/
theorem fullT_tokens_of_block (cls : QCls) (ext : IExt) (lx : LExt) (tc : TCfg) (ic : ICfg) (ws : List Nat) (mn : Int) (d : Nat) (src : List Char)
    (ts : List Tok) (refs dups) (h : fullParseT cls ext lx tc ic ws mn d src = .ok (ts, refs, dups)) :
    ∃ st, tParse ext lx tc ws mn src = .ok st ∧ ∀ t ∈ ts, ∃ b ∈ st.tokens, ∃ c, t = b.setChildren c := by
  unfold fullParseT at h
  cases hb : tParse ext lx tc ws mn src with
  | error e => rw [hb] at h; cases h
  | ok st =>
    refine ⟨st, rfl, ?_⟩
    rw [hb] at h
    simp only at h
    cases hc : (if ic.inlineOn = true then coreInline (inlineOf cls ext (envAfter lx st) ic mn d) st.tokens else Except.ok st.tokens) with
    | error e => rw [hc] at h; cases h
    | ok its =>
      rw [hc] at h
      simp only [Except.ok.injEq, Prod.mk.injEq] at h
      obtain ⟨h, _, _⟩ := h
      have h1 : ∀ t ∈ its, ∃ b ∈ st.tokens, ∃ c, t = b.setChildren c := by
        split at hc
        · exact coreInline_tokens _ st.tokens its hc
        · simp only [Except.ok.injEq] at hc; subst hc
          exact fun t ht => ⟨t, ht, _, (setChildren_self t).symm⟩
      subst h
      split
      · intro t ht
        unfold textJoin at ht
        rw [List.mem_map] at ht
        obtain ⟨u, hu, rfl⟩ := ht
        obtain ⟨b, hb', c, hc'⟩ := h1 u hu
        split
        · exact ⟨b, hb', _, by rw [hc', setChildren_setChildren]⟩
        · exact ⟨b, hb', c, hc'⟩
      · exact h1

/-- **C08.fullT_verbatim** — the same for the stream `MarkdownIt.parse` returns on documents with tables -/
theorem fullT_verbatim (cls : QCls) (ext : IExt) (lx : LExt) (tc : TCfg) (hnr : tc.reference = false) (ic : ICfg) (ws : List Nat) (mn : Int)
    (d : Nat) (src : List Char) (ts : List Tok) (refs dups) (h : fullParseT cls ext lx tc ic ws mn d src = .ok (ts, refs, dups)) :
    ∀ t ∈ ts, VerbM (initBState (normalize src)).lines t := by
  obtain ⟨st, hb, hall⟩ := fullT_tokens_of_block cls ext lx tc ic ws mn d src ts refs dups h
  intro t ht
  obtain ⟨b, hbm, c, rfl⟩ := hall t ht
  exact verbM_setChildren _ b c (t_verbatim ext lx tc hnr ws mn src st hb b hbm)

end MdIt.C08
