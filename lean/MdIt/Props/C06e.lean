import MdIt.Props.C07c
/-!
# C06 (continued) — the list-indent half of the container law: a third simulation, with a *column shift*

Two runs of the chains are related (`TR tt pp k n W lm li blk spre pre s s'`) when every line of the second is the corresponding
line of the first behind `W` extra characters that count as indentation (`IL W`: `text' = p ++ text` with `p` tab-free of length
`W`, `tShift' = tShift + W`, `sCount' = sCount + W`), `blkIndent' = blkIndent + W`, `listIndent' = listIndent + W` (or the
top-level pair `-1` / `0`), levels differ by `k`, tokens are those of the first run with `level + k` behind a fixed prefix.  This is
what the list rule sets up for the body of an item whose content column is `W`.  Every comparison the modelled rules make
(`sCount - blkIndent ≥ 4`, `sCount < blkIndent`, `sCount - listIndent ≥ 4`) and every `getLines` cut (`indent + W` columns of
`p ++ text` versus `indent` columns of `text`) is invariant under the shift.  Documents are tab-free and contain no `>` (the
quote rule then declines everywhere: inside a quote a lazy continuation line keeps the item's indentation, which is the
exception the property names).
-/
namespace MdIt.C06e
open MdIt.C01 MdIt.C06 MdIt.C07

/-! ### lines -/

structure IL (W : Nat) (l l' : BLine) : Prop where
  sc : l'.sCount = l.sCount + W
  tsh : l'.tShift = l.tShift + W
  txt : ∃ p : List Char, p.length = W ∧ '\t' ∉ p ∧ l'.text = p ++ l.text
  lf : l'.hasLF = l.hasLF

/-- related, or the same blank entry on both sides (the sentinel) -/
def ILs (W : Nat) (l l' : BLine) : Prop := IL W l l' ∨ (l' = l ∧ l.text = [] ∧ l.tShift = 0)

/-- what the first run's lines satisfy: tab-free, no `>`, non-negative `sCount` -/
def Good (ls : List BLine) : Prop := ∀ l ∈ ls, '\t' ∉ l.text ∧ '>' ∉ l.text ∧ 0 ≤ l.sCount

theorem IL.body {W l l'} (h : IL W l l') : l'.body = l.body := by
  obtain ⟨p, h1, _, h3⟩ := h.txt
  simp only [BLine.body, h3, h.tsh]
  rw [Nat.add_comm, ← List.drop_drop, ← h1, List.drop_left]

theorem IL.empty {W l l'} (h : IL W l l') : l'.empty = l.empty := by
  obtain ⟨p, h1, _, h3⟩ := h.txt
  simp only [BLine.empty, h3, h.tsh, List.length_append, h1]
  apply decide_eq_decide.2; omega

theorem ILs.empty {W l l'} (h : ILs W l l') : l'.empty = l.empty := by
  rcases h with h | ⟨h, _⟩
  · exact h.empty
  · rw [h]

theorem ILs.lf {W l l'} (h : ILs W l l') : l'.hasLF = l.hasLF := by
  rcases h with h | ⟨h, _⟩
  · exact h.lf
  · rw [h]

/-- the cut of `getLines`: `indent + W` columns of `p ++ chars` = `indent` columns of `chars` -/
theorem cutGo_shift (tShift bs bs' indent W : Nat) : ∀ (chars : List Char) (i li : Nat), '\t' ∉ chars →
    cutGo (tShift + W) bs' (indent + W) chars (i + W) (li + W) =
      ((cutGo tShift bs indent chars i li).1, (cutGo tShift bs indent chars i li).2 + W) := by
  intro chars
  induction chars with
  | nil => intro i li _; rfl
  | cons c cs ih =>
    intro i li hnt
    have hc : c ≠ '\t' := fun e => hnt (by simp [e])
    have hcs : '\t' ∉ cs := fun e => hnt (by simp [e])
    simp only [cutGo, hc, if_false]
    have c1 : (li + W < indent + W) = (li < indent) := propext ⟨fun h => by omega, fun h => by omega⟩
    have c2 : (i + W < tShift + W) = (i < tShift) := propext ⟨fun h => by omega, fun h => by omega⟩
    have e1 : i + W + 1 = i + 1 + W := by omega
    have e2 : li + W + 1 = li + 1 + W := by omega
    simp only [c1, c2, e1, e2]
    split
    · split
      · exact ih _ _ hcs
      · split
        · exact ih _ _ hcs
        · rfl
    · rfl

theorem cutGo_prefix (tShift bs indent : Nat) : ∀ (p chars : List Char) (i li : Nat), '\t' ∉ p → i + p.length ≤ tShift → li + p.length ≤ indent →
    cutGo tShift bs indent (p ++ chars) i li = cutGo tShift bs indent chars (i + p.length) (li + p.length) := by
  intro p
  induction p with
  | nil => intro chars i li _ _ _; rfl
  | cons c cs ih =>
    intro chars i li hnt h1 h2
    have hc : c ≠ '\t' := fun e => hnt (by simp [e])
    have hcs : '\t' ∉ cs := fun e => hnt (by simp [e])
    simp only [List.length_cons] at h1 h2
    have a1 : li < indent := by omega
    have a2 : i < tShift := by omega
    simp only [List.cons_append, cutGo, hc, if_false, a1, a2, if_true, List.length_cons]
    have e1 : i + (cs.length + 1) = i + 1 + cs.length := by omega
    have e2 : li + (cs.length + 1) = li + 1 + cs.length := by omega
    rw [e1, e2]
    split
    · exact ih _ _ _ hcs (by omega) (by omega)
    · exact ih _ _ _ hcs (by omega) (by omega)

theorem cutLineI_shift {W l l'} (h : IL W l l') (x : List Char) (hx : '\t' ∉ l.text ++ x) (indent : Int) (hi : 0 ≤ indent) :
    cutLineI (l'.text ++ x) l'.tShift l'.bs (indent + W) = cutLineI (l.text ++ x) l.tShift l.bs indent := by
  obtain ⟨p, h1, h2, h3⟩ := h.txt
  have n1 : ¬ (indent + (W : Int) < 0) := by omega
  have n2 : ¬ (indent < 0) := by omega
  simp only [cutLineI, n1, n2, if_false, cutLine, h3, h.tsh, List.append_assoc]
  have e : (indent + (W : Int)).toNat = indent.toNat + W := by omega
  rw [e, cutGo_prefix _ _ _ p _ 0 0 h2 (by omega) (by omega)]
  simp only [Nat.zero_add, h1]
  have := cutGo_shift l.tShift l.bs l'.bs indent.toNat W (l.text ++ x) 0 0 hx
  simp only [Nat.zero_add] at this
  rw [this]
  simp only
  have c1 : ((cutGo l.tShift l.bs indent.toNat (l.text ++ x) 0 0).2 + W > indent.toNat + W)
      = ((cutGo l.tShift l.bs indent.toNat (l.text ++ x) 0 0).2 > indent.toNat) := propext ⟨fun h => by omega, fun h => by omega⟩
  have e2 : (cutGo l.tShift l.bs indent.toNat (l.text ++ x) 0 0).2 + W - (indent.toNat + W)
      = (cutGo l.tShift l.bs indent.toNat (l.text ++ x) 0 0).2 - indent.toNat := by omega
  simp only [c1, e2]

theorem cutLineI_blank (x : List Char) (hx : x = [] ∨ x = ['\n']) (bs : Nat) (a b : Int) (ha : 0 ≤ a) (hb : 0 ≤ b) :
    cutLineI x 0 bs a = cutLineI x 0 bs b := by
  have n1 : ¬ (a < 0) := by omega
  have n2 : ¬ (b < 0) := by omega
  rcases hx with hx | hx <;> subst hx
  · simp [cutLineI, n1, n2, cutLine, cutGo]
  · have hn : ('\n' : Char) ≠ '\t' := by decide
    have hs : ('\n' : Char) ≠ ' ' := by decide
    have key : ∀ ind : Nat, cutGo 0 bs ind ['\n'] 0 0 = (['\n'], 0) := by
      intro ind
      simp only [cutGo, hn, hs, if_false, Nat.lt_irrefl]
      split <;> rfl
    simp only [cutLineI, n1, n2, if_false, cutLine, key]
    simp

/-! ### states -/

structure TR (tt pp : Bool) (k : Int) (n W lm : Nat) (li blk : Int) (spre pre : List Tok) (s s' : BState) : Prop where
  lines : ∀ i l, s.lines[i]? = some l → ∃ l', s'.lines[i + n]? = some l' ∧ ILs W l l' ∧ (i < lm → IL W l l')
  len : s'.lines.length = s.lines.length + n
  good : Good s.lines
  line : s'.line = s.line + n
  lm_eq : s.lineMax = lm
  lineMax : s'.lineMax = lm + n
  blk_eq : s.blkIndent = blk
  blk_nn : 0 ≤ blk
  blkIndent : s'.blkIndent = blk + W
  level : s'.level = s.level + k
  li_eq : s.listIndent = li
  listIndent : (0 ≤ li ∧ s'.listIndent = li + W) ∨ (li < 0 ∧ blk = 0 ∧ s'.listIndent = 0)
  tight : tt = true → s'.tight = s.tight
  parent : pp = true → s'.parentType = s.parentType
  tokens : ∃ ts, s.tokens = spre ++ ts ∧ s'.tokens = pre ++ ts.map (Tok.shift2 k n)

section
variable {tt pp : Bool} {k : Int} {n W lm : Nat} {li blk : Int} {spre pre : List Tok} {s s' : BState}

theorem TR.blkI (h : TR tt pp k n W lm li blk spre pre s s') : s'.blkIndent = s.blkIndent + W := by rw [h.blkIndent, h.blk_eq]

theorem TR.get_none (h : TR tt pp k n W lm li blk spre pre s s') (i j : Nat) (hj : j = i + n) (hl : s.lines[i]? = none) :
    s'.lines[j]? = none := by
  rw [List.getElem?_eq_none_iff] at hl ⊢
  rw [h.len]; omega

theorem getL_some {s : BState} {i : Nat} {l : BLine} (hg : getL s i = .ok l) : s.lines[i]? = some l := by
  unfold getL at hg
  cases hq : s.lines[i]? with
  | none => rw [hq] at hg; cases hg
  | some x => rw [hq] at hg; cases hg; rfl

/-- a line below `lineMax`: related, tab-free, no `>`, `sCount ≥ 0` -/
theorem getL_sh (h : TR tt pp k n W lm li blk spre pre s s') (i j : Nat) (hj : j = i + n) (hi : i < lm) (l : BLine) (hg : getL s i = .ok l) :
    ∃ l', getL s' j = .ok l' ∧ IL W l l' ∧ '\t' ∉ l.text ∧ '>' ∉ l.text ∧ 0 ≤ l.sCount := by
  have hl := getL_some hg
  obtain ⟨l', h1, _, h3⟩ := h.lines i l hl
  subst hj
  obtain ⟨g1, g2, g3⟩ := h.good l (List.mem_of_getElem? hl)
  exact ⟨l', getL_of_here h1, h3 hi, g1, g2, g3⟩

/-- any line: related or the same blank entry -/
theorem getL_shs (h : TR tt pp k n W lm li blk spre pre s s') (i j : Nat) (hj : j = i + n) (l : BLine) (hg : getL s i = .ok l) :
    ∃ l', getL s' j = .ok l' ∧ ILs W l l' ∧ '\t' ∉ l.text := by
  have hl := getL_some hg
  obtain ⟨l', h1, h2, _⟩ := h.lines i l hl
  subst hj
  exact ⟨l', getL_of_here h1, h2, (h.good l (List.mem_of_getElem? hl)).1⟩

theorem isCode_sh (h : TR tt pp k n W lm li blk spre pre s s') (codeOn : Bool) {l l' : BLine} (hz : IL W l l') :
    isCodeLine codeOn s' l' = isCodeLine codeOn s l := by
  simp only [isCodeLine, hz.sc, h.blkI]
  congr 1
  apply decide_eq_decide.2; omega

theorem lt_blk_sh (h : TR tt pp k n W lm li blk spre pre s s') {l l' : BLine} (hz : IL W l l') :
    (l'.sCount < s'.blkIndent) = (l.sCount < s.blkIndent) := by
  rw [hz.sc, h.blkI]; exact propext ⟨fun h => by omega, fun h => by omega⟩

/-! ### pushes -/

theorem TR.push (h : TR tt pp k n W lm li blk spre pre s s') (a b : String) (ne : Int) (m m' c d e f) (hm : m' = shiftM n m) :
    TR tt pp k n W lm li blk spre pre (s.pushFull a b ne m c d e f) (s'.pushFull a b ne m' c d e f) := by
  refine ⟨h.lines, h.len, h.good, h.line, h.lm_eq, h.lineMax, h.blk_eq, h.blk_nn, h.blkIndent, ?_, h.li_eq, h.listIndent, h.tight, h.parent, ?_⟩
  · simp only [BState.pushFull, h.level]; split <;> split <;> omega
  · obtain ⟨ts, a1, a2⟩ := h.tokens
    refine ⟨ts ++ [pushedTok s a b ne m c d e f], ?_, ?_⟩
    · rw [pushFull_tokens, a1]; simp
    · rw [pushFull_tokens, a2, shift2_pushed k n s s' h.level a b ne m m' c d e f hm]; simp

theorem TR.setLineNo (h : TR tt pp k n W lm li blk spre pre s s') (a a' : Nat) (ha : a' = a + n) :
    TR tt pp k n W lm li blk spre pre { s with line := a } { s' with line := a' } :=
  ⟨h.lines, h.len, h.good, ha, h.lm_eq, h.lineMax, h.blk_eq, h.blk_nn, h.blkIndent, h.level, h.li_eq, h.listIndent, h.tight, h.parent, h.tokens⟩

end

/-! ### simulation of rules -/

def ShSim (k : Int) (n W : Nat) (r r' : BRule) : Prop :=
  ∀ tt pp lm li blk spre pre s s' line endLine silent m t, TR tt pp k n W lm li blk spre pre s s' → (silent = true → pp = true) →
    line < endLine → endLine ≤ lm →
    r s line endLine silent = .ok (m, t) →
    ∃ t', r' s' (line + n) (endLine + n) silent = .ok (m, t') ∧ TR tt pp k n W lm li blk spre pre t t'

macro "sh_same" h:ident hsr:term : tactic =>
  `(tactic| (simp only [Except.ok.injEq, Prod.mk.injEq] at $h:ident; obtain ⟨h1, h2⟩ := $h:ident; subst h1; subst h2; exact ⟨_, rfl, $hsr⟩))

theorem sh_hr (k : Int) (n W : Nat) (codeOn : Bool) : ShSim k n W (ruleHr codeOn) (ruleHr codeOn) := by
  intro tt pp lm li blk spre pre s s' line endLine silent m t hsr hsil hlt hle h
  unfold ruleHr at h
  obtain ⟨l, hg, h⟩ := getL_cases h
  obtain ⟨l', hg', hz, hnt, hgt, hnn⟩ := getL_sh hsr line (line + n) rfl (by omega) l hg
  simp only [ruleHr, hg', isCode_sh hsr codeOn hz, hz.body]
  cases hc : isCodeLine codeOn s l <;> simp only [hc, ↓reduceIte, Bool.false_eq_true] at h ⊢
  · cases hm : hrMarkup l.body <;> simp only [hm] at h ⊢
    · sh_same h hsr
    · cases silent <;> simp only [↓reduceIte, Bool.false_eq_true] at h ⊢
      · sh_same h ((hsr.setLineNo (line + 1) _ (by omega)).push _ _ _ _ _ _ _ _ _ (shiftM_some rfl (by omega)))
      · sh_same h hsr
  · sh_same h hsr

/-! ### `getLines` -/

theorem getLinesGo_sh {tt pp k n W lm li blk spre pre s s'} (h : TR tt pp k n W lm li blk spre pre s s') (end_ : Nat) (indent : Int) (hi : 0 ≤ indent) (keep : Bool) :
    ∀ (m line : Nat) (acc c : List Char), getLinesGo s end_ indent keep m line acc = .ok c →
      getLinesGo s' (end_ + n) (indent + W) keep m (line + n) acc = .ok c := by
  intro m
  induction m with
  | zero => intro line acc c hc; exact hc
  | succ m ih =>
    intro line acc c hc
    unfold getLinesGo at hc
    obtain ⟨l, hg, hc⟩ := getL_cases hc
    obtain ⟨l', hg', hz, hnt⟩ := getL_shs h line (line + n) rfl l hg
    simp only [getLinesGo, hg']
    have c1 : decide (line + n + 1 < end_ + n) = decide (line + 1 < end_) := by
      apply decide_eq_decide.2; omega
    rw [c1, hz.lf]
    have hnt' : '\t' ∉ l.text ++ (if ((decide (line + 1 < end_) || keep) && l.hasLF) = true then ['\n'] else []) := by
      intro hm
      rw [List.mem_append] at hm
      rcases hm with hm | hm
      · exact hnt hm
      · split at hm
        · simp at hm
        · cases hm
    have hcut : cutLineI (l'.text ++ (if ((decide (line + 1 < end_) || keep) && l.hasLF) = true then ['\n'] else [])) l'.tShift l'.bs (indent + W)
        = cutLineI (l.text ++ (if ((decide (line + 1 < end_) || keep) && l.hasLF) = true then ['\n'] else [])) l.tShift l.bs indent := by
      rcases hz with hz | ⟨e1, e2, e3⟩
      · exact cutLineI_shift hz _ hnt' indent hi
      · rw [e1, e2, e3]
        simp only [List.nil_append]
        apply cutLineI_blank _ _ _ _ _ (by omega) hi
        split
        · exact Or.inr rfl
        · exact Or.inl rfl
    rw [hcut]
    have e : line + n + 1 = line + 1 + n := by omega
    rw [e]
    exact ih _ _ _ hc

theorem getLinesB_sh {tt pp k n W lm li blk spre pre s s'} (h : TR tt pp k n W lm li blk spre pre s s') (b e b' e' : Nat) (hb : b' = b + n) (he : e' = e + n)
    (indent indent' : Int) (hi : 0 ≤ indent) (hi' : indent' = indent + W) (keep : Bool)
    (c : List Char) (hc : getLinesB s b e indent keep = .ok c) : getLinesB s' b' e' indent' keep = .ok c := by
  subst hb; subst he; subst hi'
  unfold getLinesB at hc ⊢
  by_cases hbe : b ≤ e
  · have : e + n - (b + n) = e - b := by omega
    rw [this]; exact getLinesGo_sh h e indent hi keep _ _ _ _ hc
  · have h0 : e - b = 0 := by omega
    have h1 : e + n - (b + n) = 0 := by omega
    rw [h0] at hc; rw [h1]
    simpa [getLinesGo] using hc

theorem sh_heading (k : Int) (n W : Nat) (codeOn : Bool) (ws : List Nat) : ShSim k n W (ruleHeading codeOn ws) (ruleHeading codeOn ws) := by
  intro tt pp lm li blk spre pre s s' line endLine silent m t hsr hsil hlt hle h
  unfold ruleHeading at h
  obtain ⟨l, hg, h⟩ := getL_cases h
  obtain ⟨l', hg', hz, hnt, hgt, hnn⟩ := getL_sh hsr line (line + n) rfl (by omega) l hg
  simp only [ruleHeading, hg', isCode_sh hsr codeOn hz, hz.body]
  cases hc : isCodeLine codeOn s l <;> simp only [hc, ↓reduceIte, Bool.false_eq_true] at h ⊢
  · cases hb : l.body with
    | nil => simp only [hb] at h ⊢; sh_same h hsr
    | cons c rest =>
      simp only [hb] at h ⊢
      by_cases h1 : (c != '#') = true
      · simp only [h1, ↓reduceIte] at h ⊢; sh_same h hsr
      · simp only [h1, ↓reduceIte, Bool.false_eq_true] at h ⊢
        by_cases h2 : (List.takeWhile (fun x => x == '#') (c :: rest)).length > 6
        · simp only [h2, ↓reduceIte] at h ⊢; sh_same h hsr
        · simp only [h2, ↓reduceIte] at h ⊢
          cases h3 : headingSep (List.drop (List.takeWhile (fun x => x == '#') (c :: rest)).length (c :: rest)) <;>
            simp only [h3, Bool.not_false, Bool.not_true, ↓reduceIte, Bool.false_eq_true] at h ⊢
          · sh_same h hsr
          · cases silent <;> simp only [↓reduceIte, Bool.false_eq_true] at h ⊢
            · sh_same h ((((hsr.setLineNo (line + 1) _ (by omega)).push _ _ _ _ _ _ _ _ _ (shiftM_some rfl (by omega))).push _ _ _ _ _ _ _ _ _
                (shiftM_some rfl (by omega))).push _ _ _ _ _ _ _ _ _ rfl)
            · sh_same h hsr
  · sh_same h hsr

theorem codeScan_sh {tt pp k n W lm li blk spre pre s s'} (h : TR tt pp k n W lm li blk spre pre s s') (codeOn : Bool) (endLine : Nat) (hle : endLine ≤ lm) :
    ∀ (fuel next last r : Nat), codeScan codeOn s endLine fuel next last = .ok r →
      codeScan codeOn s' (endLine + n) fuel (next + n) (last + n) = .ok (r + n) := by
  intro fuel
  induction fuel with
  | zero => intro next last r hr; simp [codeScan] at hr
  | succ f ih =>
    intro next last r hr
    simp only [codeScan] at hr ⊢
    have c0 : (next + n < endLine + n) = (next < endLine) := propext ⟨fun h => by omega, fun h => by omega⟩
    simp only [c0]
    split at hr
    · rename_i hlt
      simp only [hlt, ↓reduceIte]
      obtain ⟨l, hg, hr⟩ := getL_cases hr
      obtain ⟨l', hg', hz, _⟩ := getL_sh h next (next + n) rfl (by omega) l hg
      simp only [hg', hz.empty, isCode_sh h codeOn hz]
      have e : next + n + 1 = next + 1 + n := by omega
      split at hr
      · rename_i he; simp only [he, ↓reduceIte]; rw [e]; exact ih _ _ _ hr
      · rename_i he
        simp only [he, Bool.false_eq_true, ↓reduceIte]
        split at hr
        · rename_i hc; simp only [hc, ↓reduceIte]; rw [e]; exact ih _ _ _ hr
        · rename_i hc; simp only [hc, Bool.false_eq_true, ↓reduceIte]
          simp only [Except.ok.injEq] at hr ⊢; omega
    · rename_i hlt; simp only [hlt, ↓reduceIte]
      simp only [Except.ok.injEq] at hr ⊢; omega

theorem sh_code (k : Int) (n W : Nat) (codeOn : Bool) : ShSim k n W (ruleCode codeOn) (ruleCode codeOn) := by
  intro tt pp lm li blk spre pre s s' line endLine silent m t hsr hsil hlt hle h
  unfold ruleCode at h
  obtain ⟨l, hg, h⟩ := getL_cases h
  obtain ⟨l', hg', hz, hnt, hgt, hnn⟩ := getL_sh hsr line (line + n) rfl (by omega) l hg
  simp only [ruleCode, hg', isCode_sh hsr codeOn hz]
  cases hc : isCodeLine codeOn s l <;> simp only [hc, ↓reduceIte, Bool.false_eq_true, Bool.not_false, Bool.not_true] at h ⊢
  · sh_same h hsr
  · cases hs : codeScan codeOn s endLine (endLine - line + 1) (line + 1) (line + 1) with
    | error e => rw [hs] at h; cases h
    | ok last =>
      rw [hs] at h
      have hs' := codeScan_sh hsr codeOn endLine hle _ _ _ _ hs
      have e1 : endLine + n - (line + n) + 1 = endLine - line + 1 := by omega
      have e2 : line + n + 1 = line + 1 + n := by omega
      simp only [e1, e2, hs'] at h ⊢
      cases hgl : getLinesB s line last (4 + s.blkIndent) false with
      | error e => rw [hgl] at h; cases h
      | ok c =>
        rw [hgl] at h
        have e : getLinesB s' (line + n) (last + n) (4 + s'.blkIndent) false = .ok c :=
          getLinesB_sh hsr _ _ _ _ rfl rfl (4 + s.blkIndent) _ (by have := hsr.blk_nn; rw [hsr.blk_eq]; omega) (by rw [hsr.blkI]; omega) _ _ hgl
        simp only [e]
        sh_same h ((hsr.setLineNo last _ rfl).push _ _ _ _ _ _ _ _ _ rfl)

theorem fenceScan_sh {tt pp k n W lm li blk spre pre s s'} (h : TR tt pp k n W lm li blk spre pre s s') (codeOn : Bool) (endLine : Nat) (hle : endLine ≤ lm) (marker : Char) (len : Nat) :
    ∀ (fuel prev : Nat) (r : Nat × Bool), fenceScan codeOn s endLine marker len fuel prev = .ok r →
      fenceScan codeOn s' (endLine + n) marker len fuel (prev + n) = .ok (r.1 + n, r.2) := by
  intro fuel
  induction fuel with
  | zero => intro prev r hr; simp [fenceScan] at hr
  | succ f ih =>
    intro prev r hr
    simp only [fenceScan] at hr ⊢
    have c0 : (prev + n + 1 ≥ endLine + n) = (prev + 1 ≥ endLine) := propext ⟨fun h => by omega, fun h => by omega⟩
    have e : prev + n + 1 = prev + 1 + n := by omega
    simp only [c0]
    have fin : ∀ (b : Bool), (Except.ok (prev + 1, b) : Except PyErr (Nat × Bool)) = .ok r →
        (Except.ok (prev + n + 1, b) : Except PyErr (Nat × Bool)) = .ok (r.1 + n, r.2) := by
      intro b hb
      simp only [Except.ok.injEq] at hb; subst hb
      simp only [Except.ok.injEq, Prod.mk.injEq, and_true]; omega
    split at hr
    · rename_i hge; simp only [hge, ↓reduceIte]; exact fin _ hr
    · rename_i hge
      simp only [hge, ↓reduceIte]
      obtain ⟨l, hg, hr⟩ := getL_cases hr
      obtain ⟨l', hg', hz, _⟩ := getL_sh h (prev + 1) (prev + n + 1) e (by omega) l hg
      simp only [hg', hz.empty, isCode_sh h codeOn hz, hz.body, lt_blk_sh h hz, hz.lf]
      split at hr
      · rename_i h1; simp only [h1, ↓reduceIte]; exact fin _ hr
      · rename_i h1
        simp only [h1, ↓reduceIte]
        cases hb : l.body with
        | nil =>
          simp only [hb] at hr ⊢
          split at hr
          · rename_i h2; simp only [h2, ↓reduceIte]; rw [e]; exact ih _ _ hr
          · rename_i h2; simp only [h2, ↓reduceIte]; exact fin _ hr
        | cons c rest =>
          simp only [hb] at hr ⊢
          split at hr
          · rename_i h2; simp only [h2, ↓reduceIte]; rw [e]; exact ih _ _ hr
          · rename_i h2
            simp only [h2, ↓reduceIte]
            split at hr
            · rename_i h3; simp only [h3, ↓reduceIte]; rw [e]; exact ih _ _ hr
            · rename_i h3
              simp only [h3, ↓reduceIte]
              split at hr
              · rename_i h4; simp only [h4, ↓reduceIte]; rw [e]; exact ih _ _ hr
              · rename_i h4
                simp only [h4, ↓reduceIte]
                split at hr
                · rename_i h5; simp only [h5, ↓reduceIte]; exact fin _ hr
                · rename_i h5; simp only [h5, ↓reduceIte]; rw [e]; exact ih _ _ hr

theorem sh_fence (k : Int) (n W : Nat) (codeOn : Bool) : ShSim k n W (ruleFence codeOn) (ruleFence codeOn) := by
  intro tt pp lm li blk spre pre s s' line endLine silent m t hsr hsil hlt hle h
  unfold ruleFence at h
  obtain ⟨l, hg, h⟩ := getL_cases h
  obtain ⟨l', hg', hz, hnt, hgt, hnn⟩ := getL_sh hsr line (line + n) rfl (by omega) l hg
  simp only [ruleFence, hg', isCode_sh hsr codeOn hz, hz.body]
  cases hc : isCodeLine codeOn s l <;> simp only [hc, ↓reduceIte, Bool.false_eq_true] at h ⊢
  · by_cases h1 : l.body.length < 3
    · simp only [h1, ↓reduceIte] at h ⊢; sh_same h hsr
    · simp only [h1, ↓reduceIte] at h ⊢
      cases hb : l.body with
      | nil => simp only [hb] at h ⊢; sh_same h hsr
      | cons marker rest =>
        simp only [hb] at h ⊢
        split at h
        · rename_i h2; simp only [h2, ↓reduceIte]; sh_same h hsr
        · rename_i h2
          simp only [h2, ↓reduceIte]
          split at h
          · rename_i h3; simp only [h3, ↓reduceIte]; sh_same h hsr
          · rename_i h3
            simp only [h3, ↓reduceIte]
            split at h
            · rename_i h4; simp only [h4, ↓reduceIte]; sh_same h hsr
            · rename_i h4
              simp only [h4, ↓reduceIte]
              cases silent <;> simp only [↓reduceIte, Bool.false_eq_true] at h ⊢
              · cases hs : fenceScan codeOn s endLine marker (List.takeWhile (fun x => x == marker) (marker :: rest)).length (endLine - line + 1) line with
                | error e => rw [hs] at h; cases h
                | ok r =>
                  obtain ⟨next, hv⟩ := r
                  rw [hs] at h
                  have hs' := fenceScan_sh hsr codeOn endLine hle _ _ _ _ _ hs
                  have e1 : endLine + n - (line + n) + 1 = endLine - line + 1 := by omega
                  simp only [e1, hs'] at h ⊢
                  cases hgl : getLinesB s (line + 1) next l.sCount true with
                  | error e => rw [hgl] at h; cases h
                  | ok c =>
                    rw [hgl] at h
                    simp only [getLinesB_sh hsr (line + 1) next (line + n + 1) (next + n) (by omega) rfl l.sCount l'.sCount hnn (by rw [hz.sc]) _ _ hgl]
                    sh_same h ((hsr.setLineNo _ _ (by omega)).push _ _ _ _ _ _ _ _ _ (shiftM_some rfl (by omega)))
              · sh_same h hsr
  · sh_same h hsr
/-! ### chains, terminators, `paragraph` -/

inductive ShSims (k : Int) (n W : Nat) : List BRule → List BRule → Prop where
  | nil : ShSims k n W [] []
  | cons {r r' rs rs'} : ShSim k n W r r' → ShSims k n W rs rs' → ShSims k n W (r :: rs) (r' :: rs')

theorem ShSims.append {k n W} {a a' b b' : List BRule} (h1 : ShSims k n W a a') (h2 : ShSims k n W b b') : ShSims k n W (a ++ b) (a' ++ b') := by
  induction h1 with
  | nil => exact h2
  | cons hr _ ih => exact .cons hr ih

theorem ShSims.opt {k n W} (c : Bool) {r r' : BRule} (h : ShSim k n W r r') : ShSims k n W (if c then [r] else []) (if c then [r'] else []) := by
  cases c
  · exact .nil
  · exact .cons h .nil

theorem runTerminators_sh {k n W} {ts ts' : List BRule} (hs : ShSims k n W ts ts') :
    ∀ {tt lm li blk spre pre s s'} (line endLine : Nat) (b : Bool) (s1 : BState), TR tt true k n W lm li blk spre pre s s' →
      line < endLine → endLine ≤ lm → runTerminators ts s line endLine = .ok (b, s1) →
      ∃ s1', runTerminators ts' s' (line + n) (endLine + n) = .ok (b, s1') ∧ TR tt true k n W lm li blk spre pre s1 s1' := by
  induction hs with
  | nil =>
    intro tt lm li blk spre pre s s' line endLine b s1 hsr _ _ h
    simp only [runTerminators, Except.ok.injEq, Prod.mk.injEq] at h
    obtain ⟨h1, h2⟩ := h; subst h1; subst h2
    exact ⟨_, rfl, hsr⟩
  | @cons r r' rs rs' hr _ ih =>
    intro tt lm li blk spre pre s s' line endLine b s1 hsr hlt hle h
    simp only [runTerminators] at h ⊢
    cases hq : r s line endLine true with
    | error e => rw [hq] at h; cases h
    | ok v =>
      obtain ⟨m, t⟩ := v
      rw [hq] at h
      obtain ⟨t', hq', hsr'⟩ := hr tt true lm li blk spre pre s s' line endLine true m t hsr (fun _ => rfl) hlt hle hq
      rw [hq']
      cases m with
      | true =>
        simp only [Except.ok.injEq, Prod.mk.injEq] at h
        obtain ⟨h1, h2⟩ := h; subst h1; subst h2
        exact ⟨_, rfl, hsr'⟩
      | false => exact ih line endLine b s1 hsr' hlt hle h

theorem gt3_sh {tt pp k n W lm li blk spre pre s s'} (h : TR tt pp k n W lm li blk spre pre s s') {l l' : BLine} (hz : IL W l l') :
    (l'.sCount - s'.blkIndent > 3) = (l.sCount - s.blkIndent > 3) := by
  rw [hz.sc, h.blkI]; exact propext ⟨fun h => by omega, fun h => by omega⟩

theorem paraScan_sh {k n W} {ts ts' : List BRule} (hs : ShSims k n W ts ts') (endLine : Nat) :
    ∀ (fuel next : Nat) {tt lm li blk spre pre s s'} (r : Nat) (s1 : BState), TR tt true k n W lm li blk spre pre s s' → endLine ≤ lm →
      paraScan ts endLine fuel next s = .ok (r, s1) →
      ∃ s1', paraScan ts' (endLine + n) fuel (next + n) s' = .ok (r + n, s1') ∧ TR tt true k n W lm li blk spre pre s1 s1' := by
  intro fuel
  induction fuel with
  | zero => intro next tt lm li blk spre pre s s' r s1 _ _ h; simp [paraScan] at h
  | succ f ih =>
    intro next tt lm li blk spre pre s s' r s1 hsr hle h
    simp only [paraScan] at h ⊢
    have c0 : (next + n < endLine + n) = (next < endLine) := propext ⟨fun h => by omega, fun h => by omega⟩
    have e : next + n + 1 = next + 1 + n := by omega
    simp only [c0]
    split at h
    · rename_i hlt
      simp only [hlt, ↓reduceIte]
      obtain ⟨l, hg, h⟩ := getL_cases h
      obtain ⟨l', hg', hz, _, _, hnn⟩ := getL_sh hsr next (next + n) rfl (by omega) l hg
      have cneg : (l'.sCount < 0) = (l.sCount < 0) := by rw [hz.sc]; exact propext ⟨fun h => by omega, fun h => by omega⟩
      simp only [hg', hz.empty, gt3_sh hsr hz, cneg]
      split at h
      · rename_i h1; simp only [h1, ↓reduceIte]
        simp only [Except.ok.injEq, Prod.mk.injEq] at h; obtain ⟨e1, e2⟩ := h; subst e1; subst e2; exact ⟨_, rfl, hsr⟩
      · rename_i h1
        simp only [h1, ↓reduceIte]
        split at h
        · rename_i h2; simp only [h2, ↓reduceIte]; rw [e]; exact ih _ _ _ hsr hle h
        · rename_i h2
          simp only [h2, ↓reduceIte]
          split at h
          · rename_i h3; simp only [h3, ↓reduceIte]; rw [e]; exact ih _ _ _ hsr hle h
          · rename_i h3
            simp only [h3, ↓reduceIte]
            cases hq : runTerminators ts s next endLine with
            | error e => rw [hq] at h; cases h
            | ok v =>
              obtain ⟨b, t⟩ := v
              rw [hq] at h
              obtain ⟨t', hq', hsr'⟩ := runTerminators_sh hs next endLine b t hsr hlt hle hq
              rw [hq']
              cases b with
              | true =>
                simp only [Except.ok.injEq, Prod.mk.injEq] at h; obtain ⟨e1, e2⟩ := h; subst e1; subst e2; exact ⟨_, rfl, hsr'⟩
              | false => simp only at h ⊢; rw [e]; exact ih _ _ _ hsr' hle h
    · rename_i hlt
      simp only [hlt, ↓reduceIte]
      simp only [Except.ok.injEq, Prod.mk.injEq] at h; obtain ⟨e1, e2⟩ := h; subst e1; subst e2; exact ⟨_, rfl, hsr⟩

theorem TR.setParent {tt pp k n W lm li blk spre pre s s'} (h : TR tt pp k n W lm li blk spre pre s s') (pp0 : Bool) (p p' : String) (hp : pp0 = true → p' = p) :
    TR tt pp0 k n W lm li blk spre pre { s with parentType := p } { s' with parentType := p' } :=
  ⟨h.lines, h.len, h.good, h.line, h.lm_eq, h.lineMax, h.blk_eq, h.blk_nn, h.blkIndent, h.level, h.li_eq, h.listIndent, h.tight, hp, h.tokens⟩

theorem sh_paragraph (k : Int) (n W : Nat) {ts ts' : List BRule} (hs : ShSims k n W ts ts') (ws : List Nat) :
    ShSim k n W (ruleParagraph ts ws) (ruleParagraph ts' ws) := by
  intro tt pp lm li blk spre pre s s' line endLine silent m t hsr hsil hlt hle h
  simp only [ruleParagraph] at h ⊢
  cases hq : paraScan ts s.lineMax (s.lineMax - line + 1) (line + 1) { s with parentType := "paragraph" } with
  | error e => rw [hq] at h; cases h
  | ok v =>
    obtain ⟨next, s1⟩ := v
    rw [hq] at h
    obtain ⟨s1', hq', hsr1⟩ := paraScan_sh hs s.lineMax _ _ next s1 (hsr.setParent true "paragraph" "paragraph" (fun _ => rfl)) (by rw [hsr.lm_eq]; exact Nat.le_refl _) hq
    have hlmx : s'.lineMax = s.lineMax + n := by rw [hsr.lineMax, hsr.lm_eq]
    have hq'' : paraScan ts' s'.lineMax (s'.lineMax - (line + n) + 1) (line + n + 1) { s' with parentType := "paragraph" } = .ok (next + n, s1') := by
      have e1 : s'.lineMax - (line + n) + 1 = s.lineMax - line + 1 := by rw [hlmx]; omega
      have e2 : line + n + 1 = line + 1 + n := by omega
      rw [e1, e2]
      have hq3 := hq'
      rw [← hlmx] at hq3
      exact hq3
    rw [hq'']
    simp only at h ⊢
    cases hgl : getLinesB s1 line next s1.blkIndent false with
    | error e => rw [hgl] at h; cases h
    | ok c =>
      rw [hgl] at h
      have e : getLinesB s1' (line + n) (next + n) s1'.blkIndent false = .ok c :=
        getLinesB_sh hsr1 _ _ _ _ rfl rfl s1.blkIndent _ (by rw [hsr1.blk_eq]; exact hsr1.blk_nn) hsr1.blkI _ _ hgl
      simp only [e]
      simp only [Except.ok.injEq, Prod.mk.injEq] at h; obtain ⟨e1, e2⟩ := h; subst e1; subst e2
      refine ⟨_, rfl, ?_⟩
      have h3 := (((hsr1.setLineNo next (next + n) rfl).push "paragraph_open" "p" 1 (some (line, next)) (some (line + n, next + n)) none "" "" "" rfl).push
        "inline" "" 0 (some (line, next)) (some (line + n, next + n)) (some []) (String.ofList (pyStrip ws c)) "" "" rfl).push "paragraph_close" "p" (-1) none none none "" "" "" rfl
      exact h3.setParent pp s.parentType s'.parentType hsr.parent

/-! ### the loop -/

theorem skipEmptyLines_sh {tt pp k n W lm li blk spre pre s s'} (h : TR tt pp k n W lm li blk spre pre s s') : ∀ (fuel from_ : Nat),
    skipEmptyLines s' fuel (from_ + n) = skipEmptyLines s fuel from_ + n := by
  intro fuel
  induction fuel with
  | zero => intro f; rfl
  | succ m ih =>
    intro f
    simp only [skipEmptyLines, h.lineMax, h.lm_eq]
    have c0 : (f + n < lm + n) = (f < lm) := propext ⟨fun h => by omega, fun h => by omega⟩
    have e : f + n + 1 = f + 1 + n := by omega
    simp only [c0]
    split
    · cases hq : s.lines[f]? with
      | none =>
        simp only [h.get_none f (f + n) rfl hq]; rw [e]; exact ih _
      | some l =>
        obtain ⟨l', h1, h2, _⟩ := h.lines f l hq
        simp only [h1, h2.empty]
        split
        · rw [e]; exact ih _
        · rfl
    · rfl

theorem isEmpty_sh {tt pp k n W lm li blk spre pre s s'} (h : TR tt pp k n W lm li blk spre pre s s') (i : Nat) : s'.isEmpty ((i + n : Nat) : Int) = s.isEmpty (i : Int) := by
  unfold BState.isEmpty idx
  have h1 : ¬ (((i + n : Nat) : Int) < 0) := by omega
  have h2 : ¬ ((i : Int) < 0) := by omega
  simp only [h1, h2, if_false]
  have e1 : ((i + n : Nat) : Int).toNat = i + n := Int.toNat_natCast _
  have e2 : (i : Int).toNat = i := by simp
  rw [e1, e2]
  cases hq : s.lines[i]? with
  | none => simp only [h.get_none i (i + n) rfl hq]
  | some l =>
    obtain ⟨l', a1, a2, _⟩ := h.lines i l hq
    simp only [a1, a2.empty]

theorem runBlockChain_sh {k n W} {rs rs' : List BRule} (hs : ShSims k n W rs rs') :
    ∀ {tt pp lm li blk spre pre s s'} (line endLine : Nat) (b : Bool) (s1 : BState), TR tt pp k n W lm li blk spre pre s s' →
      line < endLine → endLine ≤ lm → runBlockChain rs s line endLine = .ok (b, s1) →
      ∃ s1', runBlockChain rs' s' (line + n) (endLine + n) = .ok (b, s1') ∧ TR tt pp k n W lm li blk spre pre s1 s1' := by
  induction hs with
  | nil =>
    intro tt pp lm li blk spre pre s s' line endLine b s1 hsr _ _ h
    simp only [runBlockChain, Except.ok.injEq, Prod.mk.injEq] at h
    obtain ⟨h1, h2⟩ := h; subst h1; subst h2
    exact ⟨_, rfl, hsr⟩
  | @cons r r' rs rs' hr _ ih =>
    intro tt pp lm li blk spre pre s s' line endLine b s1 hsr hlt hle h
    simp only [runBlockChain] at h ⊢
    cases hq : r s line endLine false with
    | error e => rw [hq] at h; cases h
    | ok v =>
      obtain ⟨m, t⟩ := v
      rw [hq] at h
      obtain ⟨t', hq', hsr'⟩ := hr tt pp lm li blk spre pre s s' line endLine false m t hsr (fun h => by cases h) hlt hle hq
      rw [hq']
      cases m with
      | true =>
        simp only [Except.ok.injEq, Prod.mk.injEq] at h
        obtain ⟨h1, h2⟩ := h; subst h1; subst h2
        exact ⟨_, rfl, hsr'⟩
      | false => exact ih line endLine b s1 hsr' hlt hle h

theorem TR.setTight {tt pp k n W lm li blk spre pre s s'} (h : TR tt pp k n W lm li blk spre pre s s') (b b' : Bool) (hb : tt = true → b' = b) :
    TR tt pp k n W lm li blk spre pre { s with tight := b } { s' with tight := b' } :=
  ⟨h.lines, h.len, h.good, h.line, h.lm_eq, h.lineMax, h.blk_eq, h.blk_nn, h.blkIndent, h.level, h.li_eq, h.listIndent, hb, h.parent, h.tokens⟩

theorem blockLoop_sh {k n W} {rules rules' : List BRule} (hs : ShSims k n W rules rules' ∨ rules = []) (mn : Int) (endLine : Nat) :
    ∀ (fuel line : Nat) (he he' : Bool) {tt pp lm li blk spre pre s s'} (t : BState), TR tt pp k n W lm li blk spre pre s s' → (tt = true → he' = he) → endLine ≤ lm →
      blockLoop rules mn endLine fuel line he s = .ok t →
      ∃ t', blockLoop rules' (mn + k) (endLine + n) fuel (line + n) he' s' = .ok t' ∧ TR tt pp k n W lm li blk spre pre t t' := by
  intro fuel
  induction fuel with
  | zero =>
    intro line he he' tt pp lm li blk spre pre s s' t hsr hhe hle h
    simp only [blockLoop] at h ⊢
    have c0 : (line + n < endLine + n) = (line < endLine) := propext ⟨fun h => by omega, fun h => by omega⟩
    simp only [c0]
    split at h
    · cases h
    · rename_i hn; simp only [hn, ↓reduceIte]
      simp only [Except.ok.injEq] at h; subst h; exact ⟨_, rfl, hsr⟩
  | succ f ih =>
    intro line he he' tt pp lm li blk spre pre s s' t hsr hhe hle h
    simp only [blockLoop] at h ⊢
    have c0 : (line + n < endLine + n) = (line < endLine) := propext ⟨fun h => by omega, fun h => by omega⟩
    simp only [c0]
    split at h
    · rename_i hlt
      have e0 : skipEmptyLines s' (s'.lineMax + 1) (line + n) = skipEmptyLines s (s.lineMax + 1) line + n := by
        rw [hsr.lineMax, ← hsr.lm_eq, skipEmptyLines_sh hsr, skipEmptyLines_fuel s (s.lineMax + n + 1) (s.lineMax + 1) line (by omega) (by omega)]
      simp only [hlt, ↓reduceIte, e0]
      generalize skipEmptyLines s (s.lineMax + 1) line = line1 at h ⊢
      have hsr1 := hsr.setLineNo line1 (line1 + n) rfl
      have c1 : (line1 + n ≥ endLine + n) = (line1 ≥ endLine) := propext ⟨fun h => by omega, fun h => by omega⟩
      simp only [c1]
      split at h
      · rename_i h1; simp only [h1, ↓reduceIte]
        simp only [Except.ok.injEq] at h; subst h; exact ⟨_, rfl, hsr1⟩
      · rename_i h1
        simp only [h1, ↓reduceIte]
        cases hq : s.lines[line1]? with
        | none => simp only [hq] at h; cases h
        | some l =>
          simp only [hq] at h
          obtain ⟨l', hq', _, hz0⟩ := hsr.lines line1 l hq
          have hz := hz0 (by omega)
          have c2 : (l'.sCount < s'.blkIndent) = (l.sCount < s.blkIndent) := lt_blk_sh hsr hz
          have c3 : (s'.level ≥ mn + k) = (s.level ≥ mn) := by rw [hsr.level]; exact propext ⟨fun h => by omega, fun h => by omega⟩
          simp only [hq', c2, c3]
          split at h
          · rename_i h2; simp only [h2, ↓reduceIte]
            simp only [Except.ok.injEq] at h; subst h; exact ⟨_, rfl, hsr1⟩
          · rename_i h2
            simp only [h2, ↓reduceIte]
            split at h
            · rename_i h3
              simp only [h3, ↓reduceIte]
              simp only [Except.ok.injEq] at h; subst h; exact ⟨_, rfl, hsr.setLineNo endLine (endLine + n) rfl⟩
            · rename_i h3
              simp only [h3, ↓reduceIte]
              cases hc : runBlockChain rules { s with line := line1 } line1 endLine with
              | error e => rw [hc] at h; cases h
              | ok v =>
                obtain ⟨b, s2⟩ := v
                rw [hc] at h
                have hs1 : ShSims k n W rules rules' := by
                  rcases hs with hs | hs
                  · exact hs
                  · subst hs
                    simp only [runBlockChain, Except.ok.injEq, Prod.mk.injEq] at hc
                    obtain ⟨_, e2⟩ := hc; subst e2
                    simp only [Nat.le_refl, ↓reduceIte] at h
                    cases h
                obtain ⟨s2', hc', hsr2⟩ := runBlockChain_sh hs1 line1 endLine b s2 hsr1 (by omega) hle hc
                rw [hc']
                simp only at h ⊢
                rcases s2' with ⟨lines', ln', lm', bi', lv', tg', pt', tk', li'⟩
                have hln : ln' = s2.line + n := hsr2.line
                subst hln
                have hsr3 := hsr2.setTight (!he) (!he') (fun h => by rw [hhe h])
                have c4 : (s2.line + n ≤ line1 + n) = (s2.line ≤ line1) := propext ⟨fun h => by omega, fun h => by omega⟩
                simp only [c4]
                split at h
                · cases h
                · rename_i h4
                  have hpos : 1 ≤ s2.line := by
                    have : ¬ s2.line ≤ line1 := h4
                    omega
                  have c5 : (((s2.line + n : Nat) : Int) - 1 < ((endLine + n : Nat) : Int)) = ((s2.line : Int) - 1 < (endLine : Int)) :=
                    propext ⟨fun h => by omega, fun h => by omega⟩
                  have e5 : ((s2.line + n : Nat) : Int) - 1 = ((s2.line - 1 + n : Nat) : Int) := by omega
                  have e6 : (s2.line : Int) - 1 = ((s2.line - 1 : Nat) : Int) := by omega
                  simp only [h4, ↓reduceIte, c5]
                  rw [e5, isEmpty_sh hsr3 (s2.line - 1), ← e6]
                  cases he1 : (if (s2.line : Int) - 1 < ↑endLine then ({ s2 with tight := !he } : BState).isEmpty (↑s2.line - 1) else Except.ok false) with
                  | error e => rw [he1] at h; cases h
                  | ok e1 =>
                    rw [he1] at h
                    simp only at h ⊢
                    have c6 : (s2.line + n < endLine + n) = (s2.line < endLine) := propext ⟨fun h => by omega, fun h => by omega⟩
                    simp only [c6]
                    split at h
                    · rename_i h5
                      simp only [h5, ↓reduceIte]
                      rw [isEmpty_sh hsr3 s2.line]
                      cases he2 : ({ s2 with tight := !he } : BState).isEmpty ↑s2.line with
                      | error e => rw [he2] at h; cases h
                      | ok e2 =>
                        rw [he2] at h
                        simp only at h ⊢
                        have e7 : s2.line + n + 1 = s2.line + 1 + n := by omega
                        split at h
                        · rename_i h6; simp only [h6, ↓reduceIte]
                          rw [e7]
                          exact ih _ _ _ _ (hsr3.setLineNo (s2.line + 1) (s2.line + 1 + n) rfl) (fun _ => rfl) hle h
                        · rename_i h6; simp only [h6, ↓reduceIte]
                          exact ih _ _ _ _ hsr3 (fun h => by rw [hhe h]) hle h
                    · rename_i h5
                      simp only [h5, ↓reduceIte]
                      exact ih _ _ _ _ hsr3 (fun h => by rw [hhe h]) hle h
    · rename_i hlt
      simp only [hlt, ↓reduceIte]
      simp only [Except.ok.injEq] at h; subst h; exact ⟨_, rfl, hsr⟩


theorem blockTokenize_sh {k n W} {rules rules' : List BRule} (hs : ShSims k n W rules rules' ∨ rules = []) (mn : Int) {tt pp lm li blk spre pre s s'} (a b : Nat) (t : BState)
    (hsr : TR tt pp k n W lm li blk spre pre s s') (hle : b ≤ lm) (h : blockTokenize rules mn s a b = .ok t) :
    ∃ t', blockTokenize rules' (mn + k) s' (a + n) (b + n) = .ok t' ∧ TR tt pp k n W lm li blk spre pre t t' := by
  unfold blockTokenize at h ⊢
  have e : b + n - (a + n) + 1 = b - a + 1 := by omega
  rw [e]
  exact blockLoop_sh hs mn b _ a false false t hsr (fun _ => rfl) hle h

section
variable {tt pp : Bool} {k : Int} {n W lm : Nat} {li blk : Int} {spre pre : List Tok} {s s' : BState}

/-- start a new token segment: both prefixes become the whole token lists -/
theorem TR.rebase (h : TR tt pp k n W lm li blk spre pre s s') : TR tt pp k n W lm li blk s.tokens s'.tokens s s' :=
  ⟨h.lines, h.len, h.good, h.line, h.lm_eq, h.lineMax, h.blk_eq, h.blk_nn, h.blkIndent, h.level, h.li_eq, h.listIndent, h.tight, h.parent, ⟨[], by simp, by simp⟩⟩

theorem TR.pushRebase (h : TR tt pp k n W lm li blk spre pre s s') (a b : String) (ne : Int) (m m' c d e f) :
    TR tt pp k n W lm li blk (s.pushFull a b ne m c d e f).tokens (s'.pushFull a b ne m' c d e f).tokens (s.pushFull a b ne m c d e f) (s'.pushFull a b ne m' c d e f) := by
  refine ⟨h.lines, h.len, h.good, h.line, h.lm_eq, h.lineMax, h.blk_eq, h.blk_nn, h.blkIndent, ?_, h.li_eq, h.listIndent, h.tight, h.parent, ⟨[], by simp, by simp⟩⟩
  simp only [BState.pushFull, h.level]; split <;> split <;> omega

theorem Good.set {ls : List BLine} (h : Good ls) (i : Nat) {a : BLine} (ha : '\t' ∉ a.text ∧ '>' ∉ a.text ∧ 0 ≤ a.sCount) : Good (ls.set i a) := by
  intro l hl
  rcases List.mem_or_eq_of_mem_set hl with h1 | h1
  · exact h l h1
  · subst h1; exact ha

theorem TR.setLine (h : TR tt pp k n W lm li blk spre pre s s') (i j : Nat) (hj : j = i + n) {a a' : BLine} (hz : IL W a a')
    (ha : '\t' ∉ a.text ∧ '>' ∉ a.text ∧ 0 ≤ a.sCount) :
    TR tt pp k n W lm li blk spre pre (s.setLine i a) (s'.setLine j a') := by
  subst hj
  refine ⟨?_, ?_, h.good.set i ha, h.line, h.lm_eq, h.lineMax, h.blk_eq, h.blk_nn, h.blkIndent, h.level, h.li_eq, h.listIndent, h.tight, h.parent, h.tokens⟩
  · intro x l hl
    show ∃ l', (s'.lines.set (i + n) a')[x + n]? = some l' ∧ _
    have hl' : (s.lines.set i a)[x]? = some l := hl
    by_cases hx : i = x
    · subst hx
      have hlen : i < s.lines.length := by
        have := (List.getElem?_eq_some_iff.1 hl').1
        simpa using this
      rw [List.getElem?_set_self hlen] at hl'
      simp only [Option.some.injEq] at hl'
      subst hl'
      refine ⟨a', ?_, Or.inl hz, fun _ => hz⟩
      exact List.getElem?_set_self (by rw [h.len]; omega)
    · rw [List.getElem?_set_ne hx] at hl'
      obtain ⟨l', a1, a2, a3⟩ := h.lines x l hl'
      refine ⟨l', ?_, a2, a3⟩
      rw [List.getElem?_set_ne (by omega)]
      exact a1
  · show (s'.lines.set (i + n) a').length = (s.lines.set i a).length + n
    simp [h.len]

end

/-! ### the quote rule declines: no line holds a `>` -/

theorem head_ne_gt (l : BLine) (h : '>' ∉ l.text) : (!l.body.head? == some '>') = true := by
  cases hb : l.body with
  | nil => rfl
  | cons c rest =>
    have hc : c ∈ l.text := by
      have : c ∈ l.body := by rw [hb]; simp
      exact List.mem_of_mem_drop this
    have : c ≠ '>' := fun e => h (e ▸ hc)
    simp [this]

theorem sh_quote (k : Int) (n W : Nat) (codeOn : Bool) (ts ts' inner inner' : List BRule) (mn mn' : Int) :
    ShSim k n W (ruleBlockquote codeOn ts inner mn) (ruleBlockquote codeOn ts' inner' mn') := by
  intro tt pp lm li blk spre pre s s' line endLine silent m t hsr hsil hlt hle h
  unfold ruleBlockquote at h
  obtain ⟨l, hg, h⟩ := getL_cases h
  obtain ⟨l', hg', hz, hnt, hgt, hnn⟩ := getL_sh hsr line (line + n) rfl (by omega) l hg
  simp only [ruleBlockquote, hg', isCode_sh hsr codeOn hz, hz.body]
  cases hc : isCodeLine codeOn s l <;> simp only [hc, ↓reduceIte, Bool.false_eq_true] at h ⊢
  · simp only [head_ne_gt l hgt, ↓reduceIte] at h ⊢
    sh_same h hsr
  · sh_same h hsr


end MdIt.C06e
