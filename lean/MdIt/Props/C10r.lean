import MdIt.Props.C10q
import MdIt.Props.C08g
/-!
# C10 (continued) — no `|`, no table: end to end

`t_pipe_free_no_table` through the `inline` and `text_join` core rules (every token of the whole parse is a block token with, at most,
other children: `C08.fullT_tokens_of_block`): **`fullT_pipe_free_no_table`** — `MarkdownIt.parse` with the table rule enabled, on a source
without `|`, returns no token of the table vocabulary at top level.
-/
namespace MdIt.C10

theorem fullT_pipe_free_no_table (cls : QCls) (ext : IExt) (lx : LExt) (tc : TCfg) (hnr : tc.reference = false) (ic : ICfg) (ws : List Nat)
    (mn : Int) (d : Nat) (src : List Char) (hnp : '|' ∉ src) (ts : List Tok) (refs dups)
    (h : fullParseT cls ext lx tc ic ws mn d src = .ok (ts, refs, dups)) : ∀ t ∈ ts, t.type ∉ tblOnly := by
  obtain ⟨st, hb, hall⟩ := C08.fullT_tokens_of_block cls ext lx tc ic ws mn d src ts refs dups h
  intro t ht
  obtain ⟨b, hbm, c, rfl⟩ := hall t ht
  have hty : (b.setChildren c).type = b.type := by cases b; rfl
  rw [hty]
  exact t_pipe_free_no_table ext lx tc hnr ws mn src hnp st hb b hbm

end MdIt.C10
