import MdIt.Props.C10d
import MdIt.Props.C02h
/-!
# C10 (continued) — provenance for the block sub-parser with `html_block` and `lheading`

**`m_provenance`**: every token kind in the stream of `mParse` is produced by an enabled rule, at any nesting depth — in particular
`html_block` tokens only with the `html_block` rule *and* the `html` option on (`m_no_html`: the parser side of C04's "html off ⇒
nothing raw reaches the output" for block-level HTML), setext headings (`heading_open` with markup `=` / `-`) only with `heading` or
`lheading` on.
-/
namespace MdIt.C10
open MdIt.C01 MdIt.C02

def mAllowed (c : MCfg) : List String :=
  lAllowed c.toMiniCfg ++ (if c.htmlBlock && c.html then ["html_block"] else [])
    ++ (if c.lheading then ["heading_open", "heading_close"] else [])

def MTypesIn (c : MCfg) : BState → List Tok → Prop := fun _ seg => ∀ t ∈ seg, t.type ∈ mAllowed c

theorem lTypes_to_m (c : MCfg) (P) (r : BRule) (h : SegOK P (LTypesIn c.toMiniCfg) r) : SegOK P (MTypesIn c) r :=
  ⟨fun s line endLine s' hc hr => by
      obtain ⟨seg, h1, h2⟩ := h.hit s line endLine s' hc hr
      exact ⟨seg, h1, fun t ht => by simp only [mAllowed, List.mem_append]; exact .inl (.inl (h2 t ht))⟩,
   h.miss⟩

theorem mTypes_wrap (c : MCfg) : QuoteWrap (MTypesIn c) := by
  refine ⟨fun _ _ _ _ h => h, ?_⟩
  intro s s3 s4 line openT closeT segs _ _ _ _ ho3 _ _ hc3 _ hS t ht
  simp only [List.mem_append, List.mem_singleton, List.mem_flatten] at ht
  rcases ht with (rfl | ⟨g, hg, htg⟩) | rfl
  · simp [mAllowed, lAllowed, qAllowed, ho3]
  · exact hS g hg t htg
  · simp [mAllowed, lAllowed, qAllowed, hc3]

theorem mTypes_listWrap (c : MCfg) : ListWrap (MTypesIn c) := by
  refine ⟨?_, ?_⟩
  · intro s seg seg' hh hS t ht
    unfold HidEq at hh
    have hm : t.setHidden false ∈ seg'.map (·.setHidden false) := List.mem_map.2 ⟨t, ht, rfl⟩
    rw [hh, List.mem_map] at hm
    obtain ⟨u, hu, he⟩ := hm
    have := (hidden_eq_fields he).2.2.1
    rw [← this]; exact hS u hu
  · intro s s2 openT closeT m segs _ _ _ _ _ _ hty hS t ht
    simp only [List.mem_append, List.mem_singleton, List.mem_flatten] at ht
    simp only [List.mem_cons, Prod.mk.injEq, List.not_mem_nil, or_false] at hty
    rcases ht with (rfl | ⟨g, hg, htg⟩) | rfl
    · rcases hty with ⟨h, _⟩ | ⟨h, _⟩ | ⟨h, _⟩ <;> simp [mAllowed, lAllowed, h]
    · exact hS g hg t htg
    · rcases hty with ⟨_, h⟩ | ⟨_, h⟩ | ⟨_, h⟩ <;> simp [mAllowed, lAllowed, h]

theorem typesOK_htmlBlock (P) (c : MCfg) (hon : c.htmlBlock = true) : SegOK P (MTypesIn c) (ruleHtmlBlock c.code c.html) := by
  refine ⟨?_, ?_⟩
  · intro s line endLine s' hc h
    have hhtml : c.html = true := by
      cases hh : c.html with
      | true => rfl
      | false =>
        exfalso
        obtain ⟨l, h1, _, _⟩ := hc.here
        simp only [ruleHtmlBlock, getL_of_here h1, hh] at h
        split at h <;> simp at h
    rcases html_shape P c.code c.html s line endLine hc with h' | ⟨next, co, h1, h2, h'⟩
    · rw [h'] at h; cases h
    · rw [h'] at h; cases h
      refine ⟨[_], pushFull_tokens _ _ _ _ _ _ _ _ _, ?_⟩
      intro t ht
      simp only [List.mem_singleton] at ht
      subst ht
      simp [mAllowed, hon, hhtml]
  · intro s line endLine s' hc h
    rcases html_shape P c.code c.html s line endLine hc with h' | ⟨next, co, h1, h2, h'⟩
    · rw [h'] at h; cases h; rfl
    · rw [h'] at h; cases h

theorem typesOK_lheading (P : BState → Nat → Prop) (c : MCfg) (hon : c.lheading = true) (terms : List BRule) (hin : ∀ t ∈ terms, SilentInert t)
    (ws : List Nat) : SegOK P (MTypesIn c) (ruleLheading c.code terms ws) := by
  refine ⟨?_, ?_⟩
  · intro s line endLine s' hc h
    rcases lheading_shape P c.code terms hin ws s line endLine hc with h' | h' | ⟨next, tag, mk, co, h1, h2, h'⟩
    · rw [h'] at h; cases h
    · rw [h'] at h; cases h
    · rw [h'] at h; cases h
      refine ⟨?seg, ?heq, ?hty⟩
      case heq =>
        show (BState.pushFull _ _ _ _ _ _ _ _ _).tokens = _
        rw [pushFull_tokens, pushFull_tokens, pushFull_tokens, List.append_assoc, List.append_assoc]
      case hty =>
        intro t ht
        simp only [List.mem_append, List.mem_singleton] at ht
        rcases ht with rfl | rfl | rfl
        · simp [mAllowed, hon]
        · simp [mAllowed, lAllowed, qAllowed, allowedTypes]
        · simp [mAllowed, hon]
  · intro s line endLine s' hc h
    rcases lheading_shape P c.code terms hin ws s line endLine hc with h' | h' | ⟨next, tag, mk, co, h1, h2, h'⟩
    · rw [h'] at h; cases h; rfl
    · rw [h'] at h; cases h; rfl
    · rw [h'] at h; cases h

theorem mTypes_leaves (c : MCfg) (ws : List Nat) (mn : Int) (P : BState → Nat → Prop) :
    ∀ r ∈ mLeaves c ws mn, SegOK P (MTypesIn c) r := by
  intro r hr
  simp only [mLeaves, List.mem_append, List.mem_singleton] at hr
  rcases hr with (((((hr | hr) | hr) | hr) | hr) | hr) | hr
  · split at hr
    · rename_i hc; simp at hr; subst hr; exact lTypes_to_m c _ _ (typesIn_to_l _ _ _ (typesOK_code _ c.toMiniCfg hc))
    · cases hr
  · split at hr
    · rename_i hc; simp at hr; subst hr; exact lTypes_to_m c _ _ (typesIn_to_l _ _ _ (typesOK_fence _ c.toMiniCfg hc))
    · cases hr
  · split at hr
    · rename_i hc; simp at hr; subst hr; exact lTypes_to_m c _ _ (typesIn_to_l _ _ _ (typesOK_hr _ c.toMiniCfg hc))
    · cases hr
  · split at hr
    · rename_i hc; simp at hr; subst hr; exact typesOK_htmlBlock _ c hc
    · cases hr
  · split at hr
    · rename_i hc; simp at hr; subst hr; exact lTypes_to_m c _ _ (typesIn_to_l _ _ _ (typesOK_heading _ c.toMiniCfg ws hc))
    · cases hr
  · split at hr
    · rename_i hc; simp at hr; subst hr; exact typesOK_lheading _ c hc _ (mTerminators_inert c ws mn) ws
    · cases hr
  · subst hr; exact lTypes_to_m c _ _ (typesIn_to_l _ _ _ (typesOK_paragraph _ c.toMiniCfg _ (mTerminators_inert c ws mn) ws))

/-- **C10.m_provenance** -/
theorem m_provenance (c : MCfg) (ws : List Nat) (maxNesting : Int) (src : List Char) (ts : List Tok)
    (h : mParse c ws maxNesting src = .ok ts) : ∀ t ∈ ts, t.type ∈ mAllowed c := by
  obtain ⟨segs, hts, hS⟩ := mParse_segs (MTypesIn c) (mTypes_wrap c) (mTypes_listWrap c) c ws maxNesting
    (fun P => mTypes_leaves c ws maxNesting P) src ts h
  intro t ht
  rw [hts, List.mem_flatten] at ht
  obtain ⟨g, hg, htg⟩ := ht
  exact hS g hg t htg

/-- with the `html` option off (or the rule off) no `html_block` token occurs, at any depth inside quotes and lists -/
theorem m_no_html (c : MCfg) (ws : List Nat) (mn : Int) (src : List Char) (ts : List Tok) (hoff : (c.htmlBlock && c.html) = false)
    (h : mParse c ws mn src = .ok ts) : ∀ t ∈ ts, t.type ≠ "html_block" := by
  intro t ht he
  have := m_provenance c ws mn src ts h t ht
  rw [he] at this
  simp [mAllowed, lAllowed, qAllowed, allowedTypes, hoff] at this

/-- with `heading` and `lheading` switched off no heading token occurs -/
theorem m_no_heading (c : MCfg) (ws : List Nat) (mn : Int) (src : List Char) (ts : List Tok) (h1 : c.heading = false) (h2 : c.lheading = false)
    (h : mParse c ws mn src = .ok ts) : ∀ t ∈ ts, t.type ≠ "heading_open" := by
  intro t ht he
  have := m_provenance c ws mn src ts h t ht
  rw [he] at this
  simp [mAllowed, lAllowed, qAllowed, allowedTypes, h1, h2] at this

end MdIt.C10
