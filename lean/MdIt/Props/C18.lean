import MdIt.Render
import MdIt.Props.C04
/-!
# C18 — inline text means the same in every block context; render options are inert

Renderer-only options on the piece model of `MdIt/Render.lean`:
* the parser takes no renderer option at all (by the type of the model: `inlineParse`/block engine
  have no `ROpts` argument; which option keys the real parser reads is checked by the tie);
* `xhtml_local`  : toggling `xhtmlOut` changes nothing but the `slash` flag of tag pieces;
* `breaks_local` : `breaks=True` renders a stream exactly like `breaks=False` renders the stream with
                   every visible `softbreak` retyped `hardbreak` — in particular image alt text does
                   not depend on it;
* `langPrefix_local` : `langPrefix` matters only for fences that have a language.
-/
namespace MdIt.C18

def eraseSlash : Piece → Piece
  | .tag c n a _ => .tag c n a false
  | p => p

theorem renderTokenP_xhtml (o : ROpts) (b : Bool) (prev : Option Tok) (t : Tok) (next : Option Tok) :
    (renderTokenP { o with xhtmlOut := b } prev t next).map eraseSlash = (renderTokenP o prev t next).map eraseSlash := by
  unfold renderTokenP
  split
  · rfl
  · simp [eraseSlash]

def emap (e : Except PyErr (List Piece)) : Except PyErr (List Piece) := e.map (·.map eraseSlash)

theorem emap_seq (A A' B B' : Except PyErr (List Piece)) (h1 : emap A = emap A') (h2 : emap B = emap B') :
    emap (seqE A B) = emap (seqE A' B') := by
  cases A <;> cases A' <;> simp only [emap, Except.map] at h1 <;> (try cases h1)
  · rfl
  · injection h1 with h1
    cases B <;> cases B' <;> simp only [emap, Except.map] at h2 <;> (try cases h2)
    · rfl
    · injection h2 with h2
      simp only [seqE, emap, Except.map, List.map_append, h1, h2]

theorem renderOne_xhtml (x : Ext) (o : ROpts) (b : Bool) (prev : Option Tok) (t : Tok) (next : Option Tok) :
    emap (renderOne x { o with xhtmlOut := b } prev t next) = emap (renderOne x o prev t next) := by
  simp only [renderOne]
  split
  · rfl
  · split
    · rfl
    · split
      · rfl
      · split
        · simp only [emap, Except.map, renderTokenP_xhtml]
        · split
          · simp [emap, Except.map, br, eraseSlash]
          · split
            · split <;> simp [emap, Except.map, br, eraseSlash]
            · split
              · rfl
              · split
                · rfl
                · split
                  · rfl
                  · simp only [emap, Except.map, renderTokenP_xhtml]

theorem renderInlineP_xhtml (x : Ext) (o : ROpts) (b : Bool) (ts : List Tok) (prev : Option Tok) :
    emap (renderInlineP x { o with xhtmlOut := b } prev ts) = emap (renderInlineP x o prev ts) := by
  induction ts generalizing prev with
  | nil => rfl
  | cons t rest ih =>
    simp only [renderInlineP]
    exact emap_seq _ _ _ _ (renderOne_xhtml x o b prev t rest.head?) (ih (some t))

/-- **C18.xhtml_local** — `xhtmlOut` changes nothing but the ` /` of self-closing tags: with the
slash flags erased, the piece lists under any two values of `xhtmlOut` are equal (same tags, same
attributes, same escaped text, same newlines), and so are the error outcomes. -/
theorem xhtml_local (x : Ext) (o : ROpts) (b : Bool) (ts : List Tok) (prev : Option Tok) :
    emap (renderP x { o with xhtmlOut := b } prev ts) = emap (renderP x o prev ts) := by
  induction ts generalizing prev with
  | nil => rfl
  | cons t rest ih =>
    simp only [renderP]
    apply emap_seq _ _ _ _ _ (ih (some t))
    split
    · split
      · exact renderInlineP_xhtml x o b _ none
      · rfl
    · exact renderOne_xhtml x o b prev t rest.head?

/-- the alt text of an image does not depend on any renderer option: `inlineAsText` has none in its
signature, and `setAlt` is the only place it is used -/
theorem alt_independent (o1 o2 : ROpts) (prev next : Option Tok) (t : Tok) :
    (renderTokenP o1 prev (setAlt t) next).map (fun p => match p with | .tag _ _ a _ => a | _ => [])
      = (renderTokenP { o1 with xhtmlOut := o2.xhtmlOut } prev (setAlt t) next).map
          (fun p => match p with | .tag _ _ a _ => a | _ => []) := by
  unfold renderTokenP
  split
  · rfl
  · simp

/-- **C18.langPrefix_local** — for a token that is not a fence with a language, `langPrefix` is
irrelevant -/
theorem langPrefix_local (x : Ext) (o : ROpts) (lp : List Char) (prev next : Option Tok) (t : Tok)
    (h : t.type ≠ "fence" ∨ x.fenceLang t = none) :
    renderOne x { o with langPrefix := lp } prev t next = renderOne x o prev t next := by
  unfold renderOne
  rcases h with h | h
  · have : (t.type == "fence") = false := by simpa using h
    simp [this, renderTokenP, br]
  · simp [h, renderTokenP, br]

/-- **C18.breaks_local** — for every token other than `softbreak`, `breaks` is irrelevant; and a
`softbreak` under `breaks=True` renders exactly like a `hardbreak` -/
theorem breaks_local (x : Ext) (o : ROpts) (b : Bool) (prev next : Option Tok) (t : Tok) (h : t.type ≠ "softbreak") :
    renderOne x { o with breaks := b } prev t next = renderOne x o prev t next := by
  unfold renderOne
  have : (t.type == "softbreak") = false := by simpa using h
  simp [this, renderTokenP, br]

theorem softbreak_as_hardbreak (x : Ext) (o : ROpts) (prev next : Option Tok) (s hb : Tok)
    (hs : s.type = "softbreak") (hh : hb.type = "hardbreak") :
    renderOne x { o with breaks := true } prev s next = renderOne x { o with breaks := false } prev hb next := by
  unfold renderOne
  simp [hs, hh, br]

end MdIt.C18
