import MdIt.Props.C03
import MdIt.Props.C01b
/-!
# C03 (continued) — the map contract is *proved* for the modelled block rules, and the block tokens
of the modelled sub-parser are staged

`MapOK` for `code`, `fence`, `hr`, `heading`, `paragraph`; `mini_staged`: for every source, every
subset of the optional rules and every `maxNesting`, the token list the modelled parse returns is
`Staged 0 lineMax`: every map lies inside the document, is non-empty, and sibling blocks have
increasing, disjoint line ranges.
-/
namespace MdIt.C03
open MdIt.C01

private theorem mapsIn_one (a b : Nat) (t : Tok) (h : ∀ x y, t.map = some (x, y) → a ≤ x ∧ x < y ∧ y ≤ b) : MapsIn a b [t] := by
  intro t' ht x y hm
  simp at ht; subst ht; exact h x y hm

private theorem mapsIn_three (a b : Nat) (t1 t2 t3 : Tok) (h1 : ∀ x y, t1.map = some (x, y) → a ≤ x ∧ x < y ∧ y ≤ b)
    (h2 : ∀ x y, t2.map = some (x, y) → a ≤ x ∧ x < y ∧ y ≤ b) (h3 : ∀ x y, t3.map = some (x, y) → a ≤ x ∧ x < y ∧ y ≤ b) :
    MapsIn a b [t1, t2, t3] := by
  intro t' ht x y hm
  simp at ht
  rcases ht with rfl | rfl | rfl
  · exact h1 x y hm
  · exact h2 x y hm
  · exact h3 x y hm

private theorem some_map {a b x y : Nat} (h : some (a, b) = some (x, y)) : a = x ∧ b = y := by
  cases h; exact ⟨rfl, rfl⟩

theorem mapOK_hr (P) (codeOn : Bool) : MapOK P (ruleHr codeOn) := by
  refine ⟨?_, ?_⟩
  · intro s line endLine s' hc h
    rcases hr_shape P codeOn s line endLine hc with h' | ⟨mk, h'⟩
    · rw [h'] at h; cases h
    · rw [h'] at h; cases h
      refine ⟨[_], pushFull_tokens _ _ _ _ _ _ _ _ _, mapsIn_one _ _ _ ?_⟩
      intro x y hm; simp at hm; obtain ⟨rfl, rfl⟩ := hm; simp
  · intro s line endLine s' hc h
    rcases hr_shape P codeOn s line endLine hc with h' | ⟨mk, h'⟩
    · rw [h'] at h; cases h; rfl
    · rw [h'] at h; cases h

theorem mapOK_code (P) (codeOn : Bool) : MapOK P (ruleCode codeOn) := by
  refine ⟨?_, ?_⟩
  · intro s line endLine s' hc h
    rcases code_shape P codeOn s line endLine hc with h' | ⟨last, c, h1, h2, h'⟩
    · rw [h'] at h; cases h
    · rw [h'] at h; cases h
      refine ⟨[_], pushFull_tokens _ _ _ _ _ _ _ _ _, mapsIn_one _ _ _ ?_⟩
      intro x y hm; simp at hm; obtain ⟨rfl, rfl⟩ := hm; simp; omega
  · intro s line endLine s' hc h
    rcases code_shape P codeOn s line endLine hc with h' | ⟨last, c, h1, h2, h'⟩
    · rw [h'] at h; cases h; rfl
    · rw [h'] at h; cases h

theorem mapOK_fence (P) (codeOn : Bool) : MapOK P (ruleFence codeOn) := by
  refine ⟨?_, ?_⟩
  · intro s line endLine s' hc h
    rcases fence_shape P codeOn s line endLine hc with h' | ⟨l', c, mk, info, h1, h2, h'⟩
    · rw [h'] at h; cases h
    · rw [h'] at h; cases h
      refine ⟨[_], pushFull_tokens _ _ _ _ _ _ _ _ _, mapsIn_one _ _ _ ?_⟩
      intro x y hm; simp at hm; obtain ⟨rfl, rfl⟩ := hm; simp; omega
  · intro s line endLine s' hc h
    rcases fence_shape P codeOn s line endLine hc with h' | ⟨l', c, mk, info, h1, h2, h'⟩
    · rw [h'] at h; cases h; rfl
    · rw [h'] at h; cases h

theorem mapOK_heading (P) (codeOn : Bool) (ws : List Nat) : MapOK P (ruleHeading codeOn ws) := by
  refine ⟨?_, ?_⟩
  · intro s line endLine s' hc h
    rcases heading_shape P codeOn ws s line endLine hc with h' | ⟨tag, mk, c, h'⟩
    · rw [h'] at h; cases h
    · rw [h'] at h; cases h
      refine ⟨?seg, ?heq, ?hmaps⟩
      case heq => rw [pushFull_tokens, pushFull_tokens, pushFull_tokens, List.append_assoc, List.append_assoc]
      case hmaps =>
        intro t ht x y hm
        simp only [List.mem_append, List.mem_singleton] at ht
        rcases ht with rfl | rfl | rfl
        · simp at hm; obtain ⟨rfl, rfl⟩ := hm; simp
        · simp at hm; obtain ⟨rfl, rfl⟩ := hm; simp
        · simp at hm
  · intro s line endLine s' hc h
    rcases heading_shape P codeOn ws s line endLine hc with h' | ⟨tag, mk, c, h'⟩
    · rw [h'] at h; cases h; rfl
    · rw [h'] at h; cases h

theorem mapOK_paragraph (P : BState → Nat → Prop) (terms : List BRule) (hin : ∀ t ∈ terms, SilentInert t) (ws : List Nat) :
    MapOK P (ruleParagraph terms ws) := by
  refine ⟨?_, ?_⟩
  · intro s line endLine s' hc h
    obtain ⟨n, c, h1, h2, h'⟩ := paragraph_shape P terms hin ws s line endLine hc
    rw [h'] at h; cases h
    refine ⟨?seg, ?heq, ?hmaps⟩
    case heq =>
      show (BState.pushFull _ _ _ _ _ _ _ _ _).tokens = _
      rw [pushFull_tokens, pushFull_tokens, pushFull_tokens, List.append_assoc, List.append_assoc]
    case hmaps =>
      intro t ht x y hm
      simp only [List.mem_append, List.mem_singleton] at ht
      rcases ht with rfl | rfl | rfl
      · simp at hm; obtain ⟨rfl, rfl⟩ := hm; simp; omega
      · simp at hm; obtain ⟨rfl, rfl⟩ := hm; simp; omega
      · simp at hm
  · intro s line endLine s' hc h
    obtain ⟨n, c, h1, h2, h'⟩ := paragraph_shape P terms hin ws s line endLine hc
    rw [h'] at h; cases h

theorem miniChain_mapOK (c : MiniCfg) (ws : List Nat) : ∀ r ∈ miniChain c ws, MapOK TopCtx r := by
  intro r hr
  simp only [miniChain, List.mem_append, List.mem_singleton] at hr
  rcases hr with (((hr | hr) | hr) | hr) | hr
  · split at hr
    · simp at hr; subst hr; exact mapOK_code _ _
    · cases hr
  · split at hr
    · simp at hr; subst hr; exact mapOK_fence _ _
    · cases hr
  · split at hr
    · simp at hr; subst hr; exact mapOK_hr _ _
    · cases hr
  · split at hr
    · simp at hr; subst hr; exact mapOK_heading _ _ _
    · cases hr
  · subst hr; exact mapOK_paragraph _ _ (miniTerminators_inert c ws) ws

/-- **C03.mini_staged** — the block tokens the modelled parse returns are staged inside the document:
all maps in `[0, number of lines]`, non-empty, sibling blocks increasing and disjoint -/
theorem mini_staged (c : MiniCfg) (ws : List Nat) (maxNesting : Int) (src : List Char) (ts : List Tok)
    (h : miniParse c ws maxNesting src = .ok ts) : Staged 0 (initBState (normalize src)).lineMax ts := by
  unfold miniParse at h
  simp only at h
  split at h
  · cases h; exact .nil _ _
  · split at h
    · rename_i s' hs'
      cases h
      obtain ⟨new, hn, hst⟩ := loop_maps_staged TopCtx topCtx_closed (miniChain c ws) (miniChain_ok c ws) (miniChain_mapOK c ws)
        maxNesting (initBState (normalize src)).lineMax _ 0 false (initBState (normalize src)) s' (initBState_len _) (Nat.le_refl _) rfl hs'
      have : (initBState (normalize src)).tokens = [] := rfl
      rw [this, List.nil_append] at hn
      rw [hn]; exact hst
    · cases h

end MdIt.C03
