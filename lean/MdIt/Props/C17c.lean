import MdIt.Props.C17b
import MdIt.BlockMore
/-!
# C17 (continued) — equivalent encodings, end to end for the sub-parser with nine block rules

`mParse` starts with `normalize`, so any mixture of LF / CR LF / CR line endings and NUL vs U+FFFD give the same token stream — for
every source, rule subset, `html` option and `maxNesting` (HTML blocks and setext headings included).
-/
namespace MdIt.C17

private theorem isEmpty_of_mixed' {s s' : List Char} (h : Mixed s s') : s'.isEmpty = s.isEmpty := by
  cases h <;> rfl

/-- **C17.m_line_endings** -/
theorem m_line_endings (c : MCfg) (ws : List Nat) (mn : Int) (s s' : List Char) (hm : Mixed s s') (h : noCR s) :
    mParse c ws mn s' = mParse c ws mn s := by
  unfold mParse
  rw [normalize_mixed s s' hm h, isEmpty_of_mixed' hm]

/-- **C17.m_nul** -/
theorem m_nul (c : MCfg) (ws : List Nat) (mn : Int) (s : List Char) :
    mParse c ws mn (s.map (fun ch => if ch = '\x00' then '�' else ch)) = mParse c ws mn s := by
  unfold mParse
  rw [nul_like_fffd s]
  cases s <;> rfl

end MdIt.C17
