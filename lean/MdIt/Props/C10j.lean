import MdIt.Props.C10i
/-!
# C10 (continued) — conservative extension for all ten switchable inline rules at once
-/
namespace MdIt.C10
open MdIt.C01

theorem strikePush_keeps {Q : Delim → Prop} (o c : Bool)
    (hQ : ∀ tok, Q { marker := 0x7E, length := 0, token := tok, end_ := -1, open_ := o, close := c }) :
    ∀ (k : Nat) (s : IState), DInv Q s → DInv Q (strikePush o c k s) := by
  intro k
  induction k with
  | zero => intro s h; exact h
  | succ n ih =>
    intro s h
    simp only [strikePush]
    apply ih
    have hd := push_deq s "text" "" 0 "~~" "" ""
    refine ⟨?_, ?_, ?_⟩
    · intro d hd'
      simp only [List.mem_append, List.mem_singleton] at hd'
      rcases hd' with hd' | rfl
      · rw [hd.1] at hd'; exact h.cur d hd'
      · exact hQ _
    · show ∀ l ∈ (s.push "text" "" 0 "~~" "" "").scopes, _; rw [hd.2.1]; exact h.scopes
    · show ∀ p ∈ (s.push "text" "" 0 "~~" "" "").metas, _; rw [hd.2.2]; exact h.metas

theorem keepsI_strike {Q : Delim → Prop} (cls : QCls)
    (hQ : ∀ tok o c, Q { marker := 0x7E, length := 0, token := tok, end_ := -1, open_ := o, close := c }) :
    KeepsI (DInv Q) (ruleStrike cls) := by
  intro s silent hj
  simp only [ruleStrike]
  split
  · exact oki_error _ _ _
  · split
    · exact oki_ok _ _ _ hj
    · split
      · exact oki_ok _ _ _ hj
      · split
        · exact oki_ok _ _ _ hj
        · refine oki_ok _ _ _ ?_
          have h0 : DInv Q (if (scanDelims cls s s.pos true).2.2 % 2 = 1 then s.push "text" "" 0 "~" "" "" else s) := by
            split
            · exact DInv.of_eq (push_deq s _ _ _ _ _ _) hj
            · exact hj
          have := strikePush_keeps (Q := Q) (scanDelims cls s s.pos true).1 (scanDelims cls s s.pos true).2.1 (fun tok => hQ tok _ _)
            ((scanDelims cls s s.pos true).2.2 / 2) _ h0
          exact ⟨this.cur, this.scopes, this.metas⟩

/-- no emphasis record -/
def NE (d : Delim) : Prop := d.marker ≠ 0x5F ∧ d.marker ≠ 0x2A

theorem emphPostGo_id (ds : List Delim) (h : ∀ d ∈ ds, NE d) : ∀ (fuel : Nat) (i : Int) (ts : List Tok), emphPostGo ds fuel i ts = ts := by
  intro fuel
  induction fuel with
  | zero => intro i ts; rfl
  | succ n ih =>
    intro i ts
    simp only [emphPostGo]
    split
    · rfl
    · split
      · rfl
      · rename_i sd hsd
        obtain ⟨h1, h2⟩ := h sd (List.mem_of_getElem? hsd)
        have : (sd.marker != 0x5F && sd.marker != 0x2A) = true := by simp [h1, h2]
        simp only [this, if_true]
        exact ih _ _

theorem emphasisPostL_id_ne (s : IState) (h : DInv NE s) : emphasisPostL s = s := by
  unfold emphasisPostL
  simp only
  have hfold : ∀ (l : List (Nat × List Delim)) (ts : List Tok), (∀ p ∈ l, ∀ d ∈ p.2, NE d) →
      l.foldl (fun ts p => emphPostGo p.2 p.2.length ((p.2.length : Int) - 1) ts) ts = ts := by
    intro l
    induction l with
    | nil => intro ts _; rfl
    | cons p rest ih =>
      intro ts hl
      simp only [List.foldl_cons]
      rw [emphPostGo_id p.2 (hl p (by simp))]
      exact ih ts (fun q hq => hl q (by simp [hq]))
  rw [emphPostGo_id s.delimiters h.cur, hfold _ _ (fun p hp => h.metas p (mem_metasSorted s p hp))]


theorem inert_emphasis {S : List Char} (h1 : '*' ∉ S) (h2 : '_' ∉ S) (cls : QCls) : InertAt S (ruleEmphasis cls) := by
  intro s silent hc _ hs
  obtain ⟨hin, hne1⟩ := cur_ne hc hs _ h1
  obtain ⟨_, hne2⟩ := cur_ne hc hs _ h2
  unfold ruleEmphasis
  rw [List.getElem?_eq_getElem hin]
  simp [hne1, hne2]

/-- the records the left chain may hold: no tilde record if strikethrough is the extension, no emphasis record if emphasis is -/
def QM (ds de : Bool) (d : Delim) : Prop := (ds = true → NT d) ∧ (de = true → NE d)

theorem dinv_mono {Q Q' : Delim → Prop} (h : ∀ d, Q d → Q' d) {s : IState} (hj : DInv Q s) : DInv Q' s :=
  ⟨fun d hd => h d (hj.cur d hd), fun l hl d hd => h d (hj.scopes l hl d hd), fun p hp d hd => h d (hj.metas p hp d hd)⟩

theorem balancePairsL_dinv (P : Nat → Prop) (s : IState) (h : DInv (fun d => P d.marker) s) : DInv (fun d => P d.marker) (balancePairsL s) := by
  unfold balancePairsL
  refine ⟨processDelims_markers P _ h.cur, h.scopes, ?_⟩
  intro p hp
  simp only [List.mem_map] at hp
  obtain ⟨q, hq, rfl⟩ := hp
  exact processDelims_markers P _ (h.metas q hq)

theorem strikePostL_deq (s : IState) : DEq s (strikePostL s) := ⟨rfl, rfl, rfl⟩

/-- the configurations of the whole inline sub-parser: the eight first-chain switches and the two rules with a second-chain part -/
structure Cfg where
  sw : Sw
  strike : Bool
  emphasis : Bool

/-- the second chains of a smaller and a larger configuration give the same tokens on a state that holds no record of the rules
    the larger one adds -/
theorem imgPost_le (sa ea sb eb : Bool) (hs : sa = true → sb = true) (he : ea = true → eb = true) (s : IState)
    (h : DInv (QM (!sa && sb) (!ea && eb)) s) :
    ((imgPost sb eb).foldl (fun acc f => f acc) s).tokens = ((imgPost sa ea).foldl (fun acc f => f acc) s).tokens := by
  have hbalNT : (!sa && sb) = true → DInv NT (balancePairsL s) := fun hd =>
    balancePairsL_dinv (· ≠ 0x7E) s (dinv_mono (fun d hq => hq.1 hd) h)
  have hbalNE : (!ea && eb) = true → DInv NE (balancePairsL s) := fun hd =>
    balancePairsL_dinv (fun m => m ≠ 0x5F ∧ m ≠ 0x2A) s (dinv_mono (fun d hq => hq.2 hd) h)
  cases sa <;> cases sb <;> cases ea <;> cases eb
  all_goals first
    | rfl
    | (exact absurd (hs rfl) (by decide))
    | (exact absurd (he rfl) (by decide))
    | skip
  · -- (f,f,f,t): the larger adds emphasis
    simp only [imgPost, linkPost, Bool.or_true, Bool.or_self, Bool.false_or, if_true, Bool.false_eq_true, if_false, List.append_nil, List.nil_append,
      List.cons_append, List.foldl_cons, List.foldl_nil]
    rw [emphasisPostL_id_ne _ (hbalNE rfl)]
    rfl
  · -- (f,t,f,f): adds strikethrough
    simp only [imgPost, linkPost, Bool.or_false, Bool.or_self, Bool.true_or, if_true, Bool.false_eq_true, if_false, List.append_nil, List.nil_append,
      List.cons_append, List.foldl_cons, List.foldl_nil]
    rw [strikePostL_id_nt _ (hbalNT rfl)]
    rfl
  · -- (f,t,f,t): adds both
    simp only [imgPost, linkPost, Bool.or_true, Bool.or_self, Bool.true_or, if_true, Bool.false_eq_true, if_false, List.append_nil, List.nil_append,
      List.cons_append, List.foldl_cons, List.foldl_nil]
    rw [strikePostL_id_nt _ (hbalNT rfl), emphasisPostL_id_ne _ (hbalNE rfl)]
    rfl
  · -- (f,t,t,t): adds strikethrough, emphasis on both sides
    simp only [imgPost, linkPost, Bool.or_true, Bool.true_or, if_true, Bool.false_eq_true, if_false, List.append_nil, List.nil_append,
      List.cons_append, List.foldl_cons, List.foldl_nil, Bool.false_or]
    rw [strikePostL_id_nt _ (hbalNT rfl)]
  · -- (t,t,f,t): adds emphasis, strikethrough on both sides
    simp only [imgPost, linkPost, Bool.or_true, Bool.true_or, Bool.or_false, if_true, Bool.false_eq_true, if_false, List.append_nil, List.nil_append,
      List.cons_append, List.foldl_cons, List.foldl_nil]
    rw [emphasisPostL_id_ne _ (DInv.of_eq (strikePostL_deq _) (hbalNE rfl))]


abbrev chainC (cls : QCls) (ext : IExt) (lx : LExt) (text fragJoin : Bool) (c : Cfg) (mn : Int) (d : Nat) : List IRule :=
  chainOf cls ext lx text c.strike c.emphasis fragJoin c.sw mn d

/-- every rule of the smaller configuration's chain keeps "no record of the rules the larger one adds" -/
theorem chainC_keeps (cls : QCls) (ext : IExt) (lx : LExt) (text fragJoin : Bool) (c : Cfg) (ds de : Bool)
    (hs : ds = true → c.strike = false) (he : de = true → c.emphasis = false) (mn : Int) :
    ∀ d : Nat, ∀ r ∈ chainC cls ext lx text fragJoin c mn d, KeepsI (DInv (QM ds de)) r := by
  intro d
  induction d with
  | zero => intro r hr; simp [chainC, chainOf, imgChain] at hr
  | succ d ih =>
    intro r hr
    simp only [chainC, chainOf, imgChain, List.mem_append] at hr
    rcases hr with (((((((((hr | hr) | hr) | hr) | hr) | hr) | hr) | hr) | hr) | hr) | hr
    · split at hr
      · simp at hr; subst hr; exact keepsI_of_untouched untouchedD_text
      · cases hr
    · split at hr
      · simp at hr; subst hr; exact keepsI_of_untouched untouchedD_newline
      · cases hr
    · split at hr
      · simp at hr; subst hr; exact keepsI_of_untouched untouchedD_escape
      · cases hr
    · split at hr
      · simp at hr; subst hr; exact keepsI_of_untouched untouchedD_backticks
      · cases hr
    · split at hr
      · rename_i hst
        simp at hr; subst hr
        refine keepsI_strike cls (fun tok o c' => ⟨fun hd => ?_, fun _ => ?_⟩)
        · rw [hs hd] at hst; cases hst
        · exact ⟨by show (0x7E : Nat) ≠ 0x5F; decide, by show (0x7E : Nat) ≠ 0x2A; decide⟩
      · cases hr
    · split at hr
      · rename_i hem
        simp at hr; subst hr
        refine keepsI_emphasis cls (fun m hm len tok o c' => ⟨fun _ => nt_emph m hm len tok o c', fun hd => ?_⟩)
        rw [he hd] at hem; cases hem
      · cases hr
    · split at hr
      · simp at hr; subst hr; exact keepsI_link ih ext lx mn
      · cases hr
    · split at hr
      · simp at hr; subst hr; exact keepsI_image ih ext lx mn _
      · cases hr
    · split at hr
      · simp at hr; subst hr; exact keepsI_of_untouched (untouchedD_autolink ext)
      · cases hr
    · split at hr
      · simp at hr; subst hr; exact keepsI_of_untouched (untouchedD_htmlInline ext)
      · cases hr
    · split at hr
      · simp at hr; subst hr; exact keepsI_of_untouched (untouchedD_entity ext)
      · cases hr

/-- the whole parse over a smaller and a larger configuration whose chains are extensions of each other -/
theorem parse_ext3 {S : List Char} {l l' : List IRule} (hE : Ext S l l') (hok : ∀ r ∈ l, IOK4 r) (sa ea sb eb : Bool)
    (hs : sa = true → sb = true) (he : ea = true → eb = true) (hk : ∀ r ∈ l, KeepsI (DInv (QM (!sa && sb) (!ea && eb))) r) (fj : Bool) (mn : Int) :
    inlineParse l (imgPost sa ea) fj mn S = inlineParse l' (imgPost sb eb) fj mn S := by
  unfold inlineParse tokenize
  rw [← tokenizeLoop_ext hE hok mn _ _ false (IState.init S) rfl (Nat.le_refl _) (by intro p hp; simp [IState.init] at hp) rfl]
  cases hl : tokenizeLoop l mn (IState.init S).posMax ((IState.init S).posMax - (IState.init S).pos + 1) false (IState.init S) with
  | error e => rfl
  | ok s1 =>
    simp only
    have h0 : DInv (QM (!sa && sb) (!ea && eb)) (IState.init S) :=
      ⟨by intro d hd; simp [IState.init] at hd, by intro l hl; simp [IState.init] at hl, by intro p hp; simp [IState.init] at hp⟩
    have h1 := tokenizeLoop_keepsI dinv_deq hk mn _ _ _ _ h0 s1 hl
    have h2 : DInv (QM (!sa && sb) (!ea && eb)) (if s1.pending.isEmpty = true then s1 else s1.pushPending) := by
      split
      · exact h1
      · exact DInv.of_eq (pushPending_deq s1) h1
    rw [imgPost_le sa ea sb eb hs he _ h2]

/-- the source holds no trigger of a rule the larger configuration adds -/
def CleanC (a b : Cfg) (S : List Char) : Prop :=
  Clean a.sw b.sw S ∧ (a.strike ≠ b.strike → NoPair S) ∧ (a.emphasis ≠ b.emphasis → '*' ∉ S ∧ '_' ∉ S)

theorem CleanC.sub {a b : Cfg} {S c : List Char} (h : CleanC a b S) (hc : c <:+: S) : CleanC a b c :=
  ⟨h.1.sub hc, fun hd => (h.2.1 hd).sub hc, fun hd => ⟨fun hm => (h.2.2 hd).1 (hc.subset hm), fun hm => (h.2.2 hd).2 (hc.subset hm)⟩⟩

theorem chain_ext3 (cls : QCls) (ext : IExt) (lx : LExt) (text fragJoin : Bool) (a b : Cfg)
    (hs : a.strike = true → b.strike = true) (he : a.emphasis = true → b.emphasis = true) (mn : Int) :
    ∀ d : Nat, ∀ S : List Char, CleanC a b S → Ext S (chainC cls ext lx text fragJoin a mn d) (chainC cls ext lx text fragJoin b mn d) := by
  intro d
  induction d with
  | zero => intro S _; exact .nil
  | succ d ih =>
    intro S hcl
    obtain ⟨⟨h1, h2, h3, h4, h5, h6, h7, h8⟩, h9, h10⟩ := hcl
    have hcl' : CleanC a b S := ⟨⟨h1, h2, h3, h4, h5, h6, h7, h8⟩, h9, h10⟩
    have hE := ih S hcl'
    have hok := imgChain_ok4 cls ext lx text a.sw.newline a.sw.escape a.sw.backticks a.strike a.emphasis a.sw.link a.sw.image a.sw.autolink
      a.sw.htmlInline a.sw.entity fragJoin mn d
    have hkeeps := chainC_keeps cls ext lx text fragJoin a (!a.strike && b.strike) (!a.emphasis && b.emphasis)
      (by intro hd; cases hq : a.strike with | false => rfl | true => rw [hq] at hd; simp at hd)
      (by intro hd; cases hq : a.emphasis with | false => rfl | true => rw [hq] at hd; simp at hd) mn d
    have hparse : ∀ c : List Char, c <:+: S →
        inlineParse (chainC cls ext lx text fragJoin a mn d) (imgPost a.strike a.emphasis) fragJoin mn c
          = inlineParse (chainC cls ext lx text fragJoin b mn d) (imgPost b.strike b.emphasis) fragJoin mn c := by
      intro c hc
      exact parse_ext3 (ih c (hcl'.sub hc)) hok a.strike a.emphasis b.strike b.emphasis hs he hkeeps fragJoin mn
    show Ext S (imgChain _ _ _ _ _ _ _ _ _ _ _ _ _ _ _ _ (d + 1)) (imgChain _ _ _ _ _ _ _ _ _ _ _ _ _ _ _ _ (d + 1))
    simp only [imgChain]
    refine Ext.append (Ext.append (Ext.append (Ext.append (Ext.append (Ext.append (Ext.append (Ext.append (Ext.append (Ext.append ?_ ?_) ?_) ?_) ?_) ?_) ?_) ?_) ?_) ?_) ?_
    · exact ext_opt _ _ _ _ (agree_refl _ _) (fun h => absurd rfl h)
    · exact ext_opt _ _ _ _ (agree_refl _ _) (fun h => ⟨inert_newline (h1 h), inert_newline (h1 h)⟩)
    · exact ext_opt _ _ _ _ (agree_refl _ _) (fun h => ⟨inert_escape (h2 h), inert_escape (h2 h)⟩)
    · exact ext_opt _ _ _ _ (agree_refl _ _) (fun h => ⟨inert_backticks (h3 h), inert_backticks (h3 h)⟩)
    · exact ext_opt _ _ _ _ (agree_refl _ _) (fun h => ⟨inert_strike (h9 h) cls, inert_strike (h9 h) cls⟩)
    · exact ext_opt _ _ _ _ (agree_refl _ _) (fun h => ⟨inert_emphasis (h10 h).1 (h10 h).2 cls, inert_emphasis (h10 h).1 (h10 h).2 cls⟩)
    · exact ext_opt _ _ _ _ (agree_link hE hok ext lx mn) (fun h => ⟨inert_link (h4 h) _ _ _ _, inert_link (h4 h) _ _ _ _⟩)
    · exact ext_opt _ _ _ _ (agree_image hE hok ext lx mn _ _ hparse) (fun h => ⟨inert_image (h5 h) _ _ _ _ _, inert_image (h5 h) _ _ _ _ _⟩)
    · exact ext_opt _ _ _ _ (agree_refl _ _) (fun h => ⟨inert_autolink (h6 h) _, inert_autolink (h6 h) _⟩)
    · exact ext_opt _ _ _ _ (agree_refl _ _) (fun h => ⟨inert_htmlInline (h7 h) _, inert_htmlInline (h7 h) _⟩)
    · exact ext_opt _ _ _ _ (agree_refl _ _) (fun h => ⟨inert_entity (h8 h) _, inert_entity (h8 h) _⟩)

/-- a smaller configuration and a larger one (in `strikethrough` and `emphasis`; the eight first-chain switches may differ freely) -/
theorem extension_le (cls : QCls) (ext : IExt) (lx : LExt) (text fragJoin : Bool) (a b : Cfg)
    (hs : a.strike = true → b.strike = true) (he : a.emphasis = true → b.emphasis = true) (mn : Int) (d : Nat) (src : List Char)
    (h : CleanC a b src) :
    inlineParse (chainC cls ext lx text fragJoin a mn d) (imgPost a.strike a.emphasis) fragJoin mn src
      = inlineParse (chainC cls ext lx text fragJoin b mn d) (imgPost b.strike b.emphasis) fragJoin mn src :=
  parse_ext3 (chain_ext3 cls ext lx text fragJoin a b hs he mn d src h)
    (imgChain_ok4 cls ext lx text a.sw.newline a.sw.escape a.sw.backticks a.strike a.emphasis a.sw.link a.sw.image a.sw.autolink a.sw.htmlInline
      a.sw.entity fragJoin mn d)
    a.strike a.emphasis b.strike b.emphasis hs he
    (chainC_keeps cls ext lx text fragJoin a (!a.strike && b.strike) (!a.emphasis && b.emphasis)
      (by intro hd; cases hq : a.strike with | false => rfl | true => rw [hq] at hd; simp at hd)
      (by intro hd; cases hq : a.emphasis with | false => rfl | true => rw [hq] at hd; simp at hd) mn d) fragJoin mn

/-- **C10.any_two_configurations** — the conservative-extension clause for the whole inline sub-parser: take *any* two configurations
of its ten switchable rules (`newline`, `escape`, `backticks`, `strikethrough`, `emphasis`, `link`, `image`, `autolink`, `html_inline`,
`entity`).  If the source holds no trigger of a rule that is enabled in exactly one of them (`\n`, `\\`, `` ` ``, `~~`, `*` or `_`, `[`,
`!`, `<`, `<`, `&`), the two token streams are identical — tokenizer rules and second-chain rules, label walks, link texts and image
descriptions at every depth, for every `maxNesting`, budget, reference table and external functions. -/
theorem any_two_configurations (cls : QCls) (ext : IExt) (lx : LExt) (text fragJoin : Bool) (a b : Cfg) (mn : Int) (d : Nat) (src : List Char)
    (h : CleanC a b src) :
    inlineParse (chainC cls ext lx text fragJoin a mn d) (imgPost a.strike a.emphasis) fragJoin mn src
      = inlineParse (chainC cls ext lx text fragJoin b mn d) (imgPost b.strike b.emphasis) fragJoin mn src := by
  -- through the meet of the two configurations in the two second-chain rules
  let m : Cfg := { sw := a.sw, strike := a.strike && b.strike, emphasis := a.emphasis && b.emphasis }
  have hma : CleanC m a src := by
    refine ⟨⟨fun x => absurd rfl x, fun x => absurd rfl x, fun x => absurd rfl x, fun x => absurd rfl x, fun x => absurd rfl x,
      fun x => absurd rfl x, fun x => absurd rfl x, fun x => absurd rfl x⟩, ?_, ?_⟩
    · intro hd; apply h.2.1; intro he; apply hd; show (a.strike && b.strike) = a.strike; rw [← he]; simp
    · intro hd; apply h.2.2; intro he; apply hd; show (a.emphasis && b.emphasis) = a.emphasis; rw [← he]; simp
  have hmb : CleanC m b src := by
    refine ⟨h.1, ?_, ?_⟩
    · intro hd; apply h.2.1; intro he; apply hd; show (a.strike && b.strike) = b.strike; rw [he]; simp
    · intro hd; apply h.2.2; intro he; apply hd; show (a.emphasis && b.emphasis) = b.emphasis; rw [he]; simp
  have e1 := extension_le cls ext lx text fragJoin m a (by intro hx; have : (a.strike && b.strike) = true := hx; simp at this; exact this.1)
    (by intro hx; have : (a.emphasis && b.emphasis) = true := hx; simp at this; exact this.1) mn d src hma
  have e2 := extension_le cls ext lx text fragJoin m b (by intro hx; have : (a.strike && b.strike) = true := hx; simp at this; exact this.2)
    (by intro hx; have : (a.emphasis && b.emphasis) = true := hx; simp at this; exact this.2) mn d src hmb
  exact e1.symm.trans e2

end MdIt.C10

namespace MdIt.C10

/-! non-vacuity: a source with a link, a code span, an escape and a single tilde; the two configurations differ in emphasis,
strikethrough, image, autolink, html_inline and entity -/
example : CleanC ⟨⟨true, true, true, true, false, false, false, false⟩, false, false⟩ ⟨⟨true, true, true, true, true, true, true, true⟩, true, true⟩
    "[a](b) `c` \\+ ~d".toList := by
  refine ⟨⟨?_, ?_, ?_, ?_, ?_, ?_, ?_, ?_⟩, ?_, ?_⟩ <;> intro h <;> first | exact absurd rfl h | (unfold NoPair; decide +kernel) | decide +kernel

end MdIt.C10
