import MdIt.Props.C10j
import MdIt.Pipeline
/-!
# C10 (continued) — the conservative-extension clause at the level of `MarkdownIt.parse`

Two inline configurations that differ in their ten switchable rules give the same result of the whole parse whenever the *content of
every inline token* of the block parse holds no trigger of a rule enabled in exactly one of them (the block parse does not depend on
the inline configuration).
-/
namespace MdIt.C10
open MdIt.C01

def cfgOf (ic : ICfg) : Cfg :=
  { sw := ⟨ic.newline, ic.escape, ic.backticks, ic.link, ic.image, ic.autolink, ic.htmlInline, ic.entity⟩, strike := ic.strike, emphasis := ic.emphasis }

theorem inlineOf_eq (cls : QCls) (ext : IExt) (lx : LExt) (ic : ICfg) (mn : Int) (d : Nat) :
    inlineOf cls ext lx ic mn d = inlineParse (chainC cls ext lx ic.text ic.fragJoin (cfgOf ic) mn d) (imgPost ic.strike ic.emphasis) ic.fragJoin mn := rfl

theorem coreInline_congr (parse parse' : List Char → Except PyErr (List Tok)) : ∀ bts : List Tok,
    (∀ t ∈ bts, t.type = "inline" → parse t.content.toList = parse' t.content.toList) → coreInline parse bts = coreInline parse' bts := by
  intro bts
  induction bts with
  | nil => intro _; rfl
  | cons b rest ih =>
    intro h
    have hrest := ih (fun t ht => h t (List.mem_cons_of_mem _ ht))
    unfold coreInline
    split
    · rename_i hinl
      rw [h b List.mem_cons_self (by simpa using hinl), hrest]
    · rw [hrest]

/-- **C10.full_conservative** -/
theorem full_conservative (cls : QCls) (ext : IExt) (lx : LExt) (bc : MCfg) (ia ib : ICfg) (ht : ia.text = ib.text) (hf : ia.fragJoin = ib.fragJoin)
    (hi : ia.inlineOn = ib.inlineOn) (hj : ia.textJoinOn = ib.textJoinOn) (ws : List Nat) (mn : Int) (d : Nat) (src : List Char)
    (hclean : ∀ bts, mParse bc ws mn src = .ok bts → ∀ t ∈ bts, t.type = "inline" → CleanC (cfgOf ia) (cfgOf ib) t.content.toList) :
    fullParse cls ext lx bc ia ws mn d src = fullParse cls ext lx bc ib ws mn d src := by
  unfold fullParse
  cases hb : mParse bc ws mn src with
  | error e => rfl
  | ok bts =>
    simp only
    rw [← hi, ← hj]
    have hcore : coreInline (inlineOf cls ext lx ia mn d) bts = coreInline (inlineOf cls ext lx ib mn d) bts := by
      apply coreInline_congr
      intro t htm hty
      rw [inlineOf_eq, inlineOf_eq, ← ht, ← hf]
      exact any_two_configurations cls ext lx ia.text ia.fragJoin (cfgOf ia) (cfgOf ib) mn d t.content.toList (hclean bts hb t htm hty)
    rw [hcore]

end MdIt.C10
