import MdIt.Props.C10e
import MdIt.Props.C02f
/-!
# C04 (continued) — with the `html` option off the modelled inline sub-parser emits no raw-HTML token

The renderer writes an `html_inline` token's content verbatim (`C04.no_raw` is about streams without such tokens); the parser side of
"html off ⇒ nothing raw reaches the output" is that no such token is produced.  For the inline sub-parser of `C01.xmini_total`:
**`xmini_no_html`** — for every source, rule subset (the `html_inline` rule switched on or not), `maxNesting`, classification and
external functions with `html = false`, no token of the inline parse has type `html_inline`.  (`html_block` is a block rule outside
the modelled block sub-parser: T1 + dynamic twin, see the check.)
-/
namespace MdIt.C04
open MdIt.C01 MdIt.C10

theorem xmini_no_html (cls : QCls) (ext : IExt) (hoff : ext.html = false) (c : IMiniCfg)
    (strike emphasis autolink htmlInline entity fragJoin : Bool) (mn : Int) (src : List Char) (ts : List Tok)
    (h : inlineParse (xminiChain cls ext c strike emphasis autolink htmlInline entity) (sminiPost strike emphasis) fragJoin mn src = .ok ts) :
    ∀ t ∈ ts, t.type ≠ "html_inline" := by
  intro t ht
  exact (xmini_switches ext c strike emphasis autolink htmlInline entity cls fragJoin mn src ts h t ht).2.2.2.2.1 (by simp [hoff])

/-- the hypothesis matters: with the option on the same source yields a raw-HTML token -/
example : C01.itypesOf (inlineParse (xminiChain C02f.asciiCls { entity := fun _ => none, reformat := id, normText := id, html := true }
      ⟨true, true, true⟩ false true true true true) (sminiPost false true) true 20 "a <b> c".toList)
    = some ["text", "html_inline", "text"] := by decide +kernel
example : C01.itypesOf (inlineParse (xminiChain C02f.asciiCls { entity := fun _ => none, reformat := id, normText := id, html := false }
      ⟨true, true, true⟩ false true true true true) (sminiPost false true) true 20 "a <b> c".toList)
    = some ["text"] := by decide +kernel

end MdIt.C04
