import MdIt.Props.C17d
import MdIt.BlockTable
/-!
# C17 (continued) — equivalent encodings, end to end with all eleven block rules

`tParse` / `fullParseT` start with `normalize`: any mixture of LF / CR LF / CR line endings, and NUL vs U+FFFD, give the same result —
block tokens (table rows and cells included), the children of every inline token, the env entries recorded.
-/
namespace MdIt.C17

private theorem isEmpty_of_mixedT {s s' : List Char} (h : Mixed s s') : s'.isEmpty = s.isEmpty := by
  cases h <;> rfl

theorem t_line_endings (ext : IExt) (lx : LExt) (c : TCfg) (ws : List Nat) (mn : Int) (s s' : List Char) (hm : Mixed s s') (h : noCR s) :
    tParse ext lx c ws mn s' = tParse ext lx c ws mn s := by
  unfold tParse
  rw [normalize_mixed s s' hm h, isEmpty_of_mixedT hm]

theorem t_nul (ext : IExt) (lx : LExt) (c : TCfg) (ws : List Nat) (mn : Int) (s : List Char) :
    tParse ext lx c ws mn (s.map (fun ch => if ch = '\x00' then '�' else ch)) = tParse ext lx c ws mn s := by
  unfold tParse
  rw [nul_like_fffd s]
  cases s <;> rfl

/-- **C17.fullT_line_endings** — all eleven block rules: tokens, children and the recorded env entries -/
theorem fullT_line_endings (cls : QCls) (ext : IExt) (lx : LExt) (tc : TCfg) (ic : ICfg) (ws : List Nat) (mn : Int) (d : Nat)
    (s s' : List Char) (hm : Mixed s s') (h : noCR s) :
    fullParseT cls ext lx tc ic ws mn d s' = fullParseT cls ext lx tc ic ws mn d s := by
  unfold fullParseT
  rw [t_line_endings ext lx tc ws mn s s' hm h]

/-- **C17.fullT_nul** -/
theorem fullT_nul (cls : QCls) (ext : IExt) (lx : LExt) (tc : TCfg) (ic : ICfg) (ws : List Nat) (mn : Int) (d : Nat) (s : List Char) :
    fullParseT cls ext lx tc ic ws mn d (s.map (fun ch => if ch = '\x00' then '�' else ch)) = fullParseT cls ext lx tc ic ws mn d s := by
  unfold fullParseT
  rw [t_nul ext lx tc ws mn s]

end MdIt.C17
