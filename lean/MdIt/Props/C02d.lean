import MdIt.Props.C02c
import MdIt.Props.C01d
/-!
# C02 / C03 / C10 (continued) — the token stream of the list rule

`listItem_tokens`, `listItems_chain`, `listRun_tokens`: what a matched list appends is
`open(map patched) ++ items ++ close` up to the `hidden` flags `markTightParagraphs` sets, each item is
`item_open(map patched) ++ (tokens of the nested run, or nothing for the empty-item workaround) ++ item_close`, items follow
each other with increasing, adjacent line ranges.
-/
namespace MdIt.C02
open MdIt.C01

/-! ### lists equal up to `hidden` -/

def HidEq (a b : List Tok) : Prop := a.map (·.setHidden false) = b.map (·.setHidden false)

theorem HidEq.refl (a : List Tok) : HidEq a a := rfl
theorem HidEq.symm {a b : List Tok} (h : HidEq a b) : HidEq b a := Eq.symm h

@[simp] theorem setHidden_idem (t : Tok) (h h' : Bool) : (t.setHidden h).setHidden h' = t.setHidden h' := by cases t; rfl
@[simp] theorem setHidden_nesting (t : Tok) (h : Bool) : (t.setHidden h).nesting = t.nesting := by cases t; rfl
@[simp] theorem setHidden_level (t : Tok) (h : Bool) : (t.setHidden h).level = t.level := by cases t; rfl
@[simp] theorem setHidden_type (t : Tok) (h : Bool) : (t.setHidden h).type = t.type := by cases t; rfl
@[simp] theorem setHidden_map (t : Tok) (h : Bool) : (t.setHidden h).map = t.map := by cases t; rfl
@[simp] theorem setAttrs_nesting (t : Tok) (a) : (t.setAttrs a).nesting = t.nesting := by cases t; rfl
@[simp] theorem setAttrs_level (t : Tok) (a) : (t.setAttrs a).level = t.level := by cases t; rfl
@[simp] theorem setAttrs_type (t : Tok) (a) : (t.setAttrs a).type = t.type := by cases t; rfl
@[simp] theorem setAttrs_map (t : Tok) (a) : (t.setAttrs a).map = t.map := by cases t; rfl

theorem modify_hidden (ts : List Tok) (i : Nat) : HidEq (ts.modify i (·.setHidden true)) ts := by
  unfold HidEq
  apply List.ext_getElem?
  intro j
  simp only [List.getElem?_map, List.getElem?_modify]
  cases ts[j]? with
  | none => rfl
  | some t => simp only [Option.map_some, Functor.map]; split <;> simp

theorem modify_take_ge {α} (ts : List α) (i i0 : Nat) (h : i0 ≤ i) (f : α → α) : (ts.modify i f).take i0 = ts.take i0 := by
  apply List.ext_getElem?
  intro j
  simp only [List.getElem?_take, List.getElem?_modify]
  split
  · rename_i hj
    have : ¬ i = j := by omega
    cases ts[j]? <;> simp [this]
  · rfl

theorem markTightGo_spec (level : Int) : ∀ (fuel i : Nat) (ts : List Tok) (i0 : Nat), i0 ≤ i →
    (markTightGo level fuel i ts).take i0 = ts.take i0 ∧ HidEq (markTightGo level fuel i ts) ts := by
  intro fuel
  induction fuel with
  | zero => intro i ts i0 _; exact ⟨rfl, rfl⟩
  | succ n ih =>
    intro i ts i0 hi
    simp only [markTightGo]
    split
    · split
      · split
        · obtain ⟨h1, h2⟩ := ih (i + 3) ((ts.modify (i + 2) (·.setHidden true)).modify i (·.setHidden true)) i0 (by omega)
          refine ⟨?_, ?_⟩
          · rw [h1, modify_take_ge _ _ _ hi, modify_take_ge _ _ _ (by omega)]
          · exact h2.trans ((modify_hidden _ _).trans (modify_hidden _ _))
        · exact ih (i + 1) ts i0 (by omega)
      · exact ⟨rfl, rfl⟩
    · exact ⟨rfl, rfl⟩

/-- `markTightParagraphs` leaves the tokens before the list alone and changes only `hidden` flags -/
theorem markTight_spec (level : Int) (pre seg : List Tok) :
    ∃ seg', markTight level pre.length (pre ++ seg) = pre ++ seg' ∧ HidEq seg' seg := by
  obtain ⟨h1, h2⟩ := markTightGo_spec (level + 2) (pre ++ seg).length (pre.length + 2) (pre ++ seg) pre.length (by omega)
  refine ⟨(markTight level pre.length (pre ++ seg)).drop pre.length, ?_, ?_⟩
  · have : markTight level pre.length (pre ++ seg) = (markTight level pre.length (pre ++ seg)).take pre.length ++ (markTight level pre.length (pre ++ seg)).drop pre.length :=
      (List.take_append_drop _ _).symm
    unfold markTight at this ⊢
    rw [h1] at this
    simpa using this
  · unfold HidEq at h2 ⊢
    unfold markTight
    have := congrArg (List.drop pre.length) h2
    simp only [List.map_drop] at this
    rw [List.map_drop, this]
    simp

/-! ### one item -/

/-- the tokens of one list item: opening token (map patched), what the nested run added — nothing when the empty-item workaround
    skipped it — and the closing token -/
theorem listItem_tokens (ordered : Bool) (markerChar : Char) (inner : List BRule) (mn : Int) (endLine : Nat) (s : BState)
    (startLine markerLen : Nat) (s6 : BState) (nt pe : Bool)
    (h : listItem ordered markerChar inner mn endLine s startLine markerLen = .ok (s6, nt, pe)) :
    ∃ (s2 s3 : BState) (openT closeT : Tok),
      s2.tokens = s.tokens ++ [openT] ∧ s2.level = s.level + 1 ∧ s2.lineMax = s.lineMax ∧ s2.lines.length = s.lines.length ∧
      ((s3.tokens = s2.tokens ∧ s3.level = s2.level) ∨ blockTokenize inner mn s2 startLine endLine = .ok s3) ∧
      (∀ innerToks, s3.tokens = s2.tokens ++ innerToks →
        s6.tokens = s.tokens ++ ([openT.setMap (some (startLine, s3.line))] ++ innerToks ++ [closeT])) ∧
      openT.nesting = 1 ∧ openT.level = s.level ∧ openT.type = "list_item_open" ∧
      closeT.nesting = -1 ∧ closeT.level = s3.level - 1 ∧ closeT.type = "list_item_close" ∧ closeT.map = none ∧ s6.line = s3.line
      ∧ SufLines s.lines s2.lines := by
  unfold listItem at h
  cases hg : getL s startLine with
  | error e => rw [hg] at h; cases h
  | ok l =>
    rw [hg] at h
    simp only at h
    generalize hq : lLoop l.bs ((l.sCount : Int) + (markerLen : Int)) (List.drop markerLen l.body) 0 = q at h
    generalize hs1 : s.pushFull "list_item_open" "li" 1 (some (startLine, 0)) none "" (String.singleton markerChar)
        (if ordered = true then String.ofList (List.take (markerLen - 1) l.body) else "") = s1 at h
    have hs1t : s1.tokens = s.tokens ++ [pushedTok s "list_item_open" "li" 1 (some (startLine, 0)) none "" (String.singleton markerChar)
        (if ordered = true then String.ofList (List.take (markerLen - 1) l.body) else "")] := by subst hs1; rfl
    have hs1l : s1.level = s.level + 1 := by subst hs1; exact pushFull_level_open _ _ _ _ _ _ _ _
    have hs1m : s1.lineMax = s.lineMax ∧ s1.lines = s.lines := by subst hs1; exact ⟨rfl, rfl⟩
    cases hn : listNested inner mn endLine (listEnter s1 l startLine markerLen q (listIndentOf l markerLen q)) startLine
        (decide ((List.drop markerLen l.body).length ≤ q.2)) with
    | error e => rw [hn] at h; cases h
    | ok s3 =>
      rw [hn] at h
      simp only at h
      unfold listClose at h
      split at h
      · cases h
      · rename_i pe' _
        split at h
        · cases h
        · rename_i lcur _
          simp only [Except.ok.injEq, Prod.mk.injEq] at h
          obtain ⟨h6, _, _⟩ := h
          refine ⟨listEnter s1 l startLine markerLen q (listIndentOf l markerLen q), s3, _, 
            pushedTok s3 "list_item_close" "li" (-1) none none "" (String.singleton markerChar) "", hs1t, hs1l, hs1m.1,
            by simp [listEnter, hs1m.2], ?_, ?_, rfl, rfl, rfl, rfl, rfl, rfl, rfl, by rw [← h6]; rfl, ?_⟩
          · unfold listNested at hn
            split at hn
            · cases hn
            · simp only [Except.ok.injEq] at hn; subst hn; exact .inl ⟨rfl, rfl⟩
            · exact .inr hn
          · intro innerToks h3
            rw [← h6]
            show List.modify (s3.tokens ++ [_]) s.tokens.length _ = _
            have e2 : (listEnter s1 l startLine markerLen q (listIndentOf l markerLen q)).tokens = s1.tokens := rfl
            rw [h3, e2, hs1t]
            simp only [List.append_assoc, List.cons_append, List.nil_append]
            rw [modify_append_len]
            rfl
          · show SufLines s.lines (s1.lines.set startLine (l.retab (l.tShift + markerLen + q.2) q.1))
            rw [hs1m.2]
            have hl : s.lines[startLine]? = some l := by
              unfold getL at hg
              cases hq2 : s.lines[startLine]? with
              | none => rw [hq2] at hg; cases hg
              | some x => rw [hq2] at hg; cases hg; rfl
            exact (SufLines.refl s.lines).set startLine l _ hl (List.suffix_refl _) rfl

/-! ### the item loop -/

/-- segments of consecutive items: the item from line `a` ends on line `b`, where the next one starts -/
inductive ItemChain (T : BState → Nat → Nat → List Tok → Prop) (s : BState) : Nat → Nat → List Tok → Prop where
  | nil (a : Nat) : ItemChain T s a a []
  | cons (a b e : Nat) (seg rest : List Tok) : a < b → T s a b seg → ItemChain T s b e rest → ItemChain T s a e (seg ++ rest)

theorem ItemChain.le {T s a e toks} (h : ItemChain T s a e toks) : a ≤ e := by
  induction h with
  | nil => exact Nat.le_refl _
  | cons a b e seg rest h1 _ _ ih => omega

theorem ItemChain.frame {T} (hT : ∀ s s' a b seg, s.FrameEq s' → T s a b seg → T s' a b seg) {s s' a e toks} (hf : s.FrameEq s')
    (h : ItemChain T s a e toks) : ItemChain T s' a e toks := by
  induction h with
  | nil => exact .nil _
  | cons a b e seg rest h1 h2 _ ih => exact .cons a b e seg rest h1 (hT _ _ _ _ _ hf h2) ih

/-- the item loop appends a chain of item segments -/
theorem listItems_chain (T : BState → Nat → Nat → List Tok → Prop) (hT : ∀ s s' a b seg, s.FrameEq s' → T s a b seg → T s' a b seg)
    (mn : Int) (d : Nat) (codeOn ordered : Bool) (markerChar : Char) (terms : List BRule) (hin : ∀ t ∈ terms, SilentInert t)
    (inner : List BRule) (hinner : InnerOK mn d inner) (endLine : Nat)
    (hitem : ∀ (s : BState) (startLine markerLen : Nat) (s6 : BState) (nt pe : Bool), s.lineMax + 1 ≤ s.lines.length → endLine ≤ s.lineMax →
      startLine < endLine → s.line = startLine → mn + 1 ≤ s.level + 1 + (d : Int) →
      listItem ordered markerChar inner mn endLine s startLine markerLen = .ok (s6, nt, pe) →
      ∃ seg, s6.tokens = s.tokens ++ seg ∧ T s startLine s6.line seg) :
    ∀ (fuel : Nat) (st st' : ListSt), endLine - st.startLine < fuel → st.s.lineMax + 1 ≤ st.s.lines.length → endLine ≤ st.s.lineMax →
      st.s.line = st.startLine → mn + 1 ≤ st.s.level + 1 + (d : Int) → st.startLine ≤ st.s.lineMax →
      listItems codeOn ordered markerChar terms inner mn endLine fuel st = .ok st' →
      ∃ toks, st'.s.tokens = st.s.tokens ++ toks ∧ ItemChain T st.s st.startLine st'.startLine toks := by
  intro fuel
  induction fuel with
  | zero => intro st st' h; omega
  | succ n ih =>
    intro st st' hf hlen hend hline hlv hsm h
    simp only [listItems] at h
    split at h
    · simp only [Except.ok.injEq] at h; subst h; exact ⟨[], by simp, .nil _⟩
    · rename_i hlt
      have hlt' : st.startLine < endLine := by simpa using hlt
      obtain ⟨s6, nt, pe, hitm, hf6, hgt6, hle6⟩ := listItem_ok mn d ordered markerChar inner hinner endLine st.s st.startLine st.markerLen
        hlen hend hlt' hline hlv
      obtain ⟨seg, hseg, hTseg⟩ := hitem st.s st.startLine st.markerLen s6 nt pe hlen hend hlt' hline hlv hitm
      simp only [hitm] at h
      have one : ∃ toks, s6.tokens = st.s.tokens ++ toks ∧ ItemChain T st.s st.startLine s6.line toks :=
        ⟨seg, hseg, by have := ItemChain.cons (T := T) (s := st.s) st.startLine s6.line s6.line seg [] hgt6 hTseg (.nil _); simpa using this⟩
      have stop : ∀ (x : ListSt), x.s = s6 → x.startLine = s6.line → (Except.ok x : Except PyErr ListSt) = .ok st' →
          ∃ toks, st'.s.tokens = st.s.tokens ++ toks ∧ ItemChain T st.s st.startLine st'.startLine toks := by
        intro x hx1 hx2 hx
        simp only [Except.ok.injEq] at hx; subst hx
        rw [hx1, hx2]; exact one
      split at h
      · exact stop _ rfl rfl h
      · have hlen6 : s6.lineMax + 1 ≤ s6.lines.length := by rw [hf6.1.1, hf6.2.1]; exact hlen
        obtain ⟨ln, hgl, _⟩ := getL_ok s6 s6.line (by rw [hf6.1.1]; omega)
        simp only [hgl] at h
        split at h
        · exact stop _ rfl rfl h
        · split at h
          · exact stop _ rfl rfl h
          · obtain ⟨b, hb⟩ := runTerminators_inert terms hin s6 s6.line endLine (by rw [hf6.1.1]; omega)
            simp only [hb] at h
            cases b with
            | true => exact stop _ rfl rfl h
            | false =>
              simp only at h
              split at h
              · exact stop _ rfl rfl h
              · split at h
                · exact stop _ rfl rfl h
                · rename_i mlen _ _
                  obtain ⟨toks, h1, h2⟩ := ih
                    { s := s6, startLine := s6.line, markerLen := mlen, tight := (if (!nt || st.prevEmptyEnd) = true then false else st.tight), prevEmptyEnd := pe }
                    st' (by show endLine - s6.line < n; omega) hlen6 (by rw [hf6.2.1]; exact hend) rfl (by rw [hf6.2.2.2]; exact hlv)
                    (by show s6.line ≤ s6.lineMax; rw [hf6.2.1]; exact hle6) h
                  refine ⟨seg ++ toks, ?_, ?_⟩
                  · rw [h1]; show s6.tokens ++ toks = _; rw [hseg]; simp
                  · exact .cons _ s6.line _ seg toks hgt6 hTseg (ItemChain.frame hT (frameEq_symm hf6) h2)

/-! ### the list -/

/-- the tokens of a matched list: `open(map patched) ++ items ++ close`, up to the `hidden` flags of tight paragraphs -/
theorem listRun_tokens (T : BState → Nat → Nat → List Tok → Prop) (hT : ∀ s s' a b seg, s.FrameEq s' → T s a b seg → T s' a b seg)
    (mn : Int) (d : Nat) (codeOn ordered : Bool) (markerChar : Char) (mlen mv : Nat) (terms : List BRule) (hin : ∀ t ∈ terms, SilentInert t)
    (inner : List BRule) (hinner : InnerOK mn d inner) (s : BState) (line endLine : Nat)
    (hitem : ∀ (s : BState) (startLine markerLen : Nat) (s6 : BState) (nt pe : Bool), s.lineMax + 1 ≤ s.lines.length → endLine ≤ s.lineMax →
      startLine < endLine → s.line = startLine → mn + 1 ≤ s.level + 1 + (d : Int) →
      listItem ordered markerChar inner mn endLine s startLine markerLen = .ok (s6, nt, pe) →
      ∃ seg, s6.tokens = s.tokens ++ seg ∧ T s startLine s6.line seg)
    (hc : CallCtx (Lv mn (d + 1)) s line endLine) (s' : BState)
    (h : listRun codeOn ordered markerChar mlen mv terms inner mn s line endLine = .ok (true, s')) :
    ∃ (s2 : BState) (openT closeT : Tok) (toks seg' : List Tok),
      s.FrameEq' s2 ∧ ItemChain T s2 line s'.line toks ∧ line < s'.line ∧
      s'.tokens = s.tokens ++ seg' ∧ HidEq seg' ([openT.setMap (some (line, s'.line))] ++ toks ++ [closeT]) ∧
      openT.nesting = 1 ∧ openT.level = s.level ∧ openT.type = (if ordered then "ordered_list_open" else "bullet_list_open") ∧
      closeT.nesting = -1 ∧ closeT.level = s.level ∧ closeT.type = (if ordered then "ordered_list_close" else "bullet_list_close") ∧
      closeT.map = none := by
  unfold listRun at h
  simp only [] at h
  generalize hs2 : ({ (if (ordered && mv != 1) = true then
      { (s.pushFull (if ordered = true then "ordered_list_open" else "bullet_list_open") (if ordered = true then "ol" else "ul") 1 (some (line, 0)) none "" (String.singleton markerChar) "") with
        tokens := (s.pushFull (if ordered = true then "ordered_list_open" else "bullet_list_open") (if ordered = true then "ol" else "ul") 1 (some (line, 0)) none "" (String.singleton markerChar) "").tokens.modify s.tokens.length
          (fun t => t.setAttrs [("start", AttrVal.i mv)]) }
    else s.pushFull (if ordered = true then "ordered_list_open" else "bullet_list_open") (if ordered = true then "ol" else "ul") 1 (some (line, 0)) none "" (String.singleton markerChar) "") with
    parentType := "list" } : BState) = s2 at h
  have hs2f : s.FrameEq' s2 := by
    subst hs2
    split <;> exact ⟨rfl, rfl, rfl, rfl, by simp [pushFull_level_open], rfl⟩
  have hs2t : ∃ openT, s2.tokens = s.tokens ++ [openT] ∧ openT.nesting = 1 ∧ openT.level = s.level
      ∧ openT.type = (if ordered then "ordered_list_open" else "bullet_list_open") := by
    subst hs2
    split
    · refine ⟨(pushedTok s (if ordered = true then "ordered_list_open" else "bullet_list_open") (if ordered = true then "ol" else "ul") 1 (some (line, 0)) none "" (String.singleton markerChar) "").setAttrs [("start", AttrVal.i mv)], ?_, ?_, ?_, ?_⟩
      · show List.modify (s.tokens ++ [_]) s.tokens.length _ = _
        rw [modify_append_len]; rfl
      · rw [setAttrs_nesting]; rfl
      · rw [setAttrs_level]; simp [pushedTok, Tok.level]
      · rw [setAttrs_type]; rfl
    · exact ⟨_, rfl, rfl, by simp [pushedTok, Tok.level], rfl⟩
  obtain ⟨openT, hopen, ho1, ho2, ho3⟩ := hs2t
  have a1 : s2.lineMax + 1 ≤ s2.lines.length := by rw [hs2f.2.1, hs2f.1]; exact hc.len
  have a2 : endLine ≤ s2.lineMax := by rw [hs2f.2.1]; exact hc.le
  have a3 : s2.line = line := by rw [hs2f.2.2.2.2.2]; exact hc.cur
  have a4 : mn + 1 ≤ s2.level + 1 + (d : Int) := by
    rw [hs2f.2.2.2.2.1]; have := hc.extra; unfold Lv at this; omega
  have a5 : line ≤ s2.lineMax := by rw [hs2f.2.1]; have := hc.lt; have := hc.le; omega
  obtain ⟨st, hst, hfst, _, hgt, hle⟩ := listItems_ok mn d codeOn ordered markerChar terms hin inner hinner endLine (endLine - line + 1)
    { s := s2, startLine := line, markerLen := mlen, tight := true, prevEmptyEnd := false }
    (by show endLine - line < endLine - line + 1; omega) a1 a2 a3 a4 a5
  obtain ⟨toks, htoks, hchain⟩ := listItems_chain T hT mn d codeOn ordered markerChar terms hin inner hinner endLine hitem (endLine - line + 1)
    { s := s2, startLine := line, markerLen := mlen, tight := true, prevEmptyEnd := false } st
    (by show endLine - line < endLine - line + 1; omega) a1 a2 a3 a4 a5 hst
  simp only [hst] at h
  have hlvl : st.s.level = s.level + 1 := by rw [hfst.2.2.2]; exact hs2f.2.2.2.2.1
  have htok4 : List.modify (st.s.pushFull (if ordered = true then "ordered_list_close" else "bullet_list_close") (if ordered = true then "ol" else "ul") (-1)
        none none "" (String.singleton markerChar) "").tokens s.tokens.length (fun t => t.setMap (some (line, st.startLine)))
      = s.tokens ++ ([openT.setMap (some (line, st.startLine))] ++ toks ++
          [pushedTok st.s (if ordered = true then "ordered_list_close" else "bullet_list_close") (if ordered = true then "ol" else "ul") (-1) none none "" (String.singleton markerChar) ""]) := by
    rw [pushFull_tokens, htoks]
    show List.modify (s2.tokens ++ toks ++ [_]) _ _ = _
    rw [hopen]
    simp only [List.append_assoc, List.cons_append, List.nil_append]
    rw [modify_append_len]
  have hclose : (pushedTok st.s (if ordered = true then "ordered_list_close" else "bullet_list_close") (if ordered = true then "ol" else "ul") (-1) none none "" (String.singleton markerChar) "").level = s.level := by
    simp [pushedTok, Tok.level, hlvl]
  simp only [Except.ok.injEq, Prod.mk.injEq, true_and] at h
  have hgt' : line < st.startLine := hgt hc.lt
  split at h
  · subst h
    obtain ⟨seg', hm1, hm2⟩ := markTight_spec (st.s.pushFull (if ordered = true then "ordered_list_close" else "bullet_list_close") (if ordered = true then "ol" else "ul") (-1)
        none none "" (String.singleton markerChar) "").level s.tokens ([openT.setMap (some (line, st.startLine))] ++ toks ++
          [pushedTok st.s (if ordered = true then "ordered_list_close" else "bullet_list_close") (if ordered = true then "ol" else "ul") (-1) none none "" (String.singleton markerChar) ""])
    refine ⟨s2, openT, _, toks, seg', hs2f, hchain, hgt', ?_, hm2, ho1, ho2, ho3, rfl, hclose, rfl, rfl⟩
    show markTight _ s.tokens.length (List.modify _ _ _) = _
    rw [htok4]; exact hm1
  · subst h
    exact ⟨s2, openT, _, toks, _, hs2f, hchain, hgt', htok4, HidEq.refl _, ho1, ho2, ho3, rfl, hclose, rfl, rfl⟩

/-! ### segment predicates through both containers -/

/-- a segment predicate that survives the list wrappings (list and item) and ignores `hidden` -/
structure ListWrap (S : BState → List Tok → Prop) : Prop where
  hid : ∀ s seg seg', HidEq seg' seg → S s seg → S s seg'
  wrap : ∀ (s s2 : BState) (openT closeT : Tok) (m : Option (Nat × Nat)) (segs : List (List Tok)),
      s2.level = s.level + 1 → SufLines s.lines s2.lines → openT.nesting = 1 → openT.level = s.level → closeT.nesting = -1 → closeT.level = s.level →
      (openT.type, closeT.type) ∈ [("list_item_open", "list_item_close"), ("bullet_list_open", "bullet_list_close"),
        ("ordered_list_open", "ordered_list_close")] →
      (∀ g ∈ segs, S s2 g) → S s ([openT.setMap m] ++ segs.flatten ++ [closeT])

theorem ItemChain.segs {S : BState → List Tok → Prop} {s a e toks} (h : ItemChain (fun s _ _ seg => S s seg) s a e toks) :
    ∃ segs : List (List Tok), toks = segs.flatten ∧ ∀ g ∈ segs, S s g := by
  induction h with
  | nil => exact ⟨[], rfl, by simp⟩
  | cons a b e seg rest _ h2 _ ih =>
    obtain ⟨segs, h3, h4⟩ := ih
    refine ⟨seg :: segs, by simp [h3], ?_⟩
    intro g hg
    simp only [List.mem_cons] at hg
    rcases hg with rfl | hg
    · exact h2
    · exact h4 g hg

/-- the leaf rules of the chains with both containers -/
def lLeaves (c : MiniCfg) (ws : List Nat) (mn : Int) : List BRule :=
  (if c.code then [ruleCode c.code] else []) ++ (if c.fence then [ruleFence c.code] else [])
    ++ (if c.hr then [ruleHr c.code] else []) ++ (if c.heading then [ruleHeading c.code ws] else [])
    ++ [ruleParagraph (lTerminators c ws mn) ws]

theorem mem_lChain (c : MiniCfg) (ws : List Nat) (mn : Int) (d : Nat) (r : BRule) (h : r ∈ lChain c ws mn (d + 1)) :
    r ∈ lLeaves c ws mn ∨ r = ruleBlockquote c.code (lTerminators c ws mn) (lChain c ws mn d) mn
      ∨ r = ruleList c.code (lListTerms c mn) (lChain c ws mn d) mn := by
  simp only [lChain, List.mem_append, List.mem_singleton] at h
  simp only [lLeaves, List.mem_append, List.mem_singleton]
  rcases h with (((((h | h) | h) | h) | h) | h) | h
  · exact .inl (.inl (.inl (.inl (.inl h))))
  · exact .inl (.inl (.inl (.inl (.inr h))))
  · exact .inr (.inl h)
  · exact .inl (.inl (.inl (.inr h)))
  · exact .inr (.inr h)
  · exact .inl (.inl (.inr h))
  · exact .inl (.inr h)

/-- a hit of the list rule is a run of `listRun` -/
theorem ruleList_hit (codeOn : Bool) (terms inner : List BRule) (mn : Int) (s : BState) (line endLine : Nat) (s' : BState)
    (h : ruleList codeOn terms inner mn s line endLine false = .ok (true, s')) :
    ∃ ordered mc mlen mv, listRun codeOn ordered mc mlen mv terms inner mn s line endLine = .ok (true, s') := by
  unfold ruleList at h
  split at h
  · cases h
  · simp only [Bool.false_eq_true, if_false, Bool.false_and, Bool.and_false] at h
    split at h
    · cases h
    · split at h
      · cases h
      · split at h
        · cases h
        · split at h
          · cases h
          · exact ⟨_, _, _, _, h⟩

def InnerSegL (S : BState → List Tok → Prop) (c : MiniCfg) (ws : List Nat) (mn : Int) (d : Nat) : Prop :=
  ∀ (s : BState) (startLine endLine : Nat) (s' : BState), s.lineMax + 1 ≤ s.lines.length → endLine ≤ s.lineMax → Lv mn d s endLine →
    blockTokenize (lChain c ws mn d) mn s startLine endLine = .ok s' →
    ∃ segs : List (List Tok), s'.tokens = s.tokens ++ segs.flatten ∧ ∀ g ∈ segs, S s g

theorem lChain_seg (S : BState → List Tok → Prop) (hw : QuoteWrap S) (hlw : ListWrap S) (c : MiniCfg) (ws : List Nat) (mn : Int)
    (hleaf : ∀ (P : BState → Nat → Prop), ∀ r ∈ lLeaves c ws mn, SegOK P S r) : ∀ d : Nat,
    (∀ r ∈ lChain c ws mn d, SegOK (Lv mn d) S r) ∧ InnerSegL S c ws mn d := by
  intro d
  induction d with
  | zero =>
    have h0 : ∀ r ∈ lChain c ws mn 0, SegOK (Lv mn 0) S r := fun r hr => by simp [lChain] at hr
    refine ⟨h0, ?_⟩
    intro s startLine endLine s' hlen hend hlv hrun
    exact loop_segs (Lv mn 0) (lv_closed mn 0) S hw.closed _ (lChain_ok c ws mn 0).1 h0 mn endLine _ startLine false s s' hlen hend hlv hrun
  | succ d ih =>
    have hq : SegOK (Lv mn (d + 1)) S (ruleBlockquote c.code (lTerminators c ws mn) (lChain c ws mn d) mn) := by
      have key := quote_shape mn d c.code (lTerminators c ws mn) (lTerminators_inert c ws mn) (lChain c ws mn d) (lChain_ok c ws mn d).2
      refine ⟨?_, ?_⟩
      · intro s line endLine s' hc h
        rcases key s line endLine hc with h' | ⟨s'', h', _, _, _, hrunq⟩
        · rw [h'] at h; cases h
        · rw [h'] at h; cases h
          obtain ⟨s3, s4, next, openT, closeT, hl3, hlen3, hend3, hLv3, hrun, htok3, htok, ho1, ho2, ho3, hc1, hc2, hc3, _, _, _, hsuf⟩ :=
            quote_tokens mn d _ s line s' hrunq
          obtain ⟨segs, hs4, hS⟩ := ih.2 s3 line next s4 hlen3 hend3 hLv3 hrun
          obtain ⟨s4', hrun', hfr4, _⟩ := (lChain_ok c ws mn d).2 s3 line next hlen3 hend3 hLv3
          rw [hrun] at hrun'; cases hrun'
          exact ⟨_, htok _ hs4, hw.wrap s s3 s4 line openT closeT segs hl3 hfr4 ho1 ho2 ho3 hc1 hc2 hc3 hsuf hS⟩
      · intro s line endLine s' hc h
        rcases key s line endLine hc with h' | ⟨s'', h', _⟩
        · rw [h'] at h; cases h; rfl
        · rw [h'] at h; cases h
    have hl : SegOK (Lv mn (d + 1)) S (ruleList c.code (lListTerms c mn) (lChain c ws mn d) mn) := by
      have key := list_shape mn d c.code (lListTerms c mn) (lListTerms_inert c mn) (lChain c ws mn d) (lChain_ok c ws mn d).2
      refine ⟨?_, ?_⟩
      · intro s line endLine s' hc h
        obtain ⟨ordered, mc, mlen, mv, hrun⟩ := ruleList_hit _ _ _ _ _ _ _ _ h
        have hitem : ∀ (s : BState) (startLine markerLen : Nat) (s6 : BState) (nt pe : Bool), s.lineMax + 1 ≤ s.lines.length → endLine ≤ s.lineMax →
            startLine < endLine → s.line = startLine → mn + 1 ≤ s.level + 1 + (d : Int) →
            listItem ordered mc (lChain c ws mn d) mn endLine s startLine markerLen = .ok (s6, nt, pe) →
            ∃ seg, s6.tokens = s.tokens ++ seg ∧ S s seg := by
          intro s startLine markerLen s6 nt pe hlen hend hlt hline hlv hit
          obtain ⟨s2, s3, openT, closeT, h2t, h2l, h2m, h2len, hnest, htok, ho1, ho2, ho3, hc1, hc2, hc3, _, _, hsuf2⟩ :=
            listItem_tokens _ _ _ _ _ _ _ _ _ _ _ hit
          rcases hnest with ⟨h3t, h3l⟩ | hrun3
          · refine ⟨_, htok [] (by rw [h3t]; simp), ?_⟩
            have := hlw.wrap s s2 openT closeT (some (startLine, s3.line)) [] h2l hsuf2 ho1 ho2 hc1 (by rw [hc2, h3l, h2l]; omega)
              (by rw [ho3, hc3]; simp) (by simp)
            simpa using this
          · have hlen2 : s2.lineMax + 1 ≤ s2.lines.length := by rw [h2m, h2len]; exact hlen
            have hend2 : endLine ≤ s2.lineMax := by rw [h2m]; exact hend
            have hlv2 : Lv mn d s2 endLine := by unfold Lv; rw [h2l]; omega
            obtain ⟨segs, hs3, hS⟩ := ih.2 s2 startLine endLine s3 hlen2 hend2 hlv2 hrun3
            obtain ⟨s3', hrun', hfr3, _⟩ := (lChain_ok c ws mn d).2 s2 startLine endLine hlen2 hend2 hlv2
            rw [hrun3] at hrun'; cases hrun'
            exact ⟨_, htok _ hs3, hlw.wrap s s2 openT closeT (some (startLine, s3.line)) segs h2l hsuf2 ho1 ho2 hc1
              (by rw [hc2, hfr3.2.2.2, h2l]; omega) (by rw [ho3, hc3]; simp) hS⟩
        obtain ⟨s2, openT, closeT, toks, seg', hf2, hchain, _, htok, hhid, ho1, ho2, ho3, hc1, hc2, hc3, _⟩ :=
          listRun_tokens (fun s _ _ seg => S s seg) (fun s s' _ _ seg hf h => hw.closed s s' seg hf h) mn d c.code ordered mc mlen mv
            (lListTerms c mn) (lListTerms_inert c mn) (lChain c ws mn d) (lChain_ok c ws mn d).2 s line endLine hitem hc s' hrun
        obtain ⟨segs, hsegs, hS⟩ := hchain.segs
        refine ⟨seg', htok, hlw.hid _ _ _ hhid ?_⟩
        rw [hsegs]
        exact hlw.wrap s s2 openT closeT (some (line, s'.line)) segs hf2.2.2.2.2.1 (by rw [hf2.1]; exact SufLines.refl _) ho1 ho2 hc1 hc2
          (by rw [ho3, hc3]; cases ordered <;> simp) hS
      · intro s line endLine s' hc h
        rcases key s line endLine hc with h' | ⟨s'', h', _⟩
        · rw [h'] at h; cases h; rfl
        · rw [h'] at h; cases h
    have hall : ∀ r ∈ lChain c ws mn (d + 1), SegOK (Lv mn (d + 1)) S r := by
      intro r hr
      rcases mem_lChain c ws mn d r hr with h | h | h
      · exact hleaf _ r h
      · subst h; exact hq
      · subst h; exact hl
    refine ⟨hall, ?_⟩
    intro s startLine endLine s' hlen hend hlv hrun
    exact loop_segs (Lv mn (d + 1)) (lv_closed mn (d + 1)) S hw.closed _ (lChain_ok c ws mn (d + 1)).1 hall mn endLine _ startLine false s s' hlen hend hlv hrun

/-- the stream of the sub-parser with quotes and lists is a concatenation of segments satisfying `S` at the top state -/
theorem lParse_segs (S : BState → List Tok → Prop) (hw : QuoteWrap S) (hlw : ListWrap S) (c : MiniCfg) (ws : List Nat) (mn : Int)
    (hleaf : ∀ (P : BState → Nat → Prop), ∀ r ∈ lLeaves c ws mn, SegOK P S r) (src : List Char) (ts : List Tok)
    (h : lParse c ws mn src = .ok ts) :
    ∃ segs : List (List Tok), ts = segs.flatten ∧ ∀ g ∈ segs, S (initBState (normalize src)) g := by
  unfold lParse at h
  simp only at h
  split at h
  · cases h; exact ⟨[], rfl, by simp⟩
  · split at h
    · rename_i s' hs'
      cases h
      obtain ⟨segs, hn, hS⟩ := (lChain_seg S hw hlw c ws mn hleaf (mn.toNat + 1)).2 (initBState (normalize src)) 0
        (initBState (normalize src)).lineMax s' (initBState_len _) (Nat.le_refl _)
        (by unfold Lv; show mn + 1 ≤ (0 : Int) + ((mn.toNat + 1 : Nat) : Int); omega) hs'
      have : (initBState (normalize src)).tokens = [] := rfl
      rw [this, List.nil_append] at hn
      exact ⟨segs, hn, hS⟩
    · cases h

/-! ### instance: well-formed streams -/

theorem hidEq_cons {t u : Tok} {a b : List Tok} (h : HidEq (t :: a) (u :: b)) : t.setHidden false = u.setHidden false ∧ HidEq a b := by
  unfold HidEq at h
  simp only [List.map_cons, List.cons.injEq] at h
  exact h

theorem hidEq_nil_right {a : List Tok} (h : HidEq a []) : a = [] := by
  unfold HidEq at h; simpa using h

theorem hidden_eq_fields {t u : Tok} (h : t.setHidden false = u.setHidden false) :
    t.nesting = u.nesting ∧ t.level = u.level ∧ t.type = u.type ∧ t.map = u.map := by
  have a := congrArg Tok.nesting h
  have b := congrArg Tok.level h
  have c := congrArg Tok.type h
  have d := congrArg Tok.map h
  simp only [setHidden_nesting, setHidden_level, setHidden_type, setHidden_map] at a b c d
  exact ⟨a, b, c, d⟩

theorem wellSeg_hid : ∀ (seg seg' : List Tok) (lvl : Int), HidEq seg' seg →
    (levelsOK lvl seg → levelsOK lvl seg') ∧ depthAfter lvl seg' = depthAfter lvl seg ∧ (∀ d, balancedFrom d seg' = balancedFrom d seg) := by
  intro seg
  induction seg with
  | nil => intro seg' lvl h; rw [hidEq_nil_right h]; exact ⟨id, rfl, fun _ => rfl⟩
  | cons u rest ih =>
    intro seg' lvl h
    cases seg' with
    | nil => unfold HidEq at h; simp at h
    | cons t rest' =>
      obtain ⟨h1, h2⟩ := hidEq_cons h
      obtain ⟨f1, f2, _, _⟩ := hidden_eq_fields h1
      refine ⟨?_, ?_, ?_⟩
      · intro hl
        simp only [levelsOK, f1, f2] at hl ⊢
        exact ⟨hl.1, (ih rest' _ h2).1 hl.2⟩
      · simp only [depthAfter, f1]; exact (ih rest' _ h2).2.1
      · intro d; simp only [balancedFrom, f1]; rw [(ih rest' lvl h2).2.2]

theorem wellSeg_wrap (lvl : Int) (o c : Tok) (mid : List Tok) (ho1 : o.nesting = 1) (ho2 : o.level = lvl) (hc1 : c.nesting = -1)
    (hc2 : c.level = lvl) (hmid : WellSeg (lvl + 1) mid) : WellSeg lvl ([o] ++ mid ++ [c]) := by
  unfold WellSeg
  refine ⟨?_, ?_, ?_⟩
  · rw [levelsOK_append, levelsOK_append]
    refine ⟨⟨?_, ?_⟩, ?_⟩
    · simp [levelsOK, ho1, ho2]
    · simp only [depthAfter, ho1]
      simpa using hmid.1
    · rw [depthAfter_append]
      simp only [depthAfter, ho1]
      simp only [show ((if (1 : Int) < 0 then lvl - 1 else lvl) + if (1 : Int) > 0 then 1 else 0) = lvl + 1 by simp]
      rw [hmid.2.1]
      simp [levelsOK, hc1, hc2]
  · rw [depthAfter_append, depthAfter_append]
    simp only [depthAfter, ho1]
    simp only [show ((if (1 : Int) < 0 then lvl - 1 else lvl) + if (1 : Int) > 0 then 1 else 0) = lvl + 1 by simp]
    rw [hmid.2.1]
    simp [hc1]
  · exact balancedFrom_wrap _ _ _ ho1 hc1 hmid.2.2

theorem wellSegS_listWrap : ListWrap WellSegS := by
  refine ⟨?_, ?_⟩
  · intro s seg seg' hh hS
    obtain ⟨h1, h2, h3⟩ := wellSeg_hid seg seg' s.level hh
    exact ⟨h1 hS.1, by rw [h2]; exact hS.2.1, by rw [h3]; exact hS.2.2⟩
  · intro s s2 openT closeT m segs h2 _ ho1 ho2 hc1 hc2 _ hS
    have hmid : WellSeg (s.level + 1) segs.flatten := by
      have := wellSegs_flatten s2.level segs (fun g hg => hS g hg)
      rw [h2] at this; exact this
    exact wellSeg_wrap s.level _ _ _ (by simp [ho1]) (by simp [ho2]) hc1 hc2 hmid

theorem wellSeg_lLeaves (c : MiniCfg) (ws : List Nat) (mn : Int) (P : BState → Nat → Prop) :
    ∀ r ∈ lLeaves c ws mn, SegOK P WellSegS r := by
  intro r hr
  simp only [lLeaves, List.mem_append, List.mem_singleton] at hr
  rcases hr with (((hr | hr) | hr) | hr) | hr
  · split at hr
    · simp at hr; subst hr; exact segOK_code _ _
    · cases hr
  · split at hr
    · simp at hr; subst hr; exact segOK_fence _ _
    · cases hr
  · split at hr
    · simp at hr; subst hr; exact segOK_hr _ _
    · cases hr
  · split at hr
    · simp at hr; subst hr; exact segOK_heading _ _ _
    · cases hr
  · subst hr; exact segOK_paragraph _ _ (lTerminators_inert c ws mn) ws

/-- **C02.l_wellformed** — with block quotes and lists nested in each other to any depth (tight and loose lists, ordered lists with a
start number, empty items): for every source, rule subset and `maxNesting`, the block stream is levelled from 0, ends at depth 0, is
balanced, and `SyntaxTreeNode(tokens)` builds -/
theorem l_wellformed (c : MiniCfg) (ws : List Nat) (maxNesting : Int) (src : List Char) (ts : List Tok)
    (h : lParse c ws maxNesting src = .ok ts) :
    levelsOK 0 ts ∧ depthAfter 0 ts = 0 ∧ balancedFrom 0 ts = true ∧ ∃ f, buildTree ts = .ok f := by
  obtain ⟨segs, hts, hS⟩ := lParse_segs WellSegS wellSegS_wrap wellSegS_listWrap c ws maxNesting
    (fun P => wellSeg_lLeaves c ws maxNesting P) src ts h
  have key : WellSeg 0 ts := by rw [hts]; exact wellSegs_flatten 0 segs hS
  exact ⟨key.1, key.2.1, key.2.2, tree_of_balanced ts key.2.2⟩

end MdIt.C02
