import MdIt.Pipeline
import MdIt.Props.C01h
import MdIt.Props.C01j
/-!
# C01 (continued) — `MarkdownIt.parse` end to end returns for every input (modelled sub-language)

`m_total` (block side: nine of the eleven block rules, quotes and lists nested to any depth) and `image_total` (inline side: eleven of
the twelve inline rules, links and image descriptions nested to any depth) composed through the core chain
`normalize → block → inline → text_join`.
-/
namespace MdIt.C01

theorem coreInline_total (parse : List Char → Except PyErr (List Tok)) (hparse : ∀ c, ∃ ts, parse c = .ok ts) :
    ∀ bts : List Tok, ∃ ts, coreInline parse bts = .ok ts := by
  intro bts
  induction bts with
  | nil => exact ⟨[], rfl⟩
  | cons t rest ih =>
    obtain ⟨r, hr⟩ := ih
    unfold coreInline
    split
    · obtain ⟨cs, hcs⟩ := hparse t.content.toList
      rw [hcs, hr]
      exact ⟨_, rfl⟩
    · rw [hr]
      exact ⟨_, rfl⟩

/-- **C01.full_total** — for every source, every subset of the modelled block rules (with `blockquote`, `list`, `paragraph`), every
subset of the eleven modelled inline rules, either value of `html`, `maxNesting`, the core rules `inline` and `text_join` on or off,
every reference table, classification and external functions: the whole parse — line scan, block loop with nested containers, the
inline parser on every `inline` token with its nested runs, the second chain, `text_join` — returns a token list. -/
theorem full_total (cls : QCls) (ext : IExt) (lx : LExt) (bc : MCfg) (ic : ICfg) (ws : List Nat) (mn : Int) (d : Nat) (src : List Char) :
    ∃ ts, fullParse cls ext lx bc ic ws mn d src = .ok ts := by
  unfold fullParse
  obtain ⟨bts, hb⟩ := m_total bc ws mn src
  rw [hb]
  simp only
  have hin : ∃ ts, (if ic.inlineOn = true then coreInline (inlineOf cls ext lx ic mn d) bts else .ok bts) = .ok ts := by
    split
    · exact coreInline_total _ (fun c => image_total cls ext lx ic.text ic.newline ic.escape ic.backticks ic.strike ic.emphasis ic.link ic.image
        ic.autolink ic.htmlInline ic.entity ic.fragJoin mn d c) bts
    · exact ⟨_, rfl⟩
  obtain ⟨ts, hts⟩ := hin
  rw [hts]
  exact ⟨_, rfl⟩

end MdIt.C01
