import MdIt.Props.C05
import MdIt.Props.C10e
import MdIt.Props.C02f
/-!
# C05 (continued) — every `href` the modelled inline sub-parser stores went through `normalizeLink` and `validateLink`

`C10.xmini_provenance` accounts for every token of the inline parse: the only rule of the sub-parser that stores a URL is
`autolink`, and the `link_open` it pushes carries exactly `href = normalizeLink(url)` for a `url` on which `validateLink` answered
true.  With `C05.api` (what that means for a browser) and `C05.encode_range`: **`xmini_hrefs`** — for every source, rule subset,
`maxNesting`, classification and every `mdurl` reformatting, every `link_open` of the output has a single attribute `href`, made of
URL-safe ASCII only, whose scheme as a browser reads it is none of the dangerous ones unless it is a `data:image/(gif|png|jpeg|webp);`
URL.  (`link` / `image` / `reference` / `linkify` are not in the modelled sub-parser: oracle.)
-/
namespace MdIt.C05
open MdIt.C01 MdIt.C10

theorem xmini_hrefs (cls : QCls) (ext : IExt) (c : IMiniCfg) (strike emphasis autolink htmlInline entity fragJoin : Bool) (mn : Int)
    (src : List Char) (ts : List Tok)
    (h : inlineParse (xminiChain cls ext c strike emphasis autolink htmlInline entity) (sminiPost strike emphasis) fragJoin mn src = .ok ts)
    (t : Tok) (ht : t ∈ ts) (hty : t.type = "link_open") :
    ∃ href : List Char, t.attrs = [("href", .s (String.ofList href))] ∧ (∀ ch ∈ href, SafeAscii ch)
      ∧ ((∀ d ∈ Gen.badProtos, browserScheme href ≠ some d.toList) ∨ matchesGoodData (lowerAscii href) = true) := by
  rcases xmini_provenance ext c strike emphasis autolink htmlInline entity cls fragJoin mn src ts h t ht with ⟨_, _, u, ha, hv⟩ | ⟨hv, _⟩
  · exact ⟨ext.normLink u, ha, encode_range _, api ext.reformat u hv⟩
  · exfalso
    rw [hty] at hv
    simp only [xVocab, emphTypes, List.mem_append] at hv
    cases c with | mk a b d => cases a <;> cases b <;> cases d <;> cases strike <;> cases emphasis <;> cases autolink <;> cases entity <;>
      cases hb : (htmlInline && ext.html) <;> simp_all [emTypes, sTypes]

/-! non-vacuity: an autolink with a harmless scheme is a link, one with a dangerous scheme stays text -/
def ext0 : IExt := { entity := fun n => if n = "amp".toList then some ['&'] else none, reformat := id, normText := id, html := true }

example : C01.itypesOf (inlineParse (xminiChain C02f.asciiCls ext0 ⟨true, true, true⟩ true true true true true) (sminiPost true true) true 20
    "<http://a.b/c?d> <javascript:x> &amp; <b>".toList)
    = some ["link_open", "text", "link_close", "text", "text_special", "text", "html_inline"] := by decide +kernel

end MdIt.C05
