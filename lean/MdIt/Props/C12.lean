import MdIt.World
import MdIt.Proofs.Ruler
/-!
# C12 — a parse depends only on configuration, source and env: no hidden shared state

Model: `MdIt/World.lean`.  The parser is a parameter `P`; the theorems say what its inputs can be.
-/
namespace MdIt.C12

variable {Out : Type} (P : Config → String → Env → Out × Env)

theorem compileAll_config (x : Inst) :
    ({ x with rulers := compileAll x.rulers } : Inst).config = x.config := by
  simp only [Inst.config, compileAll]
  have h : ∀ r : Ruler, (r.getRules "").1.rules = r.rules := by
    intro r; unfold Ruler.getRules; cases r.cache <;> rfl
  simp [h]

/-- the rules after a façade call depend on the rules before only (not on caches) -/
theorem setMany_rules (m m' : Rulers) (b : Bool) (ns : List String) (ig : Bool)
    (hc : m.core.rules = m'.core.rules) (hb : m.block.rules = m'.block.rules)
    (hi : m.inline.rules = m'.inline.rules) (hi2 : m.inline2.rules = m'.inline2.rules) :
    (m.setMany b ns ig).1.core.rules = (m'.setMany b ns ig).1.core.rules
    ∧ (m.setMany b ns ig).1.block.rules = (m'.setMany b ns ig).1.block.rules
    ∧ (m.setMany b ns ig).1.inline.rules = (m'.setMany b ns ig).1.inline.rules
    ∧ (m.setMany b ns ig).1.inline2.rules = (m'.setMany b ns ig).1.inline2.rules := by
  cases b <;> simp [Rulers.setMany, Ruler.enable, Ruler.disable, hc, hb, hi, hi2]

/-- configuration operations act on the configuration: equal configs before ⇒ equal configs after -/
theorem applyCfg_congr (x y : Inst) (h : x.config = y.config) (op : AOp) :
    (x.applyCfg op).config = (y.applyCfg op).config := by
  simp only [Inst.config, Config.mk.injEq] at h
  obtain ⟨hc, hb, hi, hi2, ho, hr⟩ := h
  cases op with
  | setOpt j r k v => simp [Inst.applyCfg, Inst.setOpt, Inst.config, hc, hb, hi, hi2, ho, hr]
  | enable j ns ig =>
    have := setMany_rules x.rulers y.rulers true ns ig hc hb hi hi2
    simp [Inst.applyCfg, Inst.config, this.1, this.2.1, this.2.2.1, this.2.2.2, ho, hr]
  | disable j ns ig =>
    have := setMany_rules x.rulers y.rulers false ns ig hc hb hi hi2
    simp [Inst.applyCfg, Inst.config, this.1, this.2.1, this.2.2.1, this.2.2.2, ho, hr]
  | addRenderRule j n f => simp [Inst.applyCfg, Inst.addRenderRule, Inst.config, hc, hb, hi, hi2, ho, hr]
  | construct p u => simpa [Inst.applyCfg, Inst.config] using ⟨hc, hb, hi, hi2, ho, hr⟩
  | newEnv => simpa [Inst.applyCfg, Inst.config] using ⟨hc, hb, hi, hi2, ho, hr⟩
  | parse i s e => simpa [Inst.applyCfg, Inst.config] using ⟨hc, hb, hi, hi2, ho, hr⟩

theorem foldl_applyCfg_congr (ops : List AOp) (x y : Inst) (h : x.config = y.config) :
    (ops.foldl Inst.applyCfg x).config = (ops.foldl Inst.applyCfg y).config := by
  induction ops generalizing x y with
  | nil => exact h
  | cons op ops ih => exact ih _ _ (applyCfg_congr x y h op)

/-- **C12.frame** — one API call changes the configuration of the instance it is addressed to, and
of no other: for every existing instance `j`, its configuration after the call is `applyCfg` of the
call if the call configures `j`, and unchanged otherwise (parses of any document on any instance,
constructions of other instances, calls on other instances). -/
theorem frame (w : World) (op : AOp) (j : Nat) (x : Inst) (hx : w.insts[j]? = some x) :
    ∃ x', (w.step P op).1.insts[j]? = some x' ∧
      x'.config = (if op.configures j then (x.applyCfg op).config else x.config) := by
  cases op with
  | construct p u =>
    simp only [World.step]
    cases construct p u with
    | ok i =>
      refine ⟨x, ?_, by simp [AOp.configures]⟩
      have hlt : j < w.insts.length := by
        rcases Nat.lt_or_ge j w.insts.length with h | h
        · exact h
        · rw [List.getElem?_eq_none h] at hx; cases hx
      simp [List.getElem?_append_left hlt, hx]
    | error e => exact ⟨x, hx, by simp [AOp.configures]⟩
  | setOpt i r k v =>
    simp only [World.step, List.getElem?_modify, hx, AOp.configures]
    by_cases h : i = j
    · subst h; exact ⟨x.setOpt r k v, by simp, by simp [Inst.applyCfg]⟩
    · have h' : ¬ j = i := fun e => h e.symm
      exact ⟨x, by simp [h], by simp [h']⟩
  | enable i ns ig =>
    simp only [World.step, List.getElem?_modify, hx, AOp.configures]
    by_cases h : i = j
    · subst h; exact ⟨({ x with rulers := (x.rulers.setMany true ns ig).1 } : Inst), by simp, by simp [Inst.applyCfg]⟩
    · have h' : ¬ j = i := fun e => h e.symm
      exact ⟨x, by simp [h], by simp [h']⟩
  | disable i ns ig =>
    simp only [World.step, List.getElem?_modify, hx, AOp.configures]
    by_cases h : i = j
    · subst h; exact ⟨({ x with rulers := (x.rulers.setMany false ns ig).1 } : Inst), by simp, by simp [Inst.applyCfg]⟩
    · have h' : ¬ j = i := fun e => h e.symm
      exact ⟨x, by simp [h], by simp [h']⟩
  | addRenderRule i n f =>
    simp only [World.step, List.getElem?_modify, hx, AOp.configures]
    by_cases h : i = j
    · subst h; exact ⟨x.addRenderRule n f, by simp, by simp [Inst.applyCfg]⟩
    · have h' : ¬ j = i := fun e => h e.symm
      exact ⟨x, by simp [h], by simp [h']⟩
  | newEnv => exact ⟨x, hx, by simp [AOp.configures]⟩
  | parse i src e =>
    simp only [World.step]
    cases hi : w.insts[i]? with
    | none => exact ⟨x, hx, by simp [AOp.configures]⟩
    | some inst =>
      simp only [List.getElem?_modify, hx, AOp.configures]
      by_cases h : i = j
      · subst h
        refine ⟨({ x with rulers := compileAll x.rulers } : Inst), by simp, ?_⟩
        simp only [Bool.false_eq_true, if_false]
        exact compileAll_config x
      · exact ⟨x, by simp [h], by simp⟩

/-- **C12.function (configuration part)** — after any history, the configuration of instance `j` is
what the configuration calls addressed to `j` make of it — whatever documents it or any other
instance parsed in between, whatever was done to other instances. -/
theorem config_after_history (w : World) (ops : List AOp) (j : Nat) (x : Inst)
    (hx : w.insts[j]? = some x) :
    ∃ x', (w.run P ops).insts[j]? = some x' ∧
      x'.config = ((ops.filter (·.configures j)).foldl Inst.applyCfg x).config := by
  induction ops generalizing w x with
  | nil => exact ⟨x, hx, rfl⟩
  | cons op ops ih =>
    obtain ⟨x1, h1, hc1⟩ := frame P w op j x hx
    obtain ⟨x2, h2, hc2⟩ := ih (w.step P op).1 x1 h1
    refine ⟨x2, h2, ?_⟩
    rw [hc2]
    by_cases hcf : op.configures j
    · simp only [List.filter_cons, hcf, if_true, List.foldl_cons]
      rw [if_pos hcf] at hc1
      exact foldl_applyCfg_congr _ _ _ hc1
    · simp only [List.filter_cons, hcf, Bool.false_eq_true, if_false]
      rw [if_neg hcf] at hc1
      exact foldl_applyCfg_congr _ _ _ hc1

/-- **C12.function** — the result of a probe parse on instance `j` after any history is
`P (configuration made by j's own configuration calls) src env`: a function of that configuration,
the source and the env passed (env omitted ≡ empty mapping). -/
theorem probe_function (w : World) (ops : List AOp) (j : Nat) (x : Inst) (hx : w.insts[j]? = some x)
    (src : String) (e : Option Nat) :
    ((w.run P ops).step P (.parse j src e)).2 =
      some (P ((ops.filter (·.configures j)).foldl Inst.applyCfg x).config src
        ((w.run P ops).envOf e)).1 := by
  obtain ⟨x', h1, hc⟩ := config_after_history P w ops j x hx
  simp only [World.step, h1, hc]

/-- **C12.fresh** — hence it equals what a freshly constructed, identically configured instance
returns: two instances whose constructions agree and that received the same configuration calls
give the same result for the same source and env, whatever else happened to either. -/
theorem fresh_equiv (w w' : World) (ops ops' : List AOp) (j j' : Nat) (x x' : Inst)
    (hx : w.insts[j]? = some x) (hx' : w'.insts[j']? = some x') (hcfg : x.config = x'.config)
    (hsame : (ops.filter (·.configures j)).map (fun op => fun y : Inst => y.applyCfg op)
              = (ops'.filter (·.configures j')).map (fun op => fun y : Inst => y.applyCfg op))
    (src : String) :
    ((w.run P ops).step P (.parse j src none)).2 = ((w'.run P ops').step P (.parse j' src none)).2 := by
  rw [probe_function P w ops j x hx, probe_function P w' ops' j' x' hx']
  have : ∀ (l l' : List AOp) (a b : Inst), a.config = b.config →
      l.map (fun op => fun y : Inst => y.applyCfg op) = l'.map (fun op => fun y : Inst => y.applyCfg op) →
      (l.foldl Inst.applyCfg a).config = (l'.foldl Inst.applyCfg b).config := by
    intro l
    induction l with
    | nil => intro l' a b hab hl; cases l' with
      | nil => exact hab
      | cons _ _ => simp at hl
    | cons o os ih => intro l' a b hab hl; cases l' with
      | nil => simp at hl
      | cons o' os' =>
        simp only [List.map_cons, List.cons.injEq] at hl
        simp only [List.foldl_cons]
        apply ih os' _ _ _ hl.2
        have := congrFun hl.1 b
        rw [← this]
        exact applyCfg_congr a b hab o
  rw [this _ _ x x' hcfg hsame]
  rfl

/-- env omitted ≡ a fresh empty mapping -/
theorem env_omitted (w : World) (j : Nat) (src : String) :
    (w.step P (.parse j src none)).2
      = (((w.step P .newEnv).1).step P (.parse j src (some w.envs.length))).2 := by
  simp only [World.step]
  cases w.insts[j]? with
  | none => rfl
  | some inst => simp [World.envOf]

/-- definitions never travel between calls unless the caller passes the same env: a call leaves
every env object other than the one it was given untouched -/
theorem env_frame (w : World) (op : AOp) (k : Nat) (hk : k < w.envs.length)
    (h : ∀ i src, op ≠ .parse i src (some k)) :
    (w.step P op).1.envs[k]? = w.envs[k]? := by
  cases op with
  | construct p u => simp only [World.step]; cases construct p u <;> rfl
  | setOpt i r kk v => rfl
  | enable i ns ig => rfl
  | disable i ns ig => rfl
  | addRenderRule i n f => rfl
  | newEnv => simp [World.step, List.getElem?_append_left hk]
  | parse i src e =>
    simp only [World.step]
    cases w.insts[i]? with
    | none => rfl
    | some inst =>
      cases e with
      | none => rfl
      | some k' =>
        have : k' ≠ k := fun e => h i src (by rw [e])
        simp [List.getElem?_modify, this]

/-- constructing an instance does not depend on the world: same preset and options ⇒ same instance
(the preset table is a constant of the model; that it is one in the code is what the tie's
snapshots of `_PRESETS` check) -/
theorem construct_deterministic (p : String) (u : List (String × OptVal)) (w w' : World) :
    ((w.step P (.construct p u)).1.insts.drop w.insts.length)
      = ((w'.step P (.construct p u)).1.insts.drop w'.insts.length) := by
  simp only [World.step]
  cases construct p u <;> simp

/-! non-vacuity -/
example : ∃ i, construct "commonmark" [("typographer", .b true)] = .ok i
    ∧ dictGet i.options "typographer" = some (.b true) ∧ dictGet i.options "html" = some (.b true) :=
  ⟨_, rfl, by decide, by decide⟩

end MdIt.C12
