import MdIt.Pipeline
import MdIt.Props.C18
/-!
# C18 (continued) — inline text means the same in every block context (on the end-to-end model)

In `MarkdownIt.parse` the children of an `inline` token are produced by the `inline` core rule from the token's `content`, the
configuration and the env — nothing of the block context (level, position, container, neighbouring blocks) enters.  On the model
(`MdIt/Pipeline.lean`, tied on whole documents by `fullparse`, which is where a change like seeded C18g — the inline parser's level
started at the block token's level — shows) this is **`full_inline_local`**: every `inline` token of a whole parse carries exactly
`J(inlineOf content)`, `J` = `text_join`'s `_join` or the identity; and **`inline_same_as_parseInline`**: that is also what
`parseInline` yields for the same text.
-/
namespace MdIt.C18

/-- what the core chain makes of an inline token's content -/
def childrenOf (cls : QCls) (ext : IExt) (lx : LExt) (ic : ICfg) (mn : Int) (d : Nat) (content : List Char) : Except PyErr (List Tok) :=
  match inlineOf cls ext lx ic mn d content with
  | .error e => .error e
  | .ok cs => .ok (if ic.textJoinOn then joinToks [] cs else cs)

theorem setChildren_type (t : Tok) (c : Option (List Tok)) : (t.setChildren c).type = t.type := by cases t; rfl
theorem setChildren_content (t : Tok) (c : Option (List Tok)) : (t.setChildren c).content = t.content := by cases t; rfl
theorem setChildren_children (t : Tok) (c : Option (List Tok)) : (t.setChildren c).children = c := by cases t; rfl

theorem coreInline_local (parse : List Char → Except PyErr (List Tok)) : ∀ (bts ts : List Tok), coreInline parse bts = .ok ts →
    ∀ t ∈ ts, t.type = "inline" → ∃ cs, parse t.content.toList = .ok cs ∧ t.children = some cs := by
  intro bts
  induction bts with
  | nil => intro ts h; simp only [coreInline, Except.ok.injEq] at h; subst h; intro t ht; cases ht
  | cons b rest ih =>
    intro ts h
    unfold coreInline at h
    split at h
    · cases hp : parse b.content.toList with
      | error e => rw [hp] at h; cases h
      | ok cs =>
        rw [hp] at h
        simp only at h
        cases hr : coreInline parse rest with
        | error e => rw [hr] at h; cases h
        | ok r =>
          rw [hr] at h
          simp only [Except.ok.injEq] at h
          subst h
          intro t ht hty
          rcases List.mem_cons.1 ht with rfl | ht
          · exact ⟨cs, by rw [setChildren_content]; exact hp, setChildren_children _ _⟩
          · exact ih r hr t ht hty
    · rename_i hinl
      cases hr : coreInline parse rest with
      | error e => rw [hr] at h; cases h
      | ok r =>
        rw [hr] at h
        simp only [Except.ok.injEq] at h
        subst h
        intro t ht hty
        rcases List.mem_cons.1 ht with rfl | ht
        · exact absurd (by rw [hty]; rfl) hinl
        · exact ih r hr t ht hty

theorem textJoin_local (ts : List Tok) (t : Tok) (ht : t ∈ textJoin ts) (hty : t.type = "inline") :
    ∃ u ∈ ts, u.type = "inline" ∧ t.content = u.content ∧ t.children = some (joinToks [] (u.children.getD [])) := by
  unfold textJoin at ht
  rw [List.mem_map] at ht
  obtain ⟨u, hu, rfl⟩ := ht
  split at hty
  · rename_i hinl
    rw [if_pos hinl]
    exact ⟨u, hu, by simpa using hinl, setChildren_content _ _, setChildren_children _ _⟩
  · rename_i hinl
    exact absurd (by rw [hty]; rfl) hinl

/-- the shared core: whatever list of block tokens the `inline` and `text_join` core rules run over -/
theorem core_local (cls : QCls) (ext : IExt) (lx : LExt) (ic : ICfg) (hon : ic.inlineOn = true) (mn : Int) (d : Nat) (bts its : List Tok)
    (hc : coreInline (inlineOf cls ext lx ic mn d) bts = .ok its) :
    ∀ t ∈ (if ic.textJoinOn then textJoin its else its), t.type = "inline" →
      childrenOf cls ext lx ic mn d t.content.toList = .ok (t.children.getD []) ∧ t.children.isSome = true := by
  intro t ht hty
  unfold childrenOf
  split at ht
  · rename_i htj
    obtain ⟨u, hu, huty, hcont, hch⟩ := textJoin_local its t ht hty
    obtain ⟨cs, hp, hcs⟩ := coreInline_local _ bts its hc u hu huty
    rw [hcont, hp, hch, hcs]
    simp [htj]
  · rename_i htj
    obtain ⟨cs, hp, hcs⟩ := coreInline_local _ bts its hc t ht hty
    rw [hp, hcs]
    simp [htj]

/-- **C18.full_inline_local** — every `inline` token of a whole parse carries, as children, a function of its own content (and of
configuration and env) only -/
theorem full_inline_local (cls : QCls) (ext : IExt) (lx : LExt) (bc : MCfg) (ic : ICfg) (hon : ic.inlineOn = true) (ws : List Nat) (mn : Int)
    (d : Nat) (src : List Char) (ts : List Tok) (h : fullParse cls ext lx bc ic ws mn d src = .ok ts) :
    ∀ t ∈ ts, t.type = "inline" → childrenOf cls ext lx ic mn d t.content.toList = .ok (t.children.getD []) ∧ t.children.isSome = true := by
  unfold fullParse at h
  cases hb : mParse bc ws mn src with
  | error e => rw [hb] at h; cases h
  | ok bts =>
    rw [hb] at h
    simp only [hon, if_true] at h
    cases hc : coreInline (inlineOf cls ext lx ic mn d) bts with
    | error e => rw [hc] at h; cases h
    | ok its =>
      rw [hc] at h
      simp only [Except.ok.injEq] at h
      subst h
      exact core_local cls ext lx ic hon mn d bts its hc

/-- **C18.inline_same_as_parseInline** — the children an `inline` token gets inside any document are the children `parseInline`
gives the same text (same configuration and env): block context contributes nothing -/
theorem inline_same_as_parseInline (cls : QCls) (ext : IExt) (lx : LExt) (bc : MCfg) (ic : ICfg) (hon : ic.inlineOn = true) (ws : List Nat)
    (mn : Int) (d : Nat) (src : List Char) (ts : List Tok) (h : fullParse cls ext lx bc ic ws mn d src = .ok ts)
    (t : Tok) (ht : t ∈ ts) (hty : t.type = "inline") (text : List Char) (htext : normalize text = t.content.toList)
    (ps : List Tok) (hp : parseInlineM cls ext lx ic mn d text = .ok ps) :
    ∃ w, ps = [w] ∧ w.type = "inline" ∧ w.children = t.children := by
  obtain ⟨h1, h1s⟩ := full_inline_local cls ext lx bc ic hon ws mn d src ts h t ht hty
  unfold parseInlineM at hp
  simp only [hon, if_true] at hp
  cases hc : coreInline (inlineOf cls ext lx ic mn d)
      [Tok.mk "inline" "" 0 [] (some (0, 1)) 0 (some []) (String.ofList (normalize text)) "" "" [] false false] with
  | error e => rw [hc] at hp; cases hp
  | ok its =>
    rw [hc] at hp
    simp only [Except.ok.injEq] at hp
    have hloc := core_local cls ext lx ic hon mn d _ its hc
    rw [hp] at hloc
    -- the result is one token
    have hone : ∃ w, ps = [w] ∧ w.type = "inline" ∧ w.content = String.ofList (normalize text) := by
      simp only [coreInline, Tok.type, Tok.content, beq_self_eq_true, if_true] at hc
      have hnt : (String.ofList (normalize text)).toList = normalize text := by simp
      rw [hnt] at hc
      cases hq : inlineOf cls ext lx ic mn d (normalize text) with
      | error e => rw [hq] at hc; cases hc
      | ok cs =>
        rw [hq] at hc
        simp only [Except.ok.injEq] at hc
        subst hc
        subst hp
        have hu : ∀ u : Tok, u.type = "inline" →
            textJoin [u] = [u.setChildren (some (joinToks [] (u.children.getD [])))] := by
          intro u hu; simp [textJoin, hu]
        split
        · rw [hu _ (by rw [setChildren_type]; rfl)]
          exact ⟨_, rfl, by rw [setChildren_type, setChildren_type]; rfl, by rw [setChildren_content, setChildren_content]; rfl⟩
        · exact ⟨_, rfl, by rw [setChildren_type]; rfl, by rw [setChildren_content]; rfl⟩
    obtain ⟨w, hw, hwt, hwc⟩ := hone
    refine ⟨w, hw, hwt, ?_⟩
    have hw2 := hloc w (by rw [hw]; simp) hwt
    have hcont : w.content.toList = t.content.toList := by rw [hwc, ← htext]; simp
    rw [hcont, h1] at hw2
    obtain ⟨e1, e2⟩ := hw2
    simp only [Except.ok.injEq] at e1
    cases hwc' : w.children with
    | none => rw [hwc'] at e2; cases e2
    | some a =>
      cases htc : t.children with
      | none => rw [htc] at h1s; cases h1s
      | some b => rw [hwc', htc] at e1; simp only [Option.getD_some] at e1; rw [e1]

end MdIt.C18
