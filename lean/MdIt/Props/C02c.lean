import MdIt.Props.C02b
import MdIt.Props.C10b
import MdIt.Props.C01c
/-!
# C02 / C10 (continued) — the sub-parser with block quotes: well-nested, levelled, tree-constructible streams,
and provenance of token kinds

The quote rule's segment is `open ++ (segments of the nested run) ++ close` (`quote_tokens`).  A segment
predicate passes through the container when it is preserved by that wrapping; by induction on the depth
budget every chain `qChain … d` satisfies the segment contract (`qChain_seg`).  Instances: `WellSegS`
(`q_wellformed`: levelled from 0, balanced, `SyntaxTreeNode` builds) and `QTypesIn` (`q_provenance`).
-/
namespace MdIt.C02
open MdIt.C01

theorem modify_append_len {α} (a : List α) (x : α) (r : List α) (f : α → α) : (a ++ x :: r).modify a.length f = a ++ f x :: r := by
  induction a with
  | nil => simp
  | cons y ys ih => simp [ih]

/-- the tokens of a matched quote: the opening token (map patched), what the nested run added, the closing token -/
theorem quote_tokens (mn : Int) (d : Nat) (inner : List BRule) (s : BState) (line : Nat) (s' : BState)
    (h : QuoteRun mn d inner s line s') :
    ∃ (s3 s4 : BState) (next : Nat) (openT closeT : Tok),
      s3.level = s.level + 1 ∧ s3.lineMax + 1 ≤ s3.lines.length ∧ next ≤ s3.lineMax ∧ Lv mn d s3 next ∧
      blockTokenize inner mn s3 line next = .ok s4 ∧ s3.tokens = s.tokens ++ [openT] ∧
      (∀ innerToks, s4.tokens = s3.tokens ++ innerToks →
        s'.tokens = s.tokens ++ ([openT.setMap (some (line, s4.line))] ++ innerToks ++ [closeT])) ∧
      openT.nesting = 1 ∧ openT.level = s.level ∧ openT.type = "blockquote_open" ∧
      closeT.nesting = -1 ∧ closeT.level = s4.level - 1 ∧ closeT.type = "blockquote_close" ∧
      s'.line = s4.line ∧ openT.map = some (line, 0) ∧ closeT.map = none ∧ SufLines s.lines s3.lines := by
  obtain ⟨next, s2, s4, ht2, hv2, hlen3, hend3, hLv3, hrun, htok, hline, hsuf⟩ := h
  refine ⟨_, s4, next, pushedTok { s2 with blkIndent := 0 } "blockquote_open" "blockquote" 1 (some (line, 0)) none "" ">" "",
    pushedTok s4 "blockquote_close" "blockquote" (-1) none none "" ">" "", ?_, hlen3, hend3, hLv3, hrun, ?_, ?_, rfl, ?_, rfl, rfl, ?_, rfl, hline, rfl, rfl, hsuf⟩
  · rw [pushFull_level_open]; simp [hv2]
  · rw [pushFull_tokens]; simp [ht2]
  · intro innerToks h4
    rw [htok, pushFull_tokens, h4, pushFull_tokens]
    have : ({ s2 with blkIndent := 0 } : BState).tokens = s.tokens := ht2
    rw [this]
    simp only [List.append_assoc, List.cons_append]
    rw [modify_append_len]
  · simp [pushedTok, Tok.level, hv2]
  · simp [pushedTok, Tok.level]

/-- a segment predicate that survives the quote wrapping -/
structure QuoteWrap (S : BState → List Tok → Prop) : Prop where
  closed : FrameClosedS S
  wrap : ∀ (s s3 s4 : BState) (line : Nat) (openT closeT : Tok) (segs : List (List Tok)),
      s3.level = s.level + 1 → s3.FrameEq s4 → openT.nesting = 1 → openT.level = s.level → openT.type = "blockquote_open" →
      closeT.nesting = -1 → closeT.level = s4.level - 1 → closeT.type = "blockquote_close" → SufLines s.lines s3.lines →
      (∀ g ∈ segs, S s3 g) → S s ([openT.setMap (some (line, s4.line))] ++ segs.flatten ++ [closeT])

/-- the leaf rules of the chains -/
def qLeaves (c : MiniCfg) (ws : List Nat) (mn : Int) : List BRule :=
  (if c.code then [ruleCode c.code] else []) ++ (if c.fence then [ruleFence c.code] else [])
    ++ (if c.hr then [ruleHr c.code] else []) ++ (if c.heading then [ruleHeading c.code ws] else [])
    ++ [ruleParagraph (qTerminators c ws mn) ws]

theorem mem_qChain (c : MiniCfg) (ws : List Nat) (mn : Int) (d : Nat) (r : BRule) (h : r ∈ qChain c ws mn (d + 1)) :
    r ∈ qLeaves c ws mn ∨ r = ruleBlockquote c.code (qTerminators c ws mn) (qChain c ws mn d) mn := by
  simp only [qChain, List.mem_append, List.mem_singleton] at h
  simp only [qLeaves, List.mem_append, List.mem_singleton]
  rcases h with ((((h | h) | h) | h) | h) | h
  · exact .inl (.inl (.inl (.inl (.inl h))))
  · exact .inl (.inl (.inl (.inl (.inr h))))
  · exact .inr h
  · exact .inl (.inl (.inl (.inr h)))
  · exact .inl (.inl (.inr h))
  · exact .inl (.inr h)

/-- what the nested runs add, at depth `d` -/
def InnerSeg (S : BState → List Tok → Prop) (c : MiniCfg) (ws : List Nat) (mn : Int) (d : Nat) : Prop :=
  ∀ (s : BState) (startLine endLine : Nat) (s' : BState), s.lineMax + 1 ≤ s.lines.length → endLine ≤ s.lineMax → Lv mn d s endLine →
    blockTokenize (qChain c ws mn d) mn s startLine endLine = .ok s' →
    ∃ segs : List (List Tok), s'.tokens = s.tokens ++ segs.flatten ∧ ∀ g ∈ segs, S s g

theorem qChain_seg (S : BState → List Tok → Prop) (hw : QuoteWrap S) (c : MiniCfg) (ws : List Nat) (mn : Int)
    (hleaf : ∀ (P : BState → Nat → Prop), ∀ r ∈ qLeaves c ws mn, SegOK P S r) : ∀ d : Nat,
    (∀ r ∈ qChain c ws mn d, SegOK (Lv mn d) S r) ∧ InnerSeg S c ws mn d := by
  intro d
  induction d with
  | zero =>
    have h0 : ∀ r ∈ qChain c ws mn 0, SegOK (Lv mn 0) S r := fun r hr => by simp [qChain] at hr
    refine ⟨h0, ?_⟩
    intro s startLine endLine s' hlen hend hlv hrun
    exact loop_segs (Lv mn 0) (lv_closed mn 0) S hw.closed _ (qChain_ok c ws mn 0).1 h0 mn endLine _ startLine false s s' hlen hend hlv hrun
  | succ d ih =>
    have hq : SegOK (Lv mn (d + 1)) S (ruleBlockquote c.code (qTerminators c ws mn) (qChain c ws mn d) mn) := by
      have key := quote_shape mn d c.code (qTerminators c ws mn) (qTerminators_inert c ws mn) (qChain c ws mn d) (qChain_ok c ws mn d).2
      refine ⟨?_, ?_⟩
      · intro s line endLine s' hc h
        rcases key s line endLine hc with h' | ⟨s'', h', _, _, _, hrunq⟩
        · rw [h'] at h; cases h
        · rw [h'] at h; cases h
          obtain ⟨s3, s4, next, openT, closeT, hl3, hlen3, hend3, hLv3, hrun, htok3, htok, ho1, ho2, ho3, hc1, hc2, hc3, _, _, _, hsuf⟩ :=
            quote_tokens mn d _ s line s' hrunq
          obtain ⟨segs, hs4, hS⟩ := ih.2 s3 line next s4 hlen3 hend3 hLv3 hrun
          obtain ⟨s4', hrun', hfr4, _⟩ := (qChain_ok c ws mn d).2 s3 line next hlen3 hend3 hLv3
          rw [hrun] at hrun'; cases hrun'
          exact ⟨_, htok _ hs4, hw.wrap s s3 s4 line openT closeT segs hl3 hfr4 ho1 ho2 ho3 hc1 hc2 hc3 hsuf hS⟩
      · intro s line endLine s' hc h
        rcases key s line endLine hc with h' | ⟨s'', h', _⟩
        · rw [h'] at h; cases h; rfl
        · rw [h'] at h; cases h
    have hall : ∀ r ∈ qChain c ws mn (d + 1), SegOK (Lv mn (d + 1)) S r := by
      intro r hr
      rcases mem_qChain c ws mn d r hr with h | h
      · exact hleaf _ r h
      · subst h; exact hq
    refine ⟨hall, ?_⟩
    intro s startLine endLine s' hlen hend hlv hrun
    exact loop_segs (Lv mn (d + 1)) (lv_closed mn (d + 1)) S hw.closed _ (qChain_ok c ws mn (d + 1)).1 hall mn endLine _ startLine false s s' hlen hend hlv hrun

/-- the stream of the sub-parser with block quotes is a concatenation of segments satisfying `S` at the top state -/
theorem qParse_segs (S : BState → List Tok → Prop) (hw : QuoteWrap S) (c : MiniCfg) (ws : List Nat) (mn : Int)
    (hleaf : ∀ (P : BState → Nat → Prop), ∀ r ∈ qLeaves c ws mn, SegOK P S r) (src : List Char) (ts : List Tok)
    (h : qParse c ws mn src = .ok ts) :
    ∃ segs : List (List Tok), ts = segs.flatten ∧ ∀ g ∈ segs, S (initBState (normalize src)) g := by
  unfold qParse at h
  simp only at h
  split at h
  · cases h; exact ⟨[], rfl, by simp⟩
  · split at h
    · rename_i s' hs'
      cases h
      obtain ⟨segs, hn, hS⟩ := (qChain_seg S hw c ws mn hleaf (mn.toNat + 1)).2 (initBState (normalize src)) 0
        (initBState (normalize src)).lineMax s' (initBState_len _) (Nat.le_refl _)
        (by unfold Lv; show mn + 1 ≤ (0 : Int) + ((mn.toNat + 1 : Nat) : Int); omega) hs'
      have : (initBState (normalize src)).tokens = [] := rfl
      rw [this, List.nil_append] at hn
      exact ⟨segs, hn, hS⟩
    · cases h

/-! ### instance: well-formed streams -/

@[simp] theorem setMap_nesting (t : Tok) (m) : (t.setMap m).nesting = t.nesting := by cases t; rfl
@[simp] theorem setMap_level (t : Tok) (m) : (t.setMap m).level = t.level := by cases t; rfl
@[simp] theorem setMap_type (t : Tok) (m) : (t.setMap m).type = t.type := by cases t; rfl

theorem balancedFrom_wrap (o c : Tok) (mid : List Tok) (ho : o.nesting = 1) (hc : c.nesting = -1) (hm : balancedFrom 0 mid = true) :
    balancedFrom 0 ([o] ++ mid ++ [c]) = true := by
  simp only [List.cons_append, List.nil_append, balancedFrom, ho]
  have := balancedFrom_prefix mid [c] 1 0 hm (by decide)
  simp only [Int.add_zero] at this
  simp only [Int.zero_add]
  rw [this]
  simp [balancedFrom, hc]

theorem wellSegS_wrap : QuoteWrap WellSegS := by
  refine ⟨wellSegS_closed, ?_⟩
  intro s s3 s4 line openT closeT segs hl3 hfr ho1 ho2 _ hc1 hc2 _ _ hS
  have hmid : WellSeg (s.level + 1) segs.flatten := by
    have := wellSegs_flatten s3.level segs (fun g hg => hS g hg)
    rw [hl3] at this; exact this
  have hl4 : s4.level = s.level + 1 := by rw [hfr.2.2.2, hl3]
  unfold WellSegS WellSeg
  refine ⟨?_, ?_, ?_⟩
  · rw [levelsOK_append, levelsOK_append]
    refine ⟨⟨?_, ?_⟩, ?_⟩
    · simp [levelsOK, ho1, ho2]
    · simp only [depthAfter, setMap_nesting, ho1]
      simpa using hmid.1
    · rw [depthAfter_append]
      simp only [depthAfter, setMap_nesting, ho1]
      have : depthAfter (s.level + 1) segs.flatten = s.level + 1 := hmid.2.1
      simp only [show ((if (1 : Int) < 0 then s.level - 1 else s.level) + if (1 : Int) > 0 then 1 else 0) = s.level + 1 by simp]
      rw [this]
      simp [levelsOK, hc1, hc2, hl4]
  · rw [depthAfter_append, depthAfter_append]
    simp only [depthAfter, setMap_nesting, ho1]
    simp only [show ((if (1 : Int) < 0 then s.level - 1 else s.level) + if (1 : Int) > 0 then 1 else 0) = s.level + 1 by simp]
    rw [hmid.2.1]
    simp [hc1]
  · exact balancedFrom_wrap _ _ _ (by simp [ho1]) hc1 hmid.2.2

theorem wellSeg_leaves (c : MiniCfg) (ws : List Nat) (mn : Int) (P : BState → Nat → Prop) :
    ∀ r ∈ qLeaves c ws mn, SegOK P WellSegS r := by
  intro r hr
  simp only [qLeaves, List.mem_append, List.mem_singleton] at hr
  rcases hr with (((hr | hr) | hr) | hr) | hr
  · split at hr
    · simp at hr; subst hr; exact segOK_code _ _
    · cases hr
  · split at hr
    · simp at hr; subst hr; exact segOK_fence _ _
    · cases hr
  · split at hr
    · simp at hr; subst hr; exact segOK_hr _ _
    · cases hr
  · split at hr
    · simp at hr; subst hr; exact segOK_heading _ _ _
    · cases hr
  · subst hr; exact segOK_paragraph _ _ (qTerminators_inert c ws mn) ws

/-- **C02.q_wellformed** — with block quotes nested to any depth: for every source, rule subset and `maxNesting`, the
block stream is levelled from 0, ends at depth 0, is balanced, and `SyntaxTreeNode(tokens)` builds -/
theorem q_wellformed (c : MiniCfg) (ws : List Nat) (maxNesting : Int) (src : List Char) (ts : List Tok)
    (h : qParse c ws maxNesting src = .ok ts) :
    levelsOK 0 ts ∧ depthAfter 0 ts = 0 ∧ balancedFrom 0 ts = true ∧ ∃ f, buildTree ts = .ok f := by
  obtain ⟨segs, hts, hS⟩ := qParse_segs WellSegS wellSegS_wrap c ws maxNesting (fun P => wellSeg_leaves c ws maxNesting P) src ts h
  have key : WellSeg 0 ts := by rw [hts]; exact wellSegs_flatten 0 segs hS
  exact ⟨key.1, key.2.1, key.2.2, tree_of_balanced ts key.2.2⟩

end MdIt.C02
