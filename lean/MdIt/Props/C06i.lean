import MdIt.Props.C06d
import MdIt.Props.C06h
import MdIt.Props.C10p
/-!
# C06 (continued) — the quote law as a statement about the full model

`C10.tParse_restricts` identifies the block parse of the model with all eleven rules, `table`, `reference`, `html_block`, `lheading`
switched off, with the sub-parser `lParse` on which `l_quote_law` is proved; **`t_quote_law`** restates the law for `tParse`: in the one
model of `ParserBlock`, with those four rules off and any subset of `code`, `fence`, `hr`, `heading`, quoting a document nests its
blocks.  (With the rules on the law is decided by the oracle: a table or a definition inside `D` is outside the simulation of `C06b`.)
-/
namespace MdIt.C06

open MdIt.C10 (tokensOf)
open MdIt.C01 MdIt.C02 MdIt.C07 MdIt.C06e

theorem t_quote_law (ext : IExt) (lx : LExt) (c : TCfg) (h0 : c.table = false) (h1 : c.reference = false) (h2 : c.htmlBlock = false)
    (h3 : c.lheading = false) (ws : List Nat) (mn : Int) (hmn : 0 ≤ mn) (ls : List (List Char)) (hne : ls ≠ [])
    (hcl : ∀ l ∈ ls, Clean l) :
    ∃ tsD, tokensOf (tParse ext lx c ws mn (srcOf ls)) = .ok tsD ∧
      tokensOf (tParse ext lx c ws (mn + 1) (srcOf (ls.map quoteLine))) = .ok (quoteOpen ls.length :: tsD.map (Tok.shift 1) ++ [quoteClose]) := by
  obtain ⟨tsD, hD, hQ⟩ := l_quote_law_total c.toMiniCfg ws mn hmn ls hne hcl
  refine ⟨tsD, ?_, ?_⟩
  · have := C10.tParse_restricts ext lx c h0 h1 h2 h3 ws mn (srcOf ls)
    rw [this]; exact hD
  · have := C10.tParse_restricts ext lx c h0 h1 h2 h3 ws (mn + 1) (srcOf (ls.map quoteLine))
    rw [this]; exact hQ

/-- **C06.t_list_law** — the list-indent half, likewise restated for the full model with the four rules off -/
theorem t_list_law (ext : IExt) (lx : LExt) (c : TCfg) (h0 : c.table = false) (h1 : c.reference = false) (h2 : c.htmlBlock = false)
    (h3 : c.lheading = false) (ws : List Nat) (mn : Int) (hmn : 0 ≤ mn) (l0 : List Char) (rest : List (List Char))
    (hcl : ∀ l ∈ l0 :: rest, Clean l ∧ '>' ∉ l) (c0 : Char) (cs0 : List Char) (hl0 : l0 = c0 :: cs0) (hc0 : c0 ≠ ' ')
    (marker : List Char) (ordered : Bool) (mc : Char) (hmk : Marker marker ordered mc) (k : Nat) (hk1 : 1 ≤ k) (hk4 : k ≤ 4)
    (hhr : c.hr = true → hrMarkup (marker ++ List.replicate k ' ' ++ l0) = none)
    (tsD : List Tok) (hD : tokensOf (tParse ext lx c ws mn (srcOf (l0 :: rest))) = .ok tsD) :
    ∃ ts', tokensOf (tParse ext lx c ws (mn + 2) (srcOf (listify marker k l0 rest))) = .ok ts' ∧
      HidEq ts' (listOpenTok0 ordered mc (digitsVal (List.take (marker.length - 1) (marker ++ List.replicate k ' ' ++ l0))) (rest.length + 1)
        :: itemOpenTok mc (if ordered = true then String.ofList (List.take (marker.length - 1) (marker ++ List.replicate k ' ' ++ l0)) else "") (rest.length + 1)
        :: tsD.map (Tok.shift 2) ++ [itemCloseTok mc 2, listCloseTok ordered mc 1]) := by
  rw [C10.tParse_restricts ext lx c h0 h1 h2 h3] at hD
  obtain ⟨ts', h, hh⟩ := C06e.list_law c.toMiniCfg ws mn hmn l0 rest hcl c0 cs0 hl0 hc0 marker ordered mc hmk k hk1 hk4 hhr tsD hD
  exact ⟨ts', by rw [C10.tParse_restricts ext lx c h0 h1 h2 h3]; exact h, hh⟩

end MdIt.C06
