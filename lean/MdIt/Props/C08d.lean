import MdIt.Props.C01e
import MdIt.Props.C08
/-!
# C08 (continued) — code spans of the inline sub-parser hold exactly the text between their backtick strings

`CodeSpanTok src t`: a `code_inline` token's markup is a run of `n ≥ 1` backticks, the source has that run at `[a - n, a)` and again at
`[b, b + n)`, and the token's content is `codeSpanContent` of `src[a:b]` (line endings to spaces, one space stripped from each side
iff both are there and the text is not all spaces: `C08.codespan_spec`).  `imini_codespans`: every token of the modelled inline parse
(`text, newline, escape, backticks`; any subset; with or without `fragments_join`) satisfies it.
-/
namespace MdIt.C08
open MdIt.C01

def slice' (src : List Char) (a b : Nat) : List Char := (src.take b).drop a

def CodeSpanTok (src : List Char) (t : Tok) : Prop :=
  t.type = "code_inline" → ∃ (a b n : Nat), 1 ≤ n ∧ n ≤ a ∧ a ≤ b ∧ t.markup.toList = List.replicate n '`'
    ∧ slice' src (a - n) a = List.replicate n '`' ∧ slice' src b (b + n) = List.replicate n '`'
    ∧ t.content.toList = codeSpanContent (slice' src a b)

def AllSpans (s : IState) : Prop := ∀ t ∈ s.tokens, CodeSpanTok s.src t

theorem codeSpan_text (src : List Char) (lvl : Int) (c : String) : CodeSpanTok src (mkInlineTok "text" "" 0 lvl c "" "") := by
  intro h; simp [mkInlineTok, Tok.type] at h

theorem allSpans_pushPending (s : IState) (h : AllSpans s) : AllSpans s.pushPending := by
  intro t ht
  simp only [IState.pushPending, List.mem_append, List.mem_singleton] at ht
  rcases ht with ht | rfl
  · exact h t ht
  · exact codeSpan_text _ _ _

theorem allSpans_push (s : IState) (h : AllSpans s) (ty tag : String) (n : Int) (c m i : String)
    (ht : ∀ lvl, CodeSpanTok s.src (mkInlineTok ty tag n lvl c m i)) : AllSpans (s.push ty tag n c m i) := by
  unfold IState.push
  simp only
  split
  · intro t htm
    simp only [List.mem_append, List.mem_singleton] at htm
    rcases htm with htm | rfl
    · exact h t htm
    · exact ht _
  · intro t htm
    simp only [List.mem_append, List.mem_singleton] at htm
    rcases htm with htm | rfl
    · exact allSpans_pushPending s h t htm
    · exact ht _

/-! ### the rules keep the invariant -/

def ISpanOK (r : IRule) : Prop :=
  ∀ s silent m s', ICtx s → AllSpans s → r s silent = .ok (m, s') → AllSpans s' ∧ s'.src = s.src

theorem push_src (s : IState) (a b : String) (n : Int) (c d e : String) : (s.push a b n c d e).src = s.src := by
  unfold IState.push IState.pushPending; simp only; split <;> rfl

theorem ispan_text : ISpanOK ruleText := by
  intro s silent m s' _ h hr
  unfold ruleText at hr
  split at hr
  · simp only [Except.ok.injEq, Prod.mk.injEq] at hr; obtain ⟨_, rfl⟩ := hr; exact ⟨h, rfl⟩
  · simp only [Except.ok.injEq, Prod.mk.injEq] at hr; obtain ⟨_, rfl⟩ := hr; exact ⟨h, rfl⟩

theorem not_span (src : List Char) (ty tag : String) (n lvl : Int) (c m i : String) (h : ty ≠ "code_inline") :
    CodeSpanTok src (mkInlineTok ty tag n lvl c m i) := by
  intro ht; simp only [mkInlineTok, Tok.type] at ht; exact absurd ht h

theorem span_step (s s0 x : IState) (h : AllSpans s) (h0t : s0.tokens = s.tokens) (h0s : s0.src = s.src) (ty tag c m i : String)
    (hne : ty ≠ "code_inline") (hxt : x.tokens = (s0.push ty tag 0 c m i).tokens) (hxs : x.src = s.src) : AllSpans x := by
  have h0 : AllSpans s0 := by intro t ht; rw [h0t] at ht; rw [h0s]; exact h t ht
  have h1 := allSpans_push s0 h0 ty tag 0 c m i (fun _ => not_span _ _ _ _ _ _ _ _ hne)
  intro t ht
  rw [hxt] at ht
  rw [hxs, ← h0s, ← push_src s0 ty tag 0 c m i]
  exact h1 t ht

theorem ispan_newline : ISpanOK ruleNewline := by
  intro s silent m s' hc h hr
  have hin : s.pos < s.src.length := by have := hc.1; have := hc.2; omega
  unfold ruleNewline at hr
  rw [List.getElem?_eq_getElem hin] at hr
  simp only at hr
  split at hr
  · simp only [Except.ok.injEq, Prod.mk.injEq] at hr; obtain ⟨_, rfl⟩ := hr; exact ⟨h, rfl⟩
  · simp only [Except.ok.injEq, Prod.mk.injEq] at hr
    obtain ⟨_, rfl⟩ := hr
    cases silent
    · simp only [Bool.false_eq_true, if_false]
      split
      · exact ⟨span_step s { s with pending := s.pending.take (s.pending.length - trailingSpaces s.pending) } _ h rfl rfl "hardbreak" "br" "" "" "" (by decide) rfl (by simp only [push_src]),
          by simp only [push_src]⟩
      · split
        · exact ⟨span_step s { s with pending := s.pending.dropLast } _ h rfl rfl "softbreak" "br" "" "" "" (by decide) rfl (by simp only [push_src]),
            by simp only [push_src]⟩
        · exact ⟨span_step s s _ h rfl rfl "softbreak" "br" "" "" "" (by decide) rfl (by simp only [push_src]), by simp only [push_src]⟩
    · exact ⟨h, rfl⟩

theorem ispan_escape : ISpanOK ruleEscape := by
  intro s silent m s' hc h hr
  have hin : s.pos < s.src.length := by have := hc.1; have := hc.2; omega
  unfold ruleEscape at hr
  rw [List.getElem?_eq_getElem hin] at hr
  simp only at hr
  split at hr
  · simp only [Except.ok.injEq, Prod.mk.injEq] at hr; obtain ⟨_, rfl⟩ := hr; exact ⟨h, rfl⟩
  · split at hr
    · simp only [Except.ok.injEq, Prod.mk.injEq] at hr; obtain ⟨_, rfl⟩ := hr; exact ⟨h, rfl⟩
    · have hin1 : s.pos + 1 < s.src.length := by have := hc.2; omega
      rw [List.getElem?_eq_getElem hin1] at hr
      simp only at hr
      split at hr
      · simp only [Except.ok.injEq, Prod.mk.injEq] at hr
        obtain ⟨_, rfl⟩ := hr
        cases silent
        · simp only [Bool.false_eq_true, if_false]
          exact ⟨span_step s s _ h rfl rfl "hardbreak" "br" "" "" "" (by decide) rfl (by simp only [push_src, Bool.false_eq_true, if_false]), by simp only [push_src, Bool.false_eq_true, if_false]⟩
        · exact ⟨h, rfl⟩
      · simp only [Except.ok.injEq, Prod.mk.injEq] at hr
        obtain ⟨_, rfl⟩ := hr
        cases silent
        · simp only [Bool.false_eq_true, if_false]
          exact ⟨span_step s s _ h rfl rfl "text_special" "" _ _ "escape" (by decide) rfl (by simp only [push_src, Bool.false_eq_true, if_false]), by simp only [push_src, Bool.false_eq_true, if_false]⟩
        · exact ⟨h, rfl⟩

/-! ### the backtick rule -/

theorem btRun_all (src : List Char) (max : Nat) : ∀ (fuel pos i : Nat), pos ≤ i → i < btRun src max fuel pos → src[i]? = some '`' := by
  intro fuel
  induction fuel with
  | zero => intro pos i h1 h2; simp only [btRun] at h2; omega
  | succ n ih =>
    intro pos i h1 h2
    simp only [btRun] at h2
    split at h2
    · cases hq : src[pos]? with
      | none => rw [hq] at h2; simp only at h2; omega
      | some c =>
        rw [hq] at h2
        simp only at h2
        split at h2
        · rename_i hc
          by_cases hi : i = pos
          · subst hi; rw [hq]; simp only [beq_iff_eq] at hc; rw [hc]
          · exact ih (pos + 1) i (by omega) h2
        · omega
    · omega

theorem slice_all (src : List Char) (a b : Nat) (c : Char) (h : ∀ i, a ≤ i → i < b → src[i]? = some c) :
    slice' src a b = List.replicate (b - a) c := by
  unfold slice'
  apply List.ext_getElem?
  intro j
  rw [List.getElem?_drop, List.getElem?_take]
  by_cases hj : j < b - a
  · have : a + j < b := by omega
    simp only [this, if_true]
    rw [h (a + j) (by omega) this]
    simp [List.getElem?_replicate, hj]
  · have : ¬ (a + j < b) := by omega
    simp only [this, if_false]
    simp [List.getElem?_replicate, hj]

theorem btFind_spec (src : List Char) (from_ ms : Nat) (h : btFind src from_ = some ms) : from_ ≤ ms ∧ src[ms]? = some '`' := by
  unfold btFind at h
  cases hf : (src.drop from_).findIdx? (· == '`') with
  | none => rw [hf] at h; cases h
  | some j =>
    rw [hf] at h
    simp only [Option.some.injEq] at h
    subst h
    refine ⟨by omega, ?_⟩
    obtain ⟨hlt, hp, _⟩ := List.findIdx?_eq_some_iff_getElem.1 hf
    have : (src.drop from_)[j]? = some '`' := by
      rw [List.getElem?_eq_getElem hlt]
      simp only [beq_iff_eq] at hp
      rw [hp]
    rw [List.getElem?_drop] at this
    exact this

theorem btScan_spec (src : List Char) (max ol : Nat) : ∀ (fuel from_ : Nat) (bt bt' : List (Nat × Nat)) (ms me : Nat),
    btScan src max ol fuel from_ bt = (some (ms, me), bt') →
      from_ ≤ ms ∧ src[ms]? = some '`' ∧ me = btRun src max (max - ms) (ms + 1) ∧ me - ms = ol := by
  intro fuel
  induction fuel with
  | zero => intro from_ bt bt' ms me h; simp [btScan] at h
  | succ n ih =>
    intro from_ bt bt' ms me h
    simp only [btScan] at h
    cases hf : btFind src from_ with
    | none => rw [hf] at h; simp at h
    | some m0 =>
      rw [hf] at h
      simp only at h
      obtain ⟨h1, h2⟩ := btFind_spec src from_ m0 hf
      have h3 := btRun_ge src max (max - m0) (m0 + 1)
      split at h
      · rename_i heq
        simp only [Prod.mk.injEq, Option.some.injEq] at h
        obtain ⟨⟨rfl, rfl⟩, _⟩ := h
        exact ⟨h1, h2, rfl, by simpa using heq⟩
      · obtain ⟨a1, a2, a3, a4⟩ := ih _ _ _ _ _ h
        exact ⟨by omega, a2, a3, a4⟩

theorem ispan_backticks : ISpanOK ruleBackticks := by
  intro s silent m s' hc h hr
  have hin : s.pos < s.src.length := by have := hc.1; have := hc.2; omega
  unfold ruleBackticks at hr
  rw [List.getElem?_eq_getElem hin] at hr
  simp only at hr
  split at hr
  · simp only [Except.ok.injEq, Prod.mk.injEq] at hr; obtain ⟨_, rfl⟩ := hr; exact ⟨h, rfl⟩
  · rename_i hbt
    have h0 : s.src[s.pos]? = some '`' := by
      rw [List.getElem?_eq_getElem hin]
      have : s.src[s.pos] = '`' := by simpa using hbt
      rw [this]
    split at hr
    · simp only [Except.ok.injEq, Prod.mk.injEq] at hr; obtain ⟨_, rfl⟩ := hr; exact ⟨h, rfl⟩
    · generalize hpos : btRun s.src s.posMax (s.posMax - s.pos) (s.pos + 1) = pos at hr
      have hge : s.pos + 1 ≤ pos := by rw [← hpos]; exact btRun_ge _ _ _ _
      have hopen : ∀ i, s.pos ≤ i → i < pos → s.src[i]? = some '`' := by
        intro i h1 h2
        by_cases hi : i = s.pos
        · subst hi; exact h0
        · rw [← hpos] at h2; exact btRun_all s.src s.posMax _ (s.pos + 1) i (by omega) h2
      cases hsc : btScan s.src s.posMax (pos - s.pos) (s.src.length - pos + 1) pos s.backticks with
      | mk res bt =>
        rw [hsc] at hr
        cases res with
        | none =>
          simp only [Except.ok.injEq, Prod.mk.injEq] at hr; obtain ⟨_, rfl⟩ := hr; exact ⟨h, rfl⟩
        | some p =>
          obtain ⟨ms, me⟩ := p
          simp only [Except.ok.injEq, Prod.mk.injEq] at hr
          obtain ⟨_, rfl⟩ := hr
          cases silent
          · simp only [Bool.false_eq_true, if_false]
            obtain ⟨b1, b2, b3, b4⟩ := btScan_spec _ _ _ _ _ _ _ _ _ hsc
            have hclose : ∀ i, ms ≤ i → i < me → s.src[i]? = some '`' := by
              intro i h1 h2
              by_cases hi : i = ms
              · subst hi; exact b2
              · rw [b3] at h2; exact btRun_all s.src s.posMax _ (ms + 1) i (by omega) h2
            have hme : ms + 1 ≤ me := by rw [b3]; exact btRun_ge _ _ _ _
            refine ⟨?_, by simp only [push_src]⟩
            have hs0 : AllSpans ({ s with backticks := bt } : IState) := h
            have key := allSpans_push { s with backticks := bt } hs0 "code_inline" "code" 0
              (String.ofList (codeSpanContent ((s.src.take ms).drop pos))) (String.ofList ((s.src.take pos).drop s.pos)) "" (by
                intro lvl _
                refine ⟨pos, ms, pos - s.pos, by omega, by omega, b1, ?_, ?_, ?_, ?_⟩
                · show (String.ofList ((s.src.take pos).drop s.pos)).toList = _
                  rw [String.toList_ofList]
                  exact slice_all s.src s.pos pos '`' hopen
                · have : pos - (pos - s.pos) = s.pos := by omega
                  rw [this]; exact slice_all s.src s.pos pos '`' hopen
                · have e : ms + (pos - s.pos) = me := by omega
                  rw [e]
                  have := slice_all s.src ms me '`' hclose
                  rw [this]; congr 1
                · show (String.ofList _).toList = _
                  rw [String.toList_ofList]; rfl)
            intro t ht
            have hsrc : (({ s with backticks := bt } : IState).push "code_inline" "code" 0
              (String.ofList (codeSpanContent ((s.src.take ms).drop pos))) (String.ofList ((s.src.take pos).drop s.pos)) "").src = s.src := push_src _ _ _ _ _ _ _
            have := key t ht
            rw [hsrc] at this
            simp only [push_src]
            exact this
          · exact ⟨h, rfl⟩

/-! ### the loop, `fragments_join`, and the theorem -/

theorem runChain_spans (rules : List IRule) (hok : ∀ r ∈ rules, IRuleOK2 r) (hsp : ∀ r ∈ rules, ISpanOK r) :
    ∀ (s : IState) (m : Bool) (s' : IState), ICtx s → AllSpans s → runChain rules s = .ok (m, s') → AllSpans s' ∧ s'.src = s.src := by
  induction rules with
  | nil => intro s m s' _ h hr; simp only [runChain, Except.ok.injEq, Prod.mk.injEq] at hr; obtain ⟨_, rfl⟩ := hr; exact ⟨h, rfl⟩
  | cons r rest ih =>
    intro s m s' hc h hr
    have hr0 := hok r (by simp)
    simp only [runChain] at hr
    cases hq : r s false with
    | error e => rw [hq] at hr; cases hr
    | ok v =>
      obtain ⟨m1, s1⟩ := v
      rw [hq] at hr
      obtain ⟨h1, hs1⟩ := hsp r (by simp) s false m1 s1 hc h hq
      cases m1 with
      | true => simp only [Except.ok.injEq, Prod.mk.injEq] at hr; obtain ⟨_, rfl⟩ := hr; exact ⟨h1, hs1⟩
      | false =>
        simp only at hr
        have hf := hr0.frame _ _ _ hc hq
        have hpos := hr0.miss _ _ hc hq
        have hc' : ICtx s1 := by unfold ICtx at *; rw [hpos, hf.2.2, hf.1]; exact hc
        obtain ⟨h2, hs2⟩ := ih (fun q hq => hok q (by simp [hq])) (fun q hq => hsp q (by simp [hq])) s1 m s' hc' h1 hr
        exact ⟨h2, hs2.trans hs1⟩

theorem loop_spans (rules : List IRule) (hok : ∀ r ∈ rules, IRuleOK2 r) (hsp : ∀ r ∈ rules, ISpanOK r) (mn : Int) :
    ∀ (fuel : Nat) (ok : Bool) (s s' : IState), s.posMax ≤ s.src.length → AllSpans s →
      tokenizeLoop rules mn s.posMax fuel ok s = .ok s' → AllSpans s' ∧ s'.src = s.src := by
  intro fuel
  induction fuel with
  | zero =>
    intro ok s s' _ h hr
    simp only [tokenizeLoop] at hr
    split at hr
    · cases hr
    · simp only [Except.ok.injEq] at hr; subst hr; exact ⟨h, rfl⟩
  | succ n ih =>
    intro ok s s' hend h hr
    simp only [tokenizeLoop] at hr
    split at hr
    · rename_i hlt
      have hc : ICtx s := ⟨hlt, hend⟩
      by_cases hlv : s.level < mn
      · simp only [hlv, if_true] at hr
        obtain ⟨m, s1, hch, hsrc, _, hmax, _, hm⟩ := ichain_ok2 rules hok s hc
        rw [hch] at hr
        obtain ⟨h1, hs1⟩ := runChain_spans rules hok hsp s m s1 hc h hch
        simp only at hr
        cases m with
        | true =>
          simp only [if_true] at hr
          split at hr
          · simp only [Except.ok.injEq] at hr; subst hr; exact ⟨h1, hs1⟩
          · split at hr
            · cases hr
            · rw [← hmax] at hr
              obtain ⟨h2, hs2⟩ := ih true s1 s' (by rw [hsrc, hmax]; exact hend) h1 hr
              exact ⟨h2, hs2.trans hs1⟩
        | false =>
          simp only [Bool.false_eq_true, if_false] at hr
          have hpos := hm rfl
          have hin : s1.pos < s1.src.length := by rw [hsrc, hpos]; omega
          rw [List.getElem?_eq_getElem hin] at hr
          simp only at hr
          rw [← hmax] at hr
          obtain ⟨h2, hs2⟩ := ih false { s1 with pending := s1.pending ++ [s1.src[s1.pos]], pos := s1.pos + 1 } s'
            (by show s1.posMax ≤ s1.src.length; rw [hsrc, hmax]; exact hend) h1 hr
          exact ⟨h2, hs2.trans hs1⟩
      · simp only [hlv, if_false] at hr
        cases ok with
        | true =>
          simp only [if_true] at hr
          split at hr
          · simp only [Except.ok.injEq] at hr; subst hr; exact ⟨h, rfl⟩
          · simp only [Nat.le_refl, if_true] at hr; cases hr
        | false =>
          simp only [Bool.false_eq_true, if_false] at hr
          have hin : s.pos < s.src.length := by omega
          rw [List.getElem?_eq_getElem hin] at hr
          simp only at hr
          exact ih false { s with pending := s.pending ++ [s.src[s.pos]], pos := s.pos + 1 } s' hend h hr
    · simp only [Except.ok.injEq] at hr; subst hr; exact ⟨h, rfl⟩

@[simp] theorem setLevel_type (t : Tok) (l : Int) : (t.setLevel l).type = t.type := by cases t; rfl
@[simp] theorem setLevel_markup (t : Tok) (l : Int) : (t.setLevel l).markup = t.markup := by cases t; rfl
@[simp] theorem setLevel_content (t : Tok) (l : Int) : (t.setLevel l).content = t.content := by cases t; rfl
@[simp] theorem setContent_type (t : Tok) (c : String) : (t.setContent c).type = t.type := by cases t; rfl

theorem codeSpan_setLevel (src : List Char) (t : Tok) (l : Int) (h : CodeSpanTok src t) : CodeSpanTok src (t.setLevel l) := by
  unfold CodeSpanTok at *
  simp only [setLevel_type, setLevel_markup, setLevel_content]
  exact h

theorem fragmentsJoin_spans (src : List Char) : ∀ (n : Nat) (level : Int) (ts : List Tok), ts.length ≤ n → (∀ t ∈ ts, CodeSpanTok src t) →
    ∀ t ∈ fragmentsJoin level ts, CodeSpanTok src t := by
  intro n
  induction n with
  | zero =>
    intro level ts hl _ t ht
    have : ts = [] := List.eq_nil_of_length_eq_zero (by omega)
    subst this; simp [fragmentsJoin] at ht
  | succ k ih =>
    intro level ts hl h t ht
    match ts, hl, h, ht with
    | [], _, _, ht => simp [fragmentsJoin] at ht
    | [a], _, h, ht =>
      simp only [fragmentsJoin, List.mem_singleton] at ht
      subst ht; exact codeSpan_setLevel _ _ _ (h a (by simp))
    | a :: b :: rest, hl, h, ht =>
      simp only [fragmentsJoin] at ht
      split at ht
      · rename_i hty
        refine ih _ (b.setContent (a.content ++ b.content) :: rest) (by simp at hl ⊢; omega) ?_ t ht
        intro u hu
        simp only [List.mem_cons] at hu
        rcases hu with rfl | hu
        · intro hc
          simp only [setContent_type] at hc
          simp only [Bool.and_eq_true, beq_iff_eq] at hty
          rw [hty.2] at hc; exact absurd hc (by decide)
        · exact h u (by simp [hu])
      · simp only [List.mem_cons] at ht
        rcases ht with rfl | ht
        · exact codeSpan_setLevel _ _ _ (h a (by simp))
        · exact ih _ (b :: rest) (by simp at hl ⊢; omega) (fun u hu => h u (by simp at hu ⊢; exact .inr hu)) t ht

theorem iminiChain_spans (c : IMiniCfg) : ∀ r ∈ iminiChain c, ISpanOK r := by
  intro r hr
  simp only [iminiChain, List.mem_append, List.mem_singleton] at hr
  rcases hr with ((hr | hr) | hr) | hr
  · subst hr; exact ispan_text
  · split at hr
    · simp at hr; subst hr; exact ispan_newline
    · cases hr
  · split at hr
    · simp at hr; subst hr; exact ispan_escape
    · cases hr
  · split at hr
    · simp at hr; subst hr; exact ispan_backticks
    · cases hr

/-- **C08.imini_codespans** — for every source, every subset of `newline`, `escape`, `backticks`, every `maxNesting`, with or
without `fragments_join`: every `code_inline` token of the modelled inline parse holds `codeSpanContent` of exactly the text between
two backtick runs of the source whose common length is the token's markup -/
theorem imini_codespans (c : IMiniCfg) (fragJoin : Bool) (maxNesting : Int) (src : List Char) (ts : List Tok)
    (h : inlineParse (iminiChain c) [] fragJoin maxNesting src = .ok ts) : ∀ t ∈ ts, CodeSpanTok src t := by
  unfold inlineParse tokenize at h
  cases hl : tokenizeLoop (iminiChain c) maxNesting (IState.init src).posMax ((IState.init src).posMax - (IState.init src).pos + 1) false (IState.init src) with
  | error e => rw [hl] at h; cases h
  | ok s1 =>
    rw [hl] at h
    simp only [List.foldl_nil, Except.ok.injEq] at h
    have h0 : AllSpans (IState.init src) := by intro t ht; simp [IState.init] at ht
    obtain ⟨h1, hs1⟩ := loop_spans (iminiChain c) (iminiChain_ok c) (iminiChain_spans c) maxNesting _ false (IState.init src) s1 (Nat.le_refl _) h0 hl
    have hsrc : s1.src = src := hs1
    have h2 : ∀ t ∈ (if s1.pending.isEmpty then s1 else s1.pushPending).tokens, CodeSpanTok src t := by
      split
      · intro t ht; rw [← hsrc]; exact h1 t ht
      · intro t ht; rw [← hsrc]; exact allSpans_pushPending s1 h1 t ht
    subst h
    split
    · exact fragmentsJoin_spans src _ 0 _ (Nat.le_refl _) h2
    · exact h2

end MdIt.C08
