import MdIt.Props.C03b
import MdIt.Props.C02c
/-!
# C03 (continued) — source maps with block quotes: blocks are staged up to the line the loop ends on, a
quote's tokens lie inside the quote's own map, and the whole stream of `qParse` is staged inside the document

* `loop_line_ge` — the loop never leaves `state.line` before the line it was started on;
* `loop_maps_final` — the stages a loop adds end no later than the loop's final `state.line` (sharper than
  `loop_maps_staged`: this is what makes a container's map, patched to `state.line`, enclose its content);
* `mapOK_blockquote`, `qChain_maps`, `q_staged`.
-/
namespace MdIt.C03
open MdIt.C01 MdIt.C02

theorem loop_line_ge (P : BState → Nat → Prop) (hP : FrameClosed P) (rules : List BRule) (hok : ∀ r ∈ rules, RuleOK P r)
    (maxNesting : Int) (endLine : Nat) :
    ∀ (fuel line : Nat) (hasEmpty : Bool) (s s' : BState), s.lineMax + 1 ≤ s.lines.length → endLine ≤ s.lineMax →
      P s endLine → blockLoop rules maxNesting endLine fuel line hasEmpty s = .ok s' →
      (line < endLine → line ≤ s'.line) ∧ (¬ line < endLine → s' = s) := by
  intro fuel
  induction fuel with
  | zero =>
    intro line _ s s' _ _ _ h
    simp only [blockLoop] at h
    split at h
    · cases h
    · rename_i hn; simp only [Except.ok.injEq] at h; subst h; exact ⟨fun hl => absurd hl hn, fun _ => rfl⟩
  | succ n ih =>
    intro line hasEmpty s s' hlen hend hPs h
    simp only [blockLoop] at h
    split at h
    · rename_i hlt
      refine ⟨fun _ => ?_, fun hn => absurd hlt hn⟩
      have hsk := C01.skipEmptyLines_spec s (s.lineMax + 1) line hlen (by omega)
      generalize hl1 : skipEmptyLines s (s.lineMax + 1) line = line1 at hsk h
      split at h
      · simp only [Except.ok.injEq] at h; subst h; exact hsk.1
      · split at h
        · cases h
        · split at h
          · simp only [Except.ok.injEq] at h; subst h; exact hsk.1
          · split at h
            · simp only [Except.ok.injEq] at h; subst h; show line ≤ endLine; omega
            · split at h
              · cases h
              · rename_i mm s2 hc
                have hctx : CallCtx P { s with line := line1 } line1 endLine := by
                  rename_i hnge optl l hl hnout hlev hx
                  have hlt1 : line1 < s.lineMax := by omega
                  obtain ⟨l', hl', hne'⟩ := hsk.2 hlt1
                  have hll : l' = l := by
                    have : s.lines[line1]? = some l := hl
                    rw [this] at hl'; exact (Option.some.inj hl').symm
                  subst hll
                  exact ⟨hlen, by omega, hend, ⟨l', hl, hne', by simpa using hnout⟩, rfl, hP s _ _ ⟨⟨rfl, rfl⟩, rfl, rfl, rfl⟩ hPs⟩
                obtain ⟨m', s2', hc', hfr2, hprog, hmiss⟩ := C01.chain_ok P hP rules hok { s with line := line1 } line1 endLine hctx
                rw [hc] at hc'
                simp only [Except.ok.injEq, Prod.mk.injEq] at hc'
                obtain ⟨rfl, rfl⟩ := hc'
                split at h
                · cases h
                · rename_i hnle
                  have hlen2 : s2.lineMax + 1 ≤ s2.lines.length := by rw [hfr2.1.1, hfr2.2.1]; exact hlen
                  have hend2 : endLine ≤ s2.lineMax := by rw [hfr2.2.1]; exact hend
                  have fin : ∀ (l' : Nat) (he : Bool) (st : BState), st.lineMax + 1 ≤ st.lines.length → endLine ≤ st.lineMax →
                      s2.FrameEq st → st.line = l' → s2.line ≤ l' →
                      blockLoop rules maxNesting endLine n l' he st = .ok s' → line ≤ s'.line := by
                    intro l' he st hl hE hfe hstl hle hrec
                    have hPst : P st endLine := hP _ _ _ hfe (hP _ _ _ hfr2 (hP s _ _ ⟨⟨rfl, rfl⟩, rfl, rfl, rfl⟩ hPs))
                    have := ih l' he st s' hl hE hPst hrec
                    by_cases hlt2 : l' < endLine
                    · have := this.1 hlt2; have := hsk.1; omega
                    · have := this.2 hlt2; rw [this, hstl]; have := hsk.1; omega
                  split at h
                  · cases h
                  · split at h
                    · split at h
                      · cases h
                      · split at h
                        · exact fin (s2.line + 1) _ { s2 with tight := !hasEmpty, line := s2.line + 1 } hlen2 hend2 ⟨⟨rfl, rfl⟩, rfl, rfl, rfl⟩ rfl (by omega) h
                        · exact fin s2.line _ { s2 with tight := !hasEmpty } hlen2 hend2 ⟨⟨rfl, rfl⟩, rfl, rfl, rfl⟩ rfl (Nat.le_refl _) h
                    · exact fin s2.line _ { s2 with tight := !hasEmpty } hlen2 hend2 ⟨⟨rfl, rfl⟩, rfl, rfl, rfl⟩ rfl (Nat.le_refl _) h
    · rename_i hn; simp only [Except.ok.injEq] at h; subst h; exact ⟨fun hl => absurd hl hn, fun _ => rfl⟩

/-- **C03.loop_maps_final** — the stages end no later than the line the loop finally stands on -/
theorem loop_maps_final (P : BState → Nat → Prop) (hP : FrameClosed P) (rules : List BRule) (hok : ∀ r ∈ rules, RuleOK P r)
    (hmap : ∀ r ∈ rules, MapOK P r) (maxNesting : Int) (endLine : Nat) :
    ∀ (fuel line : Nat) (hasEmpty : Bool) (s s' : BState), s.lineMax + 1 ≤ s.lines.length → endLine ≤ s.lineMax →
      P s endLine → blockLoop rules maxNesting endLine fuel line hasEmpty s = .ok s' →
      ∃ new, s'.tokens = s.tokens ++ new ∧ Staged line s'.line new := by
  intro fuel
  induction fuel with
  | zero =>
    intro line _ s s' _ _ _ h
    simp only [blockLoop] at h
    split at h
    · cases h
    · simp only [Except.ok.injEq] at h; subst h; exact ⟨[], by simp, .nil _ _⟩
  | succ n ih =>
    intro line hasEmpty s s' hlen hend hPs h
    simp only [blockLoop] at h
    split at h
    · rename_i hlt
      have hsk := C01.skipEmptyLines_spec s (s.lineMax + 1) line hlen (by omega)
      generalize hl1 : skipEmptyLines s (s.lineMax + 1) line = line1 at hsk h
      split at h
      · simp only [Except.ok.injEq] at h; subst h; exact ⟨[], by simp, .nil _ _⟩
      · split at h
        · cases h
        · split at h
          · simp only [Except.ok.injEq] at h; subst h; exact ⟨[], by simp, .nil _ _⟩
          · split at h
            · simp only [Except.ok.injEq] at h; subst h; exact ⟨[], by simp, .nil _ _⟩
            · split at h
              · cases h
              · rename_i mm s2 hc
                have hctx : CallCtx P { s with line := line1 } line1 endLine := by
                  rename_i hnge optl l hl hnout hlev hx
                  have hlt1 : line1 < s.lineMax := by omega
                  obtain ⟨l', hl', hne'⟩ := hsk.2 hlt1
                  have hll : l' = l := by
                    have : s.lines[line1]? = some l := hl
                    rw [this] at hl'; exact (Option.some.inj hl').symm
                  subst hll
                  exact ⟨hlen, by omega, hend, ⟨l', hl, hne', by simpa using hnout⟩, rfl, hP s _ _ ⟨⟨rfl, rfl⟩, rfl, rfl, rfl⟩ hPs⟩
                obtain ⟨m', s2', hc', hfr2, hprog, hmiss⟩ := C01.chain_ok P hP rules hok { s with line := line1 } line1 endLine hctx
                rw [hc] at hc'
                simp only [Except.ok.injEq, Prod.mk.injEq] at hc'
                obtain ⟨rfl, rfl⟩ := hc'
                obtain ⟨seg, hseg, hmaps, _⟩ := chain_tokens P hP rules hok hmap _ _ _ _ _ hctx hc
                split at h
                · cases h
                · rename_i hnle
                  have hgt : line1 < s2.line := by omega
                  have hm : mm = true := by
                    cases mm with
                    | true => rfl
                    | false => have := hmiss rfl; simp at this; omega
                  have hlen2 : s2.lineMax + 1 ≤ s2.lines.length := by rw [hfr2.1.1, hfr2.2.1]; exact hlen
                  have hend2 : endLine ≤ s2.lineMax := by rw [hfr2.2.1]; exact hend
                  have hstage := hmaps hm
                  have fin : ∀ (l' : Nat) (he : Bool) (st : BState), st.tokens = s2.tokens → st.lineMax + 1 ≤ st.lines.length →
                      endLine ≤ st.lineMax → s2.FrameEq st → st.line = l' → s2.line ≤ l' →
                      blockLoop rules maxNesting endLine n l' he st = .ok s' →
                      ∃ new, s'.tokens = s.tokens ++ new ∧ Staged line s'.line new := by
                    intro l' he st htok hl hE hfe hstl hle hrec
                    have hPst : P st endLine := hP _ _ _ hfe (hP _ _ _ hfr2 (hP s _ _ ⟨⟨rfl, rfl⟩, rfl, rfl, rfl⟩ hPs))
                    obtain ⟨new', hn1, hn2⟩ := ih l' he st s' hl hE hPst hrec
                    have hge := loop_line_ge P hP rules hok maxNesting endLine n l' he st s' hl hE hPst hrec
                    have hfinal : l' ≤ s'.line := by
                      by_cases hlt2 : l' < endLine
                      · exact hge.1 hlt2
                      · have := hge.2 hlt2; rw [this, hstl]; exact Nat.le_refl _
                    refine ⟨seg ++ new', ?_, ?_⟩
                    · rw [hn1, htok, hseg]; simp
                    · exact .stage line1 s2.line seg new' hsk.1 hgt (by omega) hstage (hn2.weaken hle)
                  split at h
                  · cases h
                  · split at h
                    · split at h
                      · cases h
                      · split at h
                        · exact fin (s2.line + 1) _ { s2 with tight := !hasEmpty, line := s2.line + 1 } rfl hlen2 hend2 ⟨⟨rfl, rfl⟩, rfl, rfl, rfl⟩ rfl (by omega) h
                        · exact fin s2.line _ { s2 with tight := !hasEmpty } rfl hlen2 hend2 ⟨⟨rfl, rfl⟩, rfl, rfl, rfl⟩ rfl (Nat.le_refl _) h
                    · exact fin s2.line _ { s2 with tight := !hasEmpty } rfl hlen2 hend2 ⟨⟨rfl, rfl⟩, rfl, rfl, rfl⟩ rfl (Nat.le_refl _) h
    · simp only [Except.ok.injEq] at h; subst h; exact ⟨[], by simp, .nil _ _⟩

@[simp] theorem setMap_map (t : Tok) (m) : (t.setMap m).map = m := by cases t; rfl

/-- what the nested runs add at depth `d` is staged up to their final line -/
def InnerMaps (c : MiniCfg) (ws : List Nat) (mn : Int) (d : Nat) : Prop :=
  ∀ (s : BState) (startLine endLine : Nat) (s' : BState), s.lineMax + 1 ≤ s.lines.length → endLine ≤ s.lineMax → Lv mn d s endLine →
    blockTokenize (qChain c ws mn d) mn s startLine endLine = .ok s' →
    ∃ new, s'.tokens = s.tokens ++ new ∧ Staged startLine s'.line new

theorem mapOK_leaves (c : MiniCfg) (ws : List Nat) (mn : Int) (P : BState → Nat → Prop) :
    ∀ r ∈ qLeaves c ws mn, MapOK P r := by
  intro r hr
  simp only [qLeaves, List.mem_append, List.mem_singleton] at hr
  rcases hr with (((hr | hr) | hr) | hr) | hr
  · split at hr
    · simp at hr; subst hr; exact mapOK_code _ _
    · cases hr
  · split at hr
    · simp at hr; subst hr; exact mapOK_fence _ _
    · cases hr
  · split at hr
    · simp at hr; subst hr; exact mapOK_hr _ _
    · cases hr
  · split at hr
    · simp at hr; subst hr; exact mapOK_heading _ _ _
    · cases hr
  · subst hr; exact mapOK_paragraph _ _ (qTerminators_inert c ws mn) ws

theorem qChain_maps (c : MiniCfg) (ws : List Nat) (mn : Int) : ∀ d : Nat,
    (∀ r ∈ qChain c ws mn d, MapOK (Lv mn d) r) ∧ InnerMaps c ws mn d := by
  intro d
  induction d with
  | zero =>
    have h0 : ∀ r ∈ qChain c ws mn 0, MapOK (Lv mn 0) r := fun r hr => by simp [qChain] at hr
    refine ⟨h0, ?_⟩
    intro s startLine endLine s' hlen hend hlv hrun
    exact loop_maps_final (Lv mn 0) (lv_closed mn 0) _ (qChain_ok c ws mn 0).1 h0 mn endLine _ startLine false s s' hlen hend hlv hrun
  | succ d ih =>
    have hq : MapOK (Lv mn (d + 1)) (ruleBlockquote c.code (qTerminators c ws mn) (qChain c ws mn d) mn) := by
      have key := quote_shape mn d c.code (qTerminators c ws mn) (qTerminators_inert c ws mn) (qChain c ws mn d) (qChain_ok c ws mn d).2
      refine ⟨?_, ?_⟩
      · intro s line endLine s' hc h
        rcases key s line endLine hc with h' | ⟨s'', h', _, hlt, _, hrunq⟩
        · rw [h'] at h; cases h
        · rw [h'] at h; cases h
          obtain ⟨s3, s4, next, openT, closeT, hl3, hlen3, hend3, hLv3, hrun, htok3, htok, _, _, _, _, _, _, hline, hom, hcm, _⟩ :=
            quote_tokens mn d _ s line s' hrunq
          obtain ⟨new, hs4, hst⟩ := ih.2 s3 line next s4 hlen3 hend3 hLv3 hrun
          refine ⟨_, htok new hs4, ?_⟩
          intro t ht x y hm
          simp only [List.mem_append, List.mem_singleton] at ht
          rcases ht with (rfl | ht) | rfl
          · simp at hm; obtain ⟨rfl, rfl⟩ := hm
            rw [hline] at hlt ⊢
            exact ⟨Nat.le_refl _, hlt, Nat.le_refl _⟩
          · have := hst.mapsIn t ht x y hm
            rw [hline]; exact this
          · rw [hcm] at hm; cases hm
      · intro s line endLine s' hc h
        rcases key s line endLine hc with h' | ⟨s'', h', _⟩
        · rw [h'] at h; cases h; rfl
        · rw [h'] at h; cases h
    have hall : ∀ r ∈ qChain c ws mn (d + 1), MapOK (Lv mn (d + 1)) r := by
      intro r hr
      rcases mem_qChain c ws mn d r hr with h | h
      · exact mapOK_leaves c ws mn _ r h
      · subst h; exact hq
    refine ⟨hall, ?_⟩
    intro s startLine endLine s' hlen hend hlv hrun
    exact loop_maps_final (Lv mn (d + 1)) (lv_closed mn (d + 1)) _ (qChain_ok c ws mn (d + 1)).1 hall mn endLine _ startLine false s s' hlen hend hlv hrun

/-- **C03.q_staged** — with block quotes nested to any depth: the top-level blocks of the stream are staged inside the
document (maps in range, non-empty, increasing, disjoint), and — by `mapOK_blockquote` inside `qChain_maps` — every token
between a `blockquote_open` and its `blockquote_close` has its map inside the quote's map -/
theorem q_staged (c : MiniCfg) (ws : List Nat) (maxNesting : Int) (src : List Char) (ts : List Tok)
    (h : qParse c ws maxNesting src = .ok ts) : Staged 0 (initBState (normalize src)).lineMax ts := by
  unfold qParse at h
  simp only at h
  split at h
  · cases h; exact .nil _ _
  · split at h
    · rename_i s' hs'
      cases h
      have hlv : Lv maxNesting (maxNesting.toNat + 1) (initBState (normalize src)) (initBState (normalize src)).lineMax := by
        unfold Lv; show maxNesting + 1 ≤ (0 : Int) + ((maxNesting.toNat + 1 : Nat) : Int); omega
      obtain ⟨new, hn, hst⟩ := loop_maps_staged (Lv maxNesting (maxNesting.toNat + 1)) (lv_closed _ _) _
        (qChain_ok c ws maxNesting (maxNesting.toNat + 1)).1 (qChain_maps c ws maxNesting (maxNesting.toNat + 1)).1
        maxNesting (initBState (normalize src)).lineMax _ 0 false (initBState (normalize src)) s' (initBState_len _) (Nat.le_refl _) hlv hs'
      have : (initBState (normalize src)).tokens = [] := rfl
      rw [this, List.nil_append] at hn
      rw [hn]; exact hst
    · cases h

end MdIt.C03
