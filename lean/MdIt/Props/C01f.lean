import MdIt.Props.C01e
import MdIt.Emphasis
/-!
# C01 (continued) — the inline sub-parser with emphasis is total

`iok_emphasis`: the emphasis rule keeps the inline contract for every character classification; `emini_total`: for every source, every
subset of `newline`, `escape`, `backticks`, `emphasis`, every `maxNesting` and every classification of punctuation / white space, the
inline parse — tokenize loop, `balance_pairs`, emphasis post-processing, `fragments_join` — returns a token list.
-/
namespace MdIt.C01

theorem markerRun_ge (src : List Char) (marker : Char) (max : Nat) : ∀ (fuel pos : Nat), pos ≤ markerRun src marker max fuel pos := by
  intro fuel
  induction fuel with
  | zero => intro pos; exact Nat.le_refl _
  | succ n ih =>
    intro pos
    simp only [markerRun]
    split
    · split
      · split
        · have := ih (pos + 1); omega
        · exact Nat.le_refl _
      · exact Nat.le_refl _
    · exact Nat.le_refl _

theorem markerRun_first (src : List Char) (marker : Char) (max fuel pos : Nat) (hf : 0 < fuel) (hlt : pos < max)
    (h : src[pos]? = some marker) : pos + 1 ≤ markerRun src marker max fuel pos := by
  cases fuel with
  | zero => omega
  | succ n =>
    simp only [markerRun, hlt, if_true, h, beq_self_eq_true]
    exact markerRun_ge src marker max n (pos + 1)

theorem emphPush_frame (marker : Char) (count : Nat) (o c : Bool) : ∀ (k : Nat) (s : IState),
    (emphPush marker count o c k s).src = s.src ∧ (emphPush marker count o c k s).level = s.level
      ∧ (emphPush marker count o c k s).posMax = s.posMax := by
  intro k
  induction k with
  | zero => intro s; exact ⟨rfl, rfl, rfl⟩
  | succ n ih =>
    intro s
    simp only [emphPush]
    obtain ⟨a, b, c'⟩ := ih { (s.push "text" "" 0 (String.singleton marker) "" "") with delimiters := (s.push "text" "" 0 (String.singleton marker) "" "").delimiters ++
        [{ marker := marker.toNat, length := count, token := ((s.push "text" "" 0 (String.singleton marker) "" "").tokens.length : Int) - 1, end_ := -1, open_ := o, close := c }] }
    obtain ⟨p1, p2, p3, _⟩ := push0_frame s "text" "" (String.singleton marker) "" ""
    exact ⟨a.trans p1, b.trans p2, c'.trans p3⟩

theorem iok_emphasis (cls : QCls) : IRuleOK2 (ruleEmphasis cls) := by
  have key : ∀ (s : IState) (silent : Bool), ICtx s →
      ruleEmphasis cls s silent = .ok (false, s) ∨ ∃ s', ruleEmphasis cls s silent = .ok (true, s') ∧ s.pos < s'.pos ∧ s'.src = s.src
        ∧ s'.level = s.level ∧ s'.posMax = s.posMax := by
    intro s silent hc
    have hin : s.pos < s.src.length := by have := hc.1; have := hc.2; omega
    unfold ruleEmphasis
    rw [List.getElem?_eq_getElem hin]
    simp only
    split
    · exact .inl rfl
    · split
      · exact .inl rfl
      · right
        have hget : s.src.getD s.pos ' ' = s.src[s.pos] := by simp [List.getD, List.getElem?_eq_getElem hin]
        have hrun : s.pos + 1 ≤ markerRun s.src (s.src.getD s.pos ' ') s.posMax (s.posMax - s.pos) s.pos :=
          markerRun_first _ _ _ _ _ (by have := hc.1; omega) hc.1 (by rw [hget]; exact List.getElem?_eq_getElem hin)
        have hcount : 1 ≤ (scanDelims cls s s.pos (s.src[s.pos] == '*')).2.2 := by
          unfold scanDelims
          simp only
          split <;> (simp only; omega)
        obtain ⟨f1, f2, f3⟩ := emphPush_frame s.src[s.pos] (scanDelims cls s s.pos (s.src[s.pos] == '*')).2.2
          (scanDelims cls s s.pos (s.src[s.pos] == '*')).1 (scanDelims cls s s.pos (s.src[s.pos] == '*')).2.1
          (scanDelims cls s s.pos (s.src[s.pos] == '*')).2.2 s
        exact ⟨_, rfl, by show s.pos < s.pos + _; omega, f1, f2, f3⟩
  refine ⟨?_, ?_, ?_, ?_⟩
  · intro s silent hc
    rcases key s silent hc with h | ⟨s', h, _⟩ <;> exact ⟨_, _, h⟩
  · intro s s' hc h
    rcases key s false hc with h' | ⟨s'', h', hp, _⟩
    · rw [h'] at h; cases h
    · rw [h'] at h; cases h; exact hp
  · intro s s' hc h
    rcases key s false hc with h' | ⟨s'', h', _⟩
    · rw [h'] at h; cases h; rfl
    · rw [h'] at h; cases h
  · intro s m s' hc h
    rcases key s false hc with h' | ⟨s'', h', _, h2, h3, h4⟩
    · rw [h'] at h; cases h; exact ⟨rfl, rfl, rfl⟩
    · rw [h'] at h; cases h; exact ⟨h2, h3, h4⟩

/-- the inline chain with emphasis: `text`, then the enabled ones of `newline`, `escape`, `backticks`, `emphasis` (registration order) -/
def eminiChain (cls : QCls) (c : IMiniCfg) (emphasis : Bool) : List IRule :=
  iminiChain c ++ (if emphasis then [ruleEmphasis cls] else [])

theorem eminiChain_ok (cls : QCls) (c : IMiniCfg) (emphasis : Bool) : ∀ r ∈ eminiChain cls c emphasis, IRuleOK2 r := by
  intro r hr
  simp only [eminiChain, List.mem_append] at hr
  rcases hr with hr | hr
  · exact iminiChain_ok c r hr
  · split at hr
    · simp at hr; subst hr; exact iok_emphasis cls
    · cases hr

/-- **C01.emini_total** -/
theorem emini_total (cls : QCls) (c : IMiniCfg) (emphasis fragJoin : Bool) (maxNesting : Int) (src : List Char) :
    ∃ ts, inlineParse (eminiChain cls c emphasis) (if emphasis then [balancePairs, emphasisPost] else []) fragJoin maxNesting src = .ok ts := by
  unfold inlineParse tokenize
  obtain ⟨s', h⟩ := inline_total2 (eminiChain cls c emphasis) (eminiChain_ok cls c emphasis) maxNesting
    ((IState.init src).posMax - (IState.init src).pos + 1) false (IState.init src) (Nat.le_refl _) (by omega) (fun _ => rfl)
  rw [h]
  exact ⟨_, rfl⟩

/-! ### with strikethrough -/

theorem strikePush_frame (o c : Bool) : ∀ (k : Nat) (s : IState),
    (strikePush o c k s).src = s.src ∧ (strikePush o c k s).level = s.level ∧ (strikePush o c k s).posMax = s.posMax := by
  intro k
  induction k with
  | zero => intro s; exact ⟨rfl, rfl, rfl⟩
  | succ n ih =>
    intro s
    simp only [strikePush]
    obtain ⟨a, b, c'⟩ := ih { (s.push "text" "" 0 "~~" "" "") with delimiters := (s.push "text" "" 0 "~~" "" "").delimiters ++
        [{ marker := 0x7E, length := 0, token := ((s.push "text" "" 0 "~~" "" "").tokens.length : Int) - 1, end_ := -1, open_ := o, close := c }] }
    obtain ⟨p1, p2, p3, _⟩ := push0_frame s "text" "" "~~" "" ""
    exact ⟨a.trans p1, b.trans p2, c'.trans p3⟩

theorem iok_strike (cls : QCls) : IRuleOK2 (ruleStrike cls) := by
  have key : ∀ (s : IState) (silent : Bool), ICtx s →
      ruleStrike cls s silent = .ok (false, s) ∨ ∃ s', ruleStrike cls s silent = .ok (true, s') ∧ s.pos < s'.pos ∧ s'.src = s.src
        ∧ s'.level = s.level ∧ s'.posMax = s.posMax := by
    intro s silent hc
    have hin : s.pos < s.src.length := by have := hc.1; have := hc.2; omega
    unfold ruleStrike
    rw [List.getElem?_eq_getElem hin]
    simp only
    split
    · exact .inl rfl
    · split
      · exact .inl rfl
      · split
        · exact .inl rfl
        · rename_i hlen
          right
          obtain ⟨f1, f2, f3⟩ := strikePush_frame (scanDelims cls s s.pos true).1 (scanDelims cls s s.pos true).2.1 ((scanDelims cls s s.pos true).2.2 / 2)
            (if (scanDelims cls s s.pos true).2.2 % 2 = 1 then s.push "text" "" 0 "~" "" "" else s)
          have g : (if (scanDelims cls s s.pos true).2.2 % 2 = 1 then s.push "text" "" 0 "~" "" "" else s).src = s.src
              ∧ (if (scanDelims cls s s.pos true).2.2 % 2 = 1 then s.push "text" "" 0 "~" "" "" else s).level = s.level
              ∧ (if (scanDelims cls s s.pos true).2.2 % 2 = 1 then s.push "text" "" 0 "~" "" "" else s).posMax = s.posMax := by
            split
            · obtain ⟨p1, p2, p3, _⟩ := push0_frame s "text" "" "~" "" ""; exact ⟨p1, p2, p3⟩
            · exact ⟨rfl, rfl, rfl⟩
          exact ⟨_, rfl, by show s.pos < s.pos + _; omega, f1.trans g.1, f2.trans g.2.1, f3.trans g.2.2⟩
  refine ⟨?_, ?_, ?_, ?_⟩
  · intro s silent hc
    rcases key s silent hc with h | ⟨s', h, _⟩ <;> exact ⟨_, _, h⟩
  · intro s s' hc h
    rcases key s false hc with h' | ⟨s'', h', hp, _⟩
    · rw [h'] at h; cases h
    · rw [h'] at h; cases h; exact hp
  · intro s s' hc h
    rcases key s false hc with h' | ⟨s'', h', _⟩
    · rw [h'] at h; cases h; rfl
    · rw [h'] at h; cases h
  · intro s m s' hc h
    rcases key s false hc with h' | ⟨s'', h', _, h2, h3, h4⟩
    · rw [h'] at h; cases h; exact ⟨rfl, rfl, rfl⟩
    · rw [h'] at h; cases h; exact ⟨h2, h3, h4⟩

/-- the inline chain `text, newline?, escape?, backticks?, strikethrough?, emphasis?` (registration order) -/
def sminiChain (cls : QCls) (c : IMiniCfg) (strike emphasis : Bool) : List IRule :=
  iminiChain c ++ (if strike then [ruleStrike cls] else []) ++ (if emphasis then [ruleEmphasis cls] else [])

/-- the second rule chain (`ruler2`) that goes with it, before `fragments_join` -/
def sminiPost (strike emphasis : Bool) : List (IState → IState) :=
  (if strike || emphasis then [balancePairs] else []) ++ (if strike then [strikePost] else []) ++ (if emphasis then [emphasisPost] else [])

theorem sminiChain_ok (cls : QCls) (c : IMiniCfg) (strike emphasis : Bool) : ∀ r ∈ sminiChain cls c strike emphasis, IRuleOK2 r := by
  intro r hr
  simp only [sminiChain, List.mem_append] at hr
  rcases hr with (hr | hr) | hr
  · exact iminiChain_ok c r hr
  · split at hr
    · simp at hr; subst hr; exact iok_strike cls
    · cases hr
  · split at hr
    · simp at hr; subst hr; exact iok_emphasis cls
    · cases hr

/-- **C01.smini_total** — the inline sub-parser `text, newline, escape, backticks, strikethrough, emphasis` with `balance_pairs` and the
two post-processing rules: for every source, rule subset, `maxNesting` and character classification the parse returns a token list -/
theorem smini_total (cls : QCls) (c : IMiniCfg) (strike emphasis fragJoin : Bool) (maxNesting : Int) (src : List Char) :
    ∃ ts, inlineParse (sminiChain cls c strike emphasis) (sminiPost strike emphasis) fragJoin maxNesting src = .ok ts := by
  unfold inlineParse tokenize
  obtain ⟨s', h⟩ := inline_total2 (sminiChain cls c strike emphasis) (sminiChain_ok cls c strike emphasis) maxNesting
    ((IState.init src).posMax - (IState.init src).pos + 1) false (IState.init src) (Nat.le_refl _) (by omega) (fun _ => rfl)
  rw [h]
  exact ⟨_, rfl⟩

end MdIt.C01
