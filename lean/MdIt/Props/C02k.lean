import MdIt.Props.C10n
import MdIt.Props.C02h
import MdIt.Props.C02f
/-!
# C02 (continued) — the block stream with the `table` rule in the chain is well formed

`AppW s s'` — "from `s` to `s'` a segment was appended that is levelled from `s.level`, balanced, and back at `s.level`" — is carried through
the pushes of the table rule: a cell (`th_open inline th_close`), a row of cells, a wrapped row (`tr_open … tr_close`), the header, the
body loop (which opens `tbody` on its first row and leaves it open: `appW_body` states the segment relative to the state *after* that
push), the closing pushes; the two map fix-ups change neither level nor nesting (`wellSeg_modify`).  **`segOK_table`**: the segment
contract K5 for the table rule; **`t_wellformed`**: for every source, every subset of the optional rules (`reference` off), every
`maxNesting`, the block stream of the parse with the table rule in the chain is levelled from 0, ends at depth 0, is balanced, and builds a
tree.
-/
namespace MdIt.C02
open MdIt.C01 MdIt.C10

def AppW (s s' : BState) : Prop := ∃ seg, s'.tokens = s.tokens ++ seg ∧ WellSeg s.level seg ∧ s'.level = s.level

theorem appW_refl (s : BState) : AppW s s := ⟨[], by simp, ⟨trivial, rfl, rfl⟩, rfl⟩

theorem appW_trans {a b c : BState} (h1 : AppW a b) (h2 : AppW b c) : AppW a c := by
  obtain ⟨g1, e1, w1, l1⟩ := h1
  obtain ⟨g2, e2, w2, l2⟩ := h2
  refine ⟨g1 ++ g2, by rw [e2, e1, List.append_assoc], ?_, by rw [l2, l1]⟩
  have := wellSegs_flatten a.level [g1, g2] (by
    intro g hg
    simp only [List.mem_cons, List.not_mem_nil, or_false] at hg
    rcases hg with rfl | rfl
    · exact w1
    · rw [← l1]; exact w2)
  simpa using this

/-- the token `pushT` appends -/
def tokT (s : BState) (ty tag : String) (n : Int) (at_ : List (String × AttrVal)) (m : Option (Nat × Nat)) (c : Option (List Tok)) (d : String) : Tok :=
  .mk ty tag n at_ m (if n < 0 then s.level - 1 else s.level) c d "" "" [] true false

theorem pushT_tokens (s : BState) (ty tag : String) (n : Int) (at_ m c d) : (s.pushT ty tag n at_ m c d).tokens = s.tokens ++ [tokT s ty tag n at_ m c d] := rfl

/-- a token of nesting 0 -/
theorem appW_leaf (s : BState) (ty tag : String) (at_ m c d) : AppW s (s.pushT ty tag 0 at_ m c d) := by
  refine ⟨[tokT s ty tag 0 at_ m c d], rfl, ⟨?_, ?_, ?_⟩, by simp⟩
  · simp [levelsOK, tokT, Tok.level, Tok.nesting]
  · simp [depthAfter, tokT, Tok.nesting]
  · simp [balancedFrom, tokT, Tok.nesting]

/-- an opening push, a well-formed middle, a closing push -/
theorem appW_wrap (s s2 : BState) (ty tag ty' tag' : String) (at_ m c d at' m' c' d')
    (h : AppW (s.pushT ty tag 1 at_ m c d) s2) : AppW s (s2.pushT ty' tag' (-1) at' m' c' d') := by
  obtain ⟨mid, e, w, l⟩ := h
  rw [pushT_level_open] at w l
  refine ⟨[tokT s ty tag 1 at_ m c d] ++ mid ++ [tokT s2 ty' tag' (-1) at' m' c' d'], ?_, ?_, by rw [pushT_level_close, l]; omega⟩
  · rw [pushT_tokens, e, pushT_tokens]; simp [List.append_assoc]
  · exact wellSeg_wrap s.level _ _ mid (by simp [tokT, Tok.nesting]) (by simp [tokT, Tok.level]) (by simp [tokT, Tok.nesting])
      (by simp [tokT, Tok.level, l]) w

theorem appW_cells (ws : List Nat) (o c tg : String) (line : Nat) (cols : List (List Char)) :
    ∀ (as : List String) (i : Nat) (s : BState), AppW s (pushCells ws o c tg line cols as i s) := by
  intro as
  induction as with
  | nil => intro i s; exact appW_refl s
  | cons a rest ih =>
    intro i s
    simp only [pushCells]
    exact appW_trans (appW_wrap s _ _ _ _ _ _ _ _ _ _ _ _ _ (appW_leaf _ _ _ _ _ _ _)) (ih _ _)

/-- the body loop: relative to the state after the `tbody_open` push, if the loop made it -/
theorem appW_body (codeOn : Bool) (terms : List BRule) (hin : ∀ t ∈ terms, SilentInert t) (ws : List Nat)
    (aligns : List String) (startLine endLine : Nat) :
    ∀ (fuel next : Nat) (s : BState) (r : Nat) (s' : BState), endLine < s.lines.length → startLine + 2 ≤ next →
      tableBody codeOn terms ws aligns startLine endLine fuel next s = .ok (r, s') →
      next ≤ r ∧ AppW (if next = startLine + 2 ∧ next < r then s.pushT "tbody_open" "tbody" 1 [] (some (startLine + 2, 0)) none "" else s) s' := by
  intro fuel
  induction fuel with
  | zero => intro next s r s' _ _ h; simp [tableBody] at h
  | succ n ih =>
    intro next s r s' hlen hge h
    have stop : ∀ {r s'}, (Except.ok (next, s) : Except PyErr (Nat × BState)) = .ok (r, s') →
        next ≤ r ∧ AppW (if next = startLine + 2 ∧ next < r then s.pushT "tbody_open" "tbody" 1 [] (some (startLine + 2, 0)) none "" else s) s' := by
      intro r s' h; cases h
      exact ⟨Nat.le_refl _, by rw [if_neg (by omega)]; exact appW_refl _⟩
    simp only [tableBody] at h
    split at h
    · rename_i hlt
      obtain ⟨l, hg, _⟩ := getL_ok s next (by omega)
      simp only [hg] at h
      split at h
      · exact stop h
      · obtain ⟨b, hb⟩ := runTerminators_inert terms hin s next endLine (by omega)
        simp only [hb] at h
        cases b with
        | true => exact stop h
        | false =>
          simp only [hg] at h
          split at h
          · exact stop h
          · split at h
            · exact stop h
            · obtain ⟨hr, hrest⟩ := ih _ _ _ _ (by
                  rw [pushT_lines, (pushCells_same _ _ _ _ _ _ _ _ _).1.1, pushT_lines]
                  split <;> simpa using hlen) (by omega) h
              rw [if_neg (by omega)] at hrest
              refine ⟨by omega, ?_⟩
              have hrow : ∀ s2 : BState, AppW s2 ((pushCells ws "td_open" "td_close" "td" next (popEnds (escSplitGo (pyStrip ws l.body) false []))
                  aligns 0 (s2.pushT "tr_open" "tr" 1 [] (some (next, next + 1)) none "")).pushT "tr_close" "tr" (-1) [] none none "") :=
                fun s2 => appW_wrap s2 _ _ _ _ _ _ _ _ _ _ _ _ _ (appW_cells ws _ _ _ _ _ _ _ _)
              by_cases hq : next = startLine + 2
              · rw [if_pos ⟨hq, by omega⟩]
                have hb2 : (next == startLine + 2) = true := by simpa using hq
                simp only [hb2, if_true] at hrest
                exact appW_trans (hrow _) hrest
              · rw [if_neg (fun h => hq h.1)]
                have hb2 : (next == startLine + 2) = false := by simpa using hq
                simp only [hb2, Bool.false_eq_true, if_false] at hrest
                exact appW_trans (hrow _) hrest
    · exact stop h

theorem wellSeg_modify (f : Tok → Tok) (hn : ∀ t, (f t).nesting = t.nesting) (hl : ∀ t, (f t).level = t.level) :
    ∀ (ts : List Tok) (j : Nat) (d : Int), (levelsOK d (ts.modify j f) ↔ levelsOK d ts) ∧ depthAfter d (ts.modify j f) = depthAfter d ts := by
  intro ts
  induction ts with
  | nil => intro j d; simp
  | cons t rest ih =>
    intro j d
    cases j with
    | zero => simp [List.modify_zero_cons, levelsOK, depthAfter, hn, hl]
    | succ k =>
      simp only [List.modify_succ_cons, levelsOK, depthAfter]
      exact ⟨by rw [(ih k _).1], (ih k _).2⟩

theorem wellSeg_setMap (lvl : Int) (seg : List Tok) (j : Nat) (m : Option (Nat × Nat)) (h : WellSeg lvl seg) :
    WellSeg lvl (seg.modify j (fun t => t.setMap m)) := by
  have hn : ∀ t : Tok, (t.setMap m).nesting = t.nesting := by intro t; cases t; rfl
  have hl : ∀ t : Tok, (t.setMap m).level = t.level := by intro t; cases t; rfl
  obtain ⟨h1, h2, h3⟩ := h
  exact ⟨(wellSeg_modify _ hn hl seg j lvl).1.2 h1, by rw [(wellSeg_modify _ hn hl seg j lvl).2]; exact h2,
    by rw [C02f.balanced_modify_same _ hn]; exact h3⟩

theorem fixupsW (lvl : Int) (a seg : List Tok) (n2 i2 : Nat) (hn : n2 = a.length + i2) (m1 m2 : Option (Nat × Nat)) (b : Bool)
    (h : WellSeg lvl seg) :
    ∃ seg', (if b = true then ((a ++ seg).modify a.length (fun t => t.setMap m1)).modify n2 (fun t => t.setMap m2)
        else (a ++ seg).modify a.length (fun t => t.setMap m1)) = a ++ seg' ∧ WellSeg lvl seg' := by
  have e1 := modify_append_right' a seg 0 (fun t => t.setMap m1)
  rw [Nat.add_zero] at e1
  cases b with
  | false => exact ⟨_, by simp [e1], wellSeg_setMap lvl seg 0 m1 h⟩
  | true =>
    refine ⟨_, by simp only [if_true]; rw [e1, hn, modify_append_right'], wellSeg_setMap lvl _ i2 m2 (wellSeg_setMap lvl seg 0 m1 h)⟩

/-- a match of the table rule appends a well-formed segment at the entry level -/
theorem table_appendsW (codeOn : Bool) (terms : List BRule) (hin : ∀ t ∈ terms, SilentInert t) (ws : List Nat) (s : BState) (line endLine : Nat)
    (hlen : endLine < s.lines.length) (s' : BState) (h : ruleTable codeOn terms ws s line endLine false = .ok (true, s')) :
    ∃ seg, s'.tokens = s.tokens ++ seg ∧ WellSeg s.level seg := by
  unfold ruleTable at h
  split at h
  · cases h
  · cases h
  · rename_i aligns cols _
    simp only [Bool.false_eq_true, if_false] at h
    split at h
    · cases h
    · rename_i next s7 hb
      cases h
      -- header
      have hhead : AppW (({ s with parentType := "table" }).pushT "table_open" "table" 1 [] (some (line, 0)) none "")
          (((pushCells ws "th_open" "th_close" "th" line cols aligns 0 (((({ s with parentType := "table" }).pushT "table_open" "table" 1 []
            (some (line, 0)) none "").pushT "thead_open" "thead" 1 [] (some (line, line + 1)) none "").pushT "tr_open" "tr" 1 []
            (some (line, line + 1)) none "")).pushT "tr_close" "tr" (-1) [] none none "").pushT "thead_close" "thead" (-1) [] none none "") :=
        appW_wrap _ _ _ _ _ _ _ _ _ _ _ _ _ _ (appW_wrap _ _ _ _ _ _ _ _ _ _ _ _ _ _ (appW_cells ws _ _ _ _ _ _ _ _))
      obtain ⟨hr, hbody⟩ := appW_body codeOn terms hin ws aligns line endLine _ _ _ _ _
        (by rw [pushT_lines, pushT_lines, (pushCells_same _ _ _ _ _ _ _ _ _).1.1]; exact hlen) (Nat.le_refl _) hb
      have h8 : AppW (({ s with parentType := "table" }).pushT "table_open" "table" 1 [] (some (line, 0)) none "")
          (if decide (next > line + 2) = true then s7.pushT "tbody_close" "tbody" (-1) [] none none "" else s7) := by
        by_cases hq : next > line + 2
        · rw [if_pos (by simpa using hq)]
          rw [if_pos ⟨rfl, by omega⟩] at hbody
          exact appW_trans hhead (appW_wrap _ _ _ _ _ _ _ _ _ _ _ _ _ _ hbody)
        · rw [if_neg (by simpa using hq)]
          rw [if_neg (fun h => hq (by omega))] at hbody
          exact appW_trans hhead hbody
      have h9 : AppW { s with parentType := "table" } ((if decide (next > line + 2) = true then s7.pushT "tbody_close" "tbody" (-1) [] none none "" else s7).pushT
          "table_close" "table" (-1) [] none none "") := appW_wrap _ _ _ _ _ _ _ _ _ _ _ _ _ _ h8
      have h9' : AppW s ((if decide (next > line + 2) = true then s7.pushT "tbody_close" "tbody" (-1) [] none none "" else s7).pushT
          "table_close" "table" (-1) [] none none "") := h9
      obtain ⟨g9, e9, w9, _⟩ := h9'
      obtain ⟨mid6, em6, _, _⟩ := hhead
      have em6' := em6.trans (show _ = s.tokens ++ ([tokT { s with parentType := "table" } "table_open" "table" 1 [] (some (line, 0)) none ""] ++ mid6)
        from by rw [pushT_tokens, List.append_assoc])
      obtain ⟨seg', he, hw⟩ := fixupsW s.level s.tokens g9 (s.tokens.length + ([tokT { s with parentType := "table" } "table_open" "table" 1 []
        (some (line, 0)) none ""] ++ mid6).length) _ rfl (some (line, next)) (some (line + 2, next)) (decide (next > line + 2)) w9
      refine ⟨seg', ?_, hw⟩
      rw [← he, ← e9]
      simp only [em6', List.length_append]
      try rfl

theorem segOK_table (P : BState → Nat → Prop) (codeOn : Bool) (terms : List BRule) (hin : ∀ t ∈ terms, SilentInert t) (ws : List Nat) :
    SegOK P WellSegS (ruleTable codeOn terms ws) := by
  refine ⟨?_, ?_⟩
  · intro s line endLine s' hc h
    exact table_appendsW codeOn terms hin ws s line endLine (by have := hc.len; have := hc.le; omega) s' h
  · intro s line endLine s' hc h
    rw [table_miss_pure _ _ _ _ _ _ _ _ h]

theorem segOK_paragraphE (P : BState → Nat → Prop) (terms : List BRule) (hin : ∀ t ∈ terms, SilentInertE t) (ws : List Nat) :
    SegOK P WellSegS (ruleParagraph terms ws) := by
  refine ⟨?_, ?_⟩
  · intro s line endLine s' hc h
    obtain ⟨n, c, h1, h2, h'⟩ := paragraph_shapeE P terms hin ws s line endLine hc
    rw [h'] at h; cases h
    exact three_push' (s0 := { s with parentType := "paragraph", line := n })
  · intro s line endLine s' hc h
    obtain ⟨n, c, h1, h2, h'⟩ := paragraph_shapeE P terms hin ws s line endLine hc
    rw [h'] at h; cases h

theorem segOK_lheadingE (P : BState → Nat → Prop) (codeOn : Bool) (terms : List BRule) (hin : ∀ t ∈ terms, SilentInertE t) (ws : List Nat) :
    SegOK P WellSegS (ruleLheading codeOn terms ws) := by
  refine ⟨?_, ?_⟩
  · intro s line endLine s' hc h
    rcases lheading_shapeE P codeOn terms hin ws s line endLine hc with h' | h' | ⟨next, tag, mk, c, h1, h2, h'⟩
    · rw [h'] at h; cases h
    · rw [h'] at h; cases h
    · rw [h'] at h; cases h
      exact three_push' (s0 := { s with parentType := "paragraph", line := next + 1 })
  · intro s line endLine s' hc h
    rcases lheading_shapeE P codeOn terms hin ws s line endLine hc with h' | h' | ⟨next, tag, mk, c, h1, h2, h'⟩
    · rw [h'] at h; cases h; rfl
    · rw [h'] at h; cases h; rfl
    · rw [h'] at h; cases h

theorem wellSeg_tLeaves (c : TCfg) (ws : List Nat) (mn : Int) (P : BState → Nat → Prop) :
    ∀ r ∈ tLeaves c ws mn, SegOK P WellSegS r := by
  intro r hr
  have hpara := tParaTerms_inertE c ws mn
  simp only [tLeaves, List.mem_append, List.mem_singleton] at hr
  rcases hr with ((((((hr | hr) | hr) | hr) | hr) | hr) | hr) | hr
  · split at hr
    · simp at hr; subst hr; exact segOK_table _ _ _ (mTerminators_inert c.toMCfg ws mn) ws
    · cases hr
  · split at hr
    · simp at hr; subst hr; exact segOK_code _ _
    · cases hr
  · split at hr
    · simp at hr; subst hr; exact segOK_fence _ _
    · cases hr
  · split at hr
    · simp at hr; subst hr; exact segOK_hr _ _
    · cases hr
  · split at hr
    · simp at hr; subst hr; exact segOK_htmlBlock _ _ _
    · cases hr
  · split at hr
    · simp at hr; subst hr; exact segOK_heading _ _ _
    · cases hr
  · split at hr
    · simp at hr; subst hr; exact segOK_lheadingE _ _ _ hpara ws
    · cases hr
  · subst hr; exact segOK_paragraphE _ _ hpara ws

/-- **C02.t_wellformed** — ten of the eleven block rules, the `table` rule included, containers nested in each other to any depth: for
every source, rule subset, `html` option and `maxNesting`, the block stream is levelled from 0, ends at depth 0, is balanced, and
`SyntaxTreeNode(tokens)` builds -/
theorem t_wellformed (ext : IExt) (lx : LExt) (c : TCfg) (hnr : c.reference = false) (ws : List Nat) (maxNesting : Int) (src : List Char)
    (st : BState) (h : tParse ext lx c ws maxNesting src = .ok st) :
    levelsOK 0 st.tokens ∧ depthAfter 0 st.tokens = 0 ∧ balancedFrom 0 st.tokens = true ∧ ∃ f, buildTree st.tokens = .ok f := by
  obtain ⟨segs, hts, hS⟩ := tParse_segs WellSegS wellSegS_wrap wellSegS_listWrap ext lx c hnr ws maxNesting
    (fun P => wellSeg_tLeaves c ws maxNesting P) src st h
  have key : WellSeg 0 st.tokens := by rw [hts]; exact wellSegs_flatten 0 segs hS
  exact ⟨key.1, key.2.1, key.2.2, tree_of_balanced st.tokens key.2.2⟩

/-! non-vacuity: see the kernel-evaluated table parse in `Props/C01l.lean` (33 tokens, `tbody` present, the table ended by a quote) -/

end MdIt.C02
