import MdIt.Cost
import MdIt.Props.C01
/-!
# C20 — work grows at most linearly on adversarial inputs (guards hold)

The guard mechanisms, proved; the global bound "total work ≤ c·|src| on every family" is *not* proved
(`Statement` below) and is decided empirically on the implementation.
-/
namespace MdIt.C20

/-- what is not proved: for every family and size, rule and helper invocations are bounded by a
constant times the input length (decided by measurement; known finding D9 is a counter-example for
runs of reference definitions) -/
def Statement (calls : List Char → Nat) : Prop := ∃ c, ∀ src, calls src ≤ c * (src.length + 1)

/-- **C20.depth (block)** — at `level ≥ maxNesting` the block loop dispatches no rule: it jumps to
the end of its range, pushing nothing (nesting beyond the limit is cut, not recursed into) -/
theorem depth_guard_block (rules : List BRule) (maxNesting : Int) (endLine fuel line : Nat) (he : Bool) (s : BState)
    (hl : s.level ≥ maxNesting) (hlt : line < endLine) :
    (∃ s', blockLoop rules maxNesting endLine (fuel + 1) line he s = .ok s' ∧ s'.tokens = s.tokens)
    ∨ blockLoop rules maxNesting endLine (fuel + 1) line he s = .error .indexError := by
  simp only [blockLoop, hlt, if_true]
  split
  · exact Or.inl ⟨_, rfl, rfl⟩
  · split
    · exact Or.inr rfl
    · split
      · exact Or.inl ⟨_, rfl, rfl⟩
      · exact Or.inl ⟨_, rfl, rfl⟩

/-- **C20.depth (inline)** — at `level ≥ maxNesting` the inline loop runs no rule: every character
goes to the pending text, one step per character -/
theorem depth_guard_inline (rules : List IRule) (maxNesting : Int) (end_ : Nat) :
    ∀ (fuel : Nat) (s : IState), s.level ≥ maxNesting → end_ ≤ s.src.length → end_ - s.pos < fuel →
      ∃ s', tokenizeLoop rules maxNesting end_ fuel false s = .ok s' ∧ s'.tokens = s.tokens
        ∧ s'.pending = s.pending ++ (s.src.take end_).drop s.pos := by
  intro fuel
  induction fuel with
  | zero => intro s _ _ hf; omega
  | succ n ih =>
    intro s hl hend hf
    simp only [tokenizeLoop]
    split
    · rename_i hlt
      have hnl : ¬ (s.level < maxNesting) := by omega
      simp only [hnl, if_false, Bool.false_eq_true]
      have hin : s.pos < s.src.length := by omega
      rw [List.getElem?_eq_getElem hin]
      simp only
      obtain ⟨s', h1, h2, h3⟩ := ih { s with pending := s.pending ++ [s.src[s.pos]], pos := s.pos + 1 } hl
        (by simpa using hend) (by simp; omega)
      refine ⟨s', h1, h2, ?_⟩
      rw [h3]
      simp only [List.append_assoc]
      congr 1
      have : (s.src.take end_).drop s.pos = s.src[s.pos] :: (s.src.take end_).drop (s.pos + 1) := by
        have hlt2 : s.pos < (s.src.take end_).length := by simp; omega
        rw [List.drop_eq_getElem_cons hlt2]
        congr 1
        simp
      rw [this]; rfl
    · rename_i hge
      refine ⟨s, rfl, rfl, ?_⟩
      have : (s.src.take end_).drop s.pos = [] := by
        apply List.drop_eq_nil_of_le
        simp; omega
      rw [this]; simp

/-- **C20.block_linear** — the number of rule-chain dispatches of one block loop is at most the
number of lines of its range, whenever the loop returns (each dispatch consumes at least one line —
a dispatch that does not is the `noProgress` outcome, excluded by C01.block_total under the contracts) -/
theorem block_dispatch_bound (rules : List BRule) (maxNesting : Int) (endLine : Nat) :
    ∀ (fuel line : Nat) (he : Bool) (s : BState) (k : Nat) (s' : BState) (k' : Nat),
      blockLoopC rules maxNesting endLine fuel line he s k = .ok (s', k') → k' + line ≤ k + max line endLine := by
  intro fuel
  induction fuel with
  | zero =>
    intro line he s k s' k' h
    simp only [blockLoopC] at h
    split at h
    · cases h
    · simp only [Except.ok.injEq, Prod.mk.injEq] at h; omega
  | succ n ih =>
    intro line he s k s' k' h
    simp only [blockLoopC] at h
    split at h
    · rename_i hlt
      split at h
      · simp only [Except.ok.injEq, Prod.mk.injEq] at h; omega
      · split at h
        · cases h
        · split at h
          · simp only [Except.ok.injEq, Prod.mk.injEq] at h; omega
          · split at h
            · simp only [Except.ok.injEq, Prod.mk.injEq] at h; omega
            · split at h
              · cases h
              · rename_i mm s2 hc
                split at h
                · cases h
                · rename_i hnle
                  have hprog : line < s2.line := by
                    have : skipEmptyLines s (s.lineMax + 1) line < s2.line := by omega
                    have hmono : line ≤ skipEmptyLines s (s.lineMax + 1) line := by
                      have : ∀ f from_, from_ ≤ skipEmptyLines s f from_ := by
                        intro f
                        induction f with
                        | zero => intro from_; exact Nat.le_refl _
                        | succ m ihm =>
                          intro from_
                          simp only [skipEmptyLines]
                          split
                          · split
                            · split
                              · exact Nat.le_trans (Nat.le_succ _) (ihm _)
                              · exact Nat.le_refl _
                            · exact Nat.le_trans (Nat.le_succ _) (ihm _)
                          · exact Nat.le_refl _
                      exact this _ _
                    omega
                  split at h
                  · cases h
                  · split at h
                    · split at h
                      · cases h
                      · split at h
                        · have := ih _ _ _ _ _ _ h; omega
                        · have := ih _ _ _ _ _ _ h; omega
                    · have := ih _ _ _ _ _ _ h; omega
    · simp only [Except.ok.injEq, Prod.mk.injEq] at h; omega

/-- hence: from `startLine`, at most `endLine - startLine` dispatches -/
theorem block_dispatch_linear (rules : List BRule) (maxNesting : Int)
    (s s' : BState) (startLine endLine fuel k' : Nat)
    (h : blockLoopC rules maxNesting endLine fuel startLine false s 0 = .ok (s', k')) :
    k' ≤ endLine - startLine := by
  have := block_dispatch_bound rules maxNesting endLine fuel startLine false s 0 s' k' h
  omega

/-- **C20.skip_memo** — `skipToken` evaluates the rule chain at most once per start position: after
any sequence of calls, the number of evaluations equals the number of cached positions, the cached
positions are distinct, and every one of them was asked for -/
theorem skip_memo (eval : Nat → Nat) (ps : List Nat) :
    let st := skipMany eval ⟨[], 0, 0⟩ ps
    st.evals = st.cache.length ∧ (st.cache.map (·.1)).Nodup ∧ (∀ p ∈ st.cache.map (·.1), p ∈ ps)
      ∧ st.evals + st.hits = ps.length := by
  have key : ∀ (ps : List Nat) (st : SkipState), st.evals = st.cache.length → (st.cache.map (·.1)).Nodup →
      (skipMany eval st ps).evals = (skipMany eval st ps).cache.length ∧ ((skipMany eval st ps).cache.map (·.1)).Nodup
      ∧ (∀ p ∈ (skipMany eval st ps).cache.map (·.1), p ∈ st.cache.map (·.1) ∨ p ∈ ps)
      ∧ (skipMany eval st ps).evals + (skipMany eval st ps).hits = st.evals + st.hits + ps.length := by
    intro ps
    induction ps with
    | nil => intro st h1 h2; exact ⟨h1, h2, fun p hp => Or.inl hp, by simp [skipMany]⟩
    | cons q qs ih =>
      intro st h1 h2
      simp only [skipMany, skipTokenC]
      cases hf : st.cache.find? (·.1 == q) with
      | some p =>
        simp only
        obtain ⟨a, b, c, d⟩ := ih { st with hits := st.hits + 1 } h1 h2
        refine ⟨a, b, ?_, by simp at d ⊢; omega⟩
        intro x hx
        rcases c x hx with h | h
        · exact Or.inl h
        · exact Or.inr (by simp [h])
      | none =>
        simp only
        have hnew : q ∉ st.cache.map (·.1) := by
          rw [List.find?_eq_none] at hf
          intro hm
          simp only [List.mem_map] at hm
          obtain ⟨p, hp, hpq⟩ := hm
          exact hf p hp (by simp [hpq])
        obtain ⟨a, b, c, d⟩ := ih { st with cache := st.cache ++ [(q, eval q)], evals := st.evals + 1 }
          (by simp [h1]) (by
            simp only [List.map_append, List.map_cons, List.map_nil]
            rw [List.nodup_append]
            exact ⟨h2, by simp, by intro x hx y hy; simp at hy; subst hy; exact fun e => hnew (e ▸ hx)⟩)
        refine ⟨a, b, ?_, by simp at d ⊢; omega⟩
        intro x hx
        rcases c x hx with h | h
        · simp only [List.map_append, List.map_cons, List.map_nil, List.mem_append, List.mem_singleton] at h
          rcases h with h | h
          · exact Or.inl h
          · exact Or.inr (by simp [h])
        · exact Or.inr (by simp [h])
  intro st
  obtain ⟨a, b, c, d⟩ := key ps ⟨[], 0, 0⟩ rfl (by simp)
  exact ⟨a, b, fun p hp => (c p hp).resolve_left (by simp), by simpa using d⟩

/-- in particular at most one evaluation per distinct position asked for -/
theorem skip_evals_le (eval : Nat → Nat) (ps : List Nat) (posMax : Nat) (h : ∀ p ∈ ps, p < posMax) :
    (skipMany eval ⟨[], 0, 0⟩ ps).evals ≤ posMax := by
  obtain ⟨h1, h2, h3, _⟩ := skip_memo eval ps
  rw [h1]
  have hsub : ∀ p ∈ (skipMany eval ⟨[], 0, 0⟩ ps).cache.map (·.1), p ∈ List.range posMax := by
    intro p hp; simp [h p (h3 p hp)]
  have := List.Nodup.length_le_of_subset h2 hsub
  simpa using this

end MdIt.C20
