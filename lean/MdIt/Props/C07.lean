import MdIt.Props.C01
import MdIt.Props.C03
/-!
# C07 — top-level blocks are parsed independently: documents compose by concatenation

Engine level: no indentation bookkeeping or nesting level can leak from one block into the next —
whatever the rules do inside, the loop hands every following dispatch the line tables, `lineMax`,
`blkIndent` and `level` it started with (`frame`), and blocks are dispatched at strictly increasing
lines with disjoint line ranges (`stages`, from C03).  The fields that are *not* restored
(`parentType`, `tight`) are written by the loop/rules before they are read; that they are never
read stale is checked by the tie (state traces) and the oracle, not proved.
-/
namespace MdIt.C07

/-- **C07.frame** — under the rule contracts the whole loop (any number of blocks, containers
included) returns with the frame fields of its entry state -/
theorem frame (P : BState → Nat → Prop) (hP : FrameClosed P) (rules : List BRule) (hok : ∀ r ∈ rules, RuleOK P r)
    (hlast : ∃ r ∈ rules, AlwaysMatches P r)
    (maxNesting : Int) (s : BState) (startLine endLine : Nat) (hlen : s.lineMax + 1 ≤ s.lines.length)
    (hend : endLine ≤ s.lineMax) (hPs : P s endLine) :
    ∃ s', blockTokenize rules maxNesting s startLine endLine = .ok s' ∧ s'.lines = s.lines ∧ s'.lineMax = s.lineMax
      ∧ s'.blkIndent = s.blkIndent ∧ s'.level = s.level := by
  obtain ⟨s', h, hf⟩ := C01.block_tokenize_total P hP rules hok hlast maxNesting s startLine endLine hlen hend hPs
  exact ⟨s', h, hf.1.1, hf.2.1, hf.2.2.1, hf.2.2.2⟩

/-- **C07.stages** — the blocks of a document are emitted in stages with increasing, disjoint line
ranges (C03.loop_maps_staged): the tokens of a later block never reach back into the lines of an
earlier one -/
theorem stages (P : BState → Nat → Prop) (hP : FrameClosed P) (rules : List BRule) (hok : ∀ r ∈ rules, RuleOK P r)
    (hmap : ∀ r ∈ rules, C03.MapOK P r)
    (maxNesting : Int) (s s' : BState) (startLine endLine : Nat) (hlen : s.lineMax + 1 ≤ s.lines.length)
    (hend : endLine ≤ s.lineMax) (hPs : P s endLine) (h : blockTokenize rules maxNesting s startLine endLine = .ok s') :
    ∃ new, s'.tokens = s.tokens ++ new ∧ C03.Staged startLine s.lineMax new :=
  C03.loop_maps_staged P hP rules hok hmap maxNesting endLine _ startLine false s s' hlen hend hPs h

/-- **C07.pins_cover** (T1 obligation over tables regenerated from the rule sources) — every block rule
that runs a terminator chain assigns `state.parentType` a literal of its own while it does so: no
silent call reads a `parentType` left behind by an earlier block (the monitor checks on every real
silent call that the value seen is the caller's pin) -/
theorem pins_cover : ∀ r ∈ Gen.terminatorCallers, (Gen.blockPins.lookup r).isSome = true := by decide

/-- **C07.pins_paragraph** — the value `"paragraph"` (the only one a rule tests for: the list rule's
may-not-interrupt-a-paragraph clause) is pinned exactly by the paragraph and lheading rules -/
theorem pins_paragraph : ∀ p ∈ Gen.blockPins, (p.2 = "paragraph") = (p.1 = "paragraph" ∨ p.1 = "lheading") := by decide

end MdIt.C07
