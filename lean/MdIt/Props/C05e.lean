import MdIt.Pipeline
import MdIt.Props.C05d
import MdIt.Props.C10f
import MdIt.Props.C01k
/-!
# C05 (continued) — end to end: every `href` / `src` in the output of `MarkdownIt.parse` (modelled sub-language) is acceptable

`image_hrefs` speaks about one run of the inline parser.  Here it is carried through the core chain: the block parse yields tokens of
the block vocabulary only (`C10.m_provenance`), the `inline` core rule hangs the inline parser's tokens under every `inline` token,
and `text_join` — a recursion over the nested token type that retypes `text_special`, merges adjacent `text` tokens and descends into
image descriptions — keeps every token's type and attributes (`joinToks_deep`, by the functional induction principle of the three
mutually recursive functions).  **`full_hrefs`**: in the result of the whole parse every top-level token has a block type, and below
every `inline` token, to any depth, a `link_open` carries an `href` and an `image` a `src` that is empty or URL-safe ASCII with no
dangerous scheme as a browser reads it.
-/
namespace MdIt.C05
open MdIt.C01 MdIt.C10

/-- what `text_join` may do to a token without leaving the predicate: new content, `text_special` becomes `text`, new children -/
structure JoinClosed (N : Tok → Prop) : Prop where
  setContent : ∀ t c, N t → N (t.setContent c)
  setChildren : ∀ t cs, N t → N (t.setChildren cs)
  retype : ∀ tag n a m l c co mu i md b h, N (.mk "text_special" tag n a m l c co mu i md b h) → N (.mk "text" tag n a m l c co mu i md b h)

theorem descList_append (x : Tok) (a b : List Tok) : x ∈ descList (a ++ b) ↔ x ∈ descList a ∨ x ∈ descList b := by
  simp only [mem_descList, List.mem_append]
  constructor
  · rintro ⟨t, ht | ht, h⟩
    · exact .inl ⟨t, ht, h⟩
    · exact .inr ⟨t, ht, h⟩
  · rintro (⟨t, ht, h⟩ | ⟨t, ht, h⟩)
    · exact ⟨t, .inl ht, h⟩
    · exact ⟨t, .inr ht, h⟩

theorem joinPush_deep {N : Tok → Prop} (hN : JoinClosed N) (acc : List Tok) (u : Tok) (hacc : ∀ x ∈ descList acc, N x) (hu : Deep N u) :
    ∀ x ∈ descList (joinPush acc u), N x := by
  have happ : ∀ x ∈ descList (acc ++ [u]), N x := by
    intro x hx
    rw [descList_append] at hx
    rcases hx with hx | hx
    · exact hacc x hx
    · rw [mem_descList] at hx
      obtain ⟨t, ht, h⟩ := hx
      simp only [List.mem_singleton] at ht; subst ht
      rcases h with rfl | h
      · exact hu.1
      · exact hu.2 x h
  unfold joinPush
  split
  · rename_i last hlast
    split
    · intro x hx
      rw [descList_append] at hx
      rcases hx with hx | hx
      · rw [mem_descList] at hx
        obtain ⟨t, ht, h⟩ := hx
        exact hacc x ((mem_descList x acc).2 ⟨t, (List.dropLast_sublist acc).subset ht, h⟩)
      · rw [mem_descList] at hx
        obtain ⟨t, ht, h⟩ := hx
        simp only [List.mem_singleton] at ht; subst ht
        have hmem : last ∈ acc := List.mem_of_getLast? hlast
        rcases h with rfl | h
        · exact hN.setContent _ _ (hacc last ((mem_descList last acc).2 ⟨last, hmem, .inl rfl⟩))
        · rw [descendants_setContent] at h
          exact hacc x ((mem_descList x acc).2 ⟨last, hmem, .inr h⟩)
    · exact happ
  · exact happ

/-- `_join` keeps a deep predicate that is closed under what it does to single tokens -/
theorem joinToks_deep {N : Tok → Prop} (hN : JoinClosed N) :
    (∀ acc cs : List Tok, (∀ x ∈ descList acc, N x) → (∀ x ∈ descList cs, N x) → ∀ x ∈ descList (joinToks acc cs), N x)
    ∧ (∀ t : Tok, Deep N t → Deep N (joinOne t))
    ∧ (∀ c : Option (List Tok), (∀ x ∈ descOpt c, N x) → ∀ x ∈ descOpt (joinOpt c), N x) := by
  apply joinToks.mutual_induct
    (motive_1 := fun acc cs => (∀ x ∈ descList acc, N x) → (∀ x ∈ descList cs, N x) → ∀ x ∈ descList (joinToks acc cs), N x)
    (motive_2 := fun t => Deep N t → Deep N (joinOne t))
    (motive_3 := fun c => (∀ x ∈ descOpt c, N x) → ∀ x ∈ descOpt (joinOpt c), N x)
  · -- an image: children joined
    intro type tag n a m l c co mu i md b h ty' himg ih hd
    have hty : type ≠ "text_special" := by
      intro he; subst he
      simp only [ty'] at himg
      exact absurd himg (by decide)
    have e : (if (type == "text_special") = true then "text" else type) = type := by rw [if_neg]; simpa using hty
    have himg' : (type == "image") = true := by simp only [ty'] at himg; rw [e] at himg; exact himg
    have hj : joinOne (.mk type tag n a m l c co mu i md b h) = .mk type tag n a m l (joinOpt c) co mu i md b h := by
      simp only [joinOne, e, himg', if_true]
    rw [hj]
    refine ⟨hN.setChildren _ (joinOpt c) hd.1, ?_⟩
    intro x hx
    simp only [descendants] at hx
    exact ih (fun y hy => hd.2 y (by simpa only [descendants] using hy)) x hx
  · -- any other token: at most retyped
    intro type tag n a m l c co mu i md b h ty' himg hd
    have hj : joinOne (.mk type tag n a m l c co mu i md b h) = .mk ty' tag n a m l c co mu i md b h := by
      simp only [joinOne]
      exact if_neg himg
    rw [hj]
    refine ⟨?_, ?_⟩
    · by_cases he : type = "text_special"
      · subst he
        have : ty' = "text" := by simp only [ty']; rfl
        rw [this]
        exact hN.retype _ _ _ _ _ _ _ _ _ _ _ _ hd.1
      · have : ty' = type := by simp only [ty']; rw [if_neg]; simpa using he
        rw [this]; exact hd.1
    · intro x hx
      simp only [descendants] at hx
      exact hd.2 x (by simpa only [descendants] using hx)
  · intro h; simpa [joinOpt] using h
  · intro h; simpa [joinOpt] using h
  · intro c cs ih h
    simp only [joinOpt, descOpt]
    exact ih (by intro x hx; simp [descList] at hx) (by simpa only [descOpt] using h)
  · intro acc hacc _
    simpa [joinToks] using hacc
  · intro acc t rest iht ih hacc hcs
    simp only [joinToks]
    have hdt : Deep N t := by
      refine ⟨hcs t ((mem_descList t _).2 ⟨t, List.mem_cons_self, .inl rfl⟩), ?_⟩
      intro x hx
      exact hcs x ((mem_descList x _).2 ⟨t, List.mem_cons_self, .inr hx⟩)
    have hrest : ∀ x ∈ descList rest, N x := by
      intro x hx
      rw [mem_descList] at hx
      obtain ⟨u, hu, h⟩ := hx
      exact hcs x ((mem_descList x _).2 ⟨u, List.mem_cons_of_mem _ hu, h⟩)
    exact ih (joinPush_deep hN acc (joinOne t) hacc (iht hdt)) hrest

theorem utok_joinClosed (ext : IExt) (lx : LExt) : JoinClosed (UTok ext lx) := by
  refine ⟨?_, ?_, ?_⟩
  · intro t c h; cases t; simpa [UTok, LTok, Tok.setContent, Tok.type, Tok.attrs] using h
  · intro t cs h; cases t; simpa [UTok, LTok, Tok.setChildren, Tok.type, Tok.attrs] using h
  · intro tag n a m l c co mu i md b h _
    exact utok_other _ _ _ (by simp [Tok.type]) (by simp [Tok.type])

/-- what the output of the whole parse looks like below its `inline` tokens -/
def InlineDeep (N : Tok → Prop) (t : Tok) : Prop := t.type = "inline" → ∀ x ∈ descOpt t.children, N x

theorem coreInline_deep {N : Tok → Prop} (A : List String) (parse : List Char → Except PyErr (List Tok))
    (hparse : ∀ c cs, parse c = .ok cs → ∀ x ∈ descList cs, N x) :
    ∀ (bts ts : List Tok), (∀ b ∈ bts, b.type ∈ A) → coreInline parse bts = .ok ts → ∀ t ∈ ts, t.type ∈ A ∧ InlineDeep N t := by
  intro bts
  induction bts with
  | nil => intro ts _ h; simp only [coreInline, Except.ok.injEq] at h; subst h; intro t ht; cases ht
  | cons b rest ih =>
    intro ts hA h
    unfold coreInline at h
    have hrestA : ∀ b' ∈ rest, b'.type ∈ A := fun b' hb' => hA b' (List.mem_cons_of_mem _ hb')
    split at h
    · rename_i hinl
      cases hp : parse b.content.toList with
      | error e => rw [hp] at h; cases h
      | ok cs =>
        rw [hp] at h
        simp only at h
        cases hr : coreInline parse rest with
        | error e => rw [hr] at h; cases h
        | ok r =>
          rw [hr] at h
          simp only [Except.ok.injEq] at h
          subst h
          intro t ht
          rcases List.mem_cons.1 ht with rfl | ht
          · refine ⟨by have := hA b List.mem_cons_self; cases b; exact this, ?_⟩
            intro _ x hx
            have : (b.setChildren (some cs)).children = some cs := by cases b; rfl
            rw [this] at hx
            exact hparse _ cs hp x (by simpa only [descOpt] using hx)
          · exact ih r hrestA hr t ht
    · rename_i hinl
      cases hr : coreInline parse rest with
      | error e => rw [hr] at h; cases h
      | ok r =>
        rw [hr] at h
        simp only [Except.ok.injEq] at h
        subst h
        intro t ht
        rcases List.mem_cons.1 ht with rfl | ht
        · exact ⟨hA _ List.mem_cons_self, fun he => absurd (by rw [he]; rfl) hinl⟩
        · exact ih r hrestA hr t ht

theorem textJoin_deep {N : Tok → Prop} (hN : JoinClosed N) (A : List String) (ts : List Tok) (h : ∀ t ∈ ts, t.type ∈ A ∧ InlineDeep N t) :
    ∀ t ∈ textJoin ts, t.type ∈ A ∧ InlineDeep N t := by
  intro t ht
  unfold textJoin at ht
  rw [List.mem_map] at ht
  obtain ⟨u, hu, rfl⟩ := ht
  obtain ⟨hA, hD⟩ := h u hu
  split
  · rename_i hinl
    have hty : u.type = "inline" := by simpa using hinl
    refine ⟨by cases u; exact hA, ?_⟩
    intro _ x hx
    have : (u.setChildren (some (joinToks [] (u.children.getD [])))).children = some (joinToks [] (u.children.getD [])) := by cases u; rfl
    rw [this] at hx
    simp only [descOpt] at hx
    refine (joinToks_deep hN).1 [] (u.children.getD []) (by intro y hy; simp [descList] at hy) ?_ x hx
    intro y hy
    have := hD hty
    cases hc : u.children with
    | none => rw [hc] at hy; simp [descList] at hy
    | some cs => rw [hc] at hy this; exact this y (by simpa only [descOpt, Option.getD_some] using hy)
  · exact ⟨hA, hD⟩

/-- **C05.full_hrefs** — `MarkdownIt.parse` end to end on the modelled sub-language (nine of eleven block rules, eleven of twelve
inline rules, the core chain `normalize → block → inline → text_join`), with the `inline` core rule on: every top-level token has a type
of the block vocabulary of the configuration, and below every `inline` token — in its children and in every image description nested
in them, to any depth — a `link_open` carries an `href` and an `image` a `src` (the first attribute) that is empty or URL-safe ASCII
which a browser does not read as a dangerous scheme.  For every source, rule subsets, `html`, `maxNesting`, budget, classification,
external functions and every acceptable reference table. -/
theorem full_hrefs (cls : QCls) (ext : IExt) (lx : LExt) (hrefs : RefsOK lx) (bc : MCfg) (ic : ICfg) (hon : ic.inlineOn = true) (ws : List Nat)
    (mn : Int) (d : Nat) (src : List Char) (ts : List Tok) (h : fullParse cls ext lx bc ic ws mn d src = .ok ts) (t : Tok) (ht : t ∈ ts) :
    t.type ∈ mAllowed bc ∧ (t.type = "inline" → ∀ x ∈ descOpt t.children,
      (x.type = "link_open" → ∃ href : List Char, x.attrs.head? = some ("href", .s (String.ofList href)) ∧ DestOK href)
      ∧ (x.type = "image" → ∃ s : List Char, x.attrs.head? = some ("src", .s (String.ofList s)) ∧ DestOK s)) := by
  unfold fullParse at h
  cases hb : mParse bc ws mn src with
  | error e => rw [hb] at h; cases h
  | ok bts =>
    rw [hb] at h
    simp only [hon, if_true] at h
    cases hc : coreInline (inlineOf cls ext lx ic mn d) bts with
    | error e => rw [hc] at h; cases h
    | ok its =>
      rw [hc] at h
      simp only [Except.ok.injEq] at h
      have hprov := m_provenance bc ws mn src bts hb
      have hparse : ∀ c cs, inlineOf cls ext lx ic mn d c = .ok cs → ∀ x ∈ descList cs, UTok ext lx x := by
        intro c cs hp
        exact image_sources cls ext lx ic.text ic.newline ic.escape ic.backticks ic.strike ic.emphasis ic.link ic.image ic.autolink ic.htmlInline
          ic.entity ic.fragJoin mn d c cs hp
      have h1 := coreInline_deep (N := UTok ext lx) (mAllowed bc) _ hparse bts its hprov hc
      have h2 : ∀ t ∈ ts, t.type ∈ mAllowed bc ∧ InlineDeep (UTok ext lx) t := by
        subst h
        split
        · exact textJoin_deep (utok_joinClosed ext lx) _ _ h1
        · exact h1
      obtain ⟨hA, hD⟩ := h2 t ht
      refine ⟨hA, ?_⟩
      intro hty x hx
      obtain ⟨hl, hi⟩ := hD hty x hx
      constructor
      · intro hxt
        obtain ⟨href, ha, hsrc⟩ := hl hxt
        exact ⟨href, ha, destOK_of_src ext lx hrefs href hsrc⟩
      · intro hxt
        obtain ⟨s, ha, hsrc⟩ := hi hxt
        exact ⟨s, ha, destOK_of_src ext lx hrefs s hsrc⟩

end MdIt.C05

namespace MdIt.C05
open MdIt.C01

/-- `(type, first attribute)` of the link and image tokens below the `inline` tokens of a parse, in order -/
def fullDests (r : Except PyErr (List Tok)) : Option (List (String × Option (String × AttrVal))) :=
  match r with
  | .ok ts => some ((ts.flatMap (fun t => descOpt t.children)).filterMap
      (fun t => if t.type == "link_open" || t.type == "image" then some (t.type, t.attrs.head?) else none))
  | .error _ => none

/-! non-vacuity: a whole document — heading, list in a quote, paragraph — with accepted and rejected destinations at several depths -/
example : fullDests (fullParse C02f.asciiCls ext0 C01.lx0
      { code := true, fence := true, hr := true, heading := true, htmlBlock := true, lheading := true, html := false }
      { text := true, newline := true, escape := true, backticks := true, strike := false, emphasis := true, link := true, image := true,
        autolink := true, htmlInline := false, entity := false, fragJoin := true, inlineOn := true, textJoinOn := true }
      [32, 9, 10, 11, 12, 13] 20 40
      "# [h](/a)\n\n> - ![i ![j](/k)](/l)\n> - [x](javascript:y)\n\n<http://m.n> [z][r]\n".toList)
    = some [("link_open", some ("href", .s "/a")), ("image", some ("src", .s "/l")), ("image", some ("src", .s "/k")),
            ("link_open", some ("href", .s "http://m.n")), ("link_open", some ("href", .s "/ref"))] := by decide +kernel

end MdIt.C05
