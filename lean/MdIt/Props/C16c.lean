import MdIt.Props.C16b
/-!
# C16 / C05 — what the parse records in env is validated: an invariant of `env["references"]` through the whole block parse

Only the `reference` rule writes the two tables; every other rule, the loops, the terminator chains, the container rules with their
line-table rewriting and nested runs hand them on untouched.  No contract of the engine theorems is needed for that (it is a fact about
which fields a rule assigns), so it holds for the ten-rule chain `rChain` although its totality is not a theorem.
-/
namespace MdIt.C16
open MdIt.C01 MdIt.C05

/-- the part of the state the invariant reads -/
def RD (s : BState) : List (List Char × List Char × List Char) × List (List Char × List Char × List Char) := (s.refs, s.dups)

/-- the rule never assigns the two tables -/
def Untouched (r : BRule) : Prop := ∀ s line endLine silent m s', r s line endLine silent = .ok (m, s') → RD s' = RD s

/-- the rule keeps an invariant of the two tables -/
def Keeps (J : BState → Prop) (r : BRule) : Prop := ∀ s line endLine silent m s', J s → r s line endLine silent = .ok (m, s') → J s'

/-- `J` reads only the two tables -/
def OnTables (J : BState → Prop) : Prop := ∀ s s', RD s' = RD s → J s → J s'

theorem keeps_of_untouched {J : BState → Prop} (hJ : OnTables J) {r : BRule} (h : Untouched r) : Keeps J r :=
  fun s line endLine silent m s' hj hr => hJ s s' (h s line endLine silent m s' hr) hj

/-- a result that, if it is a state, has the tables of `s` -/
def OKRD (s : BState) (x : Except PyErr (Bool × BState)) : Prop := ∀ m s', x = .ok (m, s') → RD s' = RD s

theorem okrd_error (s : BState) (e : PyErr) : OKRD s (.error e) := fun _ _ h => by cases h
theorem okrd_ok (s : BState) (m : Bool) (s1 : BState) (h : RD s1 = RD s) : OKRD s (.ok (m, s1)) := fun _ _ he => by cases he; exact h

theorem untouched_of_okrd {r : BRule} (h : ∀ s l e sil, OKRD s (r s l e sil)) : Untouched r :=
  fun s l e sil m s' hr => h s l e sil m s' hr

/-- unfold, split every branch, close the leaves -/
macro "okrd_leaves" : tactic => `(tactic| (repeat' split) <;> first | exact okrd_error _ _ | exact okrd_ok _ _ _ rfl)

theorem untouched_hr (codeOn : Bool) : Untouched (ruleHr codeOn) := by
  apply untouched_of_okrd; intro s l e sil
  simp only [ruleHr]
  okrd_leaves

theorem untouched_heading (codeOn : Bool) (ws : List Nat) : Untouched (ruleHeading codeOn ws) := by
  apply untouched_of_okrd; intro s l e sil
  simp only [ruleHeading]
  okrd_leaves

theorem untouched_code (codeOn : Bool) : Untouched (ruleCode codeOn) := by
  apply untouched_of_okrd; intro s l e sil
  simp only [ruleCode]
  okrd_leaves

theorem untouched_fence (codeOn : Bool) : Untouched (ruleFence codeOn) := by
  apply untouched_of_okrd; intro s l e sil
  simp only [ruleFence]
  okrd_leaves

theorem untouched_htmlBlock (codeOn htmlOn : Bool) : Untouched (ruleHtmlBlock codeOn htmlOn) := by
  apply untouched_of_okrd; intro s l e sil
  simp only [ruleHtmlBlock]
  okrd_leaves


/-! ### invariants through the stateful parts -/

/-- a result that, if it is a value, carries a state satisfying `J` -/
def OKW {α : Type} (f : α → BState) (J : BState → Prop) (x : Except PyErr α) : Prop := ∀ a, x = .ok a → J (f a)

theorem okw_error {α : Type} (f : α → BState) (J : BState → Prop) (e : PyErr) : OKW f J (.error e) := fun _ h => by cases h
theorem okw_ok {α : Type} (f : α → BState) (J : BState → Prop) (a : α) (h : J (f a)) : OKW f J (.ok a) := fun _ he => by cases he; exact h

variable {J : BState → Prop}

theorem runTerminators_keeps (hts : ∀ t ∈ ts, Keeps J t) : ∀ (s : BState) (line endLine : Nat), J s →
    OKW (·.2) J (runTerminators ts s line endLine) := by
  induction ts with
  | nil => intro s line endLine hj; exact okw_ok _ _ _ hj
  | cons t rest ih =>
    intro s line endLine hj
    simp only [runTerminators]
    split
    · exact okw_error _ _ _
    · rename_i s' heq; exact okw_ok _ _ _ (hts t List.mem_cons_self s line endLine true true s' hj heq)
    · rename_i s' heq
      exact ih (fun t' ht' => hts t' (List.mem_cons_of_mem _ ht')) s' line endLine (hts t List.mem_cons_self s line endLine true false s' hj heq)

theorem runBlockChain_keeps (hrs : ∀ r ∈ rs, Keeps J r) : ∀ (s : BState) (line endLine : Nat), J s →
    OKW (·.2) J (runBlockChain rs s line endLine) := by
  induction rs with
  | nil => intro s line endLine hj; exact okw_ok _ _ _ hj
  | cons r rest ih =>
    intro s line endLine hj
    simp only [runBlockChain]
    split
    · exact okw_error _ _ _
    · rename_i s' heq; exact okw_ok _ _ _ (hrs r List.mem_cons_self s line endLine false true s' hj heq)
    · rename_i s' heq
      exact ih (fun r' hr' => hrs r' (List.mem_cons_of_mem _ hr')) s' line endLine (hrs r List.mem_cons_self s line endLine false false s' hj heq)

theorem paraScan_keeps (hJ : OnTables J) (hts : ∀ t ∈ terms, Keeps J t) (endLine : Nat) : ∀ (fuel next : Nat) (s : BState), J s →
    OKW (·.2) J (paraScan terms endLine fuel next s) := by
  intro fuel
  induction fuel with
  | zero => intro next s _; simp only [paraScan]; exact okw_error _ _ _
  | succ n ih =>
    intro next s hj
    simp only [paraScan]
    repeat' split
    all_goals first
      | exact okw_error _ _ _
      | exact okw_ok _ _ _ hj
      | exact ih _ _ hj
      | (rename_i s' heq; first
          | exact okw_ok _ _ _ (runTerminators_keeps hts s _ _ hj _ heq)
          | exact ih _ _ (runTerminators_keeps hts s _ _ hj _ heq))

theorem lheadScan_keeps (hJ : OnTables J) (hts : ∀ t ∈ terms, Keeps J t) (endLine : Nat) : ∀ (fuel next : Nat) (s : BState), J s →
    OKW (·.2.2) J (lheadScan terms endLine fuel next s) := by
  intro fuel
  induction fuel with
  | zero => intro next s _; simp only [lheadScan]; exact okw_error _ _ _
  | succ n ih =>
    intro next s hj
    simp only [lheadScan]
    repeat' split
    all_goals first
      | exact okw_error _ _ _
      | exact okw_ok _ _ _ hj
      | exact ih _ _ hj
      | (rename_i s' heq; first
          | exact okw_ok _ _ _ (runTerminators_keeps hts s _ _ hj _ heq)
          | exact ih _ _ (runTerminators_keeps hts s _ _ hj _ heq))


theorem keeps_paragraph (hJ : OnTables J) (hts : ∀ t ∈ terms, Keeps J t) (ws : List Nat) : Keeps J (ruleParagraph terms ws) := by
  intro s line endLine silent m s' hj hr
  refine (?_ : OKW (·.2) J (ruleParagraph terms ws s line endLine silent)) (m, s') hr
  simp only [ruleParagraph]
  split
  · exact okw_error _ _ _
  · rename_i next s1 heq
    have h1 : J s1 := paraScan_keeps hJ hts _ _ _ { s with parentType := "paragraph" } (hJ s _ rfl hj) (next, s1) heq
    split
    · exact okw_error _ _ _
    · exact okw_ok _ _ _ (hJ s1 _ rfl h1)

theorem keeps_lheading (hJ : OnTables J) (codeOn : Bool) (hts : ∀ t ∈ terms, Keeps J t) (ws : List Nat) : Keeps J (ruleLheading codeOn terms ws) := by
  intro s line endLine silent m s' hj hr
  refine (?_ : OKW (·.2) J (ruleLheading codeOn terms ws s line endLine silent)) (m, s') hr
  simp only [ruleLheading]
  split
  · exact okw_error _ _ _
  · split
    · exact okw_ok _ _ _ hj
    · split
      · exact okw_error _ _ _
      · rename_i s1 heq
        exact okw_ok _ _ _ (lheadScan_keeps hJ hts _ _ _ { s with parentType := "paragraph" } (hJ s _ rfl hj) (_, none, s1) heq)
      · rename_i next marker level s1 heq
        have h1 : J s1 := lheadScan_keeps hJ hts _ _ _ { s with parentType := "paragraph" } (hJ s _ rfl hj) (next, some (marker, level), s1) heq
        split
        · exact okw_error _ _ _
        · exact okw_ok _ _ _ (hJ s1 _ rfl h1)

theorem refsValid_onTables (ext : IExt) : OnTables (RefsValid ext) := by
  intro s s' h hv
  unfold RD at h
  simp only [Prod.mk.injEq] at h
  unfold RefsValid
  rw [h.1, h.2]
  exact hv

theorem refHit_valid (ext : IExt) (lx : LExt) (inlineDefs : Bool) (s s1 : BState) (line : Nat) (d : RefParsed) (h1 : RefsValid ext s1)
    (hd : ValidHref ext d.href) : RefsValid ext (refHit lx inlineDefs s s1 line d) := by
  unfold refHit
  simp only
  split
  · refine ⟨h1.1, ?_⟩
    intro e he
    rcases List.mem_append.1 he with he | he
    · exact h1.2 e he
    · simp only [List.mem_singleton] at he; subst he; exact hd
  · refine ⟨?_, h1.2⟩
    intro e he
    rcases List.mem_append.1 he with he | he
    · exact h1.1 e he
    · simp only [List.mem_singleton] at he; subst he; exact hd

/-- **the `reference` rule keeps "every recorded destination is validated"**, with no assumption on the call -/
theorem keeps_reference (ext : IExt) (lx : LExt) (inlineDefs codeOn : Bool) (hts : ∀ t ∈ terms, Keeps (RefsValid ext) t) (ws : List Nat) :
    Keeps (RefsValid ext) (ruleReference ext lx inlineDefs codeOn terms ws) := by
  have hJ := refsValid_onTables ext
  intro s line endLine silent m s' hj hr
  refine (?_ : OKW (·.2) (RefsValid ext) (ruleReference ext lx inlineDefs codeOn terms ws s line endLine silent)) (m, s') hr
  simp only [ruleReference]
  split
  · exact okw_error _ _ _
  · split
    · exact okw_ok _ _ _ hj
    · split
      · split
        · exact okw_ok _ _ _ hj
        · exact okw_error _ _ _
      · split
        · exact okw_ok _ _ _ hj
        · split
          · exact okw_ok _ _ _ hj
          · split
            · exact okw_error _ _ _
            · rename_i next s1 heq
              have h1 : RefsValid ext s1 := paraScan_keeps hJ hts _ _ _ { s with parentType := "reference" } (hJ s _ rfl hj) (next, s1) heq
              split
              · exact okw_error _ _ _
              · split
                · exact okw_ok _ _ _ h1
                · rename_i d hd
                  split
                  · exact okw_ok _ _ _ h1
                  · have := refHit_valid ext lx inlineDefs s s1 line d h1 (refParse_valid ext lx.normRef _ d hd).1
                    refine okw_ok _ _ _ ?_
                    simpa [refHit] using this

/-! ### the block quote -/

theorem setLine_RD (s : BState) (i : Nat) (l : BLine) : RD (s.setLine i l) = RD s := rfl
theorem pushFull_RD (s : BState) (a b : String) (n : Int) (m : Option (Nat × Nat)) (c : Option (List Tok)) (x y z : String) :
    RD (s.pushFull a b n m c x y z) = RD s := rfl

theorem restoreLines_RD : ∀ (saved : List BLine) (s : BState) (start : Nat), RD (restoreLines s start saved) = RD s := by
  intro saved
  induction saved with
  | nil => intro s start; rfl
  | cons l rest ih => intro s start; simp only [restoreLines]; rw [ih]; rfl

theorem quoteScan_keeps (hJ : OnTables J) (hts : ∀ t ∈ terms, Keeps J t) (endLine : Nat) :
    ∀ (fuel next : Nat) (lastEmpty : Bool) (s : BState) (saved : List BLine), J s →
      OKW (·.2.1) J (quoteScan terms endLine fuel next lastEmpty s saved) := by
  intro fuel
  induction fuel with
  | zero => intro next le s saved _; simp only [quoteScan]; exact okw_error _ _ _
  | succ n ih =>
    intro next le s saved hj
    simp only [quoteScan]
    split
    · split
      · exact okw_error _ _ _
      · split
        · exact okw_ok _ _ _ hj
        · split
          · exact ih _ _ _ _ (hJ s _ rfl hj)
          · split
            · exact okw_ok _ _ _ hj
            · split
              · exact okw_error _ _ _
              · rename_i s1 heq
                have h1 : J s1 := runTerminators_keeps hts s _ _ hj _ heq
                split
                · split
                  · exact okw_error _ _ _
                  · exact okw_ok _ _ _ (hJ s1 _ rfl h1)
                · exact okw_ok _ _ _ (hJ s1 _ rfl h1)
              · rename_i s1 heq
                have h1 : J s1 := runTerminators_keeps hts s _ _ hj _ heq
                split
                · exact okw_error _ _ _
                · exact ih _ _ _ _ (hJ s1 _ rfl h1)
    · exact okw_ok _ _ _ hj


/-! ### the loop, the containers -/

theorem blockLoop_keeps (hJ : OnTables J) (hrs : ∀ r ∈ rules, Keeps J r) (mn : Int) (endLine : Nat) :
    ∀ (fuel line : Nat) (hasEmpty : Bool) (s : BState), J s → OKW id J (blockLoop rules mn endLine fuel line hasEmpty s) := by
  intro fuel
  induction fuel with
  | zero => intro line he s hj; simp only [blockLoop]; split; exact okw_error _ _ _; exact okw_ok _ _ _ hj
  | succ n ih =>
    intro line he s hj
    simp only [blockLoop]
    split
    · split
      · exact okw_ok _ _ _ (hJ s _ rfl hj)
      · split
        · exact okw_error _ _ _
        · split
          · exact okw_ok _ _ _ (hJ s _ rfl hj)
          · split
            · exact okw_ok _ _ _ (hJ s _ rfl hj)
            · split
              · exact okw_error _ _ _
              · rename_i b s2 heq
                have h2 : J s2 := by
                  refine runBlockChain_keeps hrs _ _ _ ?_ (b, s2) heq
                  exact hJ s _ rfl hj
                have h3 : J { s2 with tight := !he } := hJ s2 _ rfl h2
                split
                · exact okw_error _ _ _
                · split
                  · exact okw_error _ _ _
                  · split
                    · split
                      · exact okw_error _ _ _
                      · split
                        · exact ih _ _ _ (hJ s2 _ rfl h2)
                        · exact ih _ _ _ h3
                    · exact ih _ _ _ h3
    · exact okw_ok _ _ _ hj

theorem blockTokenize_keeps (hJ : OnTables J) (hrs : ∀ r ∈ rules, Keeps J r) (mn : Int) (s : BState) (a b : Nat) (hj : J s) :
    OKW id J (blockTokenize rules mn s a b) := blockLoop_keeps hJ hrs mn b _ _ _ s hj

theorem keeps_blockquote (hJ : OnTables J) (codeOn : Bool) (hts : ∀ t ∈ terms, Keeps J t) (hin : ∀ r ∈ inner, Keeps J r) (mn : Int) :
    Keeps J (ruleBlockquote codeOn terms inner mn) := by
  intro s line endLine silent m s' hj hr
  refine (?_ : OKW (·.2) J (ruleBlockquote codeOn terms inner mn s line endLine silent)) (m, s') hr
  simp only [ruleBlockquote]
  split
  · exact okw_error _ _ _
  · split
    · exact okw_ok _ _ _ hj
    · split
      · exact okw_ok _ _ _ hj
      · split
        · exact okw_ok _ _ _ hj
        · split
          · exact okw_error _ _ _
          · rename_i next s2 saved heq
            have h2 : J s2 := by
              refine quoteScan_keeps hJ hts _ _ _ _ _ _ ?_ (next, s2, saved) heq
              exact hJ s _ rfl hj
            split
            · exact okw_error _ _ _
            · rename_i s4 heq4
              have h4 : J s4 := by
                refine blockTokenize_keeps hJ hin mn _ _ _ ?_ s4 heq4
                exact hJ s2 _ rfl h2
              refine okw_ok _ _ _ (hJ s4 _ ?_ h4)
              show RD (restoreLines _ _ _) = _
              rw [restoreLines_RD]
              rfl


/-! ### the list -/

theorem listNested_keeps (hJ : OnTables J) (hin : ∀ r ∈ inner, Keeps J r) (mn : Int) (endLine : Nat) (s2 : BState) (startLine : Nat) (ce : Bool)
    (hj : J s2) : OKW id J (listNested inner mn endLine s2 startLine ce) := by
  simp only [listNested]
  split
  · exact okw_error _ _ _
  · exact okw_ok _ _ _ (hJ s2 _ rfl hj)
  · exact blockTokenize_keeps hJ hin mn s2 _ _ hj

theorem listClose_keeps (hJ : OnTables J) (mc : Char) (s1 : BState) (l : BLine) (nt startLine : Nat) (s3 : BState) (hj : J s3) :
    OKW (·.1) J (listClose mc s1 l nt startLine s3) := by
  simp only [listClose]
  split
  · exact okw_error _ _ _
  · split
    · exact okw_error _ _ _
    · exact okw_ok _ _ _ (hJ s3 _ rfl hj)

theorem listItem_keeps (hJ : OnTables J) (ordered : Bool) (mc : Char) (hin : ∀ r ∈ inner, Keeps J r) (mn : Int) (endLine : Nat) (s : BState)
    (startLine markerLen : Nat) (hj : J s) : OKW (·.1) J (listItem ordered mc inner mn endLine s startLine markerLen) := by
  simp only [listItem]
  split
  · exact okw_error _ _ _
  · split
    · exact okw_error _ _ _
    · rename_i s3 heq
      have h3 : J s3 := by
        refine listNested_keeps hJ hin mn endLine _ startLine _ ?_ s3 heq
        exact hJ s _ rfl hj
      exact listClose_keeps hJ mc _ _ _ startLine s3 h3

theorem listItems_keeps (hJ : OnTables J) (codeOn ordered : Bool) (mc : Char) (hts : ∀ t ∈ terms, Keeps J t) (hin : ∀ r ∈ inner, Keeps J r)
    (mn : Int) (endLine : Nat) : ∀ (fuel : Nat) (st : ListSt), J st.s →
      OKW (·.s) J (listItems codeOn ordered mc terms inner mn endLine fuel st) := by
  intro fuel
  induction fuel with
  | zero => intro st _; simp only [listItems]; exact okw_error _ _ _
  | succ n ih =>
    intro st hj
    simp only [listItems]
    split
    · exact okw_ok _ _ _ hj
    · split
      · exact okw_error _ _ _
      · rename_i s6 nt pe heq
        have h6 : J s6 := listItem_keeps hJ ordered mc hin mn endLine st.s st.startLine st.markerLen hj (s6, nt, pe) heq
        split
        · exact okw_ok _ _ _ h6
        · split
          · exact okw_error _ _ _
          · split
            · exact okw_ok _ _ _ h6
            · split
              · exact okw_ok _ _ _ h6
              · split
                · exact okw_error _ _ _
                · rename_i s7 heq7
                  exact okw_ok _ _ _ (runTerminators_keeps hts s6 _ _ h6 (true, s7) heq7)
                · rename_i s7 heq7
                  have h7 : J s7 := runTerminators_keeps hts s6 _ _ h6 (false, s7) heq7
                  split
                  · exact okw_ok _ _ _ h7
                  · split
                    · exact okw_ok _ _ _ h7
                    · exact ih _ h7

theorem listRun_keeps (hJ : OnTables J) (codeOn ordered : Bool) (mc : Char) (mlen mv : Nat) (hts : ∀ t ∈ terms, Keeps J t)
    (hin : ∀ r ∈ inner, Keeps J r) (mn : Int) (s : BState) (startLine endLine : Nat) (hj : J s) :
    OKW (·.2) J (listRun codeOn ordered mc mlen mv terms inner mn s startLine endLine) := by
  simp only [listRun]
  split
  · exact okw_error _ _ _
  · rename_i st heq
    have hst : J st.s := by
      refine listItems_keeps hJ codeOn ordered mc hts hin mn endLine _ _ ?_ st heq
      show J _
      split <;> exact hJ s _ rfl hj
    refine okw_ok _ _ _ ?_
    show J (if st.tight = true then _ else _)
    split <;> exact hJ st.s _ rfl hst

theorem keeps_list (hJ : OnTables J) (codeOn : Bool) (hts : ∀ t ∈ terms, Keeps J t) (hin : ∀ r ∈ inner, Keeps J r) (mn : Int) :
    Keeps J (ruleList codeOn terms inner mn) := by
  intro s line endLine silent m s' hj hr
  refine (?_ : OKW (·.2) J (ruleList codeOn terms inner mn s line endLine silent)) (m, s') hr
  simp only [ruleList]
  repeat' split
  all_goals first
    | exact okw_error _ _ _
    | exact okw_ok _ _ _ hj
    | exact listRun_keeps hJ codeOn _ _ _ _ hts hin mn s line endLine hj

end MdIt.C16
