import MdIt.Verbatim
/-!
# C08 — verbatim content and recorded markup come from the source, unaltered
-/
namespace MdIt.C08

def isBlankCh (c : Char) : Prop := c = ' ' ∨ c = '\t'

/-- invariant of the stripping loop: what has been consumed so far are blanks or characters of the
line's prefix (container markers, `i < tShift`), nothing is reordered, and the indent overshoots the
target by at most 3 columns — and only when the last consumed character is a tab -/
theorem cutGo_spec (tShift bs indent : Nat) (chars : List Char) (i li : Nat) :
    ∃ removed, chars = removed ++ (cutGo tShift bs indent chars i li).1
      ∧ (∀ k (h : k < removed.length), isBlankCh removed[k] ∨ i + k < tShift)
      ∧ li ≤ (cutGo tShift bs indent chars i li).2
      ∧ (li ≤ indent + 3 → (cutGo tShift bs indent chars i li).2 ≤ indent + 3)
      ∧ (li ≤ indent → indent < (cutGo tShift bs indent chars i li).2 → removed.getLast? = some '\t') := by
  induction chars generalizing i li with
  | nil => exact ⟨[], rfl, by intro k h; simp at h, Nat.le_refl _, fun h => h, by intro h1 h2; simp [cutGo] at h2; omega⟩
  | cons c cs ih =>
    simp only [cutGo]
    by_cases hlt : li < indent
    · simp only [hlt, if_true]
      have step : ∀ li' : Nat, li < li' → li' ≤ li + 4 → (isBlankCh c ∨ i < tShift) → (li' > li + 1 → c = '\t') →
          ∃ removed, c :: cs = removed ++ (cutGo tShift bs indent cs (i + 1) li').1
            ∧ (∀ k (h : k < removed.length), isBlankCh removed[k] ∨ i + k < tShift)
            ∧ li ≤ (cutGo tShift bs indent cs (i + 1) li').2
            ∧ (li ≤ indent + 3 → (cutGo tShift bs indent cs (i + 1) li').2 ≤ indent + 3)
            ∧ (li ≤ indent → indent < (cutGo tShift bs indent cs (i + 1) li').2 → removed.getLast? = some '\t') := by
        intro li' h1 h2 hc htab
        obtain ⟨rem, e1, e2, e3, e4, e5⟩ := ih (i + 1) li'
        refine ⟨c :: rem, by rw [List.cons_append, ← e1], ?_, by omega, fun _ => e4 (by omega), ?_⟩
        · intro k hk
          cases k with
          | zero => simpa using hc
          | succ k' =>
            have := e2 k' (by simpa using hk)
            rcases this with h | h
            · exact Or.inl (by simpa using h)
            · exact Or.inr (by omega)
        · intro _ hov
          by_cases hle : li' ≤ indent
          · have := e5 hle hov
            cases rem with
            | nil => simp at this
            | cons r rs => simpa using this
          · -- this very step overshot: li < indent < li'
            have hrest : (cutGo tShift bs indent cs (i + 1) li') = (cs, li') := by
              cases cs with
              | nil => simp [cutGo]
              | cons d ds => simp [cutGo]; omega
            have hrem : rem = [] := by
              have := e1; rw [hrest] at this; simpa using this
            subst hrem
            have : c = '\t' := htab (by omega)
            simp [this]
      by_cases ht : c = '\t'
      · simp only [ht, if_true]
        subst ht
        exact step _ (by omega) (by omega) (Or.inl (Or.inr rfl)) (fun _ => rfl)
      · simp only [ht, if_false]
        by_cases hs : c = ' '
        · simp only [hs, if_true]
          subst hs
          exact step _ (by omega) (by omega) (Or.inl (Or.inl rfl)) (fun h => by omega)
        · simp only [hs, if_false]
          by_cases hsh : i < tShift
          · simp only [hsh, if_true]
            exact step _ (by omega) (by omega) (Or.inr hsh) (fun h => by omega)
          · simp only [hsh, if_false]
            exact ⟨[], rfl, by intro k h; simp at h, Nat.le_refl _, fun h => h, fun h1 h2 => by omega⟩
    · simp only [hlt, if_false]
      exact ⟨[], rfl, by intro k h; simp at h, Nat.le_refl _, fun h => h, fun h1 h2 => by omega⟩

/-- **C08.getLines (one line)** — the content line is the source line with only leading characters
removed — blanks, or characters of the line's container prefix — followed by everything else
unaltered and in order; at most 3 spaces are put in front, and only when the last removed character
is a tab (a partially consumed tab). -/
theorem cutLine_spec (chars : List Char) (tShift bs indent : Nat) :
    ∃ removed rest pad, chars = removed ++ rest ∧ cutLine chars tShift bs indent = pad ++ rest
      ∧ (∀ k (h : k < removed.length), isBlankCh removed[k] ∨ k < tShift)
      ∧ (∃ n, pad = List.replicate n ' ' ∧ n ≤ 3 ∧ (0 < n → removed.getLast? = some '\t')) := by
  obtain ⟨removed, h1, h2, _, h4, h5⟩ := cutGo_spec tShift bs indent chars 0 0
  refine ⟨removed, (cutGo tShift bs indent chars 0 0).1, _, h1, rfl, ?_, ?_⟩
  · intro k hk; simpa using h2 k hk
  · have hb := h4 (by omega)
    by_cases hgt : (cutGo tShift bs indent chars 0 0).2 > indent
    · exact ⟨(cutGo tShift bs indent chars 0 0).2 - indent, by simp [hgt], by omega, fun _ => h5 (by omega) hgt⟩
    · exact ⟨0, by simp [hgt], by omega, fun h => by omega⟩

/-- **C08.codespan** — a code span holds the text between its backtick strings with line endings as
spaces (`c` below); exactly one space is removed from each side iff both are present and the text is
not all spaces; otherwise nothing is removed -/
theorem codespan_spec (inner c : List Char) (hc : c = inner.map (fun ch => if ch = '\n' then ' ' else ch)) :
    codeSpanContent inner = c ∨ (c = ' ' :: codeSpanContent inner ++ [' '] ∧ c.any (· ≠ ' ') = true) := by
  unfold codeSpanContent
  simp only [← hc]
  split
  · rename_i h
    right
    refine ⟨?_, h.2.2⟩
    obtain ⟨h1, h2, h3⟩ := h
    cases c with
    | nil => simp at h1
    | cons a rest =>
      simp only [List.head?_cons, Option.some.injEq] at h1
      subst h1
      simp only [List.drop_succ_cons, List.drop_zero, List.cons_append, List.cons.injEq, true_and]
      cases rest with
      | nil => simp at h3
      | cons b bs =>
        have hne : (b :: bs) ≠ [] := by simp
        have hl : (b :: bs).getLast hne = ' ' := by
          have := List.getLast?_eq_some_getLast hne
          simp only [List.getLast?_cons_cons] at h2
          rw [this] at h2; exact Option.some.inj h2
        have := List.dropLast_concat_getLast hne
        rw [hl] at this
        exact this.symm
  · left; rfl

/-- an all-space span is kept as it is -/
theorem codespan_keeps (inner : List Char) (h : ∀ ch ∈ inner, ch = ' ') : codeSpanContent inner = inner := by
  have hm : inner.map (fun ch => if ch = '\n' then ' ' else ch) = inner := by
    induction inner with
    | nil => rfl
    | cons x xs ih =>
      have hx := h x (by simp)
      subst hx
      simp only [List.map_cons]
      rw [ih (fun ch hch => h ch (by simp [hch]))]
      rfl
  unfold codeSpanContent
  simp only [hm]
  split
  · rename_i hh
    have := hh.2.2
    rw [List.any_eq_true] at this
    obtain ⟨x, hx, hne⟩ := this
    simp [h x hx] at hne
  · rfl

theorem hrCount_spec (m : Char) (rest : List Char) (cnt n : Nat) (h : hrCount m rest cnt = some n) :
    n = cnt + rest.count m ∧ ∀ ch ∈ rest, ch = m ∨ ch = ' ' ∨ ch = '\t' := by
  induction rest generalizing cnt with
  | nil => simp [hrCount] at h; exact ⟨by simp [h], by simp⟩
  | cons ch r ih =>
    simp only [hrCount] at h
    split at h
    · cases h
    · rename_i hc
      have := ih _ h
      by_cases hm : ch = m
      · subst hm
        simp only [if_true] at this
        refine ⟨by rw [this.1]; simp; omega, ?_⟩
        intro x hx; simp at hx; rcases hx with rfl | hx
        · exact Or.inl rfl
        · exact this.2 x hx
      · simp only [hm, if_false] at this
        have hcnt : (ch :: r).count m = r.count m := by
          rw [List.count_cons]; simp [hm]
        refine ⟨by rw [this.1, hcnt], ?_⟩
        intro x hx; simp at hx; rcases hx with rfl | hx
        · by_cases hb : x = ' ' ∨ x = '\t'
          · exact Or.inr hb
          · exact absurd ⟨hm, hb⟩ hc
        · exact this.2 x hx

/-- **C08.markup (hr)** — the markup of a thematic break is the marker character repeated exactly as
often as it occurs on the line, and the line consists of markers and blanks only -/
theorem hr_markup (text mk : List Char) (h : hrMarkup text = some mk) :
    ∃ m, (m = '*' ∨ m = '-' ∨ m = '_') ∧ mk = List.replicate (text.count m) m ∧ 3 ≤ text.count m
      ∧ ∀ ch ∈ text, ch = m ∨ ch = ' ' ∨ ch = '\t' := by
  cases text with
  | nil => simp [hrMarkup] at h
  | cons m rest =>
    simp only [hrMarkup] at h
    split at h
    · rename_i hm
      cases hc : hrCount m rest 1 with
      | none => rw [hc] at h; cases h
      | some cnt =>
        rw [hc] at h
        simp only at h
        split at h
        · cases h
        · rename_i hge
          simp only [Option.some.injEq] at h
          have := hrCount_spec m rest 1 cnt hc
          refine ⟨m, hm, ?_, ?_, ?_⟩
          · rw [← h, this.1]; simp [List.count_cons]; omega
          · simp [List.count_cons]; omega
          · intro ch hch; simp at hch; rcases hch with rfl | hch
            · exact Or.inl rfl
            · exact this.2 ch hch
    · cases h

/-! non-vacuity: the pre-fix rule recorded one marker too many; a NBSP span keeps its padding -/
example : hrMarkup "- - -".toList = some "---".toList := by decide
example : cutLine "  \tx\n".toList 0 0 4 = "x\n".toList ∧ cutLine " \tx".toList 0 0 2 = "  x".toList := by decide
example : codeSpanContent " a ".toList = "a".toList ∧ codeSpanContent "  ".toList = "  ".toList
    ∧ codeSpanContent "   ".toList = " ".toList := by decide

end MdIt.C08
