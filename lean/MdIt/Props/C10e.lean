import MdIt.Props.C01g
import MdIt.Props.C08d
/-!
# C10 (continued) — provenance of inline tokens: what each modelled inline rule adds, through the loop and the second chain

`IAdds N r`: a call of `r` from the loop only *appends* tokens, each satisfying `N`.  The loop, the final flush, the three
post-processing rules and `fragments_join` keep "every token satisfies `N`" for every `N` closed under what they do to a token
(`TokClosed`: a text token satisfies it; re-levelling, re-contenting and the emphasis / strikethrough retyping keep it).
Per rule the strongest natural `N` is proved (`adds_*`): its vocabulary, that it sets no attribute — except `autolink`, whose
`link_open` carries exactly `href = normalizeLink(url)` with `validateLink` accepting it —, and that `html_inline` adds nothing
unless the `html` option is on.  `xmini_provenance` puts them together for the sub-parser of `C01.xmini_total`.
-/
namespace MdIt.C10
open MdIt.C01

def AllTok (N : Tok → Prop) (s : IState) : Prop := ∀ t ∈ s.tokens, N t

/-- a call of the rule only appends tokens, each satisfying `N` -/
def IAdds (N : Tok → Prop) (r : IRule) : Prop :=
  ∀ s silent m s', ICtx s → r s silent = .ok (m, s') → ∃ new, s'.tokens = s.tokens ++ new ∧ ∀ t ∈ new, N t

theorem IAdds.mono {N N' : Tok → Prop} {r : IRule} (h : IAdds N r) (hi : ∀ t, N t → N' t) : IAdds N' r := by
  intro s silent m s' hc hr
  obtain ⟨new, h1, h2⟩ := h s silent m s' hc hr
  exact ⟨new, h1, fun t ht => hi t (h2 t ht)⟩

theorem IAdds.all {N : Tok → Prop} {r : IRule} (h : IAdds N r) (s : IState) (silent m : Bool) (s' : IState) (hc : ICtx s)
    (ha : AllTok N s) (hr : r s silent = .ok (m, s')) : AllTok N s' := by
  obtain ⟨new, h1, h2⟩ := h s silent m s' hc hr
  intro t ht
  rw [h1, List.mem_append] at ht
  rcases ht with ht | ht
  · exact ha t ht
  · exact h2 t ht

/-- what `push` appends: the flushed pending text (if any) and the new token -/
theorem push_adds (s : IState) (ty tag : String) (n : Int) (c m i : String) :
    ∃ lvl lvl' p, (s.push ty tag n c m i).tokens = s.tokens ++ (if s.pending.isEmpty then [] else [mkInlineTok "text" "" 0 lvl' p "" ""])
      ++ [mkInlineTok ty tag n lvl c m i] := by
  unfold IState.push IState.pushPending
  simp only
  split
  · exact ⟨(if n < 0 then s.level - 1 else s.level), 0, "", by simp⟩
  · exact ⟨(if n < 0 then s.level - 1 else s.level), s.pendingLevel, String.ofList s.pending, by simp⟩

theorem push_addsN (N : Tok → Prop) (hText : ∀ lvl c, N (mkInlineTok "text" "" 0 lvl c "" "")) (s : IState) (ty tag : String) (n : Int)
    (c m i : String) (hN : ∀ lvl, N (mkInlineTok ty tag n lvl c m i)) :
    ∃ new, (s.push ty tag n c m i).tokens = s.tokens ++ new ∧ ∀ t ∈ new, N t := by
  obtain ⟨lvl, lvl', p, h⟩ := push_adds s ty tag n c m i
  refine ⟨_, by rw [h, List.append_assoc], ?_⟩
  intro t ht
  rw [List.mem_append] at ht
  rcases ht with ht | ht
  · split at ht
    · cases ht
    · simp only [List.mem_singleton] at ht; subst ht; exact hText _ _
  · simp only [List.mem_singleton] at ht; subst ht; exact hN _

/-! ### the loop -/

theorem runChain_toks (N : Tok → Prop) (rules : List IRule) (hok : ∀ r ∈ rules, IRuleOK2 r) (had : ∀ r ∈ rules, IAdds N r) :
    ∀ (s : IState) (m : Bool) (s' : IState), ICtx s → AllTok N s → runChain rules s = .ok (m, s') → AllTok N s' := by
  induction rules with
  | nil => intro s m s' _ h hr; simp only [runChain, Except.ok.injEq, Prod.mk.injEq] at hr; obtain ⟨_, rfl⟩ := hr; exact h
  | cons r rest ih =>
    intro s m s' hc h hr
    have hr0 := hok r (by simp)
    simp only [runChain] at hr
    cases hq : r s false with
    | error e => rw [hq] at hr; cases hr
    | ok v =>
      obtain ⟨m1, s1⟩ := v
      rw [hq] at hr
      have h1 := (had r (by simp)).all s false m1 s1 hc h hq
      cases m1 with
      | true => simp only [Except.ok.injEq, Prod.mk.injEq] at hr; obtain ⟨_, rfl⟩ := hr; exact h1
      | false =>
        simp only at hr
        have hf := hr0.frame _ _ _ hc hq
        have hpos := hr0.miss _ _ hc hq
        have hc' : ICtx s1 := by unfold ICtx at *; rw [hpos, hf.2.2, hf.1]; exact hc
        exact ih (fun q hq => hok q (by simp [hq])) (fun q hq => had q (by simp [hq])) s1 m s' hc' h1 hr

theorem loop_toks (N : Tok → Prop) (rules : List IRule) (hok : ∀ r ∈ rules, IRuleOK2 r) (had : ∀ r ∈ rules, IAdds N r) (mn : Int) :
    ∀ (fuel : Nat) (ok : Bool) (s s' : IState), s.posMax ≤ s.src.length → AllTok N s →
      tokenizeLoop rules mn s.posMax fuel ok s = .ok s' → AllTok N s' := by
  intro fuel
  induction fuel with
  | zero =>
    intro ok s s' _ h hr
    simp only [tokenizeLoop] at hr
    split at hr
    · cases hr
    · simp only [Except.ok.injEq] at hr; subst hr; exact h
  | succ n ih =>
    intro ok s s' hend h hr
    simp only [tokenizeLoop] at hr
    split at hr
    · rename_i hlt
      have hc : ICtx s := ⟨hlt, hend⟩
      by_cases hlv : s.level < mn
      · simp only [hlv, if_true] at hr
        obtain ⟨m, s1, hch, hsrc, _, hmax, _, hm⟩ := ichain_ok2 rules hok s hc
        rw [hch] at hr
        have h1 := runChain_toks N rules hok had s m s1 hc h hch
        simp only at hr
        cases m with
        | true =>
          simp only [if_true] at hr
          split at hr
          · simp only [Except.ok.injEq] at hr; subst hr; exact h1
          · split at hr
            · cases hr
            · rw [← hmax] at hr
              exact ih true s1 s' (by rw [hsrc, hmax]; exact hend) h1 hr
        | false =>
          simp only [Bool.false_eq_true, if_false] at hr
          have hpos := hm rfl
          have hin : s1.pos < s1.src.length := by rw [hsrc, hpos]; omega
          rw [List.getElem?_eq_getElem hin] at hr
          simp only at hr
          rw [← hmax] at hr
          exact ih false { s1 with pending := s1.pending ++ [s1.src[s1.pos]], pos := s1.pos + 1 } s'
            (by show s1.posMax ≤ s1.src.length; rw [hsrc, hmax]; exact hend) h1 hr
      · simp only [hlv, if_false] at hr
        cases ok with
        | true =>
          simp only [if_true] at hr
          split at hr
          · simp only [Except.ok.injEq] at hr; subst hr; exact h
          · simp only [Nat.le_refl, if_true] at hr; cases hr
        | false =>
          simp only [Bool.false_eq_true, if_false] at hr
          have hin : s.pos < s.src.length := by omega
          rw [List.getElem?_eq_getElem hin] at hr
          simp only at hr
          exact ih false { s with pending := s.pending ++ [s.src[s.pos]], pos := s.pos + 1 } s' hend h hr
    · simp only [Except.ok.injEq] at hr; subst hr; exact h

/-! ### the second chain -/

/-- the token types the two post-processing rules assign -/
def emTypes : List String := ["em_open", "em_close", "strong_open", "strong_close"]
def sTypes : List String := ["s_open", "s_close"]

/-- the retyping the enabled post-processing rules can do -/
def emphTypes (strike emphasis : Bool) : List String := (if emphasis then emTypes else []) ++ (if strike then sTypes else [])

structure TokClosed (N : Tok → Prop) (E : List String) : Prop where
  text : ∀ lvl c, N (mkInlineTok "text" "" 0 lvl c "" "")
  setLevel : ∀ t l, N t → N (t.setLevel l)
  setContent : ∀ t c, N t → N (t.setContent c)
  setEmph : ∀ t ty tag n mk, N t → ty ∈ E → N (t.setEmph ty tag n mk)

theorem all_modify {N : Tok → Prop} (f : Tok → Tok) (hf : ∀ t, N t → N (f t)) (ts : List Tok) (i : Nat) (h : ∀ t ∈ ts, N t) :
    ∀ t ∈ ts.modify i f, N t := by
  intro t ht
  rw [List.mem_iff_getElem?] at ht
  obtain ⟨j, hj⟩ := ht
  rw [List.getElem?_modify] at hj
  cases hg : ts[j]? with
  | none => rw [hg] at hj; simp at hj
  | some u =>
    rw [hg] at hj
    simp only [Option.map_eq_map, Option.map_some, Option.some.injEq] at hj
    have hu : N u := h u (List.mem_of_getElem? hg)
    split at hj
    · subst hj; exact hf u hu
    · subst hj; exact hu

theorem all_set {N : Tok → Prop} (ts : List Tok) (i : Nat) (a : Tok) (ha : N a) (h : ∀ t ∈ ts, N t) : ∀ t ∈ ts.set i a, N t := by
  intro t ht
  rcases List.mem_or_eq_of_mem_set ht with h' | h'
  · exact h t h'
  · subst h'; exact ha

theorem emphPostGo_toks {N : Tok → Prop} {E : List String} (hN : TokClosed N E) (hE : ∀ ty ∈ emTypes, ty ∈ E) (ds : List Delim) : ∀ (fuel : Nat) (i : Int) (ts : List Tok),
    (∀ t ∈ ts, N t) → ∀ t ∈ emphPostGo ds fuel i ts, N t := by
  intro fuel
  induction fuel with
  | zero => intro i ts h; exact h
  | succ n ih =>
    intro i ts h
    simp only [emphPostGo]
    split
    · exact h
    · split
      · exact h
      · split
        · exact ih _ _ h
        · split
          · exact ih _ _ h
          · split
            · exact h
            · have e1 : ∀ (ty tag : String) (nn : Int) (mk : String), ty ∈ emTypes → ∀ t, N t → N (t.setEmph ty tag nn mk) :=
                fun ty tag nn mk hty t ht => hN.setEmph t ty tag nn mk ht (hE ty hty)
              have c1 : ∀ t, N t → N (t.setContent "") := fun t ht => hN.setContent t "" ht
              split
              · rename_i hs
                apply ih
                apply all_modify _ c1
                apply all_modify _ c1
                apply all_modify _ (e1 _ _ _ _ (by simp [emTypes]))
                apply all_modify _ (e1 _ _ _ _ (by simp [emTypes]))
                exact h
              · rename_i hs
                apply ih
                apply all_modify _ (e1 _ _ _ _ (by simp [emTypes]))
                apply all_modify _ (e1 _ _ _ _ (by simp [emTypes]))
                exact h

theorem strikeMark_toks {N : Tok → Prop} {E : List String} (hN : TokClosed N E) (hE : ∀ ty ∈ sTypes, ty ∈ E) (ds : List Delim) : ∀ (fuel i : Nat) (ts : List Tok) (lone : List Nat),
    (∀ t ∈ ts, N t) → ∀ t ∈ (strikeMark ds fuel i ts lone).1, N t := by
  intro fuel
  induction fuel with
  | zero => intro i ts lone h; exact h
  | succ n ih =>
    intro i ts lone h
    simp only [strikeMark]
    split
    · exact h
    · split
      · exact ih _ _ _ h
      · split
        · exact ih _ _ _ h
        · split
          · exact h
          · apply ih
            apply all_modify _ (fun t ht => hN.setEmph t _ _ _ _ ht (hE _ (by simp [sTypes])))
            apply all_modify _ (fun t ht => hN.setEmph t _ _ _ _ ht (hE _ (by simp [sTypes])))
            exact h

theorem strikeSwap_toks {N : Tok → Prop} : ∀ (lone : List Nat) (ts : List Tok), (∀ t ∈ ts, N t) → ∀ t ∈ strikeSwap lone ts, N t := by
  intro lone
  induction lone with
  | nil => intro ts h; exact h
  | cons i rest ih =>
    intro ts h
    simp only [strikeSwap]
    apply ih
    split
    · split
      · rename_i a b ha hb
        apply all_set _ _ _ (h b (List.mem_of_getElem? hb))
        exact all_set _ _ _ (h a (List.mem_of_getElem? ha)) h
      · exact h
    · exact h

theorem fragmentsJoin_toks {N : Tok → Prop} {E : List String} (hN : TokClosed N E) : ∀ (n : Nat) (level : Int) (ts : List Tok), ts.length ≤ n →
    (∀ t ∈ ts, N t) → ∀ t ∈ fragmentsJoin level ts, N t := by
  intro n
  induction n with
  | zero =>
    intro level ts hl _ t ht
    have : ts = [] := List.eq_nil_of_length_eq_zero (by omega)
    subst this; simp [fragmentsJoin] at ht
  | succ k ih =>
    intro level ts hl h t ht
    match ts, hl, h, ht with
    | [], _, _, ht => simp [fragmentsJoin] at ht
    | [a], _, h, ht =>
      simp only [fragmentsJoin, List.mem_singleton] at ht
      subst ht; exact hN.setLevel _ _ (h a (by simp))
    | a :: b :: rest, hl, h, ht =>
      simp only [fragmentsJoin] at ht
      split at ht
      · refine ih _ (b.setContent (a.content ++ b.content) :: rest) (by simp at hl ⊢; omega) ?_ t ht
        intro u hu
        simp only [List.mem_cons] at hu
        rcases hu with rfl | hu
        · exact hN.setContent _ _ (h b (by simp))
        · exact h u (by simp [hu])
      · simp only [List.mem_cons] at ht
        rcases ht with rfl | ht
        · exact hN.setLevel _ _ (h a (by simp))
        · exact ih _ (b :: rest) (by simp at hl ⊢; omega) (fun u hu => h u (by simp at hu ⊢; exact .inr hu)) t ht

/-- the rules of the second chain before `fragments_join` keep "every token satisfies `N`" -/
theorem sminiPost_toks {N : Tok → Prop} (strike emphasis : Bool) (hN : TokClosed N (emphTypes strike emphasis)) (s : IState) (h : AllTok N s) :
    AllTok N ((sminiPost strike emphasis).foldl (fun acc f => f acc) s) := by
  have hb : ∀ s, AllTok N s → AllTok N (balancePairs s) := fun s h => h
  have hs : strike = true → ∀ s, AllTok N s → AllTok N (strikePost s) := by
    intro hst s h
    unfold strikePost AllTok
    simp only
    exact strikeSwap_toks _ _ (strikeMark_toks hN (by intro ty hty; simp [emphTypes, hst, hty]) _ _ _ _ _ h)
  have he : emphasis = true → ∀ s, AllTok N s → AllTok N (emphasisPost s) := by
    intro hem s h
    unfold emphasisPost AllTok
    simp only
    exact emphPostGo_toks hN (by intro ty hty; simp [emphTypes, hem, hty]) _ _ _ _ h
  unfold sminiPost
  cases strike <;> cases emphasis <;> simp only [Bool.or_self, Bool.or_false, Bool.or_true, Bool.false_eq_true, if_false, if_true,
    List.append_nil, List.nil_append, List.foldl_nil, List.foldl_cons, List.cons_append]
  · exact h
  · exact he rfl _ (hb _ h)
  · exact hs rfl _ (hb _ h)
  · exact he rfl _ (hs rfl _ (hb _ h))

/-- **engine**: every token of an inline parse satisfies `N` when every rule of the chain only adds such tokens -/
theorem inlineParse_toks {N : Tok → Prop} (strike emphasis : Bool) (hN : TokClosed N (emphTypes strike emphasis)) (rules : List IRule)
    (hok : ∀ r ∈ rules, IRuleOK2 r) (had : ∀ r ∈ rules, IAdds N r) (fragJoin : Bool) (mn : Int) (src : List Char) (ts : List Tok)
    (h : inlineParse rules (sminiPost strike emphasis) fragJoin mn src = .ok ts) : ∀ t ∈ ts, N t := by
  unfold inlineParse tokenize at h
  cases hl : tokenizeLoop rules mn (IState.init src).posMax ((IState.init src).posMax - (IState.init src).pos + 1) false (IState.init src) with
  | error e => rw [hl] at h; cases h
  | ok s1 =>
    rw [hl] at h
    simp only [Except.ok.injEq] at h
    have h0 : AllTok N (IState.init src) := by intro t ht; simp [IState.init] at ht
    have h1 := loop_toks N rules hok had mn _ false (IState.init src) s1 (Nat.le_refl _) h0 hl
    have h2 : AllTok N (if s1.pending.isEmpty then s1 else s1.pushPending) := by
      split
      · exact h1
      · intro t ht
        simp only [IState.pushPending, List.mem_append, List.mem_singleton] at ht
        rcases ht with ht | rfl
        · exact h1 t ht
        · exact hN.text _ _
    have h3 := sminiPost_toks strike emphasis hN _ h2
    subst h
    split
    · exact fragmentsJoin_toks hN _ 0 _ (Nat.le_refl _) h3
    · exact h3


/-! ### what each rule adds -/

theorem adds_nil {N : Tok → Prop} {s s' : IState} (h : s'.tokens = s.tokens) : ∃ new, s'.tokens = s.tokens ++ new ∧ ∀ t ∈ new, N t :=
  ⟨[], by simp [h], by simp⟩

theorem adds_trans {N : Tok → Prop} {a b c : List Tok} (h1 : ∃ new, b = a ++ new ∧ ∀ t ∈ new, N t) (h2 : ∃ new, c = b ++ new ∧ ∀ t ∈ new, N t) :
    ∃ new, c = a ++ new ∧ ∀ t ∈ new, N t := by
  obtain ⟨n1, e1, p1⟩ := h1
  obtain ⟨n2, e2, p2⟩ := h2
  refine ⟨n1 ++ n2, by rw [e2, e1, List.append_assoc], ?_⟩
  intro t ht
  rw [List.mem_append] at ht
  rcases ht with ht | ht
  · exact p1 t ht
  · exact p2 t ht

section rules
variable {N : Tok → Prop} (hText : ∀ lvl c, N (mkInlineTok "text" "" 0 lvl c "" ""))
include hText

omit hText in
theorem adds_text : IAdds N ruleText := by
  intro s silent m s' _ hr
  unfold ruleText at hr
  split at hr <;> (simp only [Except.ok.injEq, Prod.mk.injEq] at hr; obtain ⟨_, rfl⟩ := hr; exact adds_nil rfl)

theorem adds_newline (hH : ∀ lvl, N (mkInlineTok "hardbreak" "br" 0 lvl "" "" "")) (hS : ∀ lvl, N (mkInlineTok "softbreak" "br" 0 lvl "" "" "")) :
    IAdds N ruleNewline := by
  intro s silent m s' hc hr
  have hin : s.pos < s.src.length := by have := hc.1; have := hc.2; omega
  unfold ruleNewline at hr
  rw [List.getElem?_eq_getElem hin] at hr
  simp only at hr
  split at hr
  · simp only [Except.ok.injEq, Prod.mk.injEq] at hr; obtain ⟨_, rfl⟩ := hr; exact adds_nil rfl
  · simp only [Except.ok.injEq, Prod.mk.injEq] at hr
    obtain ⟨_, rfl⟩ := hr
    show ∃ new, (if silent = true then s else _).tokens = s.tokens ++ new ∧ _
    split
    · exact adds_nil rfl
    · split
      · exact push_addsN N hText { s with pending := _ } "hardbreak" "br" 0 "" "" "" hH
      · split
        · exact push_addsN N hText { s with pending := _ } "softbreak" "br" 0 "" "" "" hS
        · exact push_addsN N hText s "softbreak" "br" 0 "" "" "" hS

theorem adds_escape (hH : ∀ lvl, N (mkInlineTok "hardbreak" "br" 0 lvl "" "" ""))
    (hE : ∀ lvl c mk, N (mkInlineTok "text_special" "" 0 lvl c mk "escape")) : IAdds N ruleEscape := by
  intro s silent m s' hc hr
  have hin : s.pos < s.src.length := by have := hc.1; have := hc.2; omega
  unfold ruleEscape at hr
  rw [List.getElem?_eq_getElem hin] at hr
  simp only at hr
  split at hr
  · simp only [Except.ok.injEq, Prod.mk.injEq] at hr; obtain ⟨_, rfl⟩ := hr; exact adds_nil rfl
  · split at hr
    · simp only [Except.ok.injEq, Prod.mk.injEq] at hr; obtain ⟨_, rfl⟩ := hr; exact adds_nil rfl
    · split at hr
      · cases hr
      · split at hr
        · simp only [Except.ok.injEq, Prod.mk.injEq] at hr
          obtain ⟨_, rfl⟩ := hr
          show ∃ new, (if silent = true then s else _).tokens = s.tokens ++ new ∧ _
          split
          · exact adds_nil rfl
          · exact push_addsN N hText s "hardbreak" "br" 0 "" "" "" hH
        · simp only [Except.ok.injEq, Prod.mk.injEq] at hr
          obtain ⟨_, rfl⟩ := hr
          show ∃ new, (if silent = true then s else _).tokens = s.tokens ++ new ∧ _
          split
          · exact adds_nil rfl
          · exact push_addsN N hText s "text_special" "" 0 _ _ "escape" (fun lvl => hE lvl _ _)

theorem adds_backticks (hC : ∀ lvl c mk, N (mkInlineTok "code_inline" "code" 0 lvl c mk "")) : IAdds N ruleBackticks := by
  intro s silent m s' hc hr
  have hin : s.pos < s.src.length := by have := hc.1; have := hc.2; omega
  unfold ruleBackticks at hr
  rw [List.getElem?_eq_getElem hin] at hr
  simp only at hr
  split at hr
  · simp only [Except.ok.injEq, Prod.mk.injEq] at hr; obtain ⟨_, rfl⟩ := hr; exact adds_nil rfl
  · split at hr
    · simp only [Except.ok.injEq, Prod.mk.injEq] at hr; obtain ⟨_, rfl⟩ := hr; exact adds_nil rfl
    · split at hr
      · simp only [Except.ok.injEq, Prod.mk.injEq] at hr
        obtain ⟨_, rfl⟩ := hr
        cases silent with
        | true => exact adds_nil rfl
        | false =>
          simp only [Bool.false_eq_true, if_false]
          exact push_addsN N hText { s with backticks := _ } "code_inline" "code" 0 _ _ "" (fun lvl => hC lvl _ _)
      · simp only [Except.ok.injEq, Prod.mk.injEq] at hr; obtain ⟨_, rfl⟩ := hr; exact adds_nil rfl

theorem emphPush_adds (marker : Char) (count : Nat) (o c : Bool) : ∀ (k : Nat) (s : IState),
    ∃ new, (emphPush marker count o c k s).tokens = s.tokens ++ new ∧ ∀ t ∈ new, N t := by
  intro k
  induction k with
  | zero => intro s; exact adds_nil rfl
  | succ n ih =>
    intro s
    simp only [emphPush]
    exact adds_trans (push_addsN N hText s "text" "" 0 _ "" "" (fun lvl => hText lvl _)) (ih _)

theorem adds_emphasis (cls : QCls) : IAdds N (ruleEmphasis cls) := by
  intro s silent m s' hc hr
  have hin : s.pos < s.src.length := by have := hc.1; have := hc.2; omega
  unfold ruleEmphasis at hr
  rw [List.getElem?_eq_getElem hin] at hr
  simp only at hr
  split at hr
  · simp only [Except.ok.injEq, Prod.mk.injEq] at hr; obtain ⟨_, rfl⟩ := hr; exact adds_nil rfl
  · split at hr
    · simp only [Except.ok.injEq, Prod.mk.injEq] at hr; obtain ⟨_, rfl⟩ := hr; exact adds_nil rfl
    · simp only [Except.ok.injEq, Prod.mk.injEq] at hr
      obtain ⟨_, rfl⟩ := hr
      exact emphPush_adds hText _ _ _ _ _ s

theorem strikePush_adds (o c : Bool) : ∀ (k : Nat) (s : IState),
    ∃ new, (strikePush o c k s).tokens = s.tokens ++ new ∧ ∀ t ∈ new, N t := by
  intro k
  induction k with
  | zero => intro s; exact adds_nil rfl
  | succ n ih =>
    intro s
    simp only [strikePush]
    exact adds_trans (push_addsN N hText s "text" "" 0 _ "" "" (fun lvl => hText lvl _)) (ih _)

theorem adds_strike (cls : QCls) : IAdds N (ruleStrike cls) := by
  intro s silent m s' hc hr
  have hin : s.pos < s.src.length := by have := hc.1; have := hc.2; omega
  unfold ruleStrike at hr
  rw [List.getElem?_eq_getElem hin] at hr
  simp only at hr
  split at hr
  · simp only [Except.ok.injEq, Prod.mk.injEq] at hr; obtain ⟨_, rfl⟩ := hr; exact adds_nil rfl
  · split at hr
    · simp only [Except.ok.injEq, Prod.mk.injEq] at hr; obtain ⟨_, rfl⟩ := hr; exact adds_nil rfl
    · split at hr
      · simp only [Except.ok.injEq, Prod.mk.injEq] at hr; obtain ⟨_, rfl⟩ := hr; exact adds_nil rfl
      · simp only [Except.ok.injEq, Prod.mk.injEq] at hr
        obtain ⟨_, rfl⟩ := hr
        refine adds_trans ?_ (strikePush_adds hText _ _ _ _)
        split
        · exact push_addsN N hText s "text" "" 0 _ "" "" (fun lvl => hText lvl _)
        · exact adds_nil rfl

theorem adds_entity (ext : IExt) (hE : ∀ lvl c mk, N (mkInlineTok "text_special" "" 0 lvl c mk "entity")) : IAdds N (ruleEntity ext) := by
  intro s silent m s' hc hr
  have hin : s.pos < s.src.length := by have := hc.1; have := hc.2; omega
  unfold ruleEntity at hr
  rw [List.getElem?_eq_getElem hin] at hr
  simp only at hr
  split at hr
  · simp only [Except.ok.injEq, Prod.mk.injEq] at hr; obtain ⟨_, rfl⟩ := hr; exact adds_nil rfl
  · split at hr
    · simp only [Except.ok.injEq, Prod.mk.injEq] at hr; obtain ⟨_, rfl⟩ := hr; exact adds_nil rfl
    · split at hr
      · cases hr
      · split at hr
        · split at hr
          · simp only [Except.ok.injEq, Prod.mk.injEq] at hr; obtain ⟨_, rfl⟩ := hr; exact adds_nil rfl
          · split at hr
            · simp only [Except.ok.injEq, Prod.mk.injEq] at hr; obtain ⟨_, rfl⟩ := hr; exact adds_nil rfl
            · split at hr
              · cases hr
              · simp only [Except.ok.injEq, Prod.mk.injEq] at hr
                obtain ⟨_, rfl⟩ := hr
                exact push_addsN N hText s "text_special" "" 0 _ _ "entity" (fun lvl => hE lvl _ _)
        · split at hr
          · simp only [Except.ok.injEq, Prod.mk.injEq] at hr; obtain ⟨_, rfl⟩ := hr; exact adds_nil rfl
          · split at hr
            · simp only [Except.ok.injEq, Prod.mk.injEq] at hr; obtain ⟨_, rfl⟩ := hr; exact adds_nil rfl
            · simp only [Except.ok.injEq, Prod.mk.injEq] at hr
              obtain ⟨_, rfl⟩ := hr
              show ∃ new, (if silent = true then s else _).tokens = s.tokens ++ new ∧ _
              split
              · exact adds_nil rfl
              · exact push_addsN N hText s "text_special" "" 0 _ _ "entity" (fun lvl => hE lvl _ _)

/-- `html_inline` adds nothing when the `html` option is off -/
theorem adds_htmlInline (ext : IExt) (hH : ext.html = true → ∀ lvl c, N (mkInlineTok "html_inline" "" 0 lvl c "" "")) :
    IAdds N (ruleHtmlInline ext) := by
  intro s silent m s' hc hr
  have hin : s.pos < s.src.length := by have := hc.1; have := hc.2; omega
  unfold ruleHtmlInline at hr
  split at hr
  · simp only [Except.ok.injEq, Prod.mk.injEq] at hr; obtain ⟨_, rfl⟩ := hr; exact adds_nil rfl
  · rename_i hon
    have hon' : ext.html = true := by simpa using hon
    rw [List.getElem?_eq_getElem hin] at hr
    simp only at hr
    split at hr
    · simp only [Except.ok.injEq, Prod.mk.injEq] at hr; obtain ⟨_, rfl⟩ := hr; exact adds_nil rfl
    · split at hr
      · cases hr
      · split at hr
        · simp only [Except.ok.injEq, Prod.mk.injEq] at hr; obtain ⟨_, rfl⟩ := hr; exact adds_nil rfl
        · split at hr
          · simp only [Except.ok.injEq, Prod.mk.injEq] at hr; obtain ⟨_, rfl⟩ := hr; exact adds_nil rfl
          · simp only [Except.ok.injEq, Prod.mk.injEq] at hr
            obtain ⟨_, rfl⟩ := hr
            show ∃ new, (if silent = true then s else _).tokens = s.tokens ++ new ∧ _
            split
            · exact adds_nil rfl
            · exact push_addsN N hText s "html_inline" "" 0 _ "" "" (fun lvl => hH hon' lvl _)

end rules


theorem modify_last {α} (f : α → α) (x : α) : ∀ (A : List α), (A ++ [x]).modify ((A ++ [x]).length - 1) f = A ++ [f x] := by
  intro A
  induction A with
  | nil => simp [List.modify]
  | cons a A ih =>
    have hl : (a :: (A ++ [x])).length - 1 = ((A ++ [x]).length - 1) + 1 := by simp
    rw [List.cons_append, hl, List.modify_succ_cons, ih]
    rfl

/-- the href contract of an autolink's opening token -/
def HrefOK (ext : IExt) (t : Tok) : Prop :=
  ∃ u, t.attrs = [("href", .s (String.ofList (ext.normLink u)))] ∧ validateLink (ext.normLink u) = true

theorem autolinkPush_adds {N : Tok → Prop} (hText : ∀ lvl c, N (mkInlineTok "text" "" 0 lvl c "" "")) (ext : IExt) (s : IState) (href url : List Char)
    (hO : ∀ lvl, N ((mkInlineTok "link_open" "a" 1 lvl "" "autolink" "auto").setAttrs' [("href", .s (String.ofList href))]))
    (hC : ∀ lvl, N (mkInlineTok "link_close" "a" (-1) lvl "" "autolink" "auto")) :
    ∃ new, (autolinkPush ext s href url).tokens = s.tokens ++ new ∧ ∀ t ∈ new, N t := by
  unfold autolinkPush
  simp only
  refine adds_trans (adds_trans ?_ (push_addsN N hText _ "text" "" 0 _ "" "" (fun lvl => hText lvl _)))
    (push_addsN N hText _ "link_close" "a" (-1) "" "autolink" "auto" hC)
  unfold IState.pushA
  simp only
  obtain ⟨lvl, lvl', p, h⟩ := push_adds s "link_open" "a" 1 "" "autolink" "auto"
  rw [h, modify_last]
  refine ⟨_, by rw [List.append_assoc], ?_⟩
  intro t ht
  rw [List.mem_append] at ht
  rcases ht with ht | ht
  · split at ht
    · cases ht
    · simp only [List.mem_singleton] at ht; subst ht; exact hText _ _
  · simp only [List.mem_singleton] at ht; subst ht; exact hO _

theorem adds_autolink {N : Tok → Prop} (hText : ∀ lvl c, N (mkInlineTok "text" "" 0 lvl c "" "")) (ext : IExt)
    (hO : ∀ lvl u, validateLink (ext.normLink u) = true →
      N ((mkInlineTok "link_open" "a" 1 lvl "" "autolink" "auto").setAttrs' [("href", .s (String.ofList (ext.normLink u)))]))
    (hC : ∀ lvl, N (mkInlineTok "link_close" "a" (-1) lvl "" "autolink" "auto")) : IAdds N (ruleAutolink ext) := by
  intro s silent m s' hc hr
  have hin : s.pos < s.src.length := by have := hc.1; have := hc.2; omega
  unfold ruleAutolink at hr
  rw [List.getElem?_eq_getElem hin] at hr
  simp only at hr
  split at hr
  · simp only [Except.ok.injEq, Prod.mk.injEq] at hr; obtain ⟨_, rfl⟩ := hr; exact adds_nil rfl
  · split at hr
    · cases hr
    · simp only [Except.ok.injEq, Prod.mk.injEq] at hr; obtain ⟨_, rfl⟩ := hr; exact adds_nil rfl
    · split at hr
      · split at hr
        · simp only [Except.ok.injEq, Prod.mk.injEq] at hr; obtain ⟨_, rfl⟩ := hr; exact adds_nil rfl
        · rename_i hv
          simp only [Except.ok.injEq, Prod.mk.injEq] at hr
          obtain ⟨_, rfl⟩ := hr
          cases silent with
          | true => exact adds_nil rfl
          | false =>
            simp only [Bool.false_eq_true, if_false]
            exact autolinkPush_adds hText ext s _ _ (fun lvl => hO lvl _ (by simpa using hv)) hC
      · split at hr
        · split at hr
          · simp only [Except.ok.injEq, Prod.mk.injEq] at hr; obtain ⟨_, rfl⟩ := hr; exact adds_nil rfl
          · rename_i hv
            simp only [Except.ok.injEq, Prod.mk.injEq] at hr
            obtain ⟨_, rfl⟩ := hr
            cases silent with
            | true => exact adds_nil rfl
            | false =>
              simp only [Bool.false_eq_true, if_false]
              exact autolinkPush_adds hText ext s _ _ (fun lvl => hO lvl _ (by simpa using hv)) hC
        · simp only [Except.ok.injEq, Prod.mk.injEq] at hr; obtain ⟨_, rfl⟩ := hr; exact adds_nil rfl

/-! ### the provenance theorem of the sub-parser -/

/-- the token types the enabled rules can produce -/
def xVocab (ext : IExt) (c : IMiniCfg) (strike emphasis autolink htmlInline entity : Bool) : List String :=
  ["text"] ++ (if c.newline then ["hardbreak", "softbreak"] else []) ++ (if c.escape then ["hardbreak", "text_special"] else [])
    ++ (if c.backticks then ["code_inline"] else []) ++ emphTypes strike emphasis
    ++ (if autolink then ["link_close"] else []) ++ (if htmlInline && ext.html then ["html_inline"] else [])
    ++ (if entity then ["text_special"] else [])

/-- what is true of every token the inline sub-parser emits: a `link_open` comes from the autolink rule and carries a normalised,
    validated `href` and nothing else; every other token has a type in the vocabulary of the enabled rules and (unless it is one of the
    retyped emphasis / strikethrough tokens) no attributes -/
def XTok (ext : IExt) (c : IMiniCfg) (strike emphasis autolink htmlInline entity : Bool) (t : Tok) : Prop :=
  (t.type = "link_open" ∧ autolink = true ∧ HrefOK ext t)
    ∨ (t.type ∈ xVocab ext c strike emphasis autolink htmlInline entity ∧ (t.type ∉ emphTypes strike emphasis → t.attrs = []))

@[simp] theorem setLevel_attrs (t : Tok) (l : Int) : (t.setLevel l).attrs = t.attrs := by cases t; rfl
@[simp] theorem setContent_attrs (t : Tok) (c : String) : (t.setContent c).attrs = t.attrs := by cases t; rfl
@[simp] theorem setEmph_attrs (t : Tok) (ty tag : String) (n : Int) (mk : String) : (t.setEmph ty tag n mk).attrs = t.attrs := by cases t; rfl
@[simp] theorem setEmph_type (t : Tok) (ty tag : String) (n : Int) (mk : String) : (t.setEmph ty tag n mk).type = ty := by cases t; rfl
@[simp] theorem setLevel_type' (t : Tok) (l : Int) : (t.setLevel l).type = t.type := by cases t; rfl
@[simp] theorem setContent_type' (t : Tok) (c : String) : (t.setContent c).type = t.type := by cases t; rfl


section prov
variable (ext : IExt) (c : IMiniCfg) (strike emphasis autolink htmlInline entity : Bool)

theorem plain_ok (ty : String) (h : ty ∈ xVocab ext c strike emphasis autolink htmlInline entity) (tag : String) (n lvl : Int)
    (co m i : String) : XTok ext c strike emphasis autolink htmlInline entity (mkInlineTok ty tag n lvl co m i) :=
  .inr ⟨h, fun _ => rfl⟩

theorem xTok_closed : TokClosed (XTok ext c strike emphasis autolink htmlInline entity) (emphTypes strike emphasis) := by
  refine ⟨fun lvl co => plain_ok _ _ _ _ _ _ _ "text" (by simp [xVocab]) _ _ _ _ _ _, ?_, ?_, ?_⟩
  · intro t l h
    unfold XTok HrefOK at *
    simpa using h
  · intro t co h
    unfold XTok HrefOK at *
    simpa using h
  · intro t ty tag n mk _ hty
    right
    simp only [setEmph_type, setEmph_attrs]
    refine ⟨?_, fun hn => absurd hty hn⟩
    simp only [xVocab, List.mem_append]
    exact .inl (.inl (.inl (.inr hty)))

theorem xminiChain_adds (cls : QCls) :
    ∀ r ∈ xminiChain cls ext c strike emphasis autolink htmlInline entity, IAdds (XTok ext c strike emphasis autolink htmlInline entity) r := by
  have hText : ∀ lvl co, XTok ext c strike emphasis autolink htmlInline entity (mkInlineTok "text" "" 0 lvl co "" "") :=
    fun lvl co => (xTok_closed ext c strike emphasis autolink htmlInline entity).text lvl co
  intro r hr
  simp only [xminiChain, sminiChain, iminiChain, List.mem_append, List.mem_singleton] at hr
  rcases hr with ((((((((hr | hr) | hr) | hr) | hr) | hr) | hr) | hr) | hr)
  · subst hr; exact adds_text
  · split at hr
    · rename_i hf
      simp at hr; subst hr
      exact adds_newline hText (fun lvl => plain_ok _ _ _ _ _ _ _ "hardbreak" (by simp [xVocab, hf]) _ _ _ _ _ _)
        (fun lvl => plain_ok _ _ _ _ _ _ _ "softbreak" (by simp [xVocab, hf]) _ _ _ _ _ _)
    · cases hr
  · split at hr
    · rename_i hf
      simp at hr; subst hr
      exact adds_escape hText (fun lvl => plain_ok _ _ _ _ _ _ _ "hardbreak" (by simp [xVocab, hf]) _ _ _ _ _ _)
        (fun lvl co mk => plain_ok _ _ _ _ _ _ _ "text_special" (by simp [xVocab, hf]) _ _ _ _ _ _)
    · cases hr
  · split at hr
    · rename_i hf
      simp at hr; subst hr
      exact adds_backticks hText (fun lvl co mk => plain_ok _ _ _ _ _ _ _ "code_inline" (by simp [xVocab, hf]) _ _ _ _ _ _)
    · cases hr
  · split at hr
    · simp at hr; subst hr; exact adds_strike hText cls
    · cases hr
  · split at hr
    · simp at hr; subst hr; exact adds_emphasis hText cls
    · cases hr
  · split at hr
    · rename_i hf
      simp at hr; subst hr
      refine adds_autolink hText ext ?_ (fun lvl => plain_ok _ _ _ _ _ _ _ "link_close" (by simp [xVocab, hf]) _ _ _ _ _ _)
      intro lvl u hv
      exact .inl ⟨rfl, hf, u, rfl, hv⟩
    · cases hr
  · split at hr
    · rename_i hf
      simp at hr; subst hr
      exact adds_htmlInline hText ext (fun hon lvl co => plain_ok _ _ _ _ _ _ _ "html_inline" (by simp [xVocab, hf, hon]) _ _ _ _ _ _)
    · cases hr
  · split at hr
    · rename_i hf
      simp at hr; subst hr
      exact adds_entity hText ext (fun lvl co mk => plain_ok _ _ _ _ _ _ _ "text_special" (by simp [xVocab, hf]) _ _ _ _ _ _)
    · cases hr

/-- **C10.xmini_provenance** — every token of the inline sub-parser's output (nine of the twelve inline rules, any subset, any
`maxNesting`, classification, external functions, with or without `fragments_join`) is accounted for by an enabled rule -/
theorem xmini_provenance (cls : QCls) (fragJoin : Bool) (mn : Int) (src : List Char) (ts : List Tok)
    (h : inlineParse (xminiChain cls ext c strike emphasis autolink htmlInline entity) (sminiPost strike emphasis) fragJoin mn src = .ok ts) :
    ∀ t ∈ ts, XTok ext c strike emphasis autolink htmlInline entity t :=
  inlineParse_toks strike emphasis (xTok_closed ext c strike emphasis autolink htmlInline entity) _
    (xminiChain_ok cls ext c strike emphasis autolink htmlInline entity) (xminiChain_adds ext c strike emphasis autolink htmlInline entity cls)
    fragJoin mn src ts h

/-- a rule that is switched off leaves no token of its own: no code span without `backticks`, no `s`/`em`/`strong` without
    `strikethrough` / `emphasis`, no link without `autolink`, no raw HTML without `html_inline` *and* the `html` option -/
theorem xmini_switches (cls : QCls) (fragJoin : Bool) (mn : Int) (src : List Char) (ts : List Tok)
    (h : inlineParse (xminiChain cls ext c strike emphasis autolink htmlInline entity) (sminiPost strike emphasis) fragJoin mn src = .ok ts)
    (t : Tok) (ht : t ∈ ts) :
    (c.backticks = false → t.type ≠ "code_inline") ∧ (strike = false → t.type ∉ sTypes) ∧ (emphasis = false → t.type ∉ emTypes)
      ∧ (autolink = false → t.type ≠ "link_open" ∧ t.type ≠ "link_close")
      ∧ ((htmlInline && ext.html) = false → t.type ≠ "html_inline")
      ∧ (c.escape = false → entity = false → t.type ≠ "text_special") := by
  have hx := xmini_provenance ext c strike emphasis autolink htmlInline entity cls fragJoin mn src ts h t ht
  unfold XTok at hx
  rcases hx with ⟨hty, ha, _⟩ | ⟨hv, _⟩
  · rw [hty]
    refine ⟨fun _ => by decide, fun _ => by decide, fun _ => by decide, ?_, fun _ => by decide, fun _ _ => by decide⟩
    intro hf; rw [ha] at hf; cases hf
  · simp only [xVocab, emphTypes, List.mem_append] at hv
    refine ⟨?_, ?_, ?_, ?_, ?_, ?_⟩
    · intro hf heq; rw [heq] at hv
      cases c with | mk a b d => cases a <;> cases b <;> cases strike <;> cases emphasis <;> cases autolink <;> cases entity <;>
        cases hb : (htmlInline && ext.html) <;> simp_all [emTypes, sTypes]
    · intro hf hm
      simp only [sTypes, List.mem_cons, List.not_mem_nil, or_false] at hm
      cases c with | mk a b d => rcases hm with heq | heq <;> rw [heq] at hv <;> cases a <;> cases b <;> cases d <;> cases emphasis <;>
        cases autolink <;> cases entity <;> cases hb : (htmlInline && ext.html) <;> simp_all [emTypes, sTypes]
    · intro hf hm
      simp only [emTypes, List.mem_cons, List.not_mem_nil, or_false] at hm
      cases c with | mk a b d => rcases hm with heq | heq | heq | heq <;> rw [heq] at hv <;> cases a <;> cases b <;> cases d <;> cases strike <;>
        cases autolink <;> cases entity <;> cases hb : (htmlInline && ext.html) <;> simp_all [emTypes, sTypes]
    · intro hf
      constructor <;> intro heq <;> rw [heq] at hv <;>
        (cases c with | mk a b d => cases a <;> cases b <;> cases d <;> cases strike <;> cases emphasis <;> cases entity <;>
          cases hb : (htmlInline && ext.html) <;> simp_all [emTypes, sTypes])
    · intro hf heq; rw [heq] at hv
      cases c with | mk a b d => cases a <;> cases b <;> cases d <;> cases strike <;> cases emphasis <;> cases autolink <;> cases entity <;>
        simp_all [emTypes, sTypes]
    · intro hf1 hf2 heq; rw [heq] at hv
      cases c with | mk a b d => cases a <;> cases d <;> cases strike <;> cases emphasis <;> cases autolink <;>
        cases hb : (htmlInline && ext.html) <;> simp_all [emTypes, sTypes]

end prov

end MdIt.C10
