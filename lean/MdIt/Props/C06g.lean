import MdIt.Props.C06f
/-!
# C06 (continued) — the list-indent law for the modelled sub-parser

`list_law`: for a tab-free document `D` without `>` whose first line starts with a non-blank, putting a list marker and `k`
(1–4) spaces before the first line and `W = |marker| + k` spaces before every other line parses — with two more levels of
nesting allowed — to one list with one item spanning all lines whose content is the token stream of `D` two levels deeper,
up to the `hidden` flag of paragraphs (a tight list hides the item's direct paragraphs).
-/
namespace MdIt.C06e
open MdIt.C01 MdIt.C02 MdIt.C06 MdIt.C07

def indentLine (W : Nat) (l : List Char) : List Char := List.replicate W ' ' ++ l

/-- the first line behind `marker` and `k` spaces, every other line behind `|marker| + k` spaces -/
def listify (marker : List Char) (k : Nat) (l0 : List Char) (rest : List (List Char)) : List (List Char) :=
  (marker ++ List.replicate k ' ' ++ l0) :: rest.map (indentLine (marker.length + k))

theorem lead_indent (W : Nat) (l : List Char) : lead (indentLine W l) = W + lead l := by
  induction W with
  | zero => simp [indentLine]
  | succ w ih =>
    have : indentLine (w + 1) l = ' ' :: indentLine w l := by simp [indentLine, List.replicate_succ]
    rw [this]
    simp only [lead, isSpaceTab, beq_self_eq_true, Bool.true_or, ↓reduceIte, ih]; omega

theorem lLoop_spaces (bs : Nat) (c : Char) (cs : List Char) (hc1 : c ≠ ' ') (hc2 : c ≠ '\t') : ∀ (k : Nat) (off : Int) (m : Nat),
    lLoop bs off (List.replicate k ' ' ++ c :: cs) m = (off + k, m + k) := by
  intro k
  induction k with
  | zero => intro off m; simp [lLoop, hc1, hc2]
  | succ j ih =>
    intro off m
    have hs : (' ' : Char) ≠ '\t' := by decide
    simp only [List.replicate_succ, List.cons_append, lLoop, hs, if_false, if_true]
    rw [ih]
    simp only [Prod.mk.injEq]; constructor <;> omega

/-- the related line pair of an indented line -/
theorem il_indent (W : Nat) (l : List Char) : IL W (lineRec l) (lineRec (indentLine W l)) := by
  refine ⟨?_, ?_, ⟨List.replicate W ' ', by simp, by simp, rfl⟩, rfl⟩
  · show ((lead (indentLine W l) : Nat) : Int) = (lead l : Nat) + W
    rw [lead_indent]; omega
  · show lead (indentLine W l) = lead l + W
    rw [lead_indent]; omega

def itemOpenTok (mc : Char) (info : String) (n : Nat) : Tok :=
  .mk "list_item_open" "li" 1 [] (some (0, n)) 1 none "" (String.singleton mc) info [] true false

/-- the opening token of a top-level list over lines `[0, n)` -/
def listOpenTok0 (ordered : Bool) (mc : Char) (mv n : Nat) : Tok :=
  .mk (if ordered then "ordered_list_open" else "bullet_list_open") (if ordered then "ol" else "ul") 1
    (if ordered && mv != 1 then [("start", .i mv)] else []) (some (0, n)) 0 none "" (String.singleton mc) "" [] true false

theorem listOpenState_fields (s : BState) (ordered : Bool) (mc : Char) (mv sl : Nat) :
    (listOpenState s ordered mc mv sl).lines = s.lines ∧ (listOpenState s ordered mc mv sl).line = s.line ∧
    (listOpenState s ordered mc mv sl).lineMax = s.lineMax ∧ (listOpenState s ordered mc mv sl).blkIndent = s.blkIndent ∧
    (listOpenState s ordered mc mv sl).level = s.level + 1 ∧ (listOpenState s ordered mc mv sl).listIndent = s.listIndent := by
  unfold listOpenState
  simp only
  split <;> exact ⟨rfl, rfl, rfl, rfl, pushFull_level_open s (if ordered then "ordered_list_open" else "bullet_list_open") (if ordered then "ol" else "ul") (some (sl, 0)) none "" (String.singleton mc) "", rfl⟩

/-- one item over the whole indented document: the nested run is the run on `D`, two levels deeper -/
theorem list_item_law (inner inner' : List BRule) (mn : Int) (l0 : List Char) (rest : List (List Char))
    (hcl : ∀ l ∈ l0 :: rest, Clean l ∧ '>' ∉ l) (c0 : Char) (cs0 : List Char) (hl0 : l0 = c0 :: cs0) (hc0 : c0 ≠ ' ')
    (marker : List Char) (k : Nat) (hk1 : 1 ≤ k) (hk4 : k ≤ 4) (hmt : '\t' ∉ marker) (hmpos : 0 < marker.length)
    (hlead : lead (marker ++ List.replicate k ' ' ++ l0) = 0)
    (ordered : Bool) (mc : Char) (s : BState)
    (hsl : s.lines = (stD (listify marker k l0 rest)).lines) (hsline : s.line = 0) (hsmax : s.lineMax = rest.length + 1)
    (hsblk : s.blkIndent = 0) (hslev : s.level = 1) (hsli : s.listIndent = -1)
    (hin : ShSims 2 0 (marker.length + k) inner inner' ∨ inner = [])
    (tD : BState) (hD : blockTokenize inner mn (stD (l0 :: rest)) 0 (rest.length + 1) = .ok tD) (hline : tD.line = rest.length + 1)
    (hfr : (stD (l0 :: rest)).FrameEq tD) :
    ∃ s6 nt pe, listItem ordered mc inner' (mn + 2) (rest.length + 1) s 0 marker.length = .ok (s6, nt, pe)
      ∧ s6.line = rest.length + 1 ∧ s6.lines.length = rest.length + 2 ∧ s6.level = 1
      ∧ s6.tokens = s.tokens ++ (itemOpenTok mc (if ordered = true then String.ofList (List.take (marker.length - 1) (marker ++ List.replicate k ' ' ++ l0)) else "") (rest.length + 1)
          :: tD.tokens.map (Tok.shift 2) ++ [itemCloseTok mc 2]) := by
  have hn : 0 < rest.length + 1 := by omega
  have hc0t : c0 ≠ '\t' := by
    intro e
    have := (hcl l0 (by simp)).1.2.1
    rw [hl0, e] at this; simp at this
  -- the first line of the indented document
  have hS0 : s.lines[0]? = some (lineRec (marker ++ List.replicate k ' ' ++ l0)) := by
    rw [hsl]; simp [stD, listify]
  have hbody : (lineRec (marker ++ List.replicate k ' ' ++ l0)).body = marker ++ List.replicate k ' ' ++ l0 := by
    show List.drop (lead _) _ = _
    rw [hlead]; rfl
  have hsc : (lineRec (marker ++ List.replicate k ' ' ++ l0)).sCount = 0 := by
    show ((lead _ : Nat) : Int) = 0
    rw [hlead]; rfl
  have hts : (lineRec (marker ++ List.replicate k ' ' ++ l0)).tShift = 0 := hlead
  have hdrop : List.drop marker.length (marker ++ List.replicate k ' ' ++ l0) = List.replicate k ' ' ++ c0 :: cs0 := by
    rw [List.append_assoc, List.drop_left, hl0]
  unfold listItem
  simp only [getL_of_here hS0, hbody, hsc, hdrop]
  have hq : lLoop (lineRec (marker ++ List.replicate k ' ' ++ l0)).bs ((0 : Int) + (marker.length : Int)) (List.replicate k ' ' ++ c0 :: cs0) 0
      = ((marker.length : Int) + (k : Int), k) := by
    rw [lLoop_spaces _ c0 cs0 hc0 hc0t]; simp
  rw [hq]
  have hce : decide ((List.replicate k ' ' ++ c0 :: cs0).length ≤ k) = false := by simp
  simp only [hce]
  have hind : listIndentOf (lineRec (marker ++ List.replicate k ' ' ++ l0)) marker.length ((marker.length : Int) + (k : Int), k)
      = ((marker.length + k : Nat) : Int) := by
    simp only [listIndentOf, hsc, hbody, hdrop, hce, Bool.false_eq_true, ↓reduceIte]
    have : ¬ ((marker.length : Int) + (k : Int) - (0 + (marker.length : Int)) > 4) := by omega
    simp only [this, ↓reduceIte]; omega
  rw [hind]
  generalize hinfo : (if ordered = true then String.ofList (List.take (marker.length - 1) (marker ++ List.replicate k ' ' ++ l0)) else "") = info
  generalize hs1 : s.pushFull "list_item_open" "li" 1 (some (0, 0)) none "" (String.singleton mc) info = s1
  have h1tok : s1.tokens = s.tokens ++ [pushedTok s "list_item_open" "li" 1 (some (0, 0)) none "" (String.singleton mc) info] := by
    rw [← hs1, pushFull_tokens]
  have h1lev : s1.level = 2 := by rw [← hs1, pushFull_level_open, hslev]; rfl
  have h1lines : s1.lines = s.lines := by rw [← hs1]; rfl
  -- the relation between the start state of `D` and the nested entry state
  have hsr : TR false false 2 0 (marker.length + k) (rest.length + 1) (-1) 0 [] s1.tokens (stD (l0 :: rest))
      (listEnter s1 (lineRec (marker ++ List.replicate k ' ' ++ l0)) 0 marker.length ((marker.length : Int) + (k : Int), k) ((marker.length + k : Nat) : Int)) := by
    refine ⟨?_, ?_, ?_, ?_, rfl, ?_, rfl, by omega, ?_, ?_, rfl, Or.inr ⟨by omega, rfl, ?_⟩, (fun h => by cases h), (fun h => by cases h), ⟨[], rfl, (List.append_nil _).symm⟩⟩
    · intro i l hl
      show ∃ l', (List.set s1.lines 0 _)[i + 0]? = some l' ∧ _
      rw [h1lines, hsl, Nat.add_zero]
      by_cases hi0 : i = 0
      · subst hi0
        have : l = lineRec l0 := by simpa [stD] using hl.symm
        subst this
        refine ⟨_, List.getElem?_set_self (by simp [stD]), ?_⟩
        have hil : IL (marker.length + k) (lineRec l0) ((lineRec (marker ++ List.replicate k ' ' ++ l0)).retab
            ((lineRec (marker ++ List.replicate k ' ' ++ l0)).tShift + marker.length + k) ((marker.length : Int) + (k : Int))) := by
          refine ⟨?_, ?_, ⟨marker ++ List.replicate k ' ', by simp, ?_, by simp [BLine.retab, lineRec, mkLine]⟩, rfl⟩
          · show (marker.length : Int) + (k : Int) = ((lead l0 : Nat) : Int) + ((marker.length + k : Nat) : Int)
            rw [hl0]; simp [lead, isSpaceTab, hc0, hc0t]
          · show (lineRec (marker ++ List.replicate k ' ' ++ l0)).tShift + marker.length + k = lead l0 + (marker.length + k)
            rw [hts, hl0]; simp [lead, isSpaceTab, hc0, hc0t]
          · intro hm
            rw [List.mem_append] at hm
            rcases hm with hm | hm
            · exact hmt hm
            · simp at hm
        exact ⟨Or.inl hil, fun _ => hil⟩
      · rw [List.getElem?_set_ne (by omega)]
        by_cases hi : i < rest.length + 1
        · have hl' : l = lineRec ((l0 :: rest)[i]) := by
            have := stD_get (l0 :: rest) i (by simpa using hi)
            rw [this] at hl; exact (Option.some.inj hl).symm
          subst hl'
          obtain ⟨j, rfl⟩ : ∃ j, i = j + 1 := ⟨i - 1, by omega⟩
          have hj : j < rest.length := by omega
          refine ⟨lineRec (indentLine (marker.length + k) rest[j]), ?_, ?_⟩
          · have := stD_get (listify marker k l0 rest) (j + 1) (by simp [listify]; omega)
            rw [this]; simp [listify]
          · have hil := il_indent (marker.length + k) rest[j]
            simp only [List.getElem_cons_succ]
            exact ⟨Or.inl hil, fun _ => hil⟩
        · have hi2 : i = rest.length + 1 := by
            have := (List.getElem?_eq_some_iff.1 hl).1
            rw [stD_len] at this; simp at this; omega
          subst hi2
          have hl' : l = sentinelLine := by
            have := stD_sentinel (l0 :: rest)
            simp only [List.length_cons] at this
            rw [this] at hl; exact (Option.some.inj hl).symm
          subst hl'
          refine ⟨sentinelLine, ?_, Or.inr ⟨rfl, rfl, rfl⟩, fun h => by omega⟩
          have := stD_sentinel (listify marker k l0 rest)
          simp only [listify, List.length_cons, List.length_map] at this
          exact this
    · show (List.set s1.lines 0 _).length = (stD (l0 :: rest)).lines.length + 0
      rw [List.length_set, h1lines, hsl, stD_len, stD_len]; simp [listify]
    · intro l hl
      simp only [stD, List.mem_append, List.mem_map, List.mem_singleton] at hl
      rcases hl with ⟨x, hx, rfl⟩ | rfl
      · exact ⟨(hcl x hx).1.2.1, (hcl x hx).2, by simp [lineRec, mkLine]⟩
      · simp [sentinelLine]
    · show s1.line = 0 + 0
      rw [← hs1]; exact hsline
    · show s1.lineMax = rest.length + 1 + 0
      rw [← hs1]; exact hsmax
    · show ((marker.length + k : Nat) : Int) = 0 + ((marker.length + k : Nat) : Int)
      omega
    · show s1.level = (0 : Int) + 2
      rw [h1lev]; rfl
    · show s1.blkIndent = 0
      rw [← hs1]; exact hsblk
  obtain ⟨t', hr', hsr4⟩ := blockTokenize_sh hin mn 0 (rest.length + 1) tD hsr (Nat.le_refl _) hD
  have hr'' : blockTokenize inner' (mn + 2) (listEnter s1 (lineRec (marker ++ List.replicate k ' ' ++ l0)) 0 marker.length ((marker.length : Int) + (k : Int), k) ((marker.length + k : Nat) : Int))
      0 (rest.length + 1) = .ok t' := hr'
  have hnest : listNested inner' (mn + 2) (rest.length + 1)
      (listEnter s1 (lineRec (marker ++ List.replicate k ' ' ++ l0)) 0 marker.length ((marker.length : Int) + (k : Int), k) ((marker.length + k : Nat) : Int)) 0 false = .ok t' := by
    unfold listNested
    simp only [Bool.false_eq_true, ↓reduceIte]
    exact hr''
  rw [hnest]
  simp only
  rw [listClose_eq]
  have hline4 : t'.line = rest.length + 1 := by rw [hsr4.line, hline]
  have hlen4 : t'.lines.length = rest.length + 2 := by
    rw [hsr4.len, hfr.1.1, stD_len]; simp
  have hlev4 : t'.level = 2 := by rw [hsr4.level, hfr.2.2.2]; rfl
  obtain ⟨pe, hpe⟩ : ∃ pe, (if t'.line - 0 > 1 then t'.isEmpty ((t'.line : Int) - 1) else Except.ok false) = .ok pe := by
    split
    · obtain ⟨b, hb⟩ := isEmpty_ok t' (t'.line - 1) (by omega)
      have hc : ((t'.line - 1 : Nat) : Int) = (t'.line : Int) - 1 := by omega
      rw [hc] at hb
      exact ⟨b, hb⟩
    · exact ⟨false, rfl⟩
  rw [hpe]
  simp only
  obtain ⟨lcur, hlcur⟩ : ∃ lcur, t'.lines[0]? = some lcur := by
    have : 0 < t'.lines.length := by omega
    exact ⟨t'.lines[0], List.getElem?_eq_getElem this⟩
  rw [getL_of_here hlcur]
  refine ⟨_, _, _, rfl, ?_, ?_, ?_, ?_⟩
  · show t'.line = _
    exact hline4
  · show (List.set t'.lines 0 _).length = _
    rw [List.length_set]; exact hlen4
  · show (BState.pushFull _ "list_item_close" "li" (-1) none none "" (String.singleton mc) "").level = 1
    rw [pushFull_level_close]
    show t'.level - 1 = 1
    rw [hlev4]; rfl
  · rw [closeState_tokens]
    obtain ⟨ts4, a4, b4⟩ := hsr4.tokens
    rw [List.nil_append] at a4
    subst a4
    rw [b4, h1tok]
    simp only [List.append_assoc, List.cons_append, List.nil_append]
    rw [C02.modify_append_len]
    simp only [pushedTok, Tok.setMap, itemOpenTok, itemCloseTok, hslev, hline4, hlev4, shift2_zero]
    simp

/-- the list rule on the indented document: one list, one item over all lines -/
theorem list_rule_law (codeOn : Bool) (terms' inner inner' : List BRule) (mn : Int) (l0 : List Char) (rest : List (List Char))
    (hcl : ∀ l ∈ l0 :: rest, Clean l ∧ '>' ∉ l) (c0 : Char) (cs0 : List Char) (hl0 : l0 = c0 :: cs0) (hc0 : c0 ≠ ' ')
    (marker : List Char) (k : Nat) (hk1 : 1 ≤ k) (hk4 : k ≤ 4) (hmt : '\t' ∉ marker) (hmpos : 0 < marker.length)
    (hlead : lead (marker ++ List.replicate k ' ' ++ l0) = 0)
    (ordered : Bool) (mc : Char)
    (hso : skipOrdered (lineRec (marker ++ List.replicate k ' ' ++ l0)) = if ordered then some marker.length else none)
    (hsb : ordered = false → skipBullet (lineRec (marker ++ List.replicate k ' ' ++ l0)) = some marker.length)
    (hmc : (marker ++ List.replicate k ' ' ++ l0)[marker.length - 1]? = some mc)
    (hin : ShSims 2 0 (marker.length + k) inner inner' ∨ inner = [])
    (tD : BState) (hD : blockTokenize inner mn (stD (l0 :: rest)) 0 (rest.length + 1) = .ok tD) (hline : tD.line = rest.length + 1)
    (hfr : (stD (l0 :: rest)).FrameEq tD) :
    ∃ sF, ruleList codeOn terms' inner' (mn + 2) (stD (listify marker k l0 rest)) 0 (rest.length + 1) false = .ok (true, sF)
      ∧ sF.line = rest.length + 1 ∧ sF.lines.length = rest.length + 2
      ∧ HidEq sF.tokens (listOpenTok0 ordered mc (digitsVal (List.take (marker.length - 1) (marker ++ List.replicate k ' ' ++ l0))) (rest.length + 1)
          :: itemOpenTok mc (if ordered = true then String.ofList (List.take (marker.length - 1) (marker ++ List.replicate k ' ' ++ l0)) else "") (rest.length + 1)
          :: tD.tokens.map (Tok.shift 2) ++ [itemCloseTok mc 2, listCloseTok ordered mc 1]) := by
  have hS0 : (stD (listify marker k l0 rest)).lines[0]? = some (lineRec (marker ++ List.replicate k ' ' ++ l0)) := by
    simp [stD, listify]
  have hbody : (lineRec (marker ++ List.replicate k ' ' ++ l0)).body = marker ++ List.replicate k ' ' ++ l0 := by
    show List.drop (lead _) _ = _
    rw [hlead]; rfl
  have hsc : (lineRec (marker ++ List.replicate k ' ' ++ l0)).sCount = 0 := by
    show ((lead _ : Nat) : Int) = 0
    rw [hlead]; rfl
  have hcode : isCodeLine codeOn (stD (listify marker k l0 rest)) (lineRec (marker ++ List.replicate k ' ' ++ l0)) = false := by
    unfold isCodeLine; rw [hsc]; simp [stD]
  have hli : (decide ((stD (listify marker k l0 rest)).listIndent ≥ 0) && decide ((lineRec (marker ++ List.replicate k ' ' ++ l0)).sCount - (stD (listify marker k l0 rest)).listIndent ≥ 4)
      && decide ((lineRec (marker ++ List.replicate k ' ' ++ l0)).sCount < (stD (listify marker k l0 rest)).blkIndent)) = false := by
    have : decide ((stD (listify marker k l0 rest)).listIndent ≥ 0) = false := by simp [stD]
    rw [this]; rfl
  -- the item
  obtain ⟨s6, nt, pe, hitem, h6line, h6len, h6lev, h6tok⟩ := list_item_law inner inner' mn l0 rest hcl c0 cs0 hl0 hc0 marker k hk1 hk4 hmt hmpos hlead ordered mc
    (listOpenState (stD (listify marker k l0 rest)) ordered mc (digitsVal (List.take (marker.length - 1) (marker ++ List.replicate k ' ' ++ l0))) 0)
    (listOpenState_fields _ _ _ _ _).1 (listOpenState_fields _ _ _ _ _).2.1
    (by rw [(listOpenState_fields _ _ _ _ _).2.2.1]; simp [stD, listify])
    (listOpenState_fields _ _ _ _ _).2.2.2.1 (by rw [(listOpenState_fields _ _ _ _ _).2.2.2.2.1]; rfl)
    (listOpenState_fields _ _ _ _ _).2.2.2.2.2 hin tD hD hline hfr
  -- the list
  have hrun : listRun codeOn ordered mc marker.length (digitsVal (List.take (marker.length - 1) (marker ++ List.replicate k ' ' ++ l0))) terms' inner' (mn + 2)
      (stD (listify marker k l0 rest)) 0 (rest.length + 1)
      = .ok (true, listFinish (stD (listify marker k l0 rest)) ordered mc 0
          { s := s6, startLine := rest.length + 1, markerLen := marker.length, tight := (if (!nt || false) = true then false else true), prevEmptyEnd := pe }) := by
    rw [listRun_eq]
    have hf : rest.length + 1 - 0 + 1 = (rest.length + 1) + 1 := by omega
    rw [hf]
    simp only [listItems, hitem]
    have c0' : ¬ ¬ (0 < rest.length + 1) := by omega
    simp only [c0', ↓reduceIte, h6line, ge_iff_le, Nat.le_refl]
  have hrule : ruleList codeOn terms' inner' (mn + 2) (stD (listify marker k l0 rest)) 0 (rest.length + 1) false
      = listRun codeOn ordered mc marker.length (digitsVal (List.take (marker.length - 1) (marker ++ List.replicate k ' ' ++ l0))) terms' inner' (mn + 2)
      (stD (listify marker k l0 rest)) 0 (rest.length + 1) := by
    rw [ruleList_eq]
    simp only [getL_of_here hS0, hcode, hli, Bool.false_eq_true, ↓reduceIte, hso]
    cases ordered with
    | true =>
      simp only [↓reduceIte, listTail, Bool.false_and, Bool.and_false, Bool.false_eq_true, hbody, hmc]
    | false =>
      simp only [Bool.false_eq_true, ↓reduceIte, hsb rfl, listTail, Bool.false_and, Bool.and_false, hbody, hmc]
  rw [hrule, hrun]
  generalize (if (!nt || false) = true then false else true) = tg
  refine ⟨_, rfl, ?_, ?_, ?_⟩
  · cases tg <;> rfl
  · have : (listFinish (stD (listify marker k l0 rest)) ordered mc 0
        { s := s6, startLine := rest.length + 1, markerLen := marker.length, tight := tg, prevEmptyEnd := pe }).lines = s6.lines := by
      cases tg <;> rfl
    rw [this]; exact h6len
  · -- tokens
    have htoks : (s6.pushFull (if ordered then "ordered_list_close" else "bullet_list_close") (if ordered then "ol" else "ul") (-1)
          none none "" (String.singleton mc) "").tokens.modify (stD (listify marker k l0 rest)).tokens.length (fun t => t.setMap (some (0, rest.length + 1)))
        = [] ++ (listOpenTok0 ordered mc (digitsVal (List.take (marker.length - 1) (marker ++ List.replicate k ' ' ++ l0))) (rest.length + 1)
          :: itemOpenTok mc (if ordered = true then String.ofList (List.take (marker.length - 1) (marker ++ List.replicate k ' ' ++ l0)) else "") (rest.length + 1)
          :: tD.tokens.map (Tok.shift 2) ++ [itemCloseTok mc 2, listCloseTok ordered mc 1]) := by
      rw [pushFull_tokens, h6tok, listOpenState_tokens]
      show List.modify _ 0 _ = _
      simp only [stD, List.nil_append, List.cons_append, List.modify_zero_cons, List.append_assoc]
      congr 1
      · unfold listOpenTok listOpenTok0
        simp only
        split <;> simp [pushedTok, Tok.setMap, Tok.setAttrs, *]
      · simp [pushedTok, listCloseTok, h6lev]
    cases tg
    · show HidEq (List.modify _ _ _) _
      rw [htoks]
      exact HidEq.refl _
    · show HidEq (markTight _ _ (List.modify _ _ _)) _
      rw [htoks]
      obtain ⟨seg', e1, e2⟩ := markTight_spec (s6.pushFull (if ordered then "ordered_list_close" else "bullet_list_close") (if ordered then "ol" else "ul") (-1)
          none none "" (String.singleton mc) "").level [] (listOpenTok0 ordered mc (digitsVal (List.take (marker.length - 1) (marker ++ List.replicate k ' ' ++ l0))) (rest.length + 1)
          :: itemOpenTok mc (if ordered = true then String.ofList (List.take (marker.length - 1) (marker ++ List.replicate k ' ' ++ l0)) else "") (rest.length + 1)
          :: tD.tokens.map (Tok.shift 2) ++ [itemCloseTok mc 2, listCloseTok ordered mc 1])
      have hlen0 : (stD (listify marker k l0 rest)).tokens.length = ([] : List Tok).length := rfl
      rw [hlen0, e1]
      exact e2

/-! ### markers -/

/-- a list marker: one of `* - +`, or 1–9 ASCII digits followed by `)` or `.`; with whether it is ordered and its delimiter character -/
inductive Marker : List Char → Bool → Char → Prop where
  | bullet (m : Char) : (m = '*' ∨ m = '-' ∨ m = '+') → Marker [m] false m
  | ordered (d0 : Char) (ds : List Char) (d : Char) : isAsciiDigit d0 = true → (∀ c ∈ ds, isAsciiDigit c = true) → ds.length ≤ 8 →
      (d = ')' ∨ d = '.') → Marker (d0 :: ds ++ [d]) true d

def MarkerChar (c : Char) : Prop := c = '*' ∨ c = '-' ∨ c = '+' ∨ c = ')' ∨ c = '.' ∨ isAsciiDigit c = true

theorem MarkerChar.ne {c : Char} (h : MarkerChar c) :
    c ≠ '\n' ∧ c ≠ '\t' ∧ c ≠ '\r' ∧ c ≠ '\x00' ∧ c ≠ ' ' ∧ c ≠ '>' ∧ c ≠ '`' ∧ c ≠ '~' := by
  rcases h with h | h | h | h | h | h
  · subst h; decide
  · subst h; decide
  · subst h; decide
  · subst h; decide
  · subst h; decide
  · refine ⟨?_, ?_, ?_, ?_, ?_, ?_, ?_, ?_⟩ <;> (intro e; subst e; revert h; decide)

theorem Marker.chars {m : List Char} {o : Bool} {d : Char} (h : Marker m o d) : ∀ c ∈ m, MarkerChar c := by
  cases h with
  | bullet m hm =>
    intro c hc; simp at hc; subst hc
    rcases hm with h | h | h
    · exact Or.inl h
    · exact Or.inr (Or.inl h)
    · exact Or.inr (Or.inr (Or.inl h))
  | ordered d0 ds d h0 hds _ hd =>
    intro c hc
    simp only [List.cons_append, List.mem_cons, List.mem_append, List.mem_singleton] at hc
    rcases hc with hc | hc | hc | hc
    · subst hc; exact Or.inr (Or.inr (Or.inr (Or.inr (Or.inr h0))))
    · exact Or.inr (Or.inr (Or.inr (Or.inr (Or.inr (hds c hc)))))
    · subst hc
      rcases hd with h | h
      · exact Or.inr (Or.inr (Or.inr (Or.inl h)))
      · exact Or.inr (Or.inr (Or.inr (Or.inr (Or.inl h))))
    · cases hc

theorem Marker.pos {m : List Char} {o : Bool} {d : Char} (h : Marker m o d) : 0 < m.length := by
  cases h <;> simp

theorem ordLoop_digits (d : Char) (hd : d = ')' ∨ d = '.') (x : List Char) : ∀ (ds : List Char) (n : Nat), (∀ c ∈ ds, isAsciiDigit c = true) →
    n + ds.length ≤ 9 → ordLoop (ds ++ d :: ' ' :: x) n = some (n + ds.length + 1) := by
  intro ds
  induction ds with
  | nil =>
    intro n _ _
    have hnd : isAsciiDigit d = false := by rcases hd with h | h <;> subst h <;> decide
    have hdd : (d == ')' || d == '.') = true := by rcases hd with h | h <;> subst h <;> decide
    simp [ordLoop, hnd, hdd, isSpaceTab]
  | cons c cs ih =>
    intro n hds hn
    simp only [List.length_cons] at hn
    have hc := hds c (by simp)
    have h10 : ¬ (n + 1 ≥ 10) := by omega
    simp only [List.cons_append, ordLoop, hc, ↓reduceIte, h10]
    rw [ih (n + 1) (fun q hq => hds q (by simp [hq])) (by omega)]
    simp only [List.length_cons]; congr 1; omega

/-- what the list rule reads of the marker line -/
theorem Marker.facts {m : List Char} {o : Bool} {d : Char} (h : Marker m o d) (k : Nat) (hk : 1 ≤ k) (l0 : List Char) :
    lead (m ++ List.replicate k ' ' ++ l0) = 0 ∧
    skipOrdered (lineRec (m ++ List.replicate k ' ' ++ l0)) = (if o then some m.length else none) ∧
    (o = false → skipBullet (lineRec (m ++ List.replicate k ' ' ++ l0)) = some m.length) ∧
    (m ++ List.replicate k ' ' ++ l0)[m.length - 1]? = some d := by
  obtain ⟨j, rfl⟩ : ∃ j, k = j + 1 := ⟨k - 1, by omega⟩
  have hbodyeq : ∀ (x : List Char), lead x = 0 → (lineRec x).body = x := by
    intro x hx; show List.drop (lead x) x = x; rw [hx]; rfl
  cases h with
  | bullet _ hm =>
    have hmc : MarkerChar d := by
      rcases hm with h | h | h
      · exact Or.inl h
      · exact Or.inr (Or.inl h)
      · exact Or.inr (Or.inr (Or.inl h))
    obtain ⟨_, n2, _, _, n5, _⟩ := hmc.ne
    have hlead : lead ([d] ++ List.replicate (j + 1) ' ' ++ l0) = 0 := by
      simp [lead, isSpaceTab, n2, n5]
    have hnd : isAsciiDigit d = false := by rcases hm with h | h | h <;> subst h <;> decide
    have hbul : (d == '*' || d == '-' || d == '+') = true := by rcases hm with h | h | h <;> subst h <;> decide
    refine ⟨hlead, ?_, ?_, ?_⟩
    · unfold skipOrdered
      rw [hbodyeq _ hlead]
      simp [List.replicate_succ, hnd]
    · intro _
      unfold skipBullet
      rw [hbodyeq _ hlead]
      simp [List.replicate_succ, hbul, isSpaceTab]
    · simp
  | ordered d0 ds d h0 hds hlen hd =>
    have hmc : MarkerChar d0 := Or.inr (Or.inr (Or.inr (Or.inr (Or.inr h0))))
    obtain ⟨_, n2, _, _, n5, _⟩ := hmc.ne
    have hlead : lead (d0 :: ds ++ [d] ++ List.replicate (j + 1) ' ' ++ l0) = 0 := by
      simp [lead, isSpaceTab, n2, n5]
    refine ⟨hlead, ?_, ?_, ?_⟩
    · unfold skipOrdered
      rw [hbodyeq _ hlead]
      have hlen2 : ¬ ((d0 :: ds ++ [d] ++ List.replicate (j + 1) ' ' ++ l0).length < 2) := by simp; omega
      have e : d0 :: ds ++ [d] ++ List.replicate (j + 1) ' ' ++ l0 = d0 :: (ds ++ d :: ' ' :: (List.replicate j ' ' ++ l0)) := by
        simp [List.replicate_succ]
      rw [e] at hlen2 ⊢
      simp only [hlen2, ↓reduceIte, h0, Bool.not_true, Bool.false_eq_true]
      rw [ordLoop_digits d hd _ ds 1 hds (by omega)]
      simp only [List.length_cons, List.length_append, List.length_nil]
      congr 1; omega
    · intro h; cases h
    · have : (d0 :: ds ++ [d]).length - 1 = (d0 :: ds).length := by simp
      rw [this, List.append_assoc, List.append_assoc]
      rw [List.getElem?_append_right (by simp)]
      simp

end MdIt.C06e
