import MdIt.Props.C03d
import MdIt.Props.C02h
/-!
# C03 (continued) — source maps of the block sub-parser with `html_block` and `lheading`

`mapOK_htmlBlock`, `mapOK_lheading`: the map contract of the two rules (an `html_block` token's map is `[startLine, nextLine)`; a
setext heading's opening token spans the content lines and the underline, its inline token the content lines only);
`mChain_maps` is `lChain_maps` for the chains with nine rules; **`m_staged`**: the top-level blocks of `mParse` are staged inside the
document — non-empty, increasing, pairwise disjoint line ranges.
-/
namespace MdIt.C03
open MdIt.C01 MdIt.C02

def InnerMapsM (c : MCfg) (ws : List Nat) (mn : Int) (d : Nat) : Prop :=
  ∀ (s : BState) (startLine endLine : Nat) (s' : BState), s.lineMax + 1 ≤ s.lines.length → endLine ≤ s.lineMax → Lv mn d s endLine →
    blockTokenize (mChain c ws mn d) mn s startLine endLine = .ok s' →
    ∃ new, s'.tokens = s.tokens ++ new ∧ Staged startLine s'.line new

theorem mapsIn_one' (a b : Nat) (t : Tok) (h : ∀ x y, t.map = some (x, y) → a ≤ x ∧ x < y ∧ y ≤ b) : MapsIn a b [t] := by
  intro t' ht x y hm
  simp at ht; subst ht; exact h x y hm

theorem mapOK_htmlBlock (P) (codeOn htmlOn : Bool) : MapOK P (ruleHtmlBlock codeOn htmlOn) := by
  refine ⟨?_, ?_⟩
  · intro s line endLine s' hc h
    rcases html_shape P codeOn htmlOn s line endLine hc with h' | ⟨next, c, h1, h2, h'⟩
    · rw [h'] at h; cases h
    · rw [h'] at h; cases h
      refine ⟨[_], pushFull_tokens _ _ _ _ _ _ _ _ _, mapsIn_one' _ _ _ ?_⟩
      intro x y hm; simp at hm; obtain ⟨rfl, rfl⟩ := hm; simp; omega
  · intro s line endLine s' hc h
    rcases html_shape P codeOn htmlOn s line endLine hc with h' | ⟨next, c, h1, h2, h'⟩
    · rw [h'] at h; cases h; rfl
    · rw [h'] at h; cases h

theorem mapOK_lheading (P : BState → Nat → Prop) (codeOn : Bool) (terms : List BRule) (hin : ∀ t ∈ terms, SilentInert t) (ws : List Nat) :
    MapOK P (ruleLheading codeOn terms ws) := by
  refine ⟨?_, ?_⟩
  · intro s line endLine s' hc h
    rcases lheading_shape P codeOn terms hin ws s line endLine hc with h' | h' | ⟨next, tag, mk, c, h1, h2, h'⟩
    · rw [h'] at h; cases h
    · rw [h'] at h; cases h
    · rw [h'] at h; cases h
      refine ⟨?seg, ?heq, ?hmaps⟩
      case heq =>
        show (BState.pushFull _ _ _ _ _ _ _ _ _).tokens = _
        rw [pushFull_tokens, pushFull_tokens, pushFull_tokens, List.append_assoc, List.append_assoc]
      case hmaps =>
        intro t ht x y hm
        simp only [List.mem_append, List.mem_singleton] at ht
        rcases ht with rfl | rfl | rfl
        · simp at hm; obtain ⟨rfl, rfl⟩ := hm; simp; omega
        · simp at hm; obtain ⟨rfl, rfl⟩ := hm; simp; omega
        · simp at hm
  · intro s line endLine s' hc h
    rcases lheading_shape P codeOn terms hin ws s line endLine hc with h' | h' | ⟨next, tag, mk, c, h1, h2, h'⟩
    · rw [h'] at h; cases h; rfl
    · rw [h'] at h; cases h; rfl
    · rw [h'] at h; cases h

theorem mapOK_mLeaves (c : MCfg) (ws : List Nat) (mn : Int) (P : BState → Nat → Prop) :
    ∀ r ∈ mLeaves c ws mn, MapOK P r := by
  intro r hr
  simp only [mLeaves, List.mem_append, List.mem_singleton] at hr
  rcases hr with (((((hr | hr) | hr) | hr) | hr) | hr) | hr
  · split at hr
    · simp at hr; subst hr; exact mapOK_code _ _
    · cases hr
  · split at hr
    · simp at hr; subst hr; exact mapOK_fence _ _
    · cases hr
  · split at hr
    · simp at hr; subst hr; exact mapOK_hr _ _
    · cases hr
  · split at hr
    · simp at hr; subst hr; exact mapOK_htmlBlock _ _ _
    · cases hr
  · split at hr
    · simp at hr; subst hr; exact mapOK_heading _ _ _
    · cases hr
  · split at hr
    · simp at hr; subst hr; exact mapOK_lheading _ _ _ (mTerminators_inert c ws mn) ws
    · cases hr
  · subst hr; exact mapOK_paragraph _ _ (mTerminators_inert c ws mn) ws

theorem mChain_maps (c : MCfg) (ws : List Nat) (mn : Int) : ∀ d : Nat,
    (∀ r ∈ mChain c ws mn d, MapOK (Lv mn d) r) ∧ InnerMapsM c ws mn d := by
  intro d
  induction d with
  | zero =>
    have h0 : ∀ r ∈ mChain c ws mn 0, MapOK (Lv mn 0) r := fun r hr => by simp [mChain] at hr
    refine ⟨h0, ?_⟩
    intro s startLine endLine s' hlen hend hlv hrun
    exact loop_maps_final (Lv mn 0) (lv_closed mn 0) _ (mChain_ok c ws mn 0).1 h0 mn endLine _ startLine false s s' hlen hend hlv hrun
  | succ d ih =>
    have hq : MapOK (Lv mn (d + 1)) (ruleBlockquote c.code (mTerminators c ws mn) (mChain c ws mn d) mn) := by
      have key := quote_shape mn d c.code (mTerminators c ws mn) (mTerminators_inert c ws mn) (mChain c ws mn d) (mChain_ok c ws mn d).2
      refine ⟨?_, ?_⟩
      · intro s line endLine s' hc h
        rcases key s line endLine hc with h' | ⟨s'', h', _, hlt, _, hrunq⟩
        · rw [h'] at h; cases h
        · rw [h'] at h; cases h
          obtain ⟨s3, s4, next, openT, closeT, hl3, hlen3, hend3, hLv3, hrun, htok3, htok, _, _, _, _, _, _, hline, hom, hcm, _⟩ :=
            quote_tokens mn d _ s line s' hrunq
          obtain ⟨new, hs4, hst⟩ := ih.2 s3 line next s4 hlen3 hend3 hLv3 hrun
          refine ⟨_, htok new hs4, ?_⟩
          intro t ht x y hm
          simp only [List.mem_append, List.mem_singleton] at ht
          rcases ht with (rfl | ht) | rfl
          · simp at hm; obtain ⟨rfl, rfl⟩ := hm
            rw [hline] at hlt ⊢
            exact ⟨Nat.le_refl _, hlt, Nat.le_refl _⟩
          · have := hst.mapsIn t ht x y hm
            rw [hline]; exact this
          · rw [hcm] at hm; cases hm
      · intro s line endLine s' hc h
        rcases key s line endLine hc with h' | ⟨s'', h', _⟩
        · rw [h'] at h; cases h; rfl
        · rw [h'] at h; cases h
    have hl : MapOK (Lv mn (d + 1)) (ruleList c.code (mListTerms c mn) (mChain c ws mn d) mn) := by
      have key := list_shape mn d c.code (mListTerms c mn) (mListTerms_inert c mn) (mChain c ws mn d) (mChain_ok c ws mn d).2
      refine ⟨?_, ?_⟩
      · intro s line endLine s' hc h
        obtain ⟨ordered, mc, mlen, mv, hrun⟩ := ruleList_hit _ _ _ _ _ _ _ _ h
        have hitem : ∀ (s : BState) (startLine markerLen : Nat) (s6 : BState) (nt pe : Bool), s.lineMax + 1 ≤ s.lines.length → endLine ≤ s.lineMax →
            startLine < endLine → s.line = startLine → mn + 1 ≤ s.level + 1 + (d : Int) →
            listItem ordered mc (mChain c ws mn d) mn endLine s startLine markerLen = .ok (s6, nt, pe) →
            ∃ seg, s6.tokens = s.tokens ++ seg ∧ MapsIn startLine s6.line seg := by
          intro s startLine markerLen s6 nt pe hlen hend hlt hline hlv hit
          obtain ⟨s6', nt', pe', hit', _, hgt6, _⟩ := listItem_ok mn d ordered mc (mChain c ws mn d) (mChain_ok c ws mn d).2 endLine s startLine markerLen
            hlen hend hlt hline hlv
          rw [hit] at hit'; cases hit'
          obtain ⟨s2, s3, openT, closeT, h2t, h2l, h2m, h2len, hnest, htok, _, _, _, _, _, _, hcm, h6l, _⟩ :=
            listItem_tokens _ _ _ _ _ _ _ _ _ _ _ hit
          have fin : ∀ innerToks, MapsIn startLine s3.line innerToks →
              MapsIn startLine s6.line ([openT.setMap (some (startLine, s3.line))] ++ innerToks ++ [closeT]) := by
            intro innerToks hin t ht x y hm
            simp only [List.mem_append, List.mem_singleton] at ht
            rcases ht with (rfl | ht) | rfl
            · simp at hm; obtain ⟨rfl, rfl⟩ := hm
              rw [h6l] at hgt6 ⊢
              exact ⟨Nat.le_refl _, hgt6, Nat.le_refl _⟩
            · rw [h6l]; exact hin t ht x y hm
            · rw [hcm] at hm; cases hm
          rcases hnest with ⟨h3t, _⟩ | hrun3
          · exact ⟨_, htok [] (by rw [h3t]; simp), fin [] (fun t ht => by cases ht)⟩
          · have hlen2 : s2.lineMax + 1 ≤ s2.lines.length := by rw [h2m, h2len]; exact hlen
            have hend2 : endLine ≤ s2.lineMax := by rw [h2m]; exact hend
            have hlv2 : Lv mn d s2 endLine := by unfold Lv; rw [h2l]; omega
            obtain ⟨new, hs3, hst⟩ := ih.2 s2 startLine endLine s3 hlen2 hend2 hlv2 hrun3
            exact ⟨_, htok _ hs3, fin new hst.mapsIn⟩
        obtain ⟨s2, openT, closeT, toks, seg', _, hchain, hlt, htok, hhid, _, _, _, _, _, _, hcm⟩ :=
          listRun_tokens (fun _ a b seg => MapsIn a b seg) (fun _ _ _ _ _ _ h => h) mn d c.code ordered mc mlen mv
            (mListTerms c mn) (mListTerms_inert c mn) (mChain c ws mn d) (mChain_ok c ws mn d).2 s line endLine hitem hc s' hrun
        refine ⟨seg', htok, mapsIn_hid hhid ?_⟩
        intro t ht x y hm
        simp only [List.mem_append, List.mem_singleton] at ht
        rcases ht with (rfl | ht) | rfl
        · simp at hm; obtain ⟨rfl, rfl⟩ := hm
          exact ⟨Nat.le_refl _, hlt, Nat.le_refl _⟩
        · exact itemChain_mapsIn hchain line (Nat.le_refl _) t ht x y hm
        · rw [hcm] at hm; cases hm
      · intro s line endLine s' hc h
        rcases key s line endLine hc with h' | ⟨s'', h', _⟩
        · rw [h'] at h; cases h; rfl
        · rw [h'] at h; cases h
    have hall : ∀ r ∈ mChain c ws mn (d + 1), MapOK (Lv mn (d + 1)) r := by
      intro r hr
      rcases mem_mChain c ws mn d r hr with h | h | h
      · exact mapOK_mLeaves c ws mn _ r h
      · subst h; exact hq
      · subst h; exact hl
    refine ⟨hall, ?_⟩
    intro s startLine endLine s' hlen hend hlv hrun
    exact loop_maps_final (Lv mn (d + 1)) (lv_closed mn (d + 1)) _ (mChain_ok c ws mn (d + 1)).1 hall mn endLine _ startLine false s s' hlen hend hlv hrun

/-- **C03.m_staged** — with block quotes and lists nested in each other to any depth: the top-level blocks of the stream are staged
inside the document (maps in range, non-empty, increasing, disjoint); by `mChain_maps`, every token between a container's opening and
closing token (quote, list, list item) has its map inside the container's map -/
theorem m_staged (c : MCfg) (ws : List Nat) (maxNesting : Int) (src : List Char) (ts : List Tok)
    (h : mParse c ws maxNesting src = .ok ts) : Staged 0 (initBState (normalize src)).lineMax ts := by
  unfold mParse at h
  simp only at h
  split at h
  · cases h; exact .nil _ _
  · split at h
    · rename_i s' hs'
      cases h
      have hlv : Lv maxNesting (maxNesting.toNat + 1) (initBState (normalize src)) (initBState (normalize src)).lineMax := by
        unfold Lv; show maxNesting + 1 ≤ (0 : Int) + ((maxNesting.toNat + 1 : Nat) : Int); omega
      obtain ⟨new, hn, hst⟩ := loop_maps_staged (Lv maxNesting (maxNesting.toNat + 1)) (lv_closed _ _) _
        (mChain_ok c ws maxNesting (maxNesting.toNat + 1)).1 (mChain_maps c ws maxNesting (maxNesting.toNat + 1)).1
        maxNesting (initBState (normalize src)).lineMax _ 0 false (initBState (normalize src)) s' (initBState_len _) (Nat.le_refl _) hlv hs'
      have : (initBState (normalize src)).tokens = [] := rfl
      rw [this, List.nil_append] at hn
      rw [hn]; exact hst
    · cases h

end MdIt.C03
