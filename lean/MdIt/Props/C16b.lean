import MdIt.BlockRef
import MdIt.Props.C01h
import MdIt.Props.C05c
/-!
# C16 / C05 / C01 — the `reference` block rule on its own: contract, and what it records is validated

The rule is modelled (`MdIt/BlockRef.lean`) and tied end to end (`fullparser`).  Proved here, for every call the block loop can make
(`CallCtx`), every terminator chain of inert rules, every seeded env and external functions:

* `reference_shape` — the call returns, in one of three shapes: a miss that leaves the state alone, a miss after the continuation
  scan that leaves `parentType = "reference"` behind and nothing else (the leak O4 has in `lheading`), or a match that moves
  `state.line` forward, appends at most the `definition` token and records exactly one entry — in `references` or `duplicate_refs`;
* `reference_contract` — K1 (no exception), K2 (a miss leaves `state.line`), K4 (line tables, `lineMax`, `blkIndent`, `level`
  restored), and `state.line` moves strictly forward on a match;
* **`reference_records_valid`** — the entry recorded carries `href = normalizeLink(dest)` for a `dest` on which `validateLink`
  answered true: what `C05.link_hrefs` / `image_hrefs` / `full_hrefs` assume of the reference table (`RefsOK`) is what this rule
  establishes for every entry it writes (`envAfter_refsOK`).

Not proved: the upper bound `state.line ≤ lineMax` of contract K3 for this rule.  `state.line = startLine + lines + 1` counts the line
feeds of the *string* cut from the scanned lines; that this is less than the number of scanned lines needs "no line text holds a line
feed", an invariant of the line tables that the call context of the engine theorems does not carry — so the chain-level theorems
(`m_total`, `m_wellformed`, `m_staged`, …) stay on the nine-rule chains and the ten-rule chain is covered by the tie.
-/
namespace MdIt.C16
open MdIt.C01 MdIt.C05

/-- a destination the rule may store: `normalizeLink` of something, accepted by `validateLink` -/
def ValidHref (ext : IExt) (h : List Char) : Prop := ∃ u, h = ext.normLink u ∧ validateLink h = true

theorem refParse_valid (ext : IExt) (nr : List Char → List Char) (str : List Char) (d : RefParsed) (h : refParse ext nr str = some d) :
    ValidHref ext d.href ∧ d.label = nr d.raw ∧ d.label ≠ [] := by
  unfold refParse at h
  simp only at h
  cases hl : refLabelGo str str.length (str.length + 1) 1 0 with
  | none => rw [hl] at h; cases h
  | some le =>
    obtain ⟨labelEnd, lines0⟩ := le
    rw [hl] at h
    simp only at h
    split at h
    · cases h
    · cases hd : parseLinkDestination ext str (refSkipNl str str.length (str.length + 1) (labelEnd + 2) lines0).1 str.length with
      | none => rw [hd] at h; cases h
      | some dd =>
        obtain ⟨dpos, dstr⟩ := dd
        rw [hd] at h
        simp only at h
        split at h
        · cases h
        · rename_i hv
          cases ht : refTail ext str str.length dpos (refSkipNl str str.length (str.length + 1) (labelEnd + 2) lines0).2 with
          | none => rw [ht] at h; cases h
          | some lt =>
            obtain ⟨lines, title⟩ := lt
            rw [ht] at h
            simp only at h
            split at h
            · cases h
            · rename_i hne
              simp only [Option.some.injEq] at h
              subst h
              refine ⟨⟨dstr, rfl, by simpa using hv⟩, rfl, ?_⟩
              intro he
              simp only at he
              rw [he] at hne
              simp at hne

/-- the state after a match: `state.line` set, the `definition` token if asked for, one entry recorded, `parentType` restored -/
def refHit (lx : LExt) (inlineDefs : Bool) (s s1 : BState) (startLine : Nat) (d : RefParsed) : BState :=
  let newLine := startLine + d.lines + 1
  let tok : Tok := .mk "definition" "" 0 [] (some (startLine, newLine)) s1.level none "" "" ""
    [("id", String.ofList d.label), ("title", String.ofList d.title), ("url", String.ofList d.href), ("label", String.ofList d.raw)] true false
  let s2 := { s1 with line := newLine, tokens := if inlineDefs then s1.tokens ++ [tok] else s1.tokens }
  let known := (lx.hasRefs && (lx.refs d.label).isSome) || (lookupRef s2.refs d.label).isSome
  let s3 := if known then { s2 with dups := s2.dups ++ [(d.label, d.href, d.title)] }
            else { s2 with refs := s2.refs ++ [(d.label, d.href, d.title)] }
  { s3 with parentType := s.parentType }

theorem reference_shape (P : BState → Nat → Prop) (ext : IExt) (lx : LExt) (inlineDefs codeOn : Bool) (terms : List BRule)
    (hin : ∀ t ∈ terms, SilentInert t) (ws : List Nat) (s : BState) (line endLine : Nat) (hc : CallCtx P s line endLine) :
    ruleReference ext lx inlineDefs codeOn terms ws s line endLine false = .ok (false, s)
    ∨ ruleReference ext lx inlineDefs codeOn terms ws s line endLine false = .ok (false, { s with parentType := "reference" })
    ∨ ∃ next c d, line + 1 ≤ next ∧ next ≤ s.lineMax ∧ getLinesB { s with parentType := "reference" } line next s.blkIndent false = .ok c
        ∧ refParse ext lx.normRef (pyStrip ws c) = some d
        ∧ ruleReference ext lx inlineDefs codeOn terms ws s line endLine false
            = .ok (true, refHit lx inlineDefs s { s with parentType := "reference" } line d) := by
  obtain ⟨l, hg⟩ := here_getL' hc
  obtain ⟨l', hl1, hl2, _⟩ := hc.here
  have hll : l' = l := by have := getL_of_here hl1; rw [hg] at this; cases this; rfl
  subst hll
  have hlenM : s.lineMax < s.lines.length := by have := hc.len; omega
  simp only [ruleReference, hg]
  split
  · exact .inl rfl
  · -- the body is not empty
    have hbody : l'.body ≠ [] := by
      unfold BLine.body
      unfold BLine.empty at hl2
      simp only [decide_eq_false_iff_not, Nat.not_le] at hl2
      intro he
      have := congrArg List.length he
      simp only [List.length_drop, List.length_nil] at this
      omega
    split
    · rename_i hb; exact absurd hb hbody
    · split
      · exact .inl rfl
      · split
        · exact .inl rfl
        · obtain ⟨r, h1, h2, h3⟩ := paraScan_ok terms hin { s with parentType := "reference" } s.lineMax hlenM
            (s.lineMax - line + 1) (line + 1) (by omega) (by have := hc.lt; have := hc.le; omega)
          simp only [h1]
          obtain ⟨c, hcx⟩ := getLinesB_ok { s with parentType := "reference" } line r s.blkIndent false (by show r ≤ s.lines.length; omega)
          simp only [hcx]
          split
          · exact .inr (.inl rfl)
          · rename_i d hd
            exact .inr (.inr ⟨r, c, d, h2, h3, hcx, hd, by simp [refHit]⟩)

/-- **the contract of the `reference` rule** (K1, K2, K4, forward progress) -/
theorem reference_contract (P : BState → Nat → Prop) (ext : IExt) (lx : LExt) (inlineDefs codeOn : Bool) (terms : List BRule)
    (hin : ∀ t ∈ terms, SilentInert t) (ws : List Nat) (s : BState) (line endLine : Nat) (hc : CallCtx P s line endLine) :
    ∃ m s', ruleReference ext lx inlineDefs codeOn terms ws s line endLine false = .ok (m, s')
      ∧ s.FrameEq s' ∧ (m = false → s'.line = s.line ∧ s'.tokens = s.tokens ∧ s'.refs = s.refs ∧ s'.dups = s.dups)
      ∧ (m = true → line < s'.line ∧ s'.parentType = s.parentType) := by
  rcases reference_shape P ext lx inlineDefs codeOn terms hin ws s line endLine hc with h | h | ⟨next, c, d, _, _, _, _, h⟩
  · exact ⟨false, s, h, ⟨⟨rfl, rfl⟩, rfl, rfl, rfl⟩, (fun _ => ⟨rfl, rfl, rfl, rfl⟩), (fun hm => by cases hm)⟩
  · exact ⟨false, _, h, ⟨⟨rfl, rfl⟩, rfl, rfl, rfl⟩, (fun _ => ⟨rfl, rfl, rfl, rfl⟩), (fun hm => by cases hm)⟩
  · refine ⟨true, _, h, ?_, (fun hm => by cases hm), (fun _ => ?_)⟩
    · unfold refHit; simp only; split <;> exact ⟨⟨rfl, rfl⟩, rfl, rfl, rfl⟩
    · unfold refHit; simp only; split
      · exact ⟨by show line < line + d.lines + 1; omega, by simp⟩
      · exact ⟨by show line < line + d.lines + 1; omega, by simp⟩

/-- every entry of the two tables is a validated destination -/
def RefsValid (ext : IExt) (s : BState) : Prop :=
  (∀ e ∈ s.refs, ValidHref ext e.2.1) ∧ (∀ e ∈ s.dups, ValidHref ext e.2.1)

/-- **C16/C05.reference_records_valid** — whatever the call returns, the tables it leaves hold validated destinations if they did
before: a match appends exactly one entry, `(label, normalizeLink(dest), title)` with `validateLink` true, to one of them -/
theorem reference_records_valid (P : BState → Nat → Prop) (ext : IExt) (lx : LExt) (inlineDefs codeOn : Bool) (terms : List BRule)
    (hin : ∀ t ∈ terms, SilentInert t) (ws : List Nat) (s : BState) (line endLine : Nat) (hc : CallCtx P s line endLine) (m : Bool) (s' : BState)
    (h : ruleReference ext lx inlineDefs codeOn terms ws s line endLine false = .ok (m, s')) (hv : RefsValid ext s) :
    RefsValid ext s' ∧ (m = true → ∃ d : RefParsed, ValidHref ext d.href ∧ d.label ≠ [] ∧
      ((s'.refs = s.refs ++ [(d.label, d.href, d.title)] ∧ s'.dups = s.dups) ∨ (s'.refs = s.refs ∧ s'.dups = s.dups ++ [(d.label, d.href, d.title)]))) := by
  rcases reference_shape P ext lx inlineDefs codeOn terms hin ws s line endLine hc with h' | h' | ⟨next, c, d, _, _, _, hd, h'⟩
  · rw [h'] at h; cases h; exact ⟨hv, (fun hm => by cases hm)⟩
  · rw [h'] at h; cases h; exact ⟨hv, (fun hm => by cases hm)⟩
  · rw [h'] at h
    simp only [Except.ok.injEq, Prod.mk.injEq] at h
    obtain ⟨rfl, rfl⟩ := h
    obtain ⟨hvalid, _, hne⟩ := refParse_valid ext lx.normRef _ d hd
    have hshape : ((refHit lx inlineDefs s { s with parentType := "reference" } line d).refs = s.refs ++ [(d.label, d.href, d.title)]
          ∧ (refHit lx inlineDefs s { s with parentType := "reference" } line d).dups = s.dups)
        ∨ ((refHit lx inlineDefs s { s with parentType := "reference" } line d).refs = s.refs
          ∧ (refHit lx inlineDefs s { s with parentType := "reference" } line d).dups = s.dups ++ [(d.label, d.href, d.title)]) := by
      unfold refHit; simp only; split
      · exact .inr ⟨rfl, rfl⟩
      · exact .inl ⟨rfl, rfl⟩
    refine ⟨?_, fun _ => ⟨d, hvalid, hne, hshape⟩⟩
    rcases hshape with ⟨h1, h2⟩ | ⟨h1, h2⟩
    · refine ⟨?_, by rw [h2]; exact hv.2⟩
      rw [h1]; intro e he
      rcases List.mem_append.1 he with he | he
      · exact hv.1 e he
      · simp only [List.mem_singleton] at he; subst he; exact hvalid
    · refine ⟨by rw [h1]; exact hv.1, ?_⟩
      rw [h2]; intro e he
      rcases List.mem_append.1 he with he | he
      · exact hv.2 e he
      · simp only [List.mem_singleton] at he; subst he; exact hvalid

/-- the env the inline rules read after the block parse is acceptable (`RefsOK`) when the seeded env was and the recorded entries are
    validated — the hypothesis of `C05.link_hrefs` / `image_hrefs` / `full_hrefs`, discharged for what the `reference` rule writes -/
theorem envAfter_refsOK (ext : IExt) (lx : LExt) (s : BState) (hlx : RefsOK lx) (hv : RefsValid ext s) : RefsOK (envAfter lx s) := by
  intro l h t hr
  unfold envAfter at hr
  simp only at hr
  split at hr
  · rename_i r hr0
    simp only [Option.some.injEq] at hr
    subst hr
    split at hr0
    · exact hlx l h t hr0
    · cases hr0
  · unfold lookupRef at hr
    cases hf : s.refs.find? (·.1 == l) with
    | none => rw [hf] at hr; cases hr
    | some e =>
      rw [hf] at hr
      simp only [Option.map_some, Option.some.injEq] at hr
      have hmem := List.mem_of_find?_eq_some hf
      obtain ⟨u, hu, hval⟩ := hv.1 e hmem
      have he : e.2.1 = h := by rw [hr]
      rw [he] at hu hval
      rw [hu]
      rw [hu] at hval
      exact ⟨encode_range _, api ext.reformat u hval⟩

end MdIt.C16
