import MdIt.Props.C01j
/-!
# C10 (continued) — conservative extension: switching a rule on changes nothing on inputs that hold none of its trigger characters
-/
namespace MdIt.C10
open MdIt.C01

/-- two rules give the same answer on every state of the loop's context whose source is `S` -/
def AgreeAt (S : List Char) (r r' : IRule) : Prop := ∀ s silent, ICtx s → CacheOK s → s.src = S → r s silent = r' s silent

/-- the rule declines, leaving the state alone, on every such state -/
def InertAt (S : List Char) (r : IRule) : Prop := ∀ s silent, ICtx s → CacheOK s → s.src = S → r s silent = .ok (false, s)

/-- `l'` is `l` up to rules that are inert on `S` (on either side) and rules replaced by ones agreeing on `S` -/
inductive Ext (S : List Char) : List IRule → List IRule → Prop
  | nil : Ext S [] []
  | both {r r' l l'} : AgreeAt S r r' → Ext S l l' → Ext S (r :: l) (r' :: l')
  | left {r l l'} : InertAt S r → Ext S l l' → Ext S (r :: l) l'
  | right {r' l l'} : InertAt S r' → Ext S l l' → Ext S l (r' :: l')

theorem Ext.append {S : List Char} {a a' b b' : List IRule} (h1 : Ext S a a') (h2 : Ext S b b') : Ext S (a ++ b) (a' ++ b') := by
  induction h1 with
  | nil => exact h2
  | both hr _ ih => exact .both hr ih
  | left hr _ ih => exact .left hr ih
  | right hr _ ih => exact .right hr ih

theorem runChain_ext {S : List Char} {l l' : List IRule} (hE : Ext S l l') : (∀ r ∈ l, IOK4 r) → ∀ s, ICtx s → CacheOK s → s.src = S →
    runChain l s = runChain l' s := by
  induction hE with
  | nil => intro _ s _ _ _; rfl
  | @both r r' l l' hr _ ih =>
    intro hok s hc hk hs
    obtain ⟨m, s1, h1, hret⟩ := hok r (by simp) s false hc hk
    simp only [runChain, ← hr s false hc hk hs, h1]
    cases m with
    | true => rfl
    | false => exact ih (fun q hq => hok q (by simp [hq])) s1 (ictx_of_ret hc hret) hret.2.2.2.2.2.1 (hret.1.trans hs)
  | @left r l l' hr _ ih =>
    intro hok s hc hk hs
    simp only [runChain, hr s false hc hk hs]
    exact ih (fun q hq => hok q (by simp [hq])) s hc hk hs
  | @right r' l l' hr _ ih =>
    intro hok s hc hk hs
    simp only [runChain, hr s false hc hk hs]
    exact ih hok s hc hk hs


theorem tokenizeLoop_ext {S : List Char} {l l' : List IRule} (hE : Ext S l l') (hok : ∀ r ∈ l, IOK4 r) (mn : Int) (e : Nat) :
    ∀ (fuel : Nat) (ok : Bool) (s : IState), e = s.posMax → s.posMax ≤ s.src.length → CacheOK s → s.src = S →
      tokenizeLoop l mn e fuel ok s = tokenizeLoop l' mn e fuel ok s := by
  intro fuel
  induction fuel with
  | zero => intro ok s _ _ _ _; rfl
  | succ n ih =>
    intro ok s he hend hk hs
    simp only [tokenizeLoop]
    split
    · rename_i hlt
      have hc : ICtx s := ⟨by rw [← he]; exact hlt, hend⟩
      by_cases hlv : s.level < mn
      · simp only [hlv, if_true, ← runChain_ext hE hok s hc hk hs]
        obtain ⟨m, s1, h1, a, b, c, d, e', f, p, g⟩ := runChain4 l hok s hc hk
        simp only [h1]
        have hend1 : s1.posMax ≤ s1.src.length := by rw [c, a]; exact hend
        cases m with
        | true =>
          simp only [if_true]
          split
          · rfl
          · split
            · rfl
            · exact ih true s1 (he.trans c.symm) hend1 f (a.trans hs)
        | false =>
          simp only [Bool.false_eq_true, if_false]
          split
          · rfl
          · rename_i ch _
            exact ih false { s1 with pending := s1.pending ++ [ch], pos := s1.pos + 1 } (he.trans c.symm) hend1 f (a.trans hs)
      · simp only [hlv, if_false]
        cases ok with
        | true =>
          simp only [if_true]
          split
          · rfl
          · split
            · rfl
            · exact ih true s he hend hk hs
        | false =>
          simp only [Bool.false_eq_true, if_false]
          split
          · rfl
          · rename_i ch _
            exact ih false { s with pending := s.pending ++ [ch], pos := s.pos + 1 } he hend hk hs
    · rfl

theorem runSilent_ext {S : List Char} {l l' : List IRule} (hE : Ext S l l') : (∀ r ∈ l, IOK4 r) → ∀ s, ICtx s → CacheOK s → s.src = S →
    runSilent l s = runSilent l' s := by
  induction hE with
  | nil => intro _ s _ _ _; rfl
  | @both r r' l l' hr _ ih =>
    intro hok s hc hk hs
    have hc' : ICtx { s with level := s.level + 1 } := hc
    obtain ⟨m, s1, h1, a, b, c, d, e, f, p, g⟩ := hok r (by simp) { s with level := s.level + 1 } true hc' hk
    simp only [runSilent, ← hr { s with level := s.level + 1 } true hc' hk hs, h1]
    cases m with
    | true => rfl
    | false =>
      simp only [Bool.false_eq_true, if_false]
      have hc1 : ICtx { s1 with level := s1.level - 1 } := by
        unfold ICtx; show s1.pos < s1.posMax ∧ s1.posMax ≤ s1.src.length
        rw [g rfl, c, a]; exact hc
      exact ih (fun q hq => hok q (by simp [hq])) { s1 with level := s1.level - 1 } hc1 f (a.trans hs)
  | @left r l l' hr _ ih =>
    intro hok s hc hk hs
    have hc' : ICtx { s with level := s.level + 1 } := hc
    simp only [runSilent, hr { s with level := s.level + 1 } true hc' hk hs, Bool.false_eq_true, if_false]
    have : ({ ({ s with level := s.level + 1 } : IState) with level := ({ s with level := s.level + 1 } : IState).level - 1 } : IState) = s := by
      cases s; simp
    rw [this]
    exact ih (fun q hq => hok q (by simp [hq])) s hc hk hs
  | @right r' l l' hr _ ih =>
    intro hok s hc hk hs
    have hc' : ICtx { s with level := s.level + 1 } := hc
    simp only [runSilent, hr { s with level := s.level + 1 } true hc' hk hs, Bool.false_eq_true, if_false]
    have : ({ ({ s with level := s.level + 1 } : IState) with level := ({ s with level := s.level + 1 } : IState).level - 1 } : IState) = s := by
      cases s; simp
    rw [this]
    exact ih hok s hc hk hs

theorem skipToken_ext {S : List Char} {l l' : List IRule} (hE : Ext S l l') (hok : ∀ r ∈ l, IOK4 r) (mn : Int) (s : IState) (hc : ICtx s)
    (hk : CacheOK s) (hs : s.src = S) : skipToken l mn s = skipToken l' mn s := by
  unfold skipToken
  split
  · rfl
  · by_cases hlv : s.level < mn
    · simp only [hlv, if_true, runSilent_ext hE hok s hc hk hs]
    · simp only [hlv, if_false]

theorem labelLoop_ext {S : List Char} {l l' : List IRule} (hE : Ext S l l') (hok : ∀ r ∈ l, IOK4 r) (mn : Int) (dn : Bool) :
    ∀ (fuel level : Nat) (s : IState), s.posMax ≤ s.src.length → CacheOK s → s.src = S →
      labelLoop l mn dn fuel level s = labelLoop l' mn dn fuel level s := by
  intro fuel
  induction fuel with
  | zero => intro _ s _ _ _; rfl
  | succ n ih =>
    intro level s hend hk hs
    simp only [labelLoop]
    split
    · rename_i hlt
      have hc : ICtx s := ⟨hlt, hend⟩
      split
      · rfl
      · split
        · rfl
        · rw [← skipToken_ext hE hok mn s hc hk hs]
          obtain ⟨s1, h1, hfr, _⟩ := skipToken4 l hok mn s hc hk
          simp only [h1]
          have hend1 : s1.posMax ≤ s1.src.length := by rw [hfr.2.2.1, hfr.1]; exact hend
          have hrec : ∀ lv, labelLoop l mn dn n lv s1 = labelLoop l' mn dn n lv s1 :=
            fun lv => ih lv s1 hend1 hfr.2.2.2.2.2 (hfr.1.trans hs)
          split
          · rfl
          · split
            · split
              · exact hrec _
              · split
                · rfl
                · exact hrec _
            · exact hrec _
    · rfl

theorem parseLinkLabel_ext {S : List Char} {l l' : List IRule} (hE : Ext S l l') (hok : ∀ r ∈ l, IOK4 r) (mn : Int) (s : IState) (start : Nat)
    (dn : Bool) (hend : s.posMax ≤ s.src.length) (hk : CacheOK s) (hs : s.src = S) :
    parseLinkLabel l mn s start dn = parseLinkLabel l' mn s start dn := by
  unfold parseLinkLabel
  rw [labelLoop_ext hE hok mn dn _ 1 { s with pos := start + 1 } hend hk hs]


theorem linkSecondLabel_ext {S : List Char} {l l' : List IRule} (hE : Ext S l l') (hok : ∀ r ∈ l, IOK4 r) (mn : Int) (s : IState)
    (labelEnd maximum pos1 : Nat) (hend : s.posMax ≤ s.src.length) (hk : CacheOK s) (hs : s.src = S) :
    linkSecondLabel mn l s labelEnd maximum pos1 = linkSecondLabel mn l' s labelEnd maximum pos1 := by
  unfold linkSecondLabel
  split
  · rw [parseLinkLabel_ext hE hok mn s pos1 false hend hk hs]
  · rfl

theorem linkRef_ext {S : List Char} {l l' : List IRule} (hE : Ext S l l') (hok : ∀ r ∈ l, IOK4 r) (lx : LExt) (mn : Int) (s : IState)
    (labelStart labelEnd maximum pos1 : Nat) (hend : s.posMax ≤ s.src.length) (hk : CacheOK s) (hs : s.src = S) :
    linkRef lx mn l s labelStart labelEnd maximum pos1 = linkRef lx mn l' s labelStart labelEnd maximum pos1 := by
  unfold linkRef
  split
  · rfl
  · rw [linkSecondLabel_ext hE hok mn s labelEnd maximum pos1 hend hk hs]

theorem linkEmit_ext {S : List Char} {l l' : List IRule} (hE : Ext S l l') (hok : ∀ r ∈ l, IOK4 r) (lx : LExt) (mn : Int) (s : IState)
    (labelStart labelEnd : Nat) (href title label : List Char) (hle : labelEnd ≤ s.src.length) (hk : CacheOK s) (hs : s.src = S) :
    linkEmit lx mn l s labelStart labelEnd href title label = linkEmit lx mn l' s labelStart labelEnd href title label := by
  unfold linkEmit
  simp only
  generalize ([("href", AttrVal.s (String.ofList href))] ++ if title.isEmpty = true then [] else [("title", AttrVal.s (String.ofList title))]) = attrs
  generalize (if (!label.isEmpty && lx.storeLabels) = true then [("label", String.ofList label)] else ([] : List (String × String))) = metaD
  obtain ⟨o1, o2, o3, o4, o5, _⟩ := pushOpen_fields { s with pos := labelStart, posMax := labelEnd } "link_open" "a" attrs metaD
  generalize ({ s with pos := labelStart, posMax := labelEnd } : IState).pushOpen "link_open" "a" attrs metaD = s1 at o1 o2 o3 o4 o5
  unfold innerTokenize
  have hk1 : CacheOK { s1 with linkLevel := s1.linkLevel + 1 } := by unfold CacheOK; show ∀ p ∈ s1.cache, _; rw [o5]; exact hk
  rw [tokenizeLoop_ext hE hok mn _ _ false { s1 with linkLevel := s1.linkLevel + 1 } rfl
    (by show s1.posMax ≤ s1.src.length; rw [o1, o2]; exact hle) hk1 (by show s1.src = S; rw [o1]; exact hs)]

/-- the link rule over two inner chains that are extensions of each other -/
theorem agree_link {S : List Char} {l l' : List IRule} (hE : Ext S l l') (hok : ∀ r ∈ l, IOK4 r) (ext : IExt) (lx : LExt) (mn : Int) :
    AgreeAt S (ruleLink ext lx mn l) (ruleLink ext lx mn l') := by
  intro s silent hc hk hs
  have hin : s.pos < s.src.length := by have := hc.1; have := hc.2; omega
  unfold ruleLink
  rw [List.getElem?_eq_getElem hin]
  simp only
  split
  · rfl
  · rw [← parseLinkLabel_ext hE hok mn s s.pos true hc.2 hk hs]
    obtain ⟨r, s1, h1, hfr1, hpos1, hr1⟩ := parseLinkLabel4 l hok mn s s.pos true hc.2 hk
    rw [h1]
    simp only
    split
    · rfl
    · rename_i hneg
      have hr0 : 0 ≤ r := by omega
      obtain ⟨hlo, hhi⟩ := hr1 hr0
      have hend1 : s1.posMax ≤ s1.src.length := by rw [hfr1.1, hfr1.2.2.1]; exact hc.2
      have hs1 : s1.src = S := hfr1.1.trans hs
      cases hi : linkInline ext s1 r.toNat s.posMax with
      | none => rfl
      | some q =>
        obtain ⟨pos1, href1, title1, pr⟩ := q
        simp only
        have hp1 := linkInline_ge _ _ _ _ _ _ _ _ hi
        -- the reference lookup is the same on both sides
        have href : (if (!pr) = true then (Except.ok (s1, some (pos1, href1, title1, [])) : Except PyErr (IState × Option (Nat × List Char × List Char × List Char)))
              else linkRef lx mn l s1 (s.pos + 1) r.toNat s.posMax pos1)
            = (if (!pr) = true then Except.ok (s1, some (pos1, href1, title1, [])) else linkRef lx mn l' s1 (s.pos + 1) r.toNat s.posMax pos1) := by
          split
          · rfl
          · exact linkRef_ext hE hok lx mn s1 _ _ _ _ hend1 hfr1.2.2.2.2.2 hs1
        rw [← href]
        -- what the left side's lookup returns
        have hL : ∃ s2 o, (if (!pr) = true then (Except.ok (s1, some (pos1, href1, title1, [])) : Except PyErr (IState × Option (Nat × List Char × List Char × List Char)))
              else linkRef lx mn l s1 (s.pos + 1) r.toNat s.posMax pos1) = .ok (s2, o) ∧ Fr4 s s2 := by
          split
          · exact ⟨s1, _, rfl, hfr1⟩
          · obtain ⟨s2, o, h2, hfr2, _, _⟩ := linkRef4 lx mn l hok s1 (s.pos + 1) r.toNat s.posMax pos1 hend1 hfr1.2.2.2.2.2 hp1
            exact ⟨s2, o, h2, hfr1.trans hfr2⟩
        obtain ⟨s2, o, h2, hfr2⟩ := hL
        rw [h2]
        cases o with
        | none => rfl
        | some q2 =>
          obtain ⟨pos, hrf, title, label⟩ := q2
          simp only
          cases silent with
          | true => rfl
          | false =>
            simp only [Bool.false_eq_true, if_false]
            rw [linkEmit_ext hE hok lx mn s2 (s.pos + 1) r.toNat hrf title label (by rw [hfr2.1]; have := hc.2; omega) hfr2.2.2.2.2.2 (hfr2.1.trans hs)]


theorem imageFound_ext {S : List Char} {l l' : List IRule} (hE : Ext S l l') (hok : ∀ r ∈ l, IOK4 r) (ext : IExt) (lx : LExt) (mn : Int) (s : IState)
    (labelStart labelEnd maximum : Nat) (hend : s.posMax ≤ s.src.length) (hk : CacheOK s) (hs : s.src = S) :
    imageFound ext lx mn l s labelStart labelEnd maximum = imageFound ext lx mn l' s labelStart labelEnd maximum := by
  unfold imageFound
  split
  · rfl
  · exact linkRef_ext hE hok lx mn s _ _ _ _ hend hk hs

theorem imageEmit_ext {S : List Char} (lx : LExt) (parse parse' : List Char → Except PyErr (List Tok))
    (hparse : ∀ c : List Char, c <:+: S → parse c = parse' c) (s : IState) (labelStart labelEnd : Nat) (href title label : List Char)
    (hs : s.src = S) : imageEmit lx parse s labelStart labelEnd href title label = imageEmit lx parse' s labelStart labelEnd href title label := by
  unfold imageEmit
  simp only
  rw [hparse ((s.src.take labelEnd).drop labelStart) (by
    rw [← hs]
    exact (List.drop_suffix labelStart _).isInfix.trans (List.take_prefix labelEnd s.src).isInfix)]

theorem agree_image {S : List Char} {l l' : List IRule} (hE : Ext S l l') (hok : ∀ r ∈ l, IOK4 r) (ext : IExt) (lx : LExt) (mn : Int)
    (parse parse' : List Char → Except PyErr (List Tok)) (hparse : ∀ c : List Char, c <:+: S → parse c = parse' c) :
    AgreeAt S (ruleImage ext lx mn l parse) (ruleImage ext lx mn l' parse') := by
  intro s silent hc hk hs
  have hin : s.pos < s.src.length := by have := hc.1; have := hc.2; omega
  unfold ruleImage
  rw [List.getElem?_eq_getElem hin]
  simp only
  split
  · rfl
  · cases hsec : imageSecond s with
    | error e => rfl
    | ok b =>
    cases b with
    | true => rfl
    | false =>
    simp only
    rw [← parseLinkLabel_ext hE hok mn s (s.pos + 1) false hc.2 hk hs]
    obtain ⟨r, s1, h1, hfr1, hpos1, hr1⟩ := parseLinkLabel4 l hok mn s (s.pos + 1) false hc.2 hk
    rw [h1]
    simp only
    split
    · rfl
    · have hend1 : s1.posMax ≤ s1.src.length := by rw [hfr1.1, hfr1.2.2.1]; exact hc.2
      have hs1 : s1.src = S := hfr1.1.trans hs
      rw [← imageFound_ext hE hok ext lx mn s1 (s.pos + 2) r.toNat s.posMax hend1 hfr1.2.2.2.2.2 hs1]
      cases hf : imageFound ext lx mn l s1 (s.pos + 2) r.toNat s.posMax with
      | error e => rfl
      | ok w =>
        obtain ⟨s2, o⟩ := w
        cases o with
        | none => rfl
        | some q2 =>
          obtain ⟨pos, hrf, title, label⟩ := q2
          simp only
          cases silent with
          | true => rfl
          | false =>
            simp only [Bool.false_eq_true, if_false]
            -- the state the lookup returns still has the source `S`
            have hs2 : s2.src = S := by
              unfold imageFound at hf
              split at hf
              · split at hf <;> (simp only [Except.ok.injEq, Prod.mk.injEq] at hf; obtain ⟨rfl, _⟩ := hf; exact hs1)
              · obtain ⟨s2', o', h2', hfr2, _, _⟩ := linkRef4 lx mn l hok s1 (s.pos + 2) r.toNat s.posMax (r.toNat + 1) hend1 hfr1.2.2.2.2.2 (Nat.le_refl _)
                rw [hf] at h2'
                simp only [Except.ok.injEq, Prod.mk.injEq] at h2'
                obtain ⟨rfl, _⟩ := h2'
                exact hfr2.1.trans hs1
            rw [imageEmit_ext lx parse parse' hparse s2 (s.pos + 2) r.toNat hrf title label hs2]


/-! ### inertness of a rule on a source without its trigger character -/

theorem cur_ne {S : List Char} {s : IState} (hc : ICtx s) (hs : s.src = S) (x : Char) (h : x ∉ S) :
    ∃ hin : s.pos < s.src.length, s.src[s.pos] ≠ x := by
  have hin : s.pos < s.src.length := by have := hc.1; have := hc.2; omega
  refine ⟨hin, fun he => h ?_⟩
  rw [← hs, ← he]
  exact List.getElem_mem hin

theorem inert_newline {S : List Char} (h : '\n' ∉ S) : InertAt S ruleNewline := by
  intro s silent hc _ hs
  obtain ⟨hin, hne⟩ := cur_ne hc hs _ h
  unfold ruleNewline
  rw [List.getElem?_eq_getElem hin]
  simp [hne]

theorem inert_escape {S : List Char} (h : '\\' ∉ S) : InertAt S ruleEscape := by
  intro s silent hc _ hs
  obtain ⟨hin, hne⟩ := cur_ne hc hs _ h
  unfold ruleEscape
  rw [List.getElem?_eq_getElem hin]
  simp [hne]

theorem inert_backticks {S : List Char} (h : '`' ∉ S) : InertAt S ruleBackticks := by
  intro s silent hc _ hs
  obtain ⟨hin, hne⟩ := cur_ne hc hs _ h
  unfold ruleBackticks
  rw [List.getElem?_eq_getElem hin]
  simp [hne]

theorem inert_link {S : List Char} (h : '[' ∉ S) (ext : IExt) (lx : LExt) (mn : Int) (inner : List IRule) : InertAt S (ruleLink ext lx mn inner) := by
  intro s silent hc _ hs
  obtain ⟨hin, hne⟩ := cur_ne hc hs _ h
  unfold ruleLink
  rw [List.getElem?_eq_getElem hin]
  simp [hne]

theorem inert_image {S : List Char} (h : '!' ∉ S) (ext : IExt) (lx : LExt) (mn : Int) (inner : List IRule) (parse) :
    InertAt S (ruleImage ext lx mn inner parse) := by
  intro s silent hc _ hs
  obtain ⟨hin, hne⟩ := cur_ne hc hs _ h
  unfold ruleImage
  rw [List.getElem?_eq_getElem hin]
  simp [hne]

theorem inert_autolink {S : List Char} (h : '<' ∉ S) (ext : IExt) : InertAt S (ruleAutolink ext) := by
  intro s silent hc _ hs
  obtain ⟨hin, hne⟩ := cur_ne hc hs _ h
  unfold ruleAutolink
  rw [List.getElem?_eq_getElem hin]
  simp [hne]

theorem inert_htmlInline {S : List Char} (h : '<' ∉ S) (ext : IExt) : InertAt S (ruleHtmlInline ext) := by
  intro s silent hc _ hs
  obtain ⟨hin, hne⟩ := cur_ne hc hs _ h
  unfold ruleHtmlInline
  split
  · rfl
  · rw [List.getElem?_eq_getElem hin]
    simp [hne]

theorem inert_entity {S : List Char} (h : '&' ∉ S) (ext : IExt) : InertAt S (ruleEntity ext) := by
  intro s silent hc _ hs
  obtain ⟨hin, hne⟩ := cur_ne hc hs _ h
  unfold ruleEntity
  rw [List.getElem?_eq_getElem hin]
  simp [hne]

theorem agree_refl (S : List Char) (r : IRule) : AgreeAt S r r := fun _ _ _ _ _ => rfl

theorem ext_opt {S : List Char} (b b' : Bool) (r r' : IRule) (hag : AgreeAt S r r') (hin : b ≠ b' → InertAt S r ∧ InertAt S r') :
    Ext S (if b then [r] else []) (if b' then [r'] else []) := by
  cases b <;> cases b'
  · exact .nil
  · exact .right (hin (by decide)).2 .nil
  · exact .left (hin (by decide)).1 .nil
  · exact .both hag .nil


/-! ### the chains -/

/-- the switches of the eight inline rules that have no second-chain part -/
structure Sw where
  newline : Bool
  escape : Bool
  backticks : Bool
  link : Bool
  image : Bool
  autolink : Bool
  htmlInline : Bool
  entity : Bool

/-- no character of `S` triggers a rule on which the two configurations differ -/
def Clean (a b : Sw) (S : List Char) : Prop :=
  (a.newline ≠ b.newline → '\n' ∉ S) ∧ (a.escape ≠ b.escape → '\\' ∉ S) ∧ (a.backticks ≠ b.backticks → '`' ∉ S)
  ∧ (a.link ≠ b.link → '[' ∉ S) ∧ (a.image ≠ b.image → '!' ∉ S) ∧ (a.autolink ≠ b.autolink → '<' ∉ S)
  ∧ (a.htmlInline ≠ b.htmlInline → '<' ∉ S) ∧ (a.entity ≠ b.entity → '&' ∉ S)

theorem Clean.sub {a b : Sw} {S c : List Char} (h : Clean a b S) (hinf : c <:+: S) : Clean a b c := by
  have hc : ∀ ch ∈ c, ch ∈ S := fun ch hch => hinf.subset hch
  obtain ⟨h1, h2, h3, h4, h5, h6, h7, h8⟩ := h
  exact ⟨fun x m => h1 x (hc _ m), fun x m => h2 x (hc _ m), fun x m => h3 x (hc _ m), fun x m => h4 x (hc _ m),
    fun x m => h5 x (hc _ m), fun x m => h6 x (hc _ m), fun x m => h7 x (hc _ m), fun x m => h8 x (hc _ m)⟩

abbrev chainOf (cls : QCls) (ext : IExt) (lx : LExt) (text strike emphasis fragJoin : Bool) (w : Sw) (mn : Int) (d : Nat) : List IRule :=
  imgChain cls ext lx text w.newline w.escape w.backticks strike emphasis w.link w.image w.autolink w.htmlInline w.entity fragJoin mn d

theorem parse_ext {S : List Char} {l l' : List IRule} (hE : Ext S l l') (hok : ∀ r ∈ l, IOK4 r) (post : List (IState → IState)) (fj : Bool) (mn : Int) :
    inlineParse l post fj mn S = inlineParse l' post fj mn S := by
  unfold inlineParse tokenize
  rw [tokenizeLoop_ext hE hok mn _ _ false (IState.init S) rfl (Nat.le_refl _) (by intro p hp; simp [IState.init] at hp) rfl]

theorem chain_ext (cls : QCls) (ext : IExt) (lx : LExt) (text strike emphasis fragJoin : Bool) (a b : Sw) (mn : Int) :
    ∀ d : Nat, ∀ S : List Char, Clean a b S →
      Ext S (chainOf cls ext lx text strike emphasis fragJoin a mn d) (chainOf cls ext lx text strike emphasis fragJoin b mn d) := by
  intro d
  induction d with
  | zero => intro S _; exact .nil
  | succ d ih =>
    intro S hcl
    obtain ⟨h1, h2, h3, h4, h5, h6, h7, h8⟩ := hcl
    have hE := ih S ⟨h1, h2, h3, h4, h5, h6, h7, h8⟩
    have hok := imgChain_ok4 cls ext lx text a.newline a.escape a.backticks strike emphasis a.link a.image a.autolink a.htmlInline a.entity fragJoin mn d
    have hparse : ∀ c : List Char, c <:+: S →
        inlineParse (chainOf cls ext lx text strike emphasis fragJoin a mn d) (imgPost strike emphasis) fragJoin mn c
          = inlineParse (chainOf cls ext lx text strike emphasis fragJoin b mn d) (imgPost strike emphasis) fragJoin mn c := by
      intro c hc
      exact parse_ext (ih c (Clean.sub ⟨h1, h2, h3, h4, h5, h6, h7, h8⟩ hc)) hok _ _ _
    show Ext S (imgChain _ _ _ _ _ _ _ _ _ _ _ _ _ _ _ _ (d + 1)) (imgChain _ _ _ _ _ _ _ _ _ _ _ _ _ _ _ _ (d + 1))
    simp only [imgChain]
    refine Ext.append (Ext.append (Ext.append (Ext.append (Ext.append (Ext.append (Ext.append (Ext.append (Ext.append (Ext.append ?_ ?_) ?_) ?_) ?_) ?_) ?_) ?_) ?_) ?_) ?_
    · exact ext_opt _ _ _ _ (agree_refl _ _) (fun h => absurd rfl h)
    · exact ext_opt _ _ _ _ (agree_refl _ _) (fun h => ⟨inert_newline (h1 h), inert_newline (h1 h)⟩)
    · exact ext_opt _ _ _ _ (agree_refl _ _) (fun h => ⟨inert_escape (h2 h), inert_escape (h2 h)⟩)
    · exact ext_opt _ _ _ _ (agree_refl _ _) (fun h => ⟨inert_backticks (h3 h), inert_backticks (h3 h)⟩)
    · exact ext_opt _ _ _ _ (agree_refl _ _) (fun h => absurd rfl h)
    · exact ext_opt _ _ _ _ (agree_refl _ _) (fun h => absurd rfl h)
    · exact ext_opt _ _ _ _ (agree_link hE hok ext lx mn) (fun h => ⟨inert_link (h4 h) _ _ _ _, inert_link (h4 h) _ _ _ _⟩)
    · exact ext_opt _ _ _ _ (agree_image hE hok ext lx mn _ _ hparse) (fun h => ⟨inert_image (h5 h) _ _ _ _ _, inert_image (h5 h) _ _ _ _ _⟩)
    · exact ext_opt _ _ _ _ (agree_refl _ _) (fun h => ⟨inert_autolink (h6 h) _, inert_autolink (h6 h) _⟩)
    · exact ext_opt _ _ _ _ (agree_refl _ _) (fun h => ⟨inert_htmlInline (h7 h) _, inert_htmlInline (h7 h) _⟩)
    · exact ext_opt _ _ _ _ (agree_refl _ _) (fun h => ⟨inert_entity (h8 h) _, inert_entity (h8 h) _⟩)

/-- **C10.conservative_extension** — the conservative-extension clause for the inline rules: two configurations of the eleven-rule inline
sub-parser that differ only in which of `newline`, `escape`, `backticks`, `link`, `image`, `autolink`, `html_inline`, `entity` are
enabled give the *same token stream* on every source that holds none of the trigger characters of the rules they differ in
(`\n`, `\\`, `` ` ``, `[`, `!`, `<`, `<`, `&`) — at every nesting depth (the label walks, link texts and image descriptions run the same
chains), for every `maxNesting`, budget, reference table and external functions.  Switching a rule on never changes how text without
its trigger is parsed. -/
theorem conservative_extension (cls : QCls) (ext : IExt) (lx : LExt) (text strike emphasis fragJoin : Bool) (a b : Sw) (mn : Int) (d : Nat)
    (src : List Char) (h : Clean a b src) :
    inlineParse (chainOf cls ext lx text strike emphasis fragJoin a mn d) (imgPost strike emphasis) fragJoin mn src
      = inlineParse (chainOf cls ext lx text strike emphasis fragJoin b mn d) (imgPost strike emphasis) fragJoin mn src :=
  parse_ext (chain_ext cls ext lx text strike emphasis fragJoin a b mn d src h)
    (imgChain_ok4 cls ext lx text a.newline a.escape a.backticks strike emphasis a.link a.image a.autolink a.htmlInline a.entity fragJoin mn d) _ _ _

end MdIt.C10

namespace MdIt.C10
open MdIt.C01

/-! non-vacuity: a source with links, emphasis and a code span but no `!`, `<`, `&`: switching `image`, `autolink`, `html_inline`,
`entity` on changes nothing (the hypothesis is decided, the conclusion is an instance of the theorem) -/
example : Clean ⟨true, true, true, true, false, false, false, false⟩ ⟨true, true, true, true, true, true, true, true⟩
    "[a *b*](/u \"t\") `c` \\* d\n".toList := by unfold Clean; decide

end MdIt.C10
