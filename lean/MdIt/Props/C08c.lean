import MdIt.Props.C08b
import MdIt.Props.C02d
/-!
# C08 (continued) — verbatim content and recorded markup through containers

Inside a block quote or a list item the nested run sees line entries whose text is the source line minus a prefix (`SufLines`:
the quote rule drops `>` and the blank after it, the list rule only moves `tShift`).  `VerbSufTok lines t`: the content of a
`code_block` / `fence` token splits into one piece per line of its map, each piece being at most a run of pad spaces followed by a
*suffix* of that source line (with or without its line feed) — nothing added, dropped or altered after the removed prefix; the
markup + info of a fence is a suffix of its opening line; the markup of a thematic break is what the marker scan reads off a suffix
of its line.  `l_verbatim`: this holds for every token of `lParse`, at any nesting depth, relative to the line table of the
normalised *source*.
-/
namespace MdIt.C08
open MdIt.C01 MdIt.C02

/-- `x` is nothing, or pad spaces followed by a suffix of line `i` (with or without its line feed) -/
def PieceOf (lines : List BLine) (i : Nat) (x : List Char) : Prop :=
  x = [] ∨ ∃ (l : BLine) (pad rest : List Char), lines[i]? = some l ∧ x = pad ++ rest ∧ (∀ c ∈ pad, c = ' ')
    ∧ (rest <:+ l.text ∨ rest <:+ l.text ++ ['\n'])

def VerbSufTok (lines : List BLine) (t : Tok) : Prop :=
  (t.type = "code_block" → ∃ (a b : Nat) (ps : List (List Char)), t.map = some (a, b) ∧ t.content.toList = ps.flatten ++ ['\n']
      ∧ ps.length = b - a ∧ ∀ j (h : j < ps.length), PieceOf lines (a + j) ps[j])
  ∧ (t.type = "fence" → ∃ (a b e : Nat) (ps : List (List Char)) (l : BLine), t.map = some (a, b) ∧ (b = e ∨ b = e + 1)
      ∧ t.content.toList = ps.flatten ∧ ps.length = e - (a + 1) ∧ (∀ j (h : j < ps.length), PieceOf lines (a + 1 + j) ps[j])
      ∧ lines[a]? = some l ∧ (t.markup.toList ++ t.info.toList) <:+ l.text)
  ∧ (t.type = "hr" → ∃ (a : Nat) (l : BLine) (body : List Char), t.map = some (a, a + 1) ∧ lines[a]? = some l ∧ body <:+ l.text
      ∧ hrMarkup body = some t.markup.toList)

def VerbSufS : BState → List Tok → Prop := fun s seg => ∀ t ∈ seg, VerbSufTok s.lines t

theorem suffix_append_right {α} {x y : List α} (h : x <:+ y) (z : List α) : x ++ z <:+ y ++ z := by
  obtain ⟨t, ht⟩ := h
  exact ⟨t, by rw [← ht]; simp⟩

theorem pieceOf_suf {a b : List BLine} (h : SufLines a b) (i : Nat) (x : List Char) (hp : PieceOf b i x) : PieceOf a i x := by
  rcases hp with rfl | ⟨lb, pad, rest, hb, hx, hpad, hr⟩
  · exact .inl rfl
  · obtain ⟨la, ha, hs, _⟩ := h.2 i lb hb
    refine .inr ⟨la, pad, rest, ha, hx, hpad, ?_⟩
    rcases hr with hr | hr
    · exact .inl (List.IsSuffix.trans hr hs)
    · exact .inr (List.IsSuffix.trans hr (suffix_append_right hs _))

theorem verbSufTok_suf {a b : List BLine} (h : SufLines a b) (t : Tok) (hv : VerbSufTok b t) : VerbSufTok a t := by
  refine ⟨?_, ?_, ?_⟩
  · intro ht
    obtain ⟨x, y, ps, h1, h2, h3, h4⟩ := hv.1 ht
    exact ⟨x, y, ps, h1, h2, h3, fun j hj => pieceOf_suf h _ _ (h4 j hj)⟩
  · intro ht
    obtain ⟨x, y, e, ps, l, h1, h2, h3, h4, h5, h6, h7⟩ := hv.2.1 ht
    obtain ⟨la, ha, hs, _⟩ := h.2 x l h6
    exact ⟨x, y, e, ps, la, h1, h2, h3, h4, fun j hj => pieceOf_suf h _ _ (h5 j hj), ha, List.IsSuffix.trans h7 hs⟩
  · intro ht
    obtain ⟨x, l, body, h1, h2, h3, h4⟩ := hv.2.2 ht
    obtain ⟨la, ha, hs, _⟩ := h.2 x l h2
    exact ⟨x, la, body, h1, ha, List.IsSuffix.trans h3 hs, h4⟩

/-! ### from the `getLines` form to the suffix form -/

theorem cutLineI_piece (chars : List Char) (tShift bs : Nat) (indent : Int) :
    ∃ pad rest, cutLineI chars tShift bs indent = pad ++ rest ∧ (∀ c ∈ pad, c = ' ') ∧ rest <:+ chars := by
  unfold cutLineI
  split
  · exact ⟨_, chars, rfl, fun c hc => by simpa using (List.mem_replicate.1 hc).2, List.suffix_refl _⟩
  · obtain ⟨removed, rest, pad, h1, h2, _, n, hn, _⟩ := cutLine_spec chars tShift bs indent.toNat
    exact ⟨pad, rest, h2, fun c hc => by rw [hn] at hc; exact (List.mem_replicate.1 hc).2, ⟨removed, h1.symm⟩⟩

theorem cutOf_piece (s : BState) (end_ : Nat) (keep : Bool) (indent : Int) (i : Nat) : PieceOf s.lines i (cutOf s end_ keep indent i) := by
  unfold cutOf
  cases hl : s.lines[i]? with
  | none => exact .inl rfl
  | some l =>
    obtain ⟨pad, rest, h1, h2, h3⟩ := cutLineI_piece (lineChars s end_ keep i) l.tShift l.bs indent
    refine .inr ⟨l, pad, rest, hl, h1, h2, ?_⟩
    have : lineChars s end_ keep i = l.text ++ (if (decide (i + 1 < end_) || keep) && l.hasLF then ['\n'] else []) := by
      simp [lineChars, hl]
    rw [this] at h3
    split at h3
    · exact .inr h3
    · exact .inl (by simpa using h3)

theorem verbTok_to_suf (s : BState) (t : Tok) (h : VerbTok s t) : VerbSufTok s.lines t := by
  refine ⟨?_, ?_, ?_⟩
  · intro ht
    obtain ⟨a, b, hm, hc⟩ := h.1 ht
    refine ⟨a, b, (List.range' a (b - a)).map (cutOf s b false (4 + s.blkIndent)), hm, hc, by simp, ?_⟩
    intro j hj
    simp only [List.length_map, List.length_range'] at hj
    simp only [List.getElem_map, List.getElem_range', Nat.one_mul]
    exact cutOf_piece s b false _ _
  · intro ht
    obtain ⟨a, b, e, l, hm, hbe, hl, hc, hmk, _⟩ := h.2.1 ht
    refine ⟨a, b, e, (List.range' (a + 1) (e - (a + 1))).map (cutOf s e true l.sCount), l, hm, hbe, hc, by simp, ?_, hl, ?_⟩
    · intro j hj
      simp only [List.length_map, List.length_range'] at hj
      simp only [List.getElem_map, List.getElem_range', Nat.one_mul]
      exact cutOf_piece s e true _ _
    · rw [hmk]; exact List.drop_suffix _ _
  · intro ht
    obtain ⟨a, l, hm, hl, hk⟩ := h.2.2 ht
    exact ⟨a, l, l.body, hm, hl, List.drop_suffix _ _, hk⟩

theorem segOK_to_suf (P) (r : BRule) (h : SegOK P VerbSeg r) : SegOK P VerbSufS r :=
  ⟨fun s line endLine s' hc hr => by
      obtain ⟨seg, h1, h2⟩ := h.hit s line endLine s' hc hr
      exact ⟨seg, h1, fun t ht => verbTok_to_suf s t (h2 t ht)⟩,
   h.miss⟩

/-! ### through the containers -/

theorem verbSuf_closed : FrameClosedS VerbSufS := fun s s' seg hf h t ht => by
  unfold VerbSufS at *; rw [hf.1.1]; exact h t ht

private theorem other_suf (lines : List BLine) (t : Tok) (h1 : t.type ≠ "code_block") (h2 : t.type ≠ "fence") (h3 : t.type ≠ "hr") :
    VerbSufTok lines t := ⟨fun h => absurd h h1, fun h => absurd h h2, fun h => absurd h h3⟩

theorem verbSuf_wrap : QuoteWrap VerbSufS := by
  refine ⟨verbSuf_closed, ?_⟩
  intro s s3 s4 line openT closeT segs _ _ _ _ ho3 _ _ hc3 hsuf hS t ht
  simp only [List.mem_append, List.mem_singleton, List.mem_flatten] at ht
  rcases ht with (rfl | ⟨g, hg, htg⟩) | rfl
  · exact other_suf _ _ (by simp [ho3]) (by simp [ho3]) (by simp [ho3])
  · exact verbSufTok_suf hsuf t (hS g hg t htg)
  · exact other_suf _ _ (by simp [hc3]) (by simp [hc3]) (by simp [hc3])

theorem hidden_eq_more {t u : Tok} (h : t.setHidden false = u.setHidden false) :
    t.type = u.type ∧ t.map = u.map ∧ t.content = u.content ∧ t.markup = u.markup ∧ t.info = u.info := by
  cases t; cases u
  simp only [Tok.setHidden, Tok.mk.injEq] at h
  simp only [Tok.type, Tok.map, Tok.content, Tok.markup, Tok.info]
  exact ⟨h.1, h.2.2.2.2.1, h.2.2.2.2.2.2.2.1, h.2.2.2.2.2.2.2.2.1, h.2.2.2.2.2.2.2.2.2.1⟩

theorem verbSufTok_hid (lines : List BLine) {t u : Tok} (h : t.setHidden false = u.setHidden false) (hv : VerbSufTok lines u) :
    VerbSufTok lines t := by
  obtain ⟨e1, e2, e3, e4, e5⟩ := hidden_eq_more h
  unfold VerbSufTok at *
  rw [e1, e2, e3, e4, e5]; exact hv

theorem verbSuf_listWrap : ListWrap VerbSufS := by
  refine ⟨?_, ?_⟩
  · intro s seg seg' hh hS t ht
    unfold HidEq at hh
    have hm : t.setHidden false ∈ seg'.map (·.setHidden false) := List.mem_map.2 ⟨t, ht, rfl⟩
    rw [hh, List.mem_map] at hm
    obtain ⟨u, hu, he⟩ := hm
    exact verbSufTok_hid s.lines he.symm (hS u hu)
  · intro s s2 openT closeT m segs _ hsuf _ _ _ _ hty hS t ht
    simp only [List.mem_append, List.mem_singleton, List.mem_flatten] at ht
    simp only [List.mem_cons, Prod.mk.injEq, List.not_mem_nil, or_false] at hty
    rcases ht with (rfl | ⟨g, hg, htg⟩) | rfl
    · rcases hty with ⟨h, _⟩ | ⟨h, _⟩ | ⟨h, _⟩ <;> exact other_suf _ _ (by simp [h]) (by simp [h]) (by simp [h])
    · exact verbSufTok_suf hsuf t (hS g hg t htg)
    · rcases hty with ⟨_, h⟩ | ⟨_, h⟩ | ⟨_, h⟩ <;> exact other_suf _ _ (by simp [h]) (by simp [h]) (by simp [h])

theorem verbSuf_lLeaves (c : MiniCfg) (ws : List Nat) (mn : Int) (P : BState → Nat → Prop) :
    ∀ r ∈ lLeaves c ws mn, SegOK P VerbSufS r := by
  intro r hr
  simp only [lLeaves, List.mem_append, List.mem_singleton] at hr
  rcases hr with (((hr | hr) | hr) | hr) | hr
  · split at hr
    · simp at hr; subst hr; exact segOK_to_suf _ _ (verbOK_code _ _)
    · cases hr
  · split at hr
    · simp at hr; subst hr; exact segOK_to_suf _ _ (verbOK_fence _ _)
    · cases hr
  · split at hr
    · simp at hr; subst hr; exact segOK_to_suf _ _ (verbOK_hr _ _)
    · cases hr
  · split at hr
    · simp at hr; subst hr; exact segOK_to_suf _ _ (verbOK_heading _ _ _)
    · cases hr
  · subst hr; exact segOK_to_suf _ _ (verbOK_paragraph _ _ (lTerminators_inert c ws mn) ws)

/-- **C08.l_verbatim** — with block quotes and lists nested in each other to any depth: for every source, rule subset and
`maxNesting`, every `code_block`, `fence` and `hr` token of the parse holds, line for line, the lines its map points to in the
normalised source with only a prefix removed (the container prefix and indentation; at most pad spaces put in front); fence
markup + info is the tail of its opening line; the thematic-break markup is what the marker scan reads off the tail of its line -/
theorem l_verbatim (c : MiniCfg) (ws : List Nat) (maxNesting : Int) (src : List Char) (ts : List Tok)
    (h : lParse c ws maxNesting src = .ok ts) : ∀ t ∈ ts, VerbSufTok (initBState (normalize src)).lines t := by
  obtain ⟨segs, hts, hS⟩ := lParse_segs VerbSufS verbSuf_wrap verbSuf_listWrap c ws maxNesting
    (fun P => verbSuf_lLeaves c ws maxNesting P) src ts h
  intro t ht
  rw [hts, List.mem_flatten] at ht
  obtain ⟨g, hg, htg⟩ := ht
  exact hS g hg t htg

/-! non-vacuity: a fence inside a quote inside a list item, an indented code block inside a quote, a thematic break inside a list -/
example : C01.typesOf (lParse ⟨true, true, true, true⟩ [32, 9, 10] 20 "- > ```py\n  > x = 1\n  > ```\n\n>     code\n\n1. ***\n".toList)
    = some ["bullet_list_open", "list_item_open", "blockquote_open", "fence", "blockquote_close", "list_item_close", "bullet_list_close",
            "blockquote_open", "code_block", "blockquote_close", "ordered_list_open", "list_item_open", "hr", "list_item_close",
            "ordered_list_close"] := by decide +kernel

end MdIt.C08
