import MdIt.Props.C16d
import MdIt.Props.C05g
/-!
# C16 (continued) — the env tables through the full chain (all eleven block rules)

`tChain_keepsJ`: every rule of `tChain` — `table` included, which only pushes tokens and runs its terminator chain (`C05.keeps_table`) —
keeps any invariant of the env tables that the `reference` rule keeps; instances: `C05.tParse_refsValid` (every recorded destination is
validated) and **`tParse_first_wins`**: with every block rule in the model, the table a parse fills holds pairwise distinct labels, none
of them resolved by the seeded env — first definition wins, a seeded entry is never shadowed, later ones go to `duplicate_refs`.
-/
namespace MdIt.C16
open MdIt.C05

theorem tParaTerms_keepsJ {J : BState → Prop} (hJ : OnTables J) (c : TCfg) (ws : List Nat) (mn : Int) : ∀ t ∈ tParaTerms c ws mn, Keeps J t := by
  intro t ht
  simp only [tParaTerms, List.mem_append] at ht
  rcases ht with ht | ht
  · split at ht
    · simp at ht; subst ht; exact keeps_table hJ _ (fun r hr => by cases hr) ws
    · cases ht
  · exact mTerminators_keepsJ hJ c.toMCfg ws mn t ht

theorem tChain_keepsJ {J : BState → Prop} (hJ : OnTables J) (ext : IExt) (lx : LExt) (c : TCfg) (ws : List Nat) (mn : Int)
    (hRef : ∀ terms : List BRule, (∀ t ∈ terms, Keeps J t) → Keeps J (ruleReference ext lx c.inlineDefs c.code terms ws)) :
    ∀ d : Nat, ∀ r ∈ tChain ext lx c ws mn d, Keeps J r := by
  have hT := mTerminators_keepsJ hJ c.toMCfg ws mn
  have hP := tParaTerms_keepsJ hJ c ws mn
  have hLT := mListTerms_keepsJ hJ c.toMCfg mn
  intro d
  induction d with
  | zero => intro r hr; simp [tChain] at hr
  | succ d ih =>
    intro r hr
    simp only [tChain, List.mem_append, List.mem_singleton] at hr
    rcases hr with (((((((((hr | hr) | hr) | hr) | hr) | hr) | hr) | hr) | hr) | hr) | hr
    · split at hr
      · simp at hr; subst hr; exact keeps_table hJ _ hT ws
      · cases hr
    · split at hr
      · simp at hr; subst hr; exact keeps_of_untouched hJ (untouched_code _)
      · cases hr
    · split at hr
      · simp at hr; subst hr; exact keeps_of_untouched hJ (untouched_fence _)
      · cases hr
    · subst hr; exact keeps_blockquote hJ _ hT ih mn
    · split at hr
      · simp at hr; subst hr; exact keeps_of_untouched hJ (untouched_hr _)
      · cases hr
    · subst hr; exact keeps_list hJ _ hLT ih mn
    · split at hr
      · simp at hr; subst hr; exact hRef _ hP
      · cases hr
    · split at hr
      · simp at hr; subst hr; exact keeps_of_untouched hJ (untouched_htmlBlock _ _)
      · cases hr
    · split at hr
      · simp at hr; subst hr; exact keeps_of_untouched hJ (untouched_heading _ _)
      · cases hr
    · split at hr
      · simp at hr; subst hr; exact keeps_lheading hJ _ hP ws
      · cases hr
    · subst hr; exact keeps_paragraph hJ hP ws

/-- **C16.tParse_first_wins** — all eleven block rules -/
theorem tParse_first_wins (ext : IExt) (lx : LExt) (c : TCfg) (ws : List Nat) (mn : Int) (src : List Char) (s : BState)
    (h : tParse ext lx c ws mn src = .ok s) : FirstWins lx s := by
  have h0 : FirstWins lx (initBState (normalize src)) := by
    constructor
    · simp [initBState]
    · intro e he; exact absurd he (by simp [initBState])
  unfold tParse at h
  simp only at h
  split at h
  · cases h; exact h0
  · exact blockTokenize_keeps (firstWins_onTables lx)
      (tChain_keepsJ (firstWins_onTables lx) ext lx c ws mn (fun terms hts => keeps_reference_firstWins ext lx _ _ terms hts ws) _) mn _ _ _ h0 s h

end MdIt.C16
