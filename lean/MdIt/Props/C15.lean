import MdIt.Token
import MdIt.Tree
/-!
# C15 — tokens survive serialisation and tree conversion; rendering is repeatable
(dictionary part; tree part in `C15.tree_*` below once `MdIt/Tree.lean` is imported)
-/
namespace MdIt.C15

theorem dictOfPairs_nodup {β} (acc l : List (String × β)) (h : ((acc ++ l).map (·.1)).Nodup) :
    dictOfPairs acc l = acc ++ l := by
  induction l generalizing acc with
  | nil => simp [dictOfPairs]
  | cons kv rest ih =>
    obtain ⟨k, v⟩ := kv
    have hk : acc.any (·.1 == k) = false := by
      rw [List.any_eq_false]
      intro p hp
      simp only [beq_iff_eq]
      intro hpk
      rw [List.map_append, List.nodup_append] at h
      have := h.2.2 p.1 (List.mem_map_of_mem hp) k (by simp)
      exact this hpk
    simp only [dictOfPairs, hk]
    have := ih (acc ++ [(k, v)]) (by simpa using h)
    simpa using this

theorem convertAttrs_repr (up : Bool) (attrs : List (String × AttrVal)) (h : (attrs.map (·.1)).Nodup) :
    convertAttrs (if up then (if attrs.isEmpty then .none else .pairs attrs) else .dict attrs) = attrs := by
  cases up with
  | false => rfl
  | true =>
    cases attrs with
    | nil => rfl
    | cons a as =>
      simp only [List.isEmpty_cons, if_true, Bool.false_eq_true, if_false, convertAttrs]
      simpa using dictOfPairs_nodup [] (a :: as) (by simpa using h)

mutual
  /-- **C15.dict** — converting a token to a dictionary, in either attribute format
  (`as_upstream` on/off) and with or without converting children (`children=` on/off), and back
  yields an equal token; for every token (children `None`, `[]` or nested to any depth; empty
  attrs; int attrs; meta). -/
  theorem dict_roundtrip (up ch : Bool) : (t : Tok) → t.WF → fromDict (asDict up ch t) = .ok t
    | .mk type tag nesting attrs map level children content markup info metaD block hidden, h => by
      simp only [Tok.WF] at h
      obtain ⟨ha, _, hc⟩ := h
      have := dictOpt_roundtrip up ch children hc
      simp only [asDict, fromDict, this, convertAttrs_repr up attrs ha]
  theorem dictOpt_roundtrip (up ch : Bool) : (o : Option (List Tok)) → Tok.WFOpt o →
      fromDictOpt (asDictOpt up ch o) = .ok o
    | none, _ => rfl
    | some cs, h => by
      simp only [Tok.WFOpt] at h
      have := dictList_roundtrip up ch cs h
      simp only [asDictOpt, fromDictOpt, this]
  theorem dictList_roundtrip (up ch : Bool) : (ts : List Tok) → Tok.WFList ts →
      fromDictList (asDictList up ch ts) = .ok ts
    | [], _ => rfl
    | t :: ts, h => by
      simp only [Tok.WFList] at h
      have h2 := dictList_roundtrip up ch ts h.2
      cases ch with
      | false => simp only [asDictList, Bool.false_eq_true, if_false, fromDictList, h2]
      | true =>
        have h1 := dict_roundtrip up true t h.1
        cases t with
        | mk a b c d e f g hh i j k l m =>
          simp only [asDictList, if_true]
          simp only [asDict] at h1 ⊢
          simp only [fromDictList, h1, h2]
end

end MdIt.C15

namespace MdIt.C15
open MdIt

/-- **C15.tree** — whenever a syntax tree can be built from a token sequence, flattening it returns
the identical sequence (no balance hypothesis needed: it is a property of every successful build). -/
theorem tree_roundtrip (ts : List Tok) (f : List Node) (h : buildTree ts = .ok f) :
    Node.toTokensList f = ts := by
  fun_induction buildTree ts generalizing f with
  | case1 => simp at h; subst h; rfl
  | case2 t rest h0 r hr ih =>
    simp only [Except.ok.injEq] at h; subst h
    simp [Node.toTokensList, Node.toTokens, ih r hr]
  | case3 t rest h0 e he ih => simp at h
  | case4 t rest h0 h1 => simp at h
  | case5 t rest h0 h1 htn => simp at h
  | case6 t rest h0 h1 innerC rest' htn e hk ih1 => simp at h
  | case7 t rest h0 h1 innerC rest' htn kids hk e hr ih1 ih2 => simp at h
  | case8 t rest h0 h1 innerC rest' htn kids hk r hr c hc ih1 ih2 =>
    simp only [Except.ok.injEq] at h; subst h
    have hs := takeNested_spec rest 1 [] innerC rest' htn
    simp only [List.reverse_nil, List.nil_append] at hs
    have hne : innerC ≠ [] := by intro e; rw [e] at hc; simp at hc
    have hlast : innerC.dropLast ++ [c] = innerC := by
      have h1 := List.dropLast_concat_getLast hne
      have h2 : innerC.getLast hne = c := by
        have := List.getLast?_eq_some_getLast hne
        rw [hc] at this; exact (Option.some.inj this).symm
      rw [h2] at h1; exact h1
    simp only [Node.toTokensList, Node.toTokens, ih1 kids hk, ih2 r hr, List.cons_append,
      List.append_assoc, List.cons.injEq, true_and]
    have : innerC.dropLast ++ c :: ([] ++ rest') = (innerC.dropLast ++ [c]) ++ rest' := by simp
    rw [this, hlast, hs.1]
  | case9 t rest h0 h1 innerC rest' htn kids hk r hr hc ih1 ih2 => simp at h

mutual
  theorem walk_sublist : (n : Node) → (n.walk.map Node.tok).Sublist n.toTokens
    | .leaf t => by simp [Node.walk, Node.toTokens, Node.tok]
    | .nest o c kids => by
      simp only [Node.walk, Node.toTokens, List.map_cons, Node.tok]
      exact List.Sublist.cons_cons _ ((walkList_sublist kids).trans (List.sublist_append_left _ _))
  /-- **C15.walk** — the depth-first walk follows stream order: the tokens of the walked nodes (a
  leaf's token, a container's opening token) form a sub-sequence of the stream, in order. -/
  theorem walkList_sublist : (ns : List Node) →
      ((Node.walkList ns).map Node.tok).Sublist (Node.toTokensList ns)
    | [] => by simp [Node.walkList, Node.toTokensList]
    | n :: ns => by
      simp only [Node.walkList, Node.toTokensList, List.map_append]
      exact List.Sublist.append (walk_sublist n) (walkList_sublist ns)
end

end MdIt.C15
