import MdIt.Props.C17
import MdIt.Props.C01
/-!
# C06 — CommonMark container laws: quoting or list-indenting a document nests its blocks

Proved here: lemma (A) `quote_strip` of the design — on a tab-free line `"> " ++ body` the block-quote
rule leaves exactly the record that the line `body` has on its own (same indent in columns, same
remaining text), whatever offset it inherited; and lemma (D) — the nested loop restores the frame.
The law itself (same tokens with levels +1 …) needs all block-rule models and is decided by the
oracle.
-/
namespace MdIt.C06

def spaces (n : Nat) : List Char := List.replicate n ' '

theorem colAfter_spaces2 (col n : Nat) : colAfter col (spaces n) = col + n := C17.colAfter_spaces col n

/-- **C06.quote_strip (A)** — for a tab-free body starting with `k` spaces and then a non-blank
character, the line `"> " ++ body` (marker at column `sc`, at any nesting, inherited offset `bs`) is
left by the block-quote rule with indent `k` — the indent `body` has as a line of its own — and with
`2 + k` characters consumed; the inherited offset of the stripped line is `bs + sc + 2`. -/
theorem quote_strip (bs sc k : Nat) (c : Char) (hc : c ≠ ' ' ∧ c ≠ '\t') (tail : List Char) :
    let body := spaces k ++ c :: tail
    (quoteOffsets true bs sc (' ' :: body)).sCount = (lineSCount body : Int)
    ∧ (quoteOffsets true bs sc (' ' :: body)).tShiftEnd = 1 + k
    ∧ (quoteOffsets true bs sc (' ' :: body)).bsCount = bs + sc + 2 := by
  intro body
  have hws : ∀ x ∈ (' ' :: spaces k), x = ' ' ∨ x = '\t' := by
    intro x hx
    simp only [spaces, List.mem_cons, List.mem_replicate] at hx
    rcases hx with rfl | ⟨_, rfl⟩ <;> exact Or.inl rfl
  have hpre : quoteOffsets true bs sc (' ' :: body) = quoteOffsets true bs sc (' ' :: spaces k) := by
    have := C17.quoteOffsets_prefix true bs sc (' ' :: spaces k) (by simp) hws c hc tail
    simpa [body] using this
  have hm := C17.marker_tab bs sc (' ' :: spaces k) (by simp) hws
  have hcol : colAfter (bs + sc + 1) (' ' :: spaces k) = bs + sc + 2 + k := by
    simp only [colAfter, show (' ' = '\t') = False by decide, if_false]
    rw [colAfter_spaces2]
  have hbody : lineSCount body = k := by
    unfold lineSCount
    have : body.takeWhile (fun x => decide (x = ' ' ∨ x = '\t')) = spaces k := by
      simp only [body]
      rw [List.takeWhile_append_of_pos]
      · have : (c :: tail).takeWhile (fun x => decide (x = ' ' ∨ x = '\t')) = [] := by
          simp [List.takeWhile_cons, hc.1, hc.2]
        rw [this, List.append_nil]
      · intro x hx
        simp only [spaces, List.mem_replicate] at hx
        simp [hx.2]
    rw [this, colAfter_spaces2]
    omega
  rw [hpre, hm.1, hm.2.1, hm.2.2, hcol, hbody]
  refine ⟨by omega, by simp [spaces]; omega, rfl⟩

/-- **C06 (D)** — the nested block loop a container runs hands back the line tables, `lineMax`,
`blkIndent` and `level` it was given (so the container's own restore code sees what it saved) -/
theorem nested_loop_frame (P : BState → Nat → Prop) (hP : FrameClosed P) (rules : List BRule) (hok : ∀ r ∈ rules, RuleOK P r)
    (hlast : ∃ r ∈ rules, AlwaysMatches P r)
    (maxNesting : Int) (s : BState) (startLine endLine : Nat) (hlen : s.lineMax + 1 ≤ s.lines.length)
    (hend : endLine ≤ s.lineMax) (hPs : P s endLine) :
    ∃ s', blockTokenize rules maxNesting s startLine endLine = .ok s' ∧ s.FrameEq s' :=
  C01.block_tokenize_total P hP rules hok hlast maxNesting s startLine endLine hlen hend hPs

/-! non-vacuity -/
example : (quoteOffsets true 0 0 "   x".toList).sCount = 2 ∧ lineSCount "  x".toList = 2 := by decide

end MdIt.C06
