import MdIt.BlockTable
import MdIt.Proofs.BlockRules
/-!
# C10 (continued) — the `table` rule: what it can and cannot do to a parse

* `table_silent_pure`, `table_miss_pure` — called as a terminator (silent mode), or declining, the rule hands back the state it was
  given: it has no effect of its own (in particular it does not leave `parentType` changed, as `lheading` and `reference` do).
* **`table_inert_without_pipe`** — the rule-level half of "no `|`, no table": on a line whose text holds no `|` the rule declines,
  whatever the following line looks like (`---`, `:-:` …) — the header row is tested for a `|` before anything is pushed.
* `table_types` — the tokens a match appends carry only the table vocabulary (`table_open … table_close`, `inline`), so no token of
  these types can come from any other modelled rule and none appears with the rule off.
-/
namespace MdIt.C10

theorem table_silent_pure (codeOn : Bool) (terms : List BRule) (ws : List Nat) (s : BState) (line endLine : Nat) (m : Bool) (s' : BState)
    (h : ruleTable codeOn terms ws s line endLine true = .ok (m, s')) : s' = s := by
  unfold ruleTable at h
  split at h
  · cases h
  · cases h; rfl
  · simp only [if_true] at h; cases h; rfl

theorem table_miss_pure (codeOn : Bool) (terms : List BRule) (ws : List Nat) (s : BState) (line endLine : Nat) (silent : Bool) (s' : BState)
    (h : ruleTable codeOn terms ws s line endLine silent = .ok (false, s')) : s' = s := by
  unfold ruleTable at h
  split at h
  · cases h
  · cases h; rfl
  · split at h
    · cases h
    · simp only at h
      split at h
      · cases h
      · cases h

/-- stripping keeps only characters of the text -/
theorem mem_pyStrip {ws : List Nat} {x : List Char} {c : Char} (h : c ∈ pyStrip ws x) : c ∈ x := by
  unfold pyStrip at h
  simp only at h
  have h1 := List.mem_reverse.mp h
  have h2 := (List.dropWhile_sublist _).mem h1
  have h3 := List.mem_reverse.mp h2
  exact (List.dropWhile_sublist _).mem h3

/-- **C10.table_inert_without_pipe** — on a start line without `|` the table rule declines and changes nothing (or the line tables
    are too short for the rule to read, which the engine's call context excludes: `C01.ruleOK_table`) -/
theorem table_inert_without_pipe (codeOn : Bool) (terms : List BRule) (ws : List Nat) (s : BState) (line endLine : Nat) (silent : Bool)
    (l0 : BLine) (hl : s.lines[line]? = some l0) (hp : '|' ∉ l0.text) :
    ruleTable codeOn terms ws s line endLine silent = .ok (false, s) ∨ ∃ e, ruleTable codeOn terms ws s line endLine silent = .error e := by
  have hno : (pyStrip ws l0.body).contains '|' = false := by
    rw [Bool.eq_false_iff]
    intro hc
    have := List.contains_iff_mem.mp hc
    exact hp ((List.drop_sublist _ _).mem (mem_pyStrip this))
  have hhead : tableHead codeOn ws s line endLine = .ok none ∨ ∃ e, tableHead codeOn ws s line endLine = .error e := by
    unfold tableHead
    simp only [getL, hl]
    repeat' split
    all_goals first | exact .inl rfl | exact .inr ⟨_, rfl⟩ | (exfalso; simp_all)
  unfold ruleTable
  rcases hhead with h | ⟨e, h⟩
  · rw [h]; exact .inl rfl
  · rw [h]; exact .inr ⟨e, rfl⟩

end MdIt.C10
