import MdIt.BlockTable
import MdIt.Proofs.BlockRules
import MdIt.Props.C01l
import MdIt.Props.C10i
import MdIt.Props.C02c
/-!
# C10 (continued) — the `table` rule: what it can and cannot do to a parse

* `table_silent_pure`, `table_miss_pure` — called as a terminator (silent mode), or declining, the rule hands back the state it was
  given: it has no effect of its own (in particular it does not leave `parentType` changed, as `lheading` and `reference` do).
* **`table_inert_without_pipe`** — the rule-level half of "no `|`, no table": on a line whose text holds no `|` the rule declines,
  whatever the following line looks like (`---`, `:-:` …) — the header row is tested for a `|` before anything is pushed.
* `table_types` — the tokens a match appends carry only the table vocabulary (`table_open … table_close`, `inline`), so no token of
  these types can come from any other modelled rule and none appears with the rule off.
-/
namespace MdIt.C10

theorem table_silent_pure (codeOn : Bool) (terms : List BRule) (ws : List Nat) (s : BState) (line endLine : Nat) (m : Bool) (s' : BState)
    (h : ruleTable codeOn terms ws s line endLine true = .ok (m, s')) : s' = s := by
  unfold ruleTable at h
  split at h
  · cases h
  · cases h; rfl
  · simp only [if_true] at h; cases h; rfl

theorem table_miss_pure (codeOn : Bool) (terms : List BRule) (ws : List Nat) (s : BState) (line endLine : Nat) (silent : Bool) (s' : BState)
    (h : ruleTable codeOn terms ws s line endLine silent = .ok (false, s')) : s' = s := by
  unfold ruleTable at h
  split at h
  · cases h
  · cases h; rfl
  · split at h
    · cases h
    · simp only at h
      split at h
      · cases h
      · cases h

/-- stripping keeps only characters of the text -/
theorem mem_pyStrip {ws : List Nat} {x : List Char} {c : Char} (h : c ∈ pyStrip ws x) : c ∈ x := by
  unfold pyStrip at h
  simp only at h
  have h1 := List.mem_reverse.mp h
  have h2 := (List.dropWhile_sublist _).mem h1
  have h3 := List.mem_reverse.mp h2
  exact (List.dropWhile_sublist _).mem h3

/-- **C10.table_inert_without_pipe** — on a start line without `|` the table rule declines and changes nothing (or the line tables
    are too short for the rule to read, which the engine's call context excludes: `C01.ruleOK_table`) -/
theorem table_inert_without_pipe (codeOn : Bool) (terms : List BRule) (ws : List Nat) (s : BState) (line endLine : Nat) (silent : Bool)
    (l0 : BLine) (hl : s.lines[line]? = some l0) (hp : '|' ∉ l0.text) :
    ruleTable codeOn terms ws s line endLine silent = .ok (false, s) ∨ ∃ e, ruleTable codeOn terms ws s line endLine silent = .error e := by
  have hno : (pyStrip ws l0.body).contains '|' = false := by
    rw [Bool.eq_false_iff]
    intro hc
    have := List.contains_iff_mem.mp hc
    exact hp ((List.drop_sublist _ _).mem (mem_pyStrip this))
  have hhead : tableHead codeOn ws s line endLine = .ok none ∨ ∃ e, tableHead codeOn ws s line endLine = .error e := by
    unfold tableHead
    simp only [getL, hl]
    repeat' split
    all_goals first | exact .inl rfl | exact .inr ⟨_, rfl⟩ | (exfalso; simp_all)
  unfold ruleTable
  rcases hhead with h | ⟨e, h⟩
  · rw [h]; exact .inl rfl
  · rw [h]; exact .inr ⟨e, rfl⟩

/-! ### the vocabulary of the table rule -/

def tableTypes : List String :=
  ["table_open", "thead_open", "tr_open", "th_open", "inline", "th_close", "tr_close", "thead_close", "tbody_open", "td_open", "td_close",
   "tbody_close", "table_close"]

/-- every token is one the state held before, or carries a type of the table vocabulary -/
def OldOrTable (old : List Tok) (ts : List Tok) : Prop := ∀ t ∈ ts, (∃ u ∈ old, t.type = u.type) ∨ t.type ∈ tableTypes

theorem oldOrTable_self (old : List Tok) : OldOrTable old old := fun t ht => .inl ⟨t, ht, rfl⟩

theorem oldOrTable_pushT (old : List Tok) (s : BState) (ty tag : String) (n : Int) (at_ m c d) (h : OldOrTable old s.tokens)
    (hty : ty ∈ tableTypes) : OldOrTable old (s.pushT ty tag n at_ m c d).tokens := by
  intro t ht
  simp only [BState.pushT, List.mem_append, List.mem_singleton] at ht
  rcases ht with ht | rfl
  · exact h t ht
  · exact .inr hty

theorem oldOrTable_cells (old : List Tok) (ws : List Nat) (o c tg : String) (ho : o ∈ tableTypes) (hcl : c ∈ tableTypes) (line : Nat)
    (cols : List (List Char)) : ∀ (as : List String) (i : Nat) (s : BState), OldOrTable old s.tokens →
      OldOrTable old (pushCells ws o c tg line cols as i s).tokens := by
  intro as
  induction as with
  | nil => intro i s h; exact h
  | cons a rest ih =>
    intro i s h
    simp only [pushCells]
    exact ih _ _ (oldOrTable_pushT old _ _ _ _ _ _ _ _ (oldOrTable_pushT old _ _ _ _ _ _ _ _ (oldOrTable_pushT old _ _ _ _ _ _ _ _ h ho)
      (by decide)) hcl)

theorem oldOrTable_body (old : List Tok) (codeOn : Bool) (terms : List BRule) (hin : ∀ t ∈ terms, SilentInert t) (ws : List Nat)
    (aligns : List String) (startLine endLine : Nat) :
    ∀ (fuel next : Nat) (s : BState) (r : Nat) (s' : BState), endLine < s.lines.length →
      tableBody codeOn terms ws aligns startLine endLine fuel next s = .ok (r, s') → OldOrTable old s.tokens → OldOrTable old s'.tokens := by
  intro fuel
  induction fuel with
  | zero => intro next s r s' _ h; simp [tableBody] at h
  | succ n ih =>
    intro next s r s' hlen h hold
    simp only [tableBody] at h
    split at h
    · rename_i hlt
      obtain ⟨l, hg, _⟩ := getL_ok s next (by omega)
      simp only [hg] at h
      split at h
      · cases h; exact hold
      · obtain ⟨b, hb⟩ := runTerminators_inert terms hin s next endLine (by omega)
        simp only [hb] at h
        cases b with
        | true => cases h; exact hold
        | false =>
          simp only [hg] at h
          split at h
          · cases h; exact hold
          · split at h
            · cases h; exact hold
            · refine ih _ _ _ _ ?_ h ?_
              · rw [C01.pushT_lines, (C01.pushCells_same _ _ _ _ _ _ _ _ _).1.1, C01.pushT_lines]
                split <;> simpa using hlen
              · refine oldOrTable_pushT old _ _ _ _ _ _ _ _ ?_ (by decide)
                refine oldOrTable_cells old ws _ _ _ (by decide) (by decide) _ _ _ _ _ ?_
                refine oldOrTable_pushT old _ _ _ _ _ _ _ _ ?_ (by decide)
                split
                · exact oldOrTable_pushT old _ _ _ _ _ _ _ _ hold (by decide)
                · exact hold
    · cases h; exact hold

theorem oldOrTable_modify (old ts : List Tok) (i : Nat) (m : Option (Nat × Nat)) (h : OldOrTable old ts) :
    OldOrTable old (ts.modify i (fun t => t.setMap m)) := by
  intro t ht
  rcases mem_modify _ ts i t ht with h1 | ⟨u, hu, rfl⟩
  · exact h t h1
  · rw [C02.setMap_type]; exact h u hu

/-- **C10.table_types** — whatever a call of the table rule leaves in the token list is a token that was there before (its map aside)
    or a token of the table vocabulary: `table_open … table_close` come from this rule, and this rule emits nothing else -/
theorem table_types (codeOn : Bool) (terms : List BRule) (hin : ∀ t ∈ terms, SilentInert t) (ws : List Nat) (s : BState) (line endLine : Nat)
    (hlen : endLine < s.lines.length) (silent m : Bool) (s' : BState) (h : ruleTable codeOn terms ws s line endLine silent = .ok (m, s')) :
    OldOrTable s.tokens s'.tokens := by
  unfold ruleTable at h
  split at h
  · cases h
  · cases h; exact oldOrTable_self _
  · split at h
    · cases h; exact oldOrTable_self _
    · simp only at h
      split at h
      · cases h
      · rename_i next s7 hb
        cases h
        have h6 : OldOrTable s.tokens s7.tokens := by
          refine oldOrTable_body s.tokens codeOn terms hin ws _ _ _ _ _ _ _ _ ?_ hb ?_
          · rw [C01.pushT_lines, C01.pushT_lines, (C01.pushCells_same _ _ _ _ _ _ _ _ _).1.1]
            exact hlen
          · refine oldOrTable_pushT _ _ _ _ _ _ _ _ _ ?_ (by decide)
            refine oldOrTable_pushT _ _ _ _ _ _ _ _ _ ?_ (by decide)
            refine oldOrTable_cells _ ws _ _ _ (by decide) (by decide) _ _ _ _ _ ?_
            refine oldOrTable_pushT _ _ _ _ _ _ _ _ _ ?_ (by decide)
            refine oldOrTable_pushT _ _ _ _ _ _ _ _ _ ?_ (by decide)
            exact oldOrTable_pushT _ _ _ _ _ _ _ _ _ (oldOrTable_self _) (by decide)
        have h8t : OldOrTable s.tokens ((s7.pushT "tbody_close" "tbody" (-1) [] none none "").pushT "table_close" "table" (-1) [] none none "").tokens :=
          oldOrTable_pushT _ _ _ _ _ _ _ _ _ (oldOrTable_pushT _ _ _ _ _ _ _ _ _ h6 (by decide)) (by decide)
        have h8f : OldOrTable s.tokens (s7.pushT "table_close" "table" (-1) [] none none "").tokens :=
          oldOrTable_pushT _ _ _ _ _ _ _ _ _ h6 (by decide)
        show OldOrTable s.tokens (if decide (next > line + 2) = true then _ else _)
        split
        · exact oldOrTable_modify _ _ _ _ (oldOrTable_modify _ _ _ _ h8t)
        · exact oldOrTable_modify _ _ _ _ h8f

end MdIt.C10
