import MdIt.Props.C17c
import MdIt.Pipeline
/-!
# C17 (continued) — equivalent encodings, end to end for `MarkdownIt.parse` (modelled sub-language)

`fullParse` / `fullParseR` start with `normalize`: any mixture of LF / CR LF / CR line endings, and NUL vs U+FFFD, give the same
result — block tokens, the children of every inline token at every depth, and (with the `reference` rule) the env entries recorded.
-/
namespace MdIt.C17

private theorem isEmpty_of_mixed'' {s s' : List Char} (h : Mixed s s') : s'.isEmpty = s.isEmpty := by
  cases h <;> rfl

/-- **C17.full_line_endings** -/
theorem full_line_endings (cls : QCls) (ext : IExt) (lx : LExt) (bc : MCfg) (ic : ICfg) (ws : List Nat) (mn : Int) (d : Nat)
    (s s' : List Char) (hm : Mixed s s') (h : noCR s) :
    fullParse cls ext lx bc ic ws mn d s' = fullParse cls ext lx bc ic ws mn d s := by
  unfold fullParse
  rw [m_line_endings bc ws mn s s' hm h]

/-- **C17.full_nul** -/
theorem full_nul (cls : QCls) (ext : IExt) (lx : LExt) (bc : MCfg) (ic : ICfg) (ws : List Nat) (mn : Int) (d : Nat) (s : List Char) :
    fullParse cls ext lx bc ic ws mn d (s.map (fun ch => if ch = '\x00' then '�' else ch)) = fullParse cls ext lx bc ic ws mn d s := by
  unfold fullParse
  rw [m_nul bc ws mn s]

theorem r_line_endings (ext : IExt) (lx : LExt) (c : RCfg) (ws : List Nat) (mn : Int) (s s' : List Char) (hm : Mixed s s') (h : noCR s) :
    rParse ext lx c ws mn s' = rParse ext lx c ws mn s := by
  unfold rParse
  rw [normalize_mixed s s' hm h, isEmpty_of_mixed'' hm]

theorem r_nul (ext : IExt) (lx : LExt) (c : RCfg) (ws : List Nat) (mn : Int) (s : List Char) :
    rParse ext lx c ws mn (s.map (fun ch => if ch = '\x00' then '�' else ch)) = rParse ext lx c ws mn s := by
  unfold rParse
  rw [nul_like_fffd s]
  cases s <;> rfl

/-- **C17.fullR_line_endings** — with the `reference` rule: tokens, children and the recorded env entries -/
theorem fullR_line_endings (cls : QCls) (ext : IExt) (lx : LExt) (rc : RCfg) (ic : ICfg) (ws : List Nat) (mn : Int) (d : Nat)
    (s s' : List Char) (hm : Mixed s s') (h : noCR s) :
    fullParseR cls ext lx rc ic ws mn d s' = fullParseR cls ext lx rc ic ws mn d s := by
  unfold fullParseR
  rw [r_line_endings ext lx rc ws mn s s' hm h]

theorem fullR_nul (cls : QCls) (ext : IExt) (lx : LExt) (rc : RCfg) (ic : ICfg) (ws : List Nat) (mn : Int) (d : Nat) (s : List Char) :
    fullParseR cls ext lx rc ic ws mn d (s.map (fun ch => if ch = '\x00' then '�' else ch)) = fullParseR cls ext lx rc ic ws mn d s := by
  unfold fullParseR
  rw [r_nul ext lx rc ws mn s]

end MdIt.C17
