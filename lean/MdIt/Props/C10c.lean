import MdIt.Props.C02c
/-!
# C10 (continued) — provenance for the sub-parser with block quotes

`q_provenance`: every token kind in the stream of `qParse` is produced by an enabled rule (the block quote rule
included); with a leaf rule switched off its kinds do not occur at any nesting depth (`q_no_hr`).
-/
namespace MdIt.C10
open MdIt.C01 MdIt.C02

def qAllowed (c : MiniCfg) : List String := allowedTypes c ++ ["blockquote_open", "blockquote_close"]

def QTypesIn (c : MiniCfg) : BState → List Tok → Prop := fun _ seg => ∀ t ∈ seg, t.type ∈ qAllowed c

theorem typesIn_to_q (c : MiniCfg) (P) (r : BRule) (h : SegOK P (TypesIn c) r) : SegOK P (QTypesIn c) r :=
  ⟨fun s line endLine s' hc hr => by
      obtain ⟨seg, h1, h2⟩ := h.hit s line endLine s' hc hr
      exact ⟨seg, h1, fun t ht => by simp only [qAllowed, List.mem_append]; exact .inl (h2 t ht)⟩,
   h.miss⟩

theorem qTypes_wrap (c : MiniCfg) : QuoteWrap (QTypesIn c) := by
  refine ⟨fun _ _ _ _ h => h, ?_⟩
  intro s s3 s4 line openT closeT segs _ _ _ _ ho3 _ _ hc3 _ hS t ht
  simp only [List.mem_append, List.mem_singleton, List.mem_flatten] at ht
  rcases ht with (rfl | ⟨g, hg, htg⟩) | rfl
  · simp [qAllowed, ho3]
  · exact hS g hg t htg
  · simp [qAllowed, hc3]

theorem qTypes_leaves (c : MiniCfg) (ws : List Nat) (mn : Int) (P : BState → Nat → Prop) :
    ∀ r ∈ qLeaves c ws mn, SegOK P (QTypesIn c) r := by
  intro r hr
  simp only [qLeaves, List.mem_append, List.mem_singleton] at hr
  rcases hr with (((hr | hr) | hr) | hr) | hr
  · split at hr
    · rename_i hc; simp at hr; subst hr; exact typesIn_to_q c _ _ (typesOK_code _ c hc)
    · cases hr
  · split at hr
    · rename_i hc; simp at hr; subst hr; exact typesIn_to_q c _ _ (typesOK_fence _ c hc)
    · cases hr
  · split at hr
    · rename_i hc; simp at hr; subst hr; exact typesIn_to_q c _ _ (typesOK_hr _ c hc)
    · cases hr
  · split at hr
    · rename_i hc; simp at hr; subst hr; exact typesIn_to_q c _ _ (typesOK_heading _ c ws hc)
    · cases hr
  · subst hr; exact typesIn_to_q c _ _ (typesOK_paragraph _ c _ (qTerminators_inert c ws mn) ws)

/-- **C10.q_provenance** -/
theorem q_provenance (c : MiniCfg) (ws : List Nat) (maxNesting : Int) (src : List Char) (ts : List Tok)
    (h : qParse c ws maxNesting src = .ok ts) : ∀ t ∈ ts, t.type ∈ qAllowed c := by
  obtain ⟨segs, hts, hS⟩ := qParse_segs (QTypesIn c) (qTypes_wrap c) c ws maxNesting (fun P => qTypes_leaves c ws maxNesting P) src ts h
  intro t ht
  rw [hts, List.mem_flatten] at ht
  obtain ⟨g, hg, htg⟩ := ht
  exact hS g hg t htg

/-- with `hr` switched off no `hr` token occurs, at any quote depth -/
theorem q_no_hr (c : MiniCfg) (ws : List Nat) (mn : Int) (src : List Char) (ts : List Tok) (hoff : c.hr = false)
    (h : qParse c ws mn src = .ok ts) : ∀ t ∈ ts, t.type ≠ "hr" := by
  intro t ht he
  have := q_provenance c ws mn src ts h t ht
  rw [he] at this
  simp [qAllowed, allowedTypes, hoff] at this

end MdIt.C10
