import MdIt.Inline
import MdIt.Tree
/-!
# C02 — token streams are well nested, correctly levelled and tree-constructible

What is proved here (the rest is listed under `not_covered_by_theorems` in the evidence):
* `push_levels`    — the push discipline (`StateInline.push`; `StateBlock.push` has the same
                      bookkeeping) keeps "every token's level is its depth at that point";
* `fragmentsJoin_levels` — after `fragments_join` every level is the depth computed from nestings;
* `joinToks_flat`  — after `_join` (text_join) no `text_special` token survives and no two `text`
                      tokens are adjacent;
* `tree_of_balanced` — a stream whose nestings are balanced always builds a syntax tree.
-/
namespace MdIt.C02

/-- every token's `level` equals the depth at that point, starting from depth `d` -/
def levelsOK : Int → List Tok → Prop
  | _, [] => True
  | d, t :: ts =>
    t.level = (if t.nesting < 0 then d - 1 else d)
    ∧ levelsOK ((if t.nesting < 0 then d - 1 else d) + (if t.nesting > 0 then 1 else 0)) ts

/-- depth after a stream -/
def depthAfter : Int → List Tok → Int
  | d, [] => d
  | d, t :: ts => depthAfter ((if t.nesting < 0 then d - 1 else d) + (if t.nesting > 0 then 1 else 0)) ts

theorem levelsOK_append (d : Int) (a b : List Tok) :
    levelsOK d (a ++ b) ↔ levelsOK d a ∧ levelsOK (depthAfter d a) b := by
  induction a generalizing d with
  | nil => simp [levelsOK, depthAfter]
  | cons t ts ih => simp only [List.cons_append, levelsOK, depthAfter, ih, and_assoc]

theorem depthAfter_append (d : Int) (a b : List Tok) : depthAfter d (a ++ b) = depthAfter (depthAfter d a) b := by
  induction a generalizing d with
  | nil => rfl
  | cons t ts ih => simp only [List.cons_append, depthAfter, ih]

/-- state invariant of the inline tokenizer: tokens are levelled, `level` is the current depth,
    pending text will be flushed at the current depth -/
def LevelInv (s : IState) : Prop :=
  levelsOK 0 s.tokens ∧ depthAfter 0 s.tokens = s.level ∧ s.pendingLevel = s.level

theorem pushPending_inv (s : IState) (h : LevelInv s) : LevelInv s.pushPending := by
  obtain ⟨h1, h2, h3⟩ := h
  refine ⟨?_, ?_, h3⟩
  · simp only [IState.pushPending]
    rw [levelsOK_append]
    refine ⟨h1, ?_⟩
    simp [levelsOK, mkInlineTok, Tok.level, Tok.nesting, h2, h3]
  · simp only [IState.pushPending, depthAfter_append]
    simp [depthAfter, mkInlineTok, Tok.nesting, h2]

/-- **C02.push_levels** — `push` (with or without pending text to flush first, for nesting −1, 0
or +1 alike) preserves the invariant: hence every stream built by pushes from the initial state has
each token's level equal to its depth. -/
theorem push_levels (s : IState) (h : LevelInv s) (type tag : String) (nesting : Int)
    (content markup info : String) : LevelInv (s.push type tag nesting content markup info) := by
  simp only [IState.push]
  have h' : LevelInv (if s.pending.isEmpty then s else s.pushPending) := by
    split
    · exact h
    · exact pushPending_inv s h
  generalize (if s.pending.isEmpty then s else s.pushPending) = s1 at h'
  obtain ⟨h1, h2, h3⟩ := h'
  refine ⟨?_, ?_, rfl⟩
  · simp only
    rw [levelsOK_append]
    refine ⟨h1, ?_⟩
    simp [levelsOK, mkInlineTok, Tok.level, Tok.nesting, h2]
  · simp only [depthAfter_append]
    simp only [depthAfter, mkInlineTok, Tok.nesting, h2]
    by_cases ha : nesting < 0 <;> by_cases hb : nesting > 0 <;> simp [ha, hb] <;> omega

theorem init_inv (src : List Char) : LevelInv (IState.init src) := by
  simp [LevelInv, IState.init, levelsOK, depthAfter]

theorem setLevel_nesting (t : Tok) (l : Int) : (t.setLevel l).nesting = t.nesting ∧ (t.setLevel l).level = l := by
  cases t; simp [Tok.setLevel, Tok.nesting, Tok.level]

theorem setContent_fields (t : Tok) (c : String) :
    (t.setContent c).nesting = t.nesting ∧ (t.setContent c).type = t.type := by
  cases t; simp [Tok.setContent, Tok.nesting, Tok.type]

/-- **C02.fragmentsJoin_levels** — whatever the emphasis/strikethrough post-processing did to the
nestings, after `fragments_join` every token's level is the depth computed from the nestings of the
resulting stream.  Hypothesis (forced by the proof, true of every stream the tokenizer builds: `text`
tokens are created with nesting 0 and the post-processing changes type and nesting together): a
`text` token has nesting 0 — a merged-away `text` token with another nesting would shift the depth
of everything after it. -/
theorem fragmentsJoin_levels (level : Int) (ts : List Tok)
    (htext : ∀ t ∈ ts, t.type = "text" → t.nesting = 0) : levelsOK level (fragmentsJoin level ts) := by
  fun_induction fragmentsJoin level ts with
  | case1 => trivial
  | case2 level t =>
    have := setLevel_nesting t (if t.nesting < 0 then level - 1 else level)
    simp [levelsOK, this.1, this.2]
  | case3 level t n rest lvl level' hmerge ih =>
    simp only [Bool.and_eq_true, beq_iff_eq] at hmerge
    have h0 : t.nesting = 0 := htext t (by simp) hmerge.1
    have e : level' = level := by simp only [level', lvl, h0]; simp
    refine (congrArg (fun x => levelsOK x (fragmentsJoin level' (n.setContent (t.content ++ n.content) :: rest))) e).mp (ih ?_)
    intro u hu hty
    simp only [List.mem_cons] at hu
    rcases hu with rfl | hu
    · rw [(setContent_fields n _).1]
      exact htext n (by simp) (by rw [← (setContent_fields n (t.content ++ n.content)).2]; exact hty)
    · exact htext u (by simp [hu]) hty
  | case4 level t n rest lvl level' hmerge ih =>
    have := setLevel_nesting t lvl
    simp only [levelsOK, this.1, this.2]
    refine ⟨rfl, ?_⟩
    have e : level' = lvl + (if t.nesting > 0 then 1 else 0) := by
      simp only [level']; split <;> simp
    exact (congrArg (fun x => levelsOK x (fragmentsJoin level' (n :: rest))) e).mp
      (ih (fun u hu hty => htext u (by simp at hu ⊢; exact Or.inr hu) hty))

/-! ### text_join -/

/-- no `text_special` token, no two adjacent `text` tokens -/
def Flat : List Tok → Prop
  | [] => True
  | [t] => t.type ≠ "text_special"
  | t :: n :: rest => t.type ≠ "text_special" ∧ ¬ (t.type = "text" ∧ n.type = "text") ∧ Flat (n :: rest)

theorem flat_append_single (acc : List Tok) (t : Tok) (hacc : Flat acc) (ht : t.type ≠ "text_special")
    (hadj : ∀ l, acc.getLast? = some l → ¬ (l.type = "text" ∧ t.type = "text")) : Flat (acc ++ [t]) := by
  induction acc with
  | nil => exact ht
  | cons a rest ih =>
    cases rest with
    | nil =>
      simp only [List.cons_append, List.nil_append, Flat]
      exact ⟨hacc, hadj a (by simp), ht⟩
    | cons b rest' =>
      simp only [Flat] at hacc
      simp only [List.cons_append, Flat]
      refine ⟨hacc.1, hacc.2.1, ?_⟩
      apply ih hacc.2.2
      intro l hl
      exact hadj l (by simpa using hl)

theorem flat_dropLast (acc : List Tok) (h : Flat acc) : Flat acc.dropLast := by
  induction acc with
  | nil => trivial
  | cons a rest ih =>
    cases rest with
    | nil => trivial
    | cons b rest' =>
      simp only [Flat] at h
      cases rest' with
      | nil => simp only [List.dropLast]; exact h.1
      | cons c r =>
        simp only [List.dropLast_cons_cons, Flat]
        refine ⟨h.1, h.2.1, ?_⟩
        have := ih h.2.2
        simpa [List.dropLast] using this

theorem joinOne_type (t : Tok) : (joinOne t).type ≠ "text_special" := by
  cases t with
  | mk ty tag n a m l c co mu i md b h =>
    by_cases h1 : ty = "text_special"
    · subst h1; simp [joinOne, Tok.type]
    · have h1' : (ty == "text_special") = false := by simpa using h1
      by_cases h2 : ty = "image"
      · subst h2; simp [joinOne, Tok.type]
      · have h2' : (ty == "image") = false := by simpa using h2
        simp [joinOne, Tok.type, h1', h2', h1]

/-- merging into the last token, or appending: flatness is kept -/
theorem joinPush_flat (acc : List Tok) (t : Tok) (hacc : Flat acc) (ht : t.type ≠ "text_special") :
    Flat (joinPush acc t) := by
  unfold joinPush
  cases hl : acc.getLast? with
  | none => exact flat_append_single acc t hacc ht (by intro l h; rw [hl] at h; cases h)
  | some last =>
    simp only
    split
    · rename_i hm
      simp only [Bool.and_eq_true, beq_iff_eq] at hm
      -- replace the last (text) token by one with longer content
      have hne : acc ≠ [] := by intro e; rw [e] at hl; simp at hl
      apply flat_append_single _ _ (flat_dropLast acc hacc)
      · rw [(setContent_fields last _).2, hm.2]; decide
      · intro l hlast
        rw [(setContent_fields last _).2]
        intro hboth
        -- the token before `last` in `acc` is not text, because `acc` is flat
        have hsplit : acc = acc.dropLast ++ [last] := by
          have := List.dropLast_concat_getLast hne
          have hg : acc.getLast hne = last := by
            have := List.getLast?_eq_some_getLast hne; rw [hl] at this; exact (Option.some.inj this).symm
          rw [hg] at this; exact this.symm
        have : ∀ (pre : List Tok) (x y : Tok), Flat (pre ++ [x, y]) → ¬ (x.type = "text" ∧ y.type = "text") := by
          intro pre
          induction pre with
          | nil => intro x y h; exact h.2.1
          | cons p ps ihp =>
            intro x y h
            cases ps with
            | nil => exact h.2.2.2.1
            | cons q qs => exact ihp x y h.2.2
        have hdl : acc.dropLast ≠ [] := by intro e; rw [e] at hlast; simp at hlast
        have hsplit2 : acc.dropLast = acc.dropLast.dropLast ++ [l] := by
          have := List.dropLast_concat_getLast hdl
          have hg : acc.dropLast.getLast hdl = l := by
            have := List.getLast?_eq_some_getLast hdl; rw [hlast] at this; exact (Option.some.inj this).symm
          rw [hg] at this; exact this.symm
        rw [hsplit, hsplit2, List.append_assoc] at hacc
        exact this _ l last (by simpa using hacc) ⟨hboth.1, hm.2⟩
    · rename_i hm
      apply flat_append_single acc t hacc ht
      intro l h
      rw [hl] at h; simp only [Option.some.injEq] at h; subst h
      intro hb
      apply hm
      simp [hb.1, hb.2]

/-- **C02.joinToks_flat** — after `_join`, at this level: no `text_special`, no adjacent `text` -/
theorem joinToks_flat (acc cs : List Tok) (hacc : Flat acc) : Flat (joinToks acc cs) := by
  induction cs generalizing acc with
  | nil => simpa [joinToks] using hacc
  | cons t rest ih =>
    simp only [joinToks]
    exact ih _ (joinPush_flat acc (joinOne t) hacc (joinOne_type t))

theorem joinOpt_flat (c : Option (List Tok)) :
    match joinOpt c with
    | none => True
    | some cs => cs = [] ∨ Flat cs := by
  cases c with
  | none => simp [joinOpt]
  | some cs =>
    cases cs with
    | nil => simp [joinOpt]
    | cons x xs => simp only [joinOpt]; exact Or.inr (joinToks_flat [] _ trivial)

/-- the image description of a joined image token is itself a joined stream (the recursion added by
    the F2 fix), so flatness holds at every image depth -/
theorem joinOne_image_children (t : Tok) (h : t.type = "image") :
    (joinOne t).children = joinOpt t.children := by
  cases t with
  | mk ty tag n a m l c co mu i md b hh =>
    simp only [Tok.type] at h; subst h
    simp [joinOne, Tok.children]

/-! ### a balanced stream always builds a tree -/

theorem takeNested_balanced (ts : List Tok) (n : Int) (acc : List Tok) (hn : 1 ≤ n)
    (hb : balancedFrom n ts = true) :
    ∃ pre c rest, takeNested ts n acc = some (acc.reverse ++ pre ++ [c], rest) ∧ ts = pre ++ c :: rest
      ∧ balancedFrom (n - 1) pre = true ∧ balancedFrom 0 rest = true := by
  induction ts generalizing n acc with
  | nil => simp [balancedFrom] at hb; omega
  | cons t ts' ih =>
    simp only [balancedFrom, Bool.and_eq_true, decide_eq_true_eq] at hb
    obtain ⟨⟨hnest, hge⟩, hrest⟩ := hb
    simp only [Bool.or_eq_true, beq_iff_eq] at hnest
    simp only [takeNested]
    by_cases h0 : n + t.nesting = 0
    · refine ⟨[], t, ts', ?_, rfl, ?_, ?_⟩
      · simp [h0]
      · simp [balancedFrom]; omega
      · rw [h0] at hrest; exact hrest
    · have hn' : 1 ≤ n + t.nesting := by omega
      obtain ⟨pre, c, rest, h1, h2, h3, h4⟩ := ih (n + t.nesting) (t :: acc) hn' hrest
      refine ⟨t :: pre, c, rest, ?_, ?_, ?_, h4⟩
      · simp only [h0, if_false, h1]; simp
      · rw [h2]; rfl
      · simp only [balancedFrom, Bool.and_eq_true, decide_eq_true_eq]
        refine ⟨⟨by simpa [Bool.or_eq_true, beq_iff_eq] using hnest, by omega⟩, ?_⟩
        have : n - 1 + t.nesting = n + t.nesting - 1 := by omega
        rw [this]; exact h3

/-- **C02.tree_of_balanced** — if the nestings of a stream are balanced (each −1, 0 or 1; the
running depth never negative; zero at the end) then `SyntaxTreeNode(tokens)` builds without
raising.  (With `C15.tree_roundtrip` the tree flattens back to the stream.) -/
theorem tree_of_balanced (ts : List Tok) (hb : balancedFrom 0 ts = true) : ∃ f, buildTree ts = .ok f := by
  have key : ∀ k (ts : List Tok), ts.length ≤ k → balancedFrom 0 ts = true → ∃ f, buildTree ts = .ok f := by
    intro k
    induction k with
    | zero =>
      intro ts hl _
      have : ts = [] := by cases ts with | nil => rfl | cons _ _ => simp at hl
      subst this; exact ⟨[], by rw [buildTree]⟩
    | succ k ih =>
      intro ts hl hb
      cases ts with
      | nil => exact ⟨[], by rw [buildTree]⟩
      | cons t rest =>
        simp only [balancedFrom, Bool.and_eq_true, decide_eq_true_eq, Int.zero_add] at hb
        obtain ⟨⟨hnest, hge⟩, hrest⟩ := hb
        have hlr : rest.length ≤ k := by simp at hl; omega
        by_cases h0 : t.nesting = 0
        · rw [h0] at hrest
          obtain ⟨f, hf⟩ := ih rest hlr hrest
          exact ⟨.leaf t :: f, by rw [buildTree]; simp [h0, hf]⟩
        · have h1 : t.nesting = 1 := by
            simp only [Bool.or_eq_true, beq_iff_eq] at hnest
            omega
          rw [h1] at hrest
          obtain ⟨pre, c, rest', ht, hsplit, hpre, hrest'⟩ := takeNested_balanced rest 1 [] (by omega) hrest
          simp only [List.reverse_nil, List.nil_append, Int.sub_self] at ht hpre
          have hlen : pre.length ≤ k ∧ rest'.length ≤ k := by
            have := congrArg List.length hsplit
            simp at this; omega
          obtain ⟨kids, hk⟩ := ih pre hlen.1 hpre
          obtain ⟨r, hr⟩ := ih rest' hlen.2 hrest'
          refine ⟨.nest t c kids :: r, ?_⟩
          rw [buildTree]
          split
          · rename_i hh; exact absurd hh h0
          · split
            · rename_i hh; exact absurd h1 hh
            · split
              · rename_i heq; rw [ht] at heq; cases heq
              · rename_i innerC rest'' heq
                rw [ht] at heq
                simp only [Option.some.injEq, Prod.mk.injEq] at heq
                obtain ⟨rfl, rfl⟩ := heq
                simp [hk, hr]
  exact key ts.length ts (Nat.le_refl _) hb

/-! non-vacuity -/
example : balancedFrom 0 [mkInlineTok "em_open" "em" 1 0 "" "*" "", mkInlineTok "text" "" 0 1 "a" "" "",
    mkInlineTok "em_close" "em" (-1) 0 "" "*" ""] = true := by decide

end MdIt.C02
