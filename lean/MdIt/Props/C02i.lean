import MdIt.Props.C02f
import MdIt.Props.C02b
import MdIt.Props.C10e
/-!
# C02 (continued) — the inline stream with autolinks is well formed

`emini_wellformed` carried "all tokens have nesting 0" through the tokenize loop; `autolink` pushes an opening and a closing token.
The invariant is generalised (`BalD`): the stream so far is balanced, its text tokens have nesting 0, and every delimiter record is
fresh and points at a nesting-0 token, at increasing positions.  Every rule but `emphasis` appends a balanced chunk and leaves the
delimiter records alone (`IAddsB`, from the `IAdds` lemmas of `C10e` and `IDelims`); `emphasis` appends text tokens and records
pointing at them.  The post-processing invariant of `C02f` (`PostInv`) starts from `BalD`: **`xmini_wellformed`** — for every source,
every subset of `newline`, `escape`, `backticks`, `autolink`, `html_inline`, `entity` with `emphasis` on, every `maxNesting`,
classification and external functions, the inline stream is levelled from 0, balanced, and builds a tree.
-/
namespace MdIt.C02f
open MdIt.C01 MdIt.C02 MdIt.C10

/-- the rule leaves the delimiter records alone -/
def IDelims (r : IRule) : Prop := ∀ s silent m s', ICtx s → r s silent = .ok (m, s') → s'.delimiters = s.delimiters

theorem push_delimsN (s : IState) (ty tag : String) (n : Int) (c m i : String) : (s.push ty tag n c m i).delimiters = s.delimiters := by
  unfold IState.push IState.pushPending; simp only; split <;> rfl

theorem autolinkPush_delims (ext : IExt) (s : IState) (href url : List Char) : (autolinkPush ext s href url).delimiters = s.delimiters := by
  unfold autolinkPush IState.pushA
  simp only [push_delimsN]

theorem delims_text : IDelims ruleText := by
  intro s silent m s' _ hr
  unfold ruleText at hr
  split at hr <;> (simp only [Except.ok.injEq, Prod.mk.injEq] at hr; obtain ⟨_, rfl⟩ := hr; rfl)


theorem delims_newline : IDelims ruleNewline := by
  intro s silent m s' hc hr
  have hin : s.pos < s.src.length := by have := hc.1; have := hc.2; omega
  unfold ruleNewline at hr
  rw [List.getElem?_eq_getElem hin] at hr
  simp only at hr
  split at hr
  · simp only [Except.ok.injEq, Prod.mk.injEq] at hr; obtain ⟨_, rfl⟩ := hr; rfl
  · simp only [Except.ok.injEq, Prod.mk.injEq] at hr
    obtain ⟨_, rfl⟩ := hr
    show (if silent = true then s else _).delimiters = s.delimiters
    split
    · rfl
    · split
      · simp [push_delimsN]
      · split
        · simp [push_delimsN]
        · simp [push_delimsN]


theorem delims_escape : IDelims ruleEscape := by
  intro s silent m s' hc hr
  have hin : s.pos < s.src.length := by have := hc.1; have := hc.2; omega
  unfold ruleEscape at hr
  rw [List.getElem?_eq_getElem hin] at hr
  simp only at hr
  split at hr
  · simp only [Except.ok.injEq, Prod.mk.injEq] at hr; obtain ⟨_, rfl⟩ := hr; rfl
  · split at hr
    · simp only [Except.ok.injEq, Prod.mk.injEq] at hr; obtain ⟨_, rfl⟩ := hr; rfl
    · split at hr
      · cases hr
      · split at hr
        · simp only [Except.ok.injEq, Prod.mk.injEq] at hr
          obtain ⟨_, rfl⟩ := hr
          show (if silent = true then s else _).delimiters = s.delimiters
          split
          · rfl
          · simp [push_delimsN]
        · simp only [Except.ok.injEq, Prod.mk.injEq] at hr
          obtain ⟨_, rfl⟩ := hr
          show (if silent = true then s else _).delimiters = s.delimiters
          split
          · rfl
          · simp [push_delimsN]


theorem delims_backticks : IDelims ruleBackticks := by
  intro s silent m s' hc hr
  have hin : s.pos < s.src.length := by have := hc.1; have := hc.2; omega
  unfold ruleBackticks at hr
  rw [List.getElem?_eq_getElem hin] at hr
  simp only at hr
  split at hr
  · simp only [Except.ok.injEq, Prod.mk.injEq] at hr; obtain ⟨_, rfl⟩ := hr; rfl
  · split at hr
    · simp only [Except.ok.injEq, Prod.mk.injEq] at hr; obtain ⟨_, rfl⟩ := hr; rfl
    · split at hr
      · simp only [Except.ok.injEq, Prod.mk.injEq] at hr
        obtain ⟨_, rfl⟩ := hr
        cases silent with
        | true => rfl
        | false =>
          simp only [Bool.false_eq_true, if_false]
          simp [push_delimsN]
      · simp only [Except.ok.injEq, Prod.mk.injEq] at hr; obtain ⟨_, rfl⟩ := hr; rfl


theorem delims_entity (ext : IExt) : IDelims (ruleEntity ext) := by
  intro s silent m s' hc hr
  have hin : s.pos < s.src.length := by have := hc.1; have := hc.2; omega
  unfold ruleEntity at hr
  rw [List.getElem?_eq_getElem hin] at hr
  simp only at hr
  split at hr
  · simp only [Except.ok.injEq, Prod.mk.injEq] at hr; obtain ⟨_, rfl⟩ := hr; rfl
  · split at hr
    · simp only [Except.ok.injEq, Prod.mk.injEq] at hr; obtain ⟨_, rfl⟩ := hr; rfl
    · split at hr
      · cases hr
      · split at hr
        · split at hr
          · simp only [Except.ok.injEq, Prod.mk.injEq] at hr; obtain ⟨_, rfl⟩ := hr; rfl
          · split at hr
            · simp only [Except.ok.injEq, Prod.mk.injEq] at hr; obtain ⟨_, rfl⟩ := hr; rfl
            · split at hr
              · cases hr
              · simp only [Except.ok.injEq, Prod.mk.injEq] at hr
                obtain ⟨_, rfl⟩ := hr
                simp [push_delimsN]
        · split at hr
          · simp only [Except.ok.injEq, Prod.mk.injEq] at hr; obtain ⟨_, rfl⟩ := hr; rfl
          · split at hr
            · simp only [Except.ok.injEq, Prod.mk.injEq] at hr; obtain ⟨_, rfl⟩ := hr; rfl
            · simp only [Except.ok.injEq, Prod.mk.injEq] at hr
              obtain ⟨_, rfl⟩ := hr
              show (if silent = true then s else _).delimiters = s.delimiters
              split
              · rfl
              · simp [push_delimsN]


theorem delims_htmlInline (ext : IExt) : IDelims (ruleHtmlInline ext) := by
  intro s silent m s' hc hr
  have hin : s.pos < s.src.length := by have := hc.1; have := hc.2; omega
  unfold ruleHtmlInline at hr
  split at hr
  · simp only [Except.ok.injEq, Prod.mk.injEq] at hr; obtain ⟨_, rfl⟩ := hr; rfl
  · rename_i hon
    have hon' : ext.html = true := by simpa using hon
    rw [List.getElem?_eq_getElem hin] at hr
    simp only at hr
    split at hr
    · simp only [Except.ok.injEq, Prod.mk.injEq] at hr; obtain ⟨_, rfl⟩ := hr; rfl
    · split at hr
      · cases hr
      · split at hr
        · simp only [Except.ok.injEq, Prod.mk.injEq] at hr; obtain ⟨_, rfl⟩ := hr; rfl
        · split at hr
          · simp only [Except.ok.injEq, Prod.mk.injEq] at hr; obtain ⟨_, rfl⟩ := hr; rfl
          · simp only [Except.ok.injEq, Prod.mk.injEq] at hr
            obtain ⟨_, rfl⟩ := hr
            show (if silent = true then s else _).delimiters = s.delimiters
            split
            · rfl
            · simp [push_delimsN]


theorem delims_autolink (ext : IExt) : IDelims (ruleAutolink ext) := by
  intro s silent m s' hc hr
  have hin : s.pos < s.src.length := by have := hc.1; have := hc.2; omega
  unfold ruleAutolink at hr
  rw [List.getElem?_eq_getElem hin] at hr
  simp only at hr
  split at hr
  · simp only [Except.ok.injEq, Prod.mk.injEq] at hr; obtain ⟨_, rfl⟩ := hr; rfl
  · split at hr
    · cases hr
    · simp only [Except.ok.injEq, Prod.mk.injEq] at hr; obtain ⟨_, rfl⟩ := hr; rfl
    · split at hr
      · split at hr
        · simp only [Except.ok.injEq, Prod.mk.injEq] at hr; obtain ⟨_, rfl⟩ := hr; rfl
        · rename_i hv
          simp only [Except.ok.injEq, Prod.mk.injEq] at hr
          obtain ⟨_, rfl⟩ := hr
          cases silent with
          | true => rfl
          | false =>
            simp only [Bool.false_eq_true, if_false]
            simp [autolinkPush_delims]
      · split at hr
        · split at hr
          · simp only [Except.ok.injEq, Prod.mk.injEq] at hr; obtain ⟨_, rfl⟩ := hr; rfl
          · rename_i hv
            simp only [Except.ok.injEq, Prod.mk.injEq] at hr
            obtain ⟨_, rfl⟩ := hr
            cases silent with
            | true => rfl
            | false =>
              simp only [Bool.false_eq_true, if_false]
              simp [autolinkPush_delims]
        · simp only [Except.ok.injEq, Prod.mk.injEq] at hr; obtain ⟨_, rfl⟩ := hr; rfl


/-! ### the invariant of the tokenize loop -/

def BalD (s : IState) : Prop :=
  balancedFrom 0 s.tokens = true
  ∧ (∀ t ∈ s.tokens, t.type = "text" → t.nesting = 0)
  ∧ (∀ d ∈ s.delimiters, d.end_ = -1 ∧ 0 ≤ d.token ∧ Untouched s.tokens d.token)
  ∧ s.delimiters.Pairwise (fun a b => a.token < b.token)

theorem untouched_append {ts new : List Tok} {p : Int} (h : Untouched ts p) : Untouched (ts ++ new) p := by
  obtain ⟨t, ht, hn⟩ := h
  have hlt : p.toNat < ts.length := by
    rcases Nat.lt_or_ge p.toNat ts.length with h' | h'
    · exact h'
    · rw [List.getElem?_eq_none h'] at ht; cases ht
  exact ⟨t, by rw [List.getElem?_append_left hlt]; exact ht, hn⟩

/-- appending a balanced chunk whose text tokens have nesting 0, delimiter records unchanged -/
theorem balD_append (s x : IState) (new : List Tok) (hx : x.tokens = s.tokens ++ new) (hd : x.delimiters = s.delimiters)
    (hb : balancedFrom 0 new = true) (ht : ∀ t ∈ new, t.type = "text" → t.nesting = 0) (h : BalD s) : BalD x := by
  obtain ⟨h1, h2, h3, h4⟩ := h
  refine ⟨?_, ?_, ?_, by rw [hd]; exact h4⟩
  · rw [hx]
    have := balancedFrom_prefix s.tokens new 0 0 h1 (Int.le_refl 0)
    simp only [Int.add_zero] at this
    rw [this]; exact hb
  · intro t htm
    rw [hx, List.mem_append] at htm
    rcases htm with htm | htm
    · exact h2 t htm
    · exact ht t htm
  · intro d hdm
    rw [hd] at hdm
    obtain ⟨a, b, c⟩ := h3 d hdm
    exact ⟨a, b, by rw [hx]; exact untouched_append c⟩

/-- a rule that appends a balanced chunk and keeps the delimiter records keeps the invariant -/
def IAddsB (r : IRule) : Prop :=
  ∀ s silent m s', ICtx s → r s silent = .ok (m, s') →
    ∃ new, s'.tokens = s.tokens ++ new ∧ balancedFrom 0 new = true ∧ (∀ t ∈ new, t.type = "text" → t.nesting = 0) ∧ s'.delimiters = s.delimiters

theorem keeps_of_addsB (r : IRule) (h : IAddsB r) : RuleKeeps BalD r := by
  intro s silent m s' hc hq hr
  obtain ⟨new, h1, h2, h3, h4⟩ := h s silent m s' hc hr
  exact balD_append s s' new h1 h4 h2 h3 hq

theorem addsB_of_zero (r : IRule) (ha : IAdds (fun t => t.nesting = 0) r) (hd : IDelims r) : IAddsB r := by
  intro s silent m s' hc hr
  obtain ⟨new, h1, h2⟩ := ha s silent m s' hc hr
  exact ⟨new, h1, balanced_zeros new h2, fun t ht _ => h2 t ht, hd s silent m s' hc hr⟩

theorem zeroText : ∀ (lvl : Int) (c : String), (mkInlineTok "text" "" 0 lvl c "" "").nesting = 0 := fun _ _ => rfl

theorem addsB_autolink (ext : IExt) : IAddsB (ruleAutolink ext) := by
  intro s silent m s' hc hr
  -- every token the rule adds is a text token with nesting 0, or one of the two link tokens; as a chunk: [flush?] open text close
  have hd := delims_autolink ext s silent m s' hc hr
  have hin : s.pos < s.src.length := by have := hc.1; have := hc.2; omega
  have hchunk : ∀ (href url : List Char), ∃ new, (autolinkPush ext s href url).tokens = s.tokens ++ new ∧ balancedFrom 0 new = true
      ∧ (∀ t ∈ new, t.type = "text" → t.nesting = 0) := by
    intro href url
    unfold autolinkPush IState.pushA
    simp only
    obtain ⟨l1, l1', p1, e1⟩ := push_adds s "link_open" "a" 1 "" "autolink" "auto"
    generalize hs1 : s.push "link_open" "a" 1 "" "autolink" "auto" = s1 at e1
    have e1' : ({ s1 with tokens := s1.tokens.modify (s1.tokens.length - 1) (fun t => t.setAttrs' [("href", .s (String.ofList href))]) } : IState).tokens
        = s.tokens ++ (if s.pending.isEmpty then [] else [mkInlineTok "text" "" 0 l1' p1 "" ""])
          ++ [(mkInlineTok "link_open" "a" 1 l1 "" "autolink" "auto").setAttrs' [("href", .s (String.ofList href))]] := by
      show s1.tokens.modify _ _ = _
      rw [e1, modify_last]
    generalize ({ s1 with tokens := s1.tokens.modify (s1.tokens.length - 1) (fun t => t.setAttrs' [("href", .s (String.ofList href))]) } : IState) = s2 at e1'
    have hp2 : s2.pending.isEmpty = true ∨ True := .inr trivial
    obtain ⟨l2, l2', p2, e2⟩ := push_adds s2 "text" "" 0 (String.ofList (ext.normText url)) "" ""
    generalize s2.push "text" "" 0 (String.ofList (ext.normText url)) "" "" = s3 at e2
    obtain ⟨l3, l3', p3, e3⟩ := push_adds s3 "link_close" "a" (-1) "" "autolink" "auto"
    refine ⟨(if s.pending.isEmpty then [] else [mkInlineTok "text" "" 0 l1' p1 "" ""]) ++
        ([(mkInlineTok "link_open" "a" 1 l1 "" "autolink" "auto").setAttrs' [("href", .s (String.ofList href))]] ++
          ((if s2.pending.isEmpty then [] else [mkInlineTok "text" "" 0 l2' p2 "" ""]) ++
            ([mkInlineTok "text" "" 0 l2 (String.ofList (ext.normText url)) "" ""] ++
              ((if s3.pending.isEmpty then [] else [mkInlineTok "text" "" 0 l3' p3 "" ""]) ++
                [mkInlineTok "link_close" "a" (-1) l3 "" "autolink" "auto"])))),
      by rw [e3, e2, e1']; simp only [List.append_assoc], ?_, ?_⟩
    · -- balanced: zeros, +1, zeros, 0, zeros, -1
      split <;> split <;> split <;> simp [balancedFrom, mkInlineTok, Tok.nesting, Tok.setAttrs']
    · intro t ht hty
      simp only [List.mem_append, List.mem_singleton] at ht
      rcases ht with ht | ht | ht | ht | ht | ht
      · split at ht
        · cases ht
        · simp only [List.mem_singleton] at ht; subst ht; rfl
      · subst ht; simp [mkInlineTok, Tok.type, Tok.setAttrs'] at hty
      · split at ht
        · cases ht
        · simp only [List.mem_singleton] at ht; subst ht; rfl
      · subst ht; rfl
      · split at ht
        · cases ht
        · simp only [List.mem_singleton] at ht; subst ht; rfl
      · subst ht; simp [mkInlineTok, Tok.type] at hty
  unfold ruleAutolink at hr
  rw [List.getElem?_eq_getElem hin] at hr
  simp only at hr
  have nil : ∀ x : IState, x.tokens = s.tokens → ∃ new, x.tokens = s.tokens ++ new ∧ balancedFrom 0 new = true
      ∧ (∀ t ∈ new, t.type = "text" → t.nesting = 0) := fun x hx => ⟨[], by simp [hx], rfl, by simp⟩
  have key : ∃ new, s'.tokens = s.tokens ++ new ∧ balancedFrom 0 new = true ∧ (∀ t ∈ new, t.type = "text" → t.nesting = 0) := by
    split at hr
    · simp only [Except.ok.injEq, Prod.mk.injEq] at hr; obtain ⟨_, rfl⟩ := hr; exact nil _ rfl
    · split at hr
      · cases hr
      · simp only [Except.ok.injEq, Prod.mk.injEq] at hr; obtain ⟨_, rfl⟩ := hr; exact nil _ rfl
      · split at hr
        · split at hr
          · simp only [Except.ok.injEq, Prod.mk.injEq] at hr; obtain ⟨_, rfl⟩ := hr; exact nil _ rfl
          · simp only [Except.ok.injEq, Prod.mk.injEq] at hr
            obtain ⟨_, rfl⟩ := hr
            cases silent with
            | true => exact nil _ rfl
            | false => simp only [Bool.false_eq_true, if_false]; exact hchunk _ _
        · split at hr
          · split at hr
            · simp only [Except.ok.injEq, Prod.mk.injEq] at hr; obtain ⟨_, rfl⟩ := hr; exact nil _ rfl
            · simp only [Except.ok.injEq, Prod.mk.injEq] at hr
              obtain ⟨_, rfl⟩ := hr
              cases silent with
              | true => exact nil _ rfl
              | false => simp only [Bool.false_eq_true, if_false]; exact hchunk _ _
          · simp only [Except.ok.injEq, Prod.mk.injEq] at hr; obtain ⟨_, rfl⟩ := hr; exact nil _ rfl
  obtain ⟨new, k1, k2, k3⟩ := key
  exact ⟨new, k1, k2, k3, hd⟩


theorem balD_eq (s x : IState) (ht : x.tokens = s.tokens) (hd : x.delimiters = s.delimiters) (h : BalD s) : BalD x := by
  unfold BalD at *; rw [ht, hd]; exact h

theorem balD_emphPush (marker : Char) (count : Nat) (o c : Bool) : ∀ (k : Nat) (s : IState), BalD s → BalD (emphPush marker count o c k s) := by
  intro k
  induction k with
  | zero => intro s h; exact h
  | succ n ih =>
    intro s h
    simp only [emphPush]
    apply ih
    obtain ⟨extra, e1, e2, e3, e4⟩ := push_tokens0 s "text" "" (String.singleton marker) "" ""
    have h1 : BalD (s.push "text" "" 0 (String.singleton marker) "" "") :=
      balD_append s _ extra e1 e4 (balanced_zeros extra e2) (fun t ht _ => e2 t ht) h
    generalize s.push "text" "" 0 (String.singleton marker) "" "" = s1 at h1 e1 e4
    obtain ⟨a1, a2, a3, a4⟩ := h1
    have hpos : 0 < extra.length := List.length_pos_iff.mpr e3
    have hlen : s1.tokens.length = s.tokens.length + extra.length := by rw [e1, List.length_append]
    refine ⟨a1, a2, ?_, ?_⟩
    · intro d hd
      have hd' : d ∈ s1.delimiters ++ [{ marker := marker.toNat, length := count, token := (s1.tokens.length : Int) - 1, end_ := -1, open_ := o, close := c }] := hd
      rw [List.mem_append] at hd'
      rcases hd' with hd' | hd'
      · exact a3 d hd'
      · simp only [List.mem_singleton] at hd'; subst hd'
        refine ⟨rfl, by show (0 : Int) ≤ (s1.tokens.length : Int) - 1; omega, ?_⟩
        have hidx : ((s1.tokens.length : Int) - 1).toNat = s.tokens.length + (extra.length - 1) := by omega
        have hlt : extra.length - 1 < extra.length := by omega
        refine ⟨extra[extra.length - 1], ?_, e2 _ (List.getElem_mem hlt)⟩
        show s1.tokens[((s1.tokens.length : Int) - 1).toNat]? = _
        rw [hidx, e1, List.getElem?_append_right (by omega)]
        simp [List.getElem?_eq_getElem hlt]
    · show List.Pairwise _ (s1.delimiters ++ [_])
      rw [List.pairwise_append]
      refine ⟨a4, by simp, ?_⟩
      intro a ha b hb
      simp only [List.mem_singleton] at hb; subst hb
      show a.token < (s1.tokens.length : Int) - 1
      rw [e4] at ha
      obtain ⟨_, hnn, t, ht, _⟩ := h.2.2.1 a ha
      have : a.token.toNat < s.tokens.length := by
        rcases Nat.lt_or_ge a.token.toNat s.tokens.length with h' | h'
        · exact h'
        · rw [List.getElem?_eq_none h'] at ht; cases ht
      omega

theorem keepsB_emphasis (cls : QCls) : RuleKeeps BalD (ruleEmphasis cls) := by
  intro s silent m s' hc h hr
  have hin : s.pos < s.src.length := by have := hc.1; have := hc.2; omega
  unfold ruleEmphasis at hr
  rw [List.getElem?_eq_getElem hin] at hr
  simp only at hr
  split at hr
  · simp only [Except.ok.injEq, Prod.mk.injEq] at hr; obtain ⟨_, rfl⟩ := hr; exact h
  · split at hr
    · simp only [Except.ok.injEq, Prod.mk.injEq] at hr; obtain ⟨_, rfl⟩ := hr; exact h
    · simp only [Except.ok.injEq, Prod.mk.injEq] at hr
      obtain ⟨_, rfl⟩ := hr
      exact balD_eq _ _ rfl rfl (balD_emphPush _ _ _ _ _ s h)

/-- every rule of the chain with emphasis on (and no strikethrough) keeps the invariant -/
theorem wChain_keeps (cls : QCls) (ext : IExt) (c : IMiniCfg) (autolink htmlInline entity : Bool) :
    ∀ r ∈ xminiChain cls ext c false true autolink htmlInline entity, RuleKeeps BalD r := by
  have z : ∀ (ty tag : String) (lvl : Int) (co mk i : String), (mkInlineTok ty tag 0 lvl co mk i).nesting = 0 := fun _ _ _ _ _ _ => rfl
  intro r hr
  simp only [xminiChain, sminiChain, iminiChain, List.mem_append, List.mem_singleton, Bool.false_eq_true, if_false, if_true,
    List.not_mem_nil, or_false] at hr
  rcases hr with ((((((hr | hr) | hr) | hr) | hr) | hr) | hr) | hr
  · subst hr; exact keeps_of_addsB _ (addsB_of_zero _ adds_text delims_text)
  · split at hr
    · simp at hr; subst hr
      exact keeps_of_addsB _ (addsB_of_zero _ (adds_newline zeroText (fun _ => rfl) (fun _ => rfl)) delims_newline)
    · cases hr
  · split at hr
    · simp at hr; subst hr
      exact keeps_of_addsB _ (addsB_of_zero _ (adds_escape zeroText (fun _ => rfl) (fun _ _ _ => rfl)) delims_escape)
    · cases hr
  · split at hr
    · simp at hr; subst hr
      exact keeps_of_addsB _ (addsB_of_zero _ (adds_backticks zeroText (fun _ _ _ => rfl)) delims_backticks)
    · cases hr
  · subst hr; exact keepsB_emphasis cls
  · split at hr
    · simp at hr; subst hr; exact keeps_of_addsB _ (addsB_autolink ext)
    · cases hr
  · split at hr
    · simp at hr; subst hr
      exact keeps_of_addsB _ (addsB_of_zero _ (adds_htmlInline zeroText ext (fun _ _ _ => rfl)) (delims_htmlInline ext))
    · cases hr
  · split at hr
    · simp at hr; subst hr
      exact keeps_of_addsB _ (addsB_of_zero _ (adds_entity zeroText ext (fun _ _ _ => rfl)) (delims_entity ext))
    · cases hr

theorem balD_token_lt (s : IState) (h : BalD s) (d : Delim) (hd : d ∈ s.delimiters) : d.end_ = -1 ∧ 0 ≤ d.token ∧ d.token < (s.tokens.length : Int) := by
  obtain ⟨a, b, t, ht, _⟩ := h.2.2.1 d hd
  have : d.token.toNat < s.tokens.length := by
    rcases Nat.lt_or_ge d.token.toNat s.tokens.length with h' | h'
    · exact h'
    · rw [List.getElem?_eq_none h'] at ht; cases ht
  exact ⟨a, b, by omega⟩

theorem postHyp_of_balD (s : IState) (h : BalD s) : PostHyp (processDelims s.delimiters) s.tokens.length := by
  have h2 := balD_token_lt s h
  have h3 := h.2.2.2
  obtain ⟨hsh, hends, hinj, hnb⟩ := C02e.pairs_facts s.delimiters (fun d hd => (h2 d hd).1) (fun d hd => (h2 d hd).2.1)
  refine ⟨?_, ?_, ?_, hinj, hnb⟩
  · intro j d hd
    obtain ⟨d0, a1, _, a3, _, _⟩ := hsh.2 j d hd
    have := h2 d0 (List.mem_of_getElem? a1)
    rw [a3]; exact ⟨this.2.1, this.2.2⟩
  · intro j1 j2 d1 d2 hd1 hd2 hlt
    obtain ⟨p1, a1, _, a3, _, _⟩ := hsh.2 j1 d1 hd1
    obtain ⟨p2, b1, _, b3, _, _⟩ := hsh.2 j2 d2 hd2
    rw [a3, b3]
    exact pairwise_get h3 j1 j2 p1 p2 a1 b1 hlt
  · intro j d hd
    rcases hends j d hd with h' | h'
    · exact .inl h'
    · exact .inr ⟨h'.1, by rw [hsh.1]; exact h'.2⟩

theorem postInv_of_balD (s2 : IState) (h2 : BalD s2) :
    PostInv (processDelims s2.delimiters) s2.tokens.length (((processDelims s2.delimiters).length : Int) - 1) s2.tokens := by
  have hfacts := C02e.pairs_facts s2.delimiters (fun d hd => (balD_token_lt s2 h2 d hd).1) (fun d hd => (balD_token_lt s2 h2 d hd).2.1)
  have hsh := hfacts.1
  have unt : ∀ (j : Nat) (d : Delim), (processDelims s2.delimiters)[j]? = some d → Untouched s2.tokens d.token := by
    intro j d hd
    obtain ⟨d0, a1, _, a3, _, _⟩ := hsh.2 j d hd
    rw [a3]; exact (h2.2.2.1 d0 (List.mem_of_getElem? a1)).2.2
  exact ⟨rfl, h2.1, h2.2.1, fun j d _ hd => unt j d hd, fun j d de _ _ _ hde => unt _ de hde⟩

/-- **C02.xmini_wellformed** — the inline sub-parser with `emphasis` on and any subset of `newline`, `escape`, `backticks`,
`autolink`, `html_inline`, `entity` (eight of the twelve inline rules; strikethrough's lone-marker swap is not in the nesting
theorems): for every source, `maxNesting`, classification and external functions the stream — tokenize loop, `balance_pairs`,
emphasis post-processing, `fragments_join` — is levelled from 0, balanced, and `SyntaxTreeNode` builds -/
theorem xmini_wellformed (cls : QCls) (ext : IExt) (c : IMiniCfg) (autolink htmlInline entity : Bool) (maxNesting : Int) (src : List Char)
    (ts : List Tok)
    (h : inlineParse (xminiChain cls ext c false true autolink htmlInline entity) (sminiPost false true) true maxNesting src = .ok ts) :
    levelsOK 0 ts ∧ balancedFrom 0 ts = true ∧ ∃ f, buildTree ts = .ok f := by
  unfold inlineParse tokenize at h
  cases hl : tokenizeLoop (xminiChain cls ext c false true autolink htmlInline entity) maxNesting (IState.init src).posMax
      ((IState.init src).posMax - (IState.init src).pos + 1) false (IState.init src) with
  | error e => rw [hl] at h; cases h
  | ok s1 =>
    rw [hl] at h
    simp only [sminiPost, Bool.or_true, Bool.false_eq_true, if_false, if_true, List.append_nil, List.nil_append, List.cons_append,
      List.foldl_cons, List.foldl_nil, Except.ok.injEq] at h
    have h0 : BalD (IState.init src) := by
      refine ⟨rfl, by intro t ht; simp [IState.init] at ht, by intro d hd; simp [IState.init] at hd, by simp [IState.init]⟩
    have h1 : BalD s1 := loop_keeps BalD (fun s ch hq => balD_eq s _ rfl rfl hq) _ (xminiChain_ok cls ext c false true autolink htmlInline entity)
      (wChain_keeps cls ext c autolink htmlInline entity) maxNesting _ false (IState.init src) s1 (Nat.le_refl _) h0 hl
    have h2 : BalD (if s1.pending.isEmpty then s1 else s1.pushPending) := by
      split
      · exact h1
      · exact balD_append s1 s1.pushPending [mkInlineTok "text" "" 0 s1.pendingLevel (String.ofList s1.pending) "" ""] rfl rfl rfl
          (by intro t ht _; simp only [List.mem_singleton] at ht; subst ht; rfl) h1
    generalize (if s1.pending.isEmpty then s1 else s1.pushPending) = s2 at h h2
    have hD := postHyp_of_balD s2 h2
    have hinv := postInv_of_balD s2 h2
    obtain ⟨_, hbal, htext⟩ := emphPost_inv (processDelims s2.delimiters) s2.tokens.length hD (processDelims s2.delimiters).length _ s2.tokens hinv
    have hts : ts = fragmentsJoin 0 (emphPostGo (processDelims s2.delimiters) (processDelims s2.delimiters).length
        (((processDelims s2.delimiters).length : Int) - 1) s2.tokens) := by
      rw [← h]; rfl
    have hb2 : balancedFrom 0 ts = true := by
      rw [hts]; exact fragmentsJoin_balanced _ 0 _ 0 (Nat.le_refl _) htext hbal
    exact ⟨by rw [hts]; exact fragmentsJoin_levels 0 _ htext, hb2, tree_of_balanced ts hb2⟩

/-! non-vacuity: emphasis around and inside autolinks, an entity and raw HTML in between -/
example : C01.itypesOf (inlineParse (xminiChain asciiCls { entity := fun n => if n = "amp".toList then some ['&'] else none, reformat := id, normText := id, html := true }
      ⟨true, true, true⟩ false true true true true) (sminiPost false true) true 20 "*a <http://x.y> **b &amp; <i>c</i>** d*".toList)
    = some ["em_open", "text", "link_open", "text", "link_close", "text", "strong_open", "text", "text_special", "text", "html_inline", "text",
            "html_inline", "strong_close", "text", "em_close"] := by decide +kernel

end MdIt.C02f
