import MdIt.Props.C08c
import MdIt.Props.C02h
/-!
# C08 (continued) — verbatim content with `html_block` and `lheading` in the chain

`html_block` keeps its lines verbatim: the token's content is, line for line, the lines its map points to with only a prefix removed
(container prefix / indentation up to `blkIndent`; at most pad spaces in front), every line with its line feed.  A setext heading
records the underline character as its markup.  **`m_verbatim`**: `l_verbatim` (code blocks, fences, thematic breaks) plus these two,
for the block sub-parser with nine of the eleven rules, through quotes and lists nested to any depth.
-/
namespace MdIt.C08
open MdIt.C01 MdIt.C02

/-- what an `html_block` token holds, relative to a line table -/
def HtmlSuf (lines : List BLine) (t : Tok) : Prop :=
  t.type = "html_block" → ∃ (a b : Nat) (ps : List (List Char)), t.map = some (a, b) ∧ t.content.toList = ps.flatten
    ∧ ps.length = b - a ∧ ∀ j (h : j < ps.length), PieceOf lines (a + j) ps[j]

/-- a heading's markup is a run of `#` (ATX) or the underline character (setext) -/
def HeadMk (t : Tok) : Prop :=
  t.type = "heading_open" → (∃ n, t.markup.toList = List.replicate n '#') ∨ t.markup = "=" ∨ t.markup = "-"

def VerbM (lines : List BLine) (t : Tok) : Prop := VerbSufTok lines t ∧ HtmlSuf lines t ∧ HeadMk t

def VerbMS : BState → List Tok → Prop := fun s seg => ∀ t ∈ seg, VerbM s.lines t

theorem htmlSuf_suf {a b : List BLine} (h : SufLines a b) (t : Tok) (hv : HtmlSuf b t) : HtmlSuf a t := by
  intro ht
  obtain ⟨x, y, ps, h1, h2, h3, h4⟩ := hv ht
  exact ⟨x, y, ps, h1, h2, h3, fun j hj => pieceOf_suf h _ _ (h4 j hj)⟩

theorem verbM_suf {a b : List BLine} (h : SufLines a b) (t : Tok) (hv : VerbM b t) : VerbM a t :=
  ⟨verbSufTok_suf h t hv.1, htmlSuf_suf h t hv.2.1, hv.2.2⟩

theorem other_m (lines : List BLine) (t : Tok) (h1 : t.type ≠ "code_block") (h2 : t.type ≠ "fence") (h3 : t.type ≠ "hr")
    (h4 : t.type ≠ "html_block") (h5 : t.type ≠ "heading_open") : VerbM lines t :=
  ⟨⟨fun h => absurd h h1, fun h => absurd h h2, fun h => absurd h h3⟩, fun h => absurd h h4, fun h => absurd h h5⟩

/-- a segment of the old predicate whose tokens are neither HTML blocks nor headings -/
theorem sufS_to_m (P) (r : BRule) (h : SegOK P VerbSufS r)
    (hty : ∀ s line endLine s', CallCtx P s line endLine → r s line endLine false = .ok (true, s') →
      ∀ seg, s'.tokens = s.tokens ++ seg → ∀ t ∈ seg, t.type ≠ "html_block" ∧ HeadMk t) : SegOK P VerbMS r :=
  ⟨fun s line endLine s' hc hr => by
      obtain ⟨seg, h1, h2⟩ := h.hit s line endLine s' hc hr
      exact ⟨seg, h1, fun t ht => ⟨h2 t ht, fun h' => absurd h' (hty s line endLine s' hc hr seg h1 t ht).1,
        (hty s line endLine s' hc hr seg h1 t ht).2⟩⟩,
   h.miss⟩

theorem verbM_closed : FrameClosedS VerbMS := fun s s' seg hf h t ht => by
  unfold VerbMS at *; rw [hf.1.1]; exact h t ht

theorem verbM_wrap : QuoteWrap VerbMS := by
  refine ⟨verbM_closed, ?_⟩
  intro s s3 s4 line openT closeT segs _ _ _ _ ho3 _ _ hc3 hsuf hS t ht
  simp only [List.mem_append, List.mem_singleton, List.mem_flatten] at ht
  rcases ht with (rfl | ⟨g, hg, htg⟩) | rfl
  · exact other_m _ _ (by simp [ho3]) (by simp [ho3]) (by simp [ho3]) (by simp [ho3]) (by simp [ho3])
  · exact verbM_suf hsuf t (hS g hg t htg)
  · exact other_m _ _ (by simp [hc3]) (by simp [hc3]) (by simp [hc3]) (by simp [hc3]) (by simp [hc3])

theorem verbM_hid (lines : List BLine) {t u : Tok} (h : t.setHidden false = u.setHidden false) (hv : VerbM lines u) : VerbM lines t := by
  obtain ⟨e1, e2, e3, e4, e5⟩ := hidden_eq_more h
  refine ⟨verbSufTok_hid lines h hv.1, ?_, ?_⟩
  · unfold HtmlSuf at *; rw [e1, e2, e3]; exact hv.2.1
  · unfold HeadMk at *; rw [e1, e4]; exact hv.2.2

theorem verbM_listWrap : ListWrap VerbMS := by
  refine ⟨?_, ?_⟩
  · intro s seg seg' hh hS t ht
    unfold HidEq at hh
    have hm : t.setHidden false ∈ seg'.map (·.setHidden false) := List.mem_map.2 ⟨t, ht, rfl⟩
    rw [hh, List.mem_map] at hm
    obtain ⟨u, hu, he⟩ := hm
    exact verbM_hid s.lines he.symm (hS u hu)
  · intro s s2 openT closeT m segs _ hsuf _ _ _ _ hty hS t ht
    simp only [List.mem_append, List.mem_singleton, List.mem_flatten] at ht
    simp only [List.mem_cons, Prod.mk.injEq, List.not_mem_nil, or_false] at hty
    rcases ht with (rfl | ⟨g, hg, htg⟩) | rfl
    · rcases hty with ⟨h, _⟩ | ⟨h, _⟩ | ⟨h, _⟩ <;> exact other_m _ _ (by simp [h]) (by simp [h]) (by simp [h]) (by simp [h]) (by simp [h])
    · exact verbM_suf hsuf t (hS g hg t htg)
    · rcases hty with ⟨_, h⟩ | ⟨_, h⟩ | ⟨_, h⟩ <;> exact other_m _ _ (by simp [h]) (by simp [h]) (by simp [h]) (by simp [h]) (by simp [h])

/-! ### the leaf rules -/

theorem verbM_htmlBlock (P) (codeOn htmlOn : Bool) : SegOK P VerbMS (ruleHtmlBlock codeOn htmlOn) := by
  refine ⟨?_, ?_⟩
  · intro s line endLine s' hc h
    obtain ⟨l, hl, _, _⟩ := hc.here
    have hg := getL_of_here hl
    have hlenE : endLine < s.lines.length := by have := hc.len; have := hc.le; omega
    simp only [ruleHtmlBlock, hg, Bool.false_eq_true, if_false] at h
    split at h
    · cases h
    · split at h
      · cases h
      · split at h
        · cases h
        · split at h
          · cases h
          · rename_i q _
            have hnext : ∃ next, (if q.2.1.search l.body = true then (Except.ok (line + 1) : Except PyErr Nat)
                else htmlScan q.2.1 s endLine (endLine - line + 1) (line + 1)) = .ok next ∧ line + 1 ≤ next ∧ next ≤ endLine := by
              split
              · exact ⟨line + 1, rfl, Nat.le_refl _, by have := hc.lt; omega⟩
              · exact htmlScan_ok _ s endLine hlenE _ _ (by omega) (by have := hc.lt; omega)
            obtain ⟨next, hn, h1, h2⟩ := hnext
            rw [hn] at h
            simp only at h
            rw [getLinesB_spec s line next s.blkIndent true (by omega)] at h
            simp only [Except.ok.injEq, Prod.mk.injEq, true_and] at h
            subst h
            refine ⟨[_], pushFull_tokens _ _ _ _ _ _ _ _ _, ?_⟩
            intro t ht; simp only [List.mem_singleton] at ht; subst ht
            refine ⟨⟨fun h => by simp [pushedTok, Tok.type] at h, fun h => by simp [pushedTok, Tok.type] at h,
              fun h => by simp [pushedTok, Tok.type] at h⟩, ?_, fun h => by simp [pushedTok, Tok.type] at h⟩
            intro _
            refine ⟨line, next, (List.range' line (next - line)).map (cutOf s next true s.blkIndent), rfl, ?_, by simp, ?_⟩
            · simp [pushedTok, Tok.content]
            · intro j hj
              simp only [List.length_map, List.length_range'] at hj
              simp only [List.getElem_map, List.getElem_range', Nat.one_mul]
              exact cutOf_piece s next true _ _
  · intro s line endLine s' hc h
    rcases html_shape P codeOn htmlOn s line endLine hc with h' | ⟨next, c, h1, h2, h'⟩
    · rw [h'] at h; cases h; rfl
    · rw [h'] at h; cases h


/-- combine the old verbatim contract of a rule with what its token kinds are -/
theorem sufS_types_to_m (P) (r : BRule) (c : MiniCfg) (hh : c.heading = false) (h : SegOK P VerbSufS r) (ht : SegOK P (C10.TypesIn c) r) :
    SegOK P VerbMS r := by
  refine sufS_to_m P r h ?_
  intro s line endLine s' hc hr seg hseg t htm
  obtain ⟨seg', h1, h2⟩ := ht.hit s line endLine s' hc hr
  have : seg = seg' := List.append_cancel_left (hseg.symm.trans h1)
  subst this
  have hty := h2 t htm
  simp only [C10.allowedTypes, hh, List.mem_append] at hty
  constructor
  · intro he; rw [he] at hty
    rcases hty with (((hty | hty) | hty) | hty) | hty
    · simp at hty
    · split at hty <;> simp at hty
    · split at hty <;> simp at hty
    · split at hty <;> simp at hty
    · simp at hty
  · intro he; rw [he] at hty
    rcases hty with (((hty | hty) | hty) | hty) | hty
    · simp at hty
    · split at hty <;> simp at hty
    · split at hty <;> simp at hty
    · split at hty <;> simp at hty
    · simp at hty

theorem verbM_heading (P) (codeOn : Bool) (ws : List Nat) : SegOK P VerbMS (ruleHeading codeOn ws) := by
  refine ⟨?_, ?_⟩
  · intro s line endLine s' hc h
    obtain ⟨l, hl, _, _⟩ := hc.here
    have hg := getL_of_here hl
    simp only [ruleHeading, hg, Bool.false_eq_true, if_false] at h
    split at h
    · cases h
    · split at h
      · cases h
      · split at h
        · cases h
        · split at h
          · cases h
          · split at h
            · cases h
            · simp only [Except.ok.injEq, Prod.mk.injEq, true_and] at h
              subst h
              refine ⟨?seg, ?heq, ?hv⟩
              case heq => rw [pushFull_tokens, pushFull_tokens, pushFull_tokens, List.append_assoc, List.append_assoc]
              case hv =>
                intro t ht
                simp only [List.mem_append, List.mem_singleton] at ht
                rcases ht with rfl | rfl | rfl
                · refine ⟨⟨fun h => by simp [pushedTok, Tok.type] at h, fun h => by simp [pushedTok, Tok.type] at h,
                    fun h => by simp [pushedTok, Tok.type] at h⟩, fun h => by simp [pushedTok, Tok.type] at h,
                    fun _ => .inl ⟨(List.takeWhile (fun x => x == '#') l.body).length, ?_⟩⟩
                  simp [pushedTok, Tok.markup]
                · exact other_m _ _ (by simp [pushedTok, Tok.type]) (by simp [pushedTok, Tok.type]) (by simp [pushedTok, Tok.type])
                    (by simp [pushedTok, Tok.type]) (by simp [pushedTok, Tok.type])
                · exact other_m _ _ (by simp [pushedTok, Tok.type]) (by simp [pushedTok, Tok.type]) (by simp [pushedTok, Tok.type])
                    (by simp [pushedTok, Tok.type]) (by simp [pushedTok, Tok.type])
  · intro s line endLine s' hc h
    rcases heading_shape P codeOn ws s line endLine hc with h' | ⟨tag, mk, c, h'⟩
    · rw [h'] at h; cases h; rfl
    · rw [h'] at h; cases h

theorem setextLevel_marker (body : List Char) (m : Char) (lv : Nat) (h : setextLevel body = some (m, lv)) : m = '-' ∨ m = '=' := by
  unfold setextLevel at h
  split at h
  · cases h
  · rename_i c _
    split at h
    · rename_i hm
      split at h
      · simp only [Option.some.injEq, Prod.mk.injEq] at h
        obtain ⟨rfl, _⟩ := h
        simpa using hm
      · cases h
    · cases h

theorem lheadScan_marker (terms : List BRule) (endLine : Nat) : ∀ (fuel next : Nat) (s s' : BState) (r : Nat) (m : Char) (lv : Nat),
    lheadScan terms endLine fuel next s = .ok (r, some (m, lv), s') → m = '-' ∨ m = '=' := by
  intro fuel
  induction fuel with
  | zero => intro next s s' r m lv h; simp [lheadScan] at h
  | succ n ih =>
    intro next s s' r m lv h
    simp only [lheadScan] at h
    split at h
    · split at h
      · cases h
      · split at h
        · simp at h
        · split at h
          · exact ih _ _ _ _ _ _ h
          · split at h
            · rename_i q hq
              simp only [Except.ok.injEq, Prod.mk.injEq, Option.some.injEq] at h
              obtain ⟨_, rfl, _⟩ := h
              split at hq
              · exact setextLevel_marker _ _ _ hq
              · cases hq
            · split at h
              · exact ih _ _ _ _ _ _ h
              · split at h
                · cases h
                · simp at h
                · exact ih _ _ _ _ _ _ h
    · simp at h

theorem verbM_lheading (P : BState → Nat → Prop) (codeOn : Bool) (terms : List BRule) (hin : ∀ t ∈ terms, SilentInert t) (ws : List Nat) :
    SegOK P VerbMS (ruleLheading codeOn terms ws) := by
  refine ⟨?_, ?_⟩
  · intro s line endLine s' hc h
    obtain ⟨l, hl, _, _⟩ := hc.here
    have hg := getL_of_here hl
    simp only [ruleLheading, hg] at h
    split at h
    · cases h
    · split at h
      · cases h
      · cases h
      · rename_i next marker level s1 hscan
        have hmk := lheadScan_marker _ _ _ _ _ _ _ _ _ hscan
        split at h
        · cases h
        · simp only [Except.ok.injEq, Prod.mk.injEq, true_and] at h
          subst h
          refine ⟨?seg, ?heq, ?hv⟩
          case heq =>
            show (BState.pushFull _ _ _ _ _ _ _ _ _).tokens = _
            rw [pushFull_tokens, pushFull_tokens, pushFull_tokens, List.append_assoc, List.append_assoc]
            obtain ⟨r, o, hs1, _⟩ := lheadScan_ok terms hin { s with parentType := "paragraph" } endLine
              (by show endLine < s.lines.length; have := hc.len; have := hc.le; omega) (endLine - line + 1) (line + 1) (by omega)
              (by have := hc.lt; omega)
            rw [hs1] at hscan
            simp only [Except.ok.injEq, Prod.mk.injEq] at hscan
            obtain ⟨_, _, rfl⟩ := hscan
            rfl
          case hv =>
            intro t ht
            simp only [List.mem_append, List.mem_singleton] at ht
            rcases ht with rfl | rfl | rfl
            · refine ⟨⟨fun h => by simp [pushedTok, Tok.type] at h, fun h => by simp [pushedTok, Tok.type] at h,
                fun h => by simp [pushedTok, Tok.type] at h⟩, fun h => by simp [pushedTok, Tok.type] at h, fun _ => .inr ?_⟩
              rcases hmk with rfl | rfl
              · exact .inr rfl
              · exact .inl rfl
            · exact other_m _ _ (by simp [pushedTok, Tok.type]) (by simp [pushedTok, Tok.type]) (by simp [pushedTok, Tok.type])
                (by simp [pushedTok, Tok.type]) (by simp [pushedTok, Tok.type])
            · exact other_m _ _ (by simp [pushedTok, Tok.type]) (by simp [pushedTok, Tok.type]) (by simp [pushedTok, Tok.type])
                (by simp [pushedTok, Tok.type]) (by simp [pushedTok, Tok.type])
  · intro s line endLine s' hc h
    rcases lheading_shape P codeOn terms hin ws s line endLine hc with h' | h' | ⟨next, tag, mk, c, h1, h2, h'⟩
    · rw [h'] at h; cases h; rfl
    · rw [h'] at h; cases h; rfl
    · rw [h'] at h; cases h


theorem verbM_mLeaves (c : MCfg) (ws : List Nat) (mn : Int) (P : BState → Nat → Prop) :
    ∀ r ∈ mLeaves c ws mn, SegOK P VerbMS r := by
  intro r hr
  simp only [mLeaves, List.mem_append, List.mem_singleton] at hr
  rcases hr with (((((hr | hr) | hr) | hr) | hr) | hr) | hr
  · split at hr
    · rename_i hc
      simp at hr; subst hr
      exact sufS_types_to_m _ _ ⟨c.code, false, false, false⟩ rfl (segOK_to_suf _ _ (verbOK_code _ _))
        (C10.typesOK_code _ ⟨c.code, false, false, false⟩ hc)
    · cases hr
  · split at hr
    · simp at hr; subst hr
      exact sufS_types_to_m _ _ ⟨c.code, true, false, false⟩ rfl (segOK_to_suf _ _ (verbOK_fence _ _))
        (C10.typesOK_fence _ ⟨c.code, true, false, false⟩ rfl)
    · cases hr
  · split at hr
    · simp at hr; subst hr
      exact sufS_types_to_m _ _ ⟨c.code, false, true, false⟩ rfl (segOK_to_suf _ _ (verbOK_hr _ _))
        (C10.typesOK_hr _ ⟨c.code, false, true, false⟩ rfl)
    · cases hr
  · split at hr
    · simp at hr; subst hr; exact verbM_htmlBlock _ _ _
    · cases hr
  · split at hr
    · simp at hr; subst hr; exact verbM_heading _ _ _
    · cases hr
  · split at hr
    · simp at hr; subst hr; exact verbM_lheading _ _ _ (mTerminators_inert c ws mn) ws
    · cases hr
  · subst hr
    exact sufS_types_to_m _ _ ⟨c.code, false, false, false⟩ rfl (segOK_to_suf _ _ (verbOK_paragraph _ _ (mTerminators_inert c ws mn) ws))
      (C10.typesOK_paragraph _ ⟨c.code, false, false, false⟩ _ (mTerminators_inert c ws mn) ws)

/-- **C08.m_verbatim** — nine of the eleven block rules, through quotes and lists nested to any depth: every `code_block`, `fence`,
`hr` token as in `l_verbatim`; every `html_block` token holds, line for line, the lines its map points to in the normalised source
with only a prefix removed (at most pad spaces put in front), each with its line feed; every `heading_open` has a run of `#` or the
setext underline character as its markup -/
theorem m_verbatim (c : MCfg) (ws : List Nat) (maxNesting : Int) (src : List Char) (ts : List Tok)
    (h : mParse c ws maxNesting src = .ok ts) : ∀ t ∈ ts, VerbM (initBState (normalize src)).lines t := by
  obtain ⟨segs, hts, hS⟩ := mParse_segs VerbMS verbM_wrap verbM_listWrap c ws maxNesting
    (fun P => verbM_mLeaves c ws maxNesting P) src ts h
  intro t ht
  rw [hts, List.mem_flatten] at ht
  obtain ⟨g, hg, htg⟩ := ht
  exact hS g hg t htg

end MdIt.C08
