import MdIt.Url
/-!
# C05 — emitted link and image URLs are normalised and never carry a dangerous scheme

Model: `MdIt/Url.lean`.  `badProtos`, `goodDataKinds`, `encodeDefaultChars` are T1 tables extracted
from the live modules; the obligations below are re-checked against them on every run.
-/
namespace MdIt.C05

/-- the schemes the property names -/
def Dangerous : List String := ["javascript", "vbscript", "file", "data"]

/-- **T1 obligation** — the blacklist of the current source covers every scheme the property names -/
theorem dangerous_covered : ∀ d ∈ Dangerous, d ∈ Gen.badProtos := by decide

/-- **T1 obligation** — the data: whitelist is exactly the four image kinds -/
theorem good_kinds : Gen.goodDataKinds = ["gif", "png", "jpeg", "webp"] := by decide

/-- **T1 obligation** — the characters `mdurl.encode` leaves alone are printable URL punctuation:
no control, space, quote, angle bracket, backslash, backtick or non-ASCII -/
theorem default_chars_safe : ∀ n ∈ Gen.encodeDefaultChars,
    33 ≤ n ∧ n < 127 ∧ n ≠ 34 ∧ n ≠ 60 ∧ n ≠ 62 ∧ n ≠ 92 ∧ n ≠ 96 ∧ n ≠ 37 := by decide

theorem hexU_safe (n : Nat) (h : n < 16) : isAlnumAscii (hexU n) = true := by
  have : n = 0 ∨ n = 1 ∨ n = 2 ∨ n = 3 ∨ n = 4 ∨ n = 5 ∨ n = 6 ∨ n = 7 ∨ n = 8 ∨ n = 9 ∨ n = 10 ∨ n = 11
      ∨ n = 12 ∨ n = 13 ∨ n = 14 ∨ n = 15 := by omega
  rcases this with h | h | h | h | h | h | h | h | h | h | h | h | h | h | h | h <;> subst h <;> decide

theorem pct_safe (b : Nat) (hb : b < 256) : ∀ c ∈ pct b, SafeAscii c := by
  intro c hc
  simp only [pct, List.mem_cons, List.mem_nil_iff, or_false] at hc
  rcases hc with rfl | rfl | rfl
  · exact Or.inr (Or.inr rfl)
  · exact Or.inl (hexU_safe _ (by omega))
  · exact Or.inl (hexU_safe _ (by omega))

theorem encOne_safe (c : Char) : ∀ x ∈ encOne c, SafeAscii x := by
  intro x hx
  unfold encOne at hx
  split at hx
  · rename_i h128
    split at hx
    · rename_i hk
      simp only [List.mem_singleton] at hx; subst hx
      simp only [Bool.or_eq_true] at hk
      rcases hk with hk | hk
      · exact Or.inl hk
      · exact Or.inr (Or.inl hk)
    · exact pct_safe _ (by omega) x hx
  · simp only [List.mem_flatMap] at hx
    obtain ⟨b, hb, hxb⟩ := hx
    have : b < 256 := by
      simp only [utf8Bytes, List.mem_map] at hb
      obtain ⟨u, _, rfl⟩ := hb
      exact u.toNat_lt
    exact pct_safe b this x hxb

theorem isHexDigit_alnum (c : Char) (h : isHexDigit c = true) : isAlnumAscii c = true := by
  unfold isHexDigit at h
  unfold isAlnumAscii
  simp only [Bool.or_eq_true, Bool.and_eq_true, decide_eq_true_eq] at h ⊢
  rcases h with (h | h) | h
  · exact Or.inr h
  · refine Or.inl (Or.inl ⟨h.1, ?_⟩)
    exact Char.le_trans h.2 (by decide)
  · refine Or.inl (Or.inr ⟨h.1, ?_⟩)
    exact Char.le_trans h.2 (by decide)

/-- **C05.encode_range** — every character `mdurl.encode` emits is URL-safe ASCII: an alphanumeric,
one of the default punctuation characters, or `%` — for every input string (in particular no
control character, space, quote, angle bracket or non-ASCII character survives). -/
theorem encode_range (s : List Char) : ∀ c ∈ encode s, SafeAscii c := by
  induction s using encode.induct with
  | case1 => intro c hc; simp [encode] at hc
  | case2 c a b rest hcond ih =>
    intro x hx
    rw [encode] at hx
    simp only [hcond, and_self, if_true, List.mem_cons] at hx
    rcases hx with rfl | rfl | rfl | hx
    · exact Or.inr (Or.inr rfl)
    · exact Or.inl (isHexDigit_alnum _ hcond.2.1)
    · exact Or.inl (isHexDigit_alnum _ hcond.2.2)
    · exact ih x hx
  | case3 c a b rest hcond ih =>
    intro x hx
    rw [encode] at hx
    simp only [hcond, if_false, List.mem_append] at hx
    rcases hx with hx | hx
    · exact encOne_safe c x hx
    · exact ih x hx
  | case4 c t hne ih =>
    intro x hx
    rw [encode.eq_3 _ _ hne, List.mem_append] at hx
    rcases hx with hx | hx
    · exact encOne_safe c x hx
    · exact ih x hx

/-- for every normalisation step in front of it: what `normalizeLink` returns is URL-safe ASCII -/
theorem normalizeLink_range (reformat : List Char → List Char) (u : List Char) :
    ∀ c ∈ encode (reformat u), SafeAscii c := encode_range _

/-! ### the validator against the browser's reading -/

theorem safe_not_space (c : Char) (h : SafeAscii c) : isPySpaceAscii c = false ∧ isC0OrSpace c = false
    ∧ isTabNl c = false := by
  have hgt : 32 < c.toNat := by
    rcases h with h | h | h
    · unfold isAlnumAscii at h
      simp only [Bool.or_eq_true, Bool.and_eq_true, decide_eq_true_eq] at h
      rcases h with (h | h) | h
      · have := h.1; have : 'a'.toNat ≤ c.toNat := this; simp at this; omega
      · have := h.1; have : 'A'.toNat ≤ c.toNat := this; simp at this; omega
      · have := h.1; have : '0'.toNat ≤ c.toNat := this; simp at this; omega
    · have := default_chars_safe c.toNat (by simpa [List.contains_iff_mem] using h)
      omega
    · subst h; decide
  refine ⟨?_, ?_, ?_⟩
  · unfold isPySpaceAscii
    simp only [Bool.or_eq_false_iff, beq_eq_false_iff_ne, Bool.and_eq_false_iff, decide_eq_false_iff_not]
    refine ⟨⟨⟨⟨⟨⟨?_, ?_⟩, ?_⟩, ?_⟩, ?_⟩, ?_⟩, ?_⟩ <;> first | omega | (right; omega)
  · unfold isC0OrSpace; simp; omega
  · unfold isTabNl
    simp only [Bool.or_eq_false_iff, decide_eq_false_iff_not]
    refine ⟨⟨?_, ?_⟩, ?_⟩ <;> (intro e; subst e; simp at hgt)

theorem dropWhile_id {α} (p : α → Bool) (l : List α) (h : ∀ x ∈ l, p x = false) :
    l.dropWhile p = l := by
  cases l with
  | nil => rfl
  | cons a t => simp [List.dropWhile, h a (by simp)]

theorem strip_id (p : Char → Bool) (s : List Char) (h : ∀ c ∈ s, p c = false) :
    ((s.dropWhile p).reverse.dropWhile p).reverse = s := by
  rw [dropWhile_id p s h, dropWhile_id p s.reverse (by simpa using h), List.reverse_reverse]

/-- the scheme reader splits the string at the first ':' -/
theorem schemeBody_spec (s p : List Char) (h : schemeBody s = some p) :
    ∃ rest, s = p ++ ':' :: rest := by
  induction s generalizing p with
  | nil => simp [schemeBody] at h
  | cons c t ih =>
    simp only [schemeBody] at h
    split at h
    · rename_i hc; simp only [Option.some.injEq] at h; subst h; subst hc; exact ⟨t, rfl⟩
    · split at h
      · cases hb : schemeBody t with
        | none => rw [hb] at h; simp at h
        | some q =>
          rw [hb] at h; simp only [Option.map_some, Option.some.injEq] at h; subst h
          obtain ⟨rest, hr⟩ := ih q hb
          exact ⟨rest, by rw [hr]; rfl⟩
      · cases h

/-- **C05.validate_sound** — for a URL made of URL-safe ASCII (which is what `normalizeLink` returns,
`normalizeLink_range`): if the validator accepts it, then read the way a browser reads it (leading and
trailing controls/spaces stripped, tab/LF/CR removed, scheme compared case-insensitively) its scheme
is none of the blacklisted ones — in particular none of javascript, vbscript, file, data
(`dangerous_covered`) — unless it is a `data:image/(gif|png|jpeg|webp);` URL. -/
theorem validate_sound (h : List Char) (hs : ∀ c ∈ h, SafeAscii c) (hv : validateLink h = true) :
    (∀ d ∈ Gen.badProtos, browserScheme h ≠ some d.toList) ∨ matchesGoodData (lowerAscii h) = true := by
  have hstrip : stripAscii h = h := strip_id _ h (fun c hc => (safe_not_space c (hs c hc)).1)
  have hb : (((h.dropWhile isC0OrSpace).reverse.dropWhile isC0OrSpace).reverse).filter (fun c => !isTabNl c) = h := by
    rw [strip_id _ h (fun c hc => (safe_not_space c (hs c hc)).2.1)]
    rw [List.filter_eq_self]
    intro c hc; simp [(safe_not_space c (hs c hc)).2.2]
  unfold validateLink at hv
  simp only [hstrip] at hv
  by_cases hbad : matchesBad (lowerAscii h) = true
  · simp only [hbad, if_true] at hv
    exact Or.inr hv
  · left
    intro d hd hsch
    apply hbad
    unfold browserScheme at hsch
    simp only [hb] at hsch
    cases h with
    | nil => simp at hsch
    | cons c t =>
      simp only at hsch
      split at hsch
      · cases hbody : schemeBody (c :: t) with
        | none => rw [hbody] at hsch; simp at hsch
        | some p =>
          rw [hbody] at hsch
          simp only [Option.map_some, Option.some.injEq] at hsch
          obtain ⟨rest, hr⟩ := schemeBody_spec _ _ hbody
          unfold matchesBad
          rw [List.any_eq_true]
          refine ⟨d, hd, ?_⟩
          rw [hr]
          simp only [lowerAscii, List.map_append, List.map_cons] at hsch ⊢
          rw [hsch]
          have : Char.toLower ':' = ':' := by decide
          rw [this]
          simp
      · cases hsch

/-- `MarkdownIt.normalizeLink` then `validateLink`, as every producer calls them -/
theorem api (reformat : List Char → List Char) (u : List Char)
    (hv : validateLink (encode (reformat u)) = true) :
    (∀ d ∈ Gen.badProtos, browserScheme (encode (reformat u)) ≠ some d.toList)
      ∨ matchesGoodData (lowerAscii (encode (reformat u))) = true :=
  validate_sound _ (encode_range _) hv

/-! non-vacuity and sharpness -/
example : validateLink "JaVaScRiPt:alert(1)".toList = false := by decide
example : browserScheme "JaVaScRiPt:alert(1)".toList = some "javascript".toList := by decide
example : validateLink "data:image/png;base64,AAAA".toList = true := by decide
example : validateLink "data:text/html,x".toList = false := by decide
example : validateLink "http://a.b/c?d=%20".toList = true ∧ ∀ c ∈ "http://a.b/c?d=%20".toList, SafeAscii c := by
  decide
/-- the hypothesis matters: with a leading control character the browser still reads a scheme the
validator does not see — such a string is never produced by `normalizeLink` (`encode` would have
percent-encoded the control character) -/
example : validateLink "\x01javascript:x".toList = true
    ∧ browserScheme "\x01javascript:x".toList = some "javascript".toList := by decide

end MdIt.C05
