import MdIt.Proofs.Ruler
import MdIt.Props.C11
import MdIt.Instance
import MdIt.Render
/-!
# C10 — rule and option switches have exactly their documented effect
-/
namespace MdIt.C10

/-- **C10.dispatch** — every function in a compiled chain (the main chain or a named terminator
chain) belongs to an *enabled* rule: a disabled rule is never dispatched, neither as a block/inline
rule nor as a terminator of another rule. With C11.coherent this holds after any history. -/
theorem chain_only_enabled (rules : List Rule) (chain : String) (f : Nat) (h : f ∈ chainOf rules chain) :
    ∃ r ∈ rules, r.enabled = true ∧ r.fn = f ∧ (chain = "" ∨ chain ∈ r.alt) := by
  simp only [chainOf, List.mem_map, List.mem_filter, Bool.and_eq_true, Bool.or_eq_true, beq_iff_eq,
    List.contains_iff_mem] at h
  obtain ⟨r, ⟨hr, hen, hch⟩, rfl⟩ := h
  exact ⟨r, hr, hen, rfl, hch⟩

/-- what `getRules` hands to a parser on a coherent ruler is such a chain -/
theorem getRules_only_enabled (r : Ruler) (hc : r.Coherent) (chain : String) (f : Nat)
    (h : f ∈ (r.getRules chain).2) : ∃ x ∈ r.rules, x.enabled = true ∧ x.fn = f := by
  rw [(getRules_spec r hc chain).1] at h
  obtain ⟨x, hx, he, hf, _⟩ := chain_only_enabled r.rules chain f h
  exact ⟨x, hx, he, hf⟩

/-- `MarkdownIt.disable(name)` / `enable(name)` switch the tokenizer *and* its post-processor
(`inline.ruler2`) together: in each of the four rulers the rule that carries the name ends up with
the requested flag -/
theorem facade_switches (m : Rulers) (b : Bool) (name : String) (ign : Bool) (w : Which) (j : Nat)
    (hf : findRule (m.get w).rules name = some j) :
    ∃ x y, (m.get w).rules[j]? = some x ∧ ((m.setMany b [name] ign).1.get w).rules[j]? = some y
      ∧ y = { x with enabled := b } := by
  have hfac := (C11.facade m b [name] ign).1
  have hget : ((m.setMany b [name] ign).1.get w) =
      (if b then (m.get w).enable [name] true else (m.get w).disable [name] true).1 := by
    rw [hfac]; cases w <;> rfl
  have happ : appliedNames (m.get w).rules true [name] = [name] := by simp [appliedNames, hf]
  have hlt : ∃ x, (m.get w).rules[j]? = some x := by
    unfold findRule at hf
    have := List.findIdx?_eq_some_iff_getElem.1 hf
    obtain ⟨h, _, _⟩ := this
    exact ⟨_, List.getElem?_eq_getElem h⟩
  obtain ⟨x, hx⟩ := hlt
  refine ⟨x, { x with enabled := b }, hx, ?_, rfl⟩
  rw [hget]
  cases b with
  | true =>
    simp only [if_true]
    rw [C11.enable_sets, happ, hx]
    simp [hf]
  | false =>
    simp only [Bool.false_eq_true, if_false]
    rw [C11.disable_sets, happ, hx]
    simp [hf]

/-! ### options -/

theorem find_map_set {β} (d : List (String × β)) (k : String) (v : β) (hany : d.any (fun x => x.1 == k) = true) :
    ((d.map (fun p => if p.1 == k then (k, v) else p)).find? (fun x => x.1 == k)) = some (k, v) := by
  induction d with
  | nil => simp at hany
  | cons q qs ih =>
    by_cases hq : (q.1 == k) = true
    · simp only [List.map_cons, hq, if_true, List.find?_cons, BEq.rfl]
    · have hq' : (q.1 == k) = false := by simpa using hq
      have hany' : qs.any (fun x => x.1 == k) = true := by
        simp only [List.any_cons, hq', Bool.false_or] at hany; exact hany
      simp only [List.map_cons, hq', Bool.false_eq_true, if_false, List.find?_cons]
      exact ih hany'

theorem dictGet_dictSet {β} (d : List (String × β)) (k : String) (v : β) : dictGet (dictSet d k v) k = some v := by
  unfold dictSet dictGet
  by_cases hany : d.any (fun x => x.1 == k) = true
  · simp only [hany, if_true]
    rw [find_map_set d k v hany]; rfl
  · have hany' : d.any (fun x => x.1 == k) = false := Bool.eq_false_iff.2 hany
    simp only [hany', Bool.false_eq_true, if_false]
    have hnone : d.find? (fun x => x.1 == k) = none := by
      rw [List.find?_eq_none]
      intro x hx
      have := (List.any_eq_false.1 hany') x hx
      simpa using this
    rw [List.find?_append, hnone]
    simp

theorem find_map_other {β} (d : List (String × β)) (k k' : String) (v : β) (h : k' ≠ k) :
    ((d.map (fun p => if p.1 == k then (k, v) else p)).find? (fun x => x.1 == k'))
      = d.find? (fun x => x.1 == k') := by
  have hkk : (k == k') = false := by simpa using (fun e => h e.symm)
  induction d with
  | nil => rfl
  | cons q qs ih =>
    by_cases hq : (q.1 == k) = true
    · have hqk : q.1 = k := by simpa using hq
      have hq2 : (q.1 == k') = false := by rw [hqk]; exact hkk
      simp only [List.map_cons, hq, if_true, List.find?_cons, hkk, hq2]
      exact ih
    · have hq' : (q.1 == k) = false := by simpa using hq
      simp only [List.map_cons, hq', Bool.false_eq_true, if_false, List.find?_cons]
      cases hk : (q.1 == k') with
      | true => rfl
      | false => exact ih

/-- **C10.routes** — the three public routes of setting an option (constructor `options_update`,
`md.options[k] = v`, `md.options.k = v`) are indistinguishable: each performs the same assignment on
the one backing dictionary, and a read through either route returns the value written. -/
theorem routes (i : Inst) (r1 r2 : Route) (k : String) (v : OptVal) :
    i.setOpt r1 k v = i.setOpt r2 k v ∧ dictGet (i.setOpt r1 k v).options k = some v :=
  ⟨rfl, dictGet_dictSet i.options k v⟩

/-- setting one option leaves the others alone -/
theorem setOpt_other (i : Inst) (r : Route) (k k' : String) (v : OptVal) (h : k' ≠ k) :
    dictGet (i.setOpt r k v).options k' = dictGet i.options k' := by
  have hkk : (k == k') = false := by simpa using (fun e => h e.symm)
  simp only [Inst.setOpt, dictSet, dictGet]
  split
  · rw [find_map_other i.options k k' v h]
  · rw [List.find?_append]
    cases hf : List.find? (fun x => x.1 == k') i.options with
    | some p => simp
    | none => simp [hkk]

/-- **C10.defs (render)** — a `definition` token (produced only with `inline_definitions`) renders
to nothing -/
theorem definition_renders_empty (x : Ext) (o : ROpts) (prev next : Option Tok) (t : Tok)
    (h : t.type = "definition") : renderOne x o prev t next = .ok [] := by
  unfold renderOne
  simp [h]

end MdIt.C10
