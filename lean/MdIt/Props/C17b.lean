import MdIt.Props.C17
import MdIt.BlockList
/-!
# C17 (continued) — equivalent encodings give the same parse: end-to-end for the modelled sub-parsers

Because `miniParse` / `qParse` / `lParse` start with `normalize`, the encoding theorems of `C17` lift to whole parses: any
mixture of LF / CR LF / CR spellings of the line endings, and NUL vs U+FFFD, give the same token stream — for every
source, rule subset and `maxNesting`.
-/
namespace MdIt.C17

private theorem isEmpty_of_mixed {s s' : List Char} (h : Mixed s s') : s'.isEmpty = s.isEmpty := by
  cases h <;> rfl

/-- **C17.q_line_endings** -/
theorem q_line_endings (c : MiniCfg) (ws : List Nat) (mn : Int) (s s' : List Char) (hm : Mixed s s') (h : noCR s) :
    qParse c ws mn s' = qParse c ws mn s := by
  unfold qParse
  rw [normalize_mixed s s' hm h, isEmpty_of_mixed hm]

theorem mini_line_endings (c : MiniCfg) (ws : List Nat) (mn : Int) (s s' : List Char) (hm : Mixed s s') (h : noCR s) :
    miniParse c ws mn s' = miniParse c ws mn s := by
  unfold miniParse
  rw [normalize_mixed s s' hm h, isEmpty_of_mixed hm]

/-- **C17.q_nul** — a NUL character parses like U+FFFD -/
theorem q_nul (c : MiniCfg) (ws : List Nat) (mn : Int) (s : List Char) :
    qParse c ws mn (s.map (fun ch => if ch = '\x00' then '�' else ch)) = qParse c ws mn s := by
  unfold qParse
  rw [nul_like_fffd s]
  cases s <;> rfl

theorem mini_nul (c : MiniCfg) (ws : List Nat) (mn : Int) (s : List Char) :
    miniParse c ws mn (s.map (fun ch => if ch = '\x00' then '�' else ch)) = miniParse c ws mn s := by
  unfold miniParse
  rw [nul_like_fffd s]
  cases s <;> rfl

/-- **C17.l_line_endings** — with quotes and lists -/
theorem l_line_endings (c : MiniCfg) (ws : List Nat) (mn : Int) (s s' : List Char) (hm : Mixed s s') (h : noCR s) :
    lParse c ws mn s' = lParse c ws mn s := by
  unfold lParse
  rw [normalize_mixed s s' hm h, isEmpty_of_mixed hm]

theorem l_nul (c : MiniCfg) (ws : List Nat) (mn : Int) (s : List Char) :
    lParse c ws mn (s.map (fun ch => if ch = '\x00' then '�' else ch)) = lParse c ws mn s := by
  unfold lParse
  rw [nul_like_fffd s]
  cases s <;> rfl

end MdIt.C17
