import MdIt.Proofs.Ruler
import MdIt.Generated.Tables
/-!
# C11 — rule management is coherent over any history, including failed calls

Property theorems only (helper lemmas live in `MdIt/Proofs/Ruler.lean`).  The model is
`MdIt/Ruler.lean`, a transcription of `markdown_it/ruler.py` and of the façade in `main.py`.
-/
namespace MdIt.C11

/-- **C11.coherent** — after *any* finite history of ruler operations (push, at, before, after, enable,
enableOnly, disable with `ignoreInvalid` on/off, `getRules` interleaved on any chain; each succeeding
or raising), what `getRules` returns for the main chain `""` and for every named chain is exactly
the enabled rules, in registration order, filtered by chain membership. -/
theorem coherent (ops : List ROp) (chain : String) :
    ((Ruler.empty.run ops).getRules chain).2 = chainOf (Ruler.empty.run ops).rules chain :=
  (getRules_spec _ (run_coherent _ (coherent_of_cache_none _ rfl) ops) chain).1

/-- The same from any coherent state (e.g. a ruler as `ParserBlock.__init__` leaves it). -/
theorem coherent_from (r : Ruler) (h : r.Coherent) (ops : List ROp) (chain : String) :
    ((r.run ops).getRules chain).2 = chainOf (r.run ops).rules chain :=
  (getRules_spec _ (run_coherent _ h ops) chain).1

/-- `getRules` in the middle of a history answers the specification *at that moment* and changes
neither the rules nor what is reported. -/
theorem getRules_inside (r : Ruler) (h : r.Coherent) (chain : String) :
    (r.step (.getRules chain)).2 = .fns (chainOf r.rules chain)
    ∧ (r.step (.getRules chain)).1.rules = r.rules := by
  have := getRules_spec r h chain
  exact ⟨by simp [Ruler.step, this.1], by simp [Ruler.step, this.2.2]⟩

/-- "exactly the rules reported as active": the main chain is the fn-projection of the very filter
whose name-projection is `get_active_rules`. -/
theorem main_chain_is_active (rules : List Rule) :
    chainOf rules "" = (rules.filter (·.enabled)).map (·.fn)
    ∧ (Ruler.activeRules ⟨rules, none⟩) = (rules.filter (·.enabled)).map (·.name) := by
  constructor
  · simp [chainOf]
  · rfl

/-- named chains are sub-sequences of the main chain: filtered by membership, order kept -/
theorem named_chain_is_filtered (rules : List Rule) (chain : String) :
    chainOf rules chain =
      ((rules.filter (·.enabled)).filter (fun r => chain == "" || r.alt.contains chain)).map (·.fn) := by
  simp [chainOf, List.filter_filter, Bool.and_comm]

/-! ### set semantics -/

/-- **C11.sets (enable)** — rule `j` is enabled afterwards iff it was before or one of the applied
names resolves to it; nothing else about any rule changes.  "Applied" = all known names
(`ignoreInvalid`) or the known names before the first unknown one (the call then raises). -/
theorem enable_sets (r : Ruler) (names : List String) (ign : Bool) (j : Nat) :
    ((r.enable names ign).1.rules)[j]? = (r.rules[j]?).map (fun x =>
      if (appliedNames r.rules ign names).any (fun n => findRule r.rules n == some j)
      then { x with enabled := true } else x) := by
  simpa [Ruler.enable] using enableLoop_rules true ign names r.rules [] j

theorem disable_sets (r : Ruler) (names : List String) (ign : Bool) (j : Nat) :
    ((r.disable names ign).1.rules)[j]? = (r.rules[j]?).map (fun x =>
      if (appliedNames r.rules ign names).any (fun n => findRule r.rules n == some j)
      then { x with enabled := false } else x) := by
  simpa [Ruler.disable] using enableLoop_rules false ign names r.rules [] j

/-- what the call returns / raises -/
theorem enable_result (r : Ruler) (names : List String) (ign : Bool) :
    (r.enable names ign).2 = loopResult r.rules ign names [] := by
  simpa [Ruler.enable] using enableLoop_result true ign names r.rules []

theorem disable_result (r : Ruler) (names : List String) (ign : Bool) :
    (r.disable names ign).2 = loopResult r.rules ign names [] := by
  simpa [Ruler.disable] using enableLoop_result false ign names r.rules []

/-- `enableOnly` = disable everything, then `enable` -/
theorem enableOnly_sets (r : Ruler) (names : List String) (ign : Bool) (j : Nat) :
    ((r.enableOnly names ign).1.rules)[j]? = (r.rules[j]?).map (fun x =>
      { x with enabled :=
          (appliedNames r.rules ign names).any (fun n => findRule r.rules n == some j) }) := by
  have hfind : ∀ n, findRule (r.rules.map (fun x => { x with enabled := false })) n = findRule r.rules n := by
    intro n; simp [findRule, List.findIdx?_map, Function.comp_def]
  have happ : ∀ ns, appliedNames (r.rules.map (fun x => { x with enabled := false })) ign ns
      = appliedNames r.rules ign ns := by
    intro ns; induction ns with
    | nil => rfl
    | cons m ms ih => simp only [appliedNames, hfind, ih]
  simp only [Ruler.enableOnly]
  rw [enable_sets]
  simp only [happ, hfind, List.getElem?_map]
  cases r.rules[j]? with
  | none => rfl
  | some x => by_cases h : (appliedNames r.rules ign names).any (fun n => findRule r.rules n == some j) <;> simp [h]

/-- enable / disable / enableOnly never add, remove, rename or reorder rules -/
theorem enable_keeps_names (r : Ruler) (names : List String) (ign : Bool) :
    (r.enable names ign).1.allRules = r.allRules := by
  apply List.ext_getElem?; intro j
  simp only [Ruler.allRules, List.getElem?_map, enable_sets]
  cases r.rules[j]? with
  | none => rfl
  | some x => by_cases h : (appliedNames r.rules ign names).any (fun n => findRule r.rules n == some j) <;> simp [h]

theorem disable_keeps_names (r : Ruler) (names : List String) (ign : Bool) :
    (r.disable names ign).1.allRules = r.allRules := by
  apply List.ext_getElem?; intro j
  simp only [Ruler.allRules, List.getElem?_map, disable_sets]
  cases r.rules[j]? with
  | none => rfl
  | some x => by_cases h : (appliedNames r.rules ign names).any (fun n => findRule r.rules n == some j) <;> simp [h]

/-! ### lookups by unknown name -/

/-- `at` / `before` / `after` with an unknown name raise `KeyError` and leave the ruler — rules *and*
cache, hence everything that is applied — unchanged. -/
theorem at_unknown (r : Ruler) (n : String) (f : Nat) (a : List String)
    (h : findRule r.rules n = none) : r.at n f a = (r, .error (.keyError n)) := by
  simp [Ruler.at, h]

theorem before_unknown (r : Ruler) (b n : String) (f : Nat) (a : List String)
    (h : findRule r.rules b = none) : r.before b n f a = (r, .error (.keyError b)) := by
  simp [Ruler.before, h]

theorem after_unknown (r : Ruler) (b n : String) (f : Nat) (a : List String)
    (h : findRule r.rules b = none) : r.after b n f a = (r, .error (.keyError b)) := by
  simp [Ruler.after, h]

/-- with `ignoreInvalid` an unknown name is skipped: the call cannot raise … -/
theorem enable_ignore_never_raises (r : Ruler) (names : List String) :
    ∃ l, (r.enable names true).2 = .ok l := ⟨appliedNames r.rules true names, by rw [enable_result]; simp [loopResult]⟩

/-- … and a call that names only unknown rules changes no rule at all. -/
theorem enable_all_unknown_noop (r : Ruler) (names : List String) (ign : Bool)
    (h : ∀ n ∈ names, findRule r.rules n = none) :
    (r.enable names ign).1.rules = r.rules := by
  have happ : appliedNames r.rules ign names = [] := by
    induction names with
    | nil => rfl
    | cons m ms ih =>
      have hm := h m (by simp)
      have := ih (fun n hn => h n (by simp [hn]))
      cases ign <;> simp [appliedNames, hm, this]
  apply List.ext_getElem?; intro j
  rw [enable_sets, happ]
  cases r.rules[j]? <;> simp

/-! ### the façade (`MarkdownIt.enable/disable`) -/

theorem mem_appliedNames_ign (rules : List Rule) (names : List String) (n : String) :
    n ∈ appliedNames rules true names ↔ n ∈ names ∧ findRule rules n ≠ none := by
  induction names with
  | nil => simp [appliedNames]
  | cons m ms ih =>
    cases hf : findRule rules m with
    | none =>
      simp only [appliedNames, hf, if_true, ih, List.mem_cons]
      constructor
      · rintro ⟨h1, h2⟩; exact ⟨Or.inr h1, h2⟩
      · rintro ⟨h1 | h1, h2⟩
        · subst h1; exact absurd hf h2
        · exact ⟨h1, h2⟩
    | some i =>
      simp only [appliedNames, hf, List.mem_cons, ih]
      constructor
      · rintro (h1 | ⟨h1, h2⟩)
        · subst h1; exact ⟨Or.inl rfl, by simp [hf]⟩
        · exact ⟨Or.inr h1, h2⟩
      · rintro ⟨h1 | h1, h2⟩
        · exact Or.inl h1
        · exact Or.inr ⟨h1, h2⟩

/-- **C11.facade** — `MarkdownIt.enable/disable` apply the call to each of the four rulers with
`ignoreInvalid=True` (so each ruler obeys `enable_sets`/`disable_sets`), and raise `ValueError`
exactly when `ignoreInvalid` is off and some name is unknown to all four — *after* the valid names
were applied. -/
theorem facade (m : Rulers) (b : Bool) (names : List String) (ign : Bool) :
    let f := fun (r : Ruler) => if b then r.enable names true else r.disable names true
    (m.setMany b names ign).1 = ⟨(f m.core).1, (f m.block).1, (f m.inline).1, (f m.inline2).1⟩
    ∧ ((∃ e, (m.setMany b names ign).2 = .error e) ↔
        (ign = false ∧ ∃ n ∈ names, findRule m.core.rules n = none ∧ findRule m.block.rules n = none
          ∧ findRule m.inline.rules n = none ∧ findRule m.inline2.rules n = none)) := by
  have hres : ∀ r : Ruler, okNames ((if b then r.enable names true else r.disable names true).2)
      = appliedNames r.rules true names := by
    intro r; cases b <;> simp [enable_result, disable_result, okNames, loopResult]
  constructor
  · simp only [Rulers.setMany]
  · simp only [Rulers.setMany, hres]
    generalize hmissed : names.filter (fun n => !(appliedNames m.core.rules true names ++ appliedNames m.block.rules true names
        ++ appliedNames m.inline.rules true names ++ appliedNames m.inline2.rules true names).contains n) = missed
    have hm : (missed.isEmpty = false) ↔ ∃ n ∈ names, findRule m.core.rules n = none ∧ findRule m.block.rules n = none
          ∧ findRule m.inline.rules n = none ∧ findRule m.inline2.rules n = none := by
      rw [List.isEmpty_eq_false_iff_exists_mem, ← hmissed]
      constructor
      · rintro ⟨n, hn⟩
        rw [List.mem_filter] at hn
        obtain ⟨hn1, hn2⟩ := hn
        refine ⟨n, hn1, ?_⟩
        simp only [Bool.not_eq_true', List.contains_eq_mem, decide_eq_false_iff_not, List.mem_append,
          mem_appliedNames_ign] at hn2
        grind
      · rintro ⟨n, hn, h1, h2, h3, h4⟩
        refine ⟨n, ?_⟩
        rw [List.mem_filter]
        refine ⟨hn, ?_⟩
        simp [mem_appliedNames_ign, h1, h2, h3, h4]
    cases ign with
    | true => simp
    | false =>
      cases hmi : missed.isEmpty with
      | true =>
        have : ¬ ∃ n ∈ names, findRule m.core.rules n = none ∧ findRule m.block.rules n = none
          ∧ findRule m.inline.rules n = none ∧ findRule m.inline2.rules n = none := by
          intro h; have := hm.2 h; simp [hmi] at this
        simp [this]
      | false =>
        have := hm.1 hmi
        simp [this]

/-! ### non-vacuity: concrete histories that meet the hypotheses and exercise the failure path -/

/-- a history with a duplicate name, an unknown name that raises mid-loop, and a query afterwards -/
example :
    let ops : List ROp := [.push "a" 1 ["x"], .push "b" 2 [], .push "a" 3 ["x"],
      .getRules "", .disable ["b", "nope", "a"] false, .getRules "x"]
    ((Ruler.empty.run ops).getRules "").2 = [1, 3] ∧ ((Ruler.empty.run ops).getRules "x").2 = [1, 3]
      ∧ (Ruler.empty.run ops).activeRules = ["a", "a"] := by decide

/-- the pre-fix behaviour (invalidate *after* the loop) is exactly what the invariant excludes:
    a stale cache survives the raise.  `staleEnable` is the old code. -/
def staleDisable (r : Ruler) (names : List String) (ign : Bool) : Ruler :=
  let (rules', res) := enableLoop false ign names r.rules []
  match res with
  | .ok _ => { rules := rules', cache := none }
  | .error _ => { rules := rules', cache := r.cache }   -- raise skips `self.__cache__ = None`

example :
    let r0 := ((Ruler.empty.push "a" 1 []).push "b" 2 []).getRules ""
    let r1 := staleDisable r0.1 ["b", "nope"] false
    (r1.getRules "").2 = [1, 2] ∧ chainOf r1.rules "" = [1] := by decide

/-- **C11.terminator_chain_names** (T1 obligation over the table regenerated from the rule sources) — every block rule
that runs a terminator chain asks the ruler for the chain named after what it may be interrupted in: paragraph-like rules
the `paragraph` chain, the reference rule `reference`, the list rule `list`, block quote and table `blockquote`.  What
`getRules(chain)` *reports* for a chain is therefore what these rules *apply* (the harness also checks it dynamically with
one spy rule per chain). -/
theorem terminator_chain_names : Gen.terminatorChains =
    [("table", "blockquote"), ("blockquote", "blockquote"), ("list", "list"), ("reference", "reference"),
     ("lheading", "paragraph"), ("paragraph", "paragraph")] := by decide

end MdIt.C11
