import MdIt.InlineImage
import MdIt.Props.C01i
/-!
# C01 (continued) — the inline sub-parser with the `image` rule returns for every input

Eleven of the twelve inline rules (`linkify` needs a package this sandbox does not have).  The image rule re-enters the engine in a
third way: a match in normal mode runs the *whole* inline parser on the description.  The two-mode contract `IOK4` of `C01i` is proved
for the rule given (a) the contract for its inner chain (the label walks) and (b) that the nested parser returns on every input; both
come from the induction on the depth budget, because a chain that keeps the contract makes `inlineParse` total (`parse_total_of_ok4`).
-/
namespace MdIt.C01

/-- a chain whose rules keep the two-mode contract makes the whole inline parser total -/
theorem parse_total_of_ok4 (rules : List IRule) (hok : ∀ r ∈ rules, IOK4 r) (post : List (IState → IState)) (fragJoin : Bool) (mn : Int)
    (src : List Char) : ∃ ts, inlineParse rules post fragJoin mn src = .ok ts := by
  unfold inlineParse tokenize
  obtain ⟨s', h, _⟩ := loop4 rules hok mn ((IState.init src).posMax - (IState.init src).pos + 1) false (IState.init src) (Nat.le_refl _) (by omega)
    (by intro p hp; simp [IState.init] at hp) (fun _ => rfl)
  rw [h]
  exact ⟨_, rfl⟩

theorem imageDest_ge (ext : IExt) (s : IState) (p1 : Nat) : p1 ≤ (imageDest ext s p1).1 := by
  unfold imageDest
  cases hd : parseLinkDestination ext s.src p1 s.posMax with
  | none => exact Nat.le_refl _
  | some q =>
    obtain ⟨dpos, dstr⟩ := q
    have hdge := parseLinkDestination_ge _ _ _ _ _ _ hd
    show p1 ≤ (if validateLink (ext.normLink dstr) = true then (dpos, ext.normLink dstr) else (p1, [])).1
    split
    · exact hdge
    · exact Nat.le_refl _

theorem imageDestTitle_ge (ext : IExt) (s : IState) (maximum p1 : Nat) : p1 ≤ (imageDestTitle ext s maximum p1).1 := by
  unfold imageDestTitle
  simp only
  have hdh := imageDest_ge ext s p1
  generalize imageDest ext s p1 = dh at hdh
  have h3 := skipBlanksNl_ge s.src maximum (maximum - dh.1) dh.1
  cases ht : parseLinkTitle ext s.src (skipBlanksNl s.src maximum (maximum - dh.1) dh.1) s.posMax with
  | none => show _ ≤ (skipBlanksNl s.src maximum (maximum - dh.1) dh.1, dh.2, ([] : List Char)).1; show _ ≤ skipBlanksNl s.src maximum (maximum - dh.1) dh.1; omega
  | some q2 =>
    obtain ⟨tpos, tstr⟩ := q2
    have htge := parseLinkTitle_ge _ _ _ _ _ _ ht
    have h4 := skipBlanksNl_ge s.src maximum (maximum - tpos) tpos
    show _ ≤ (if _ then _ else _ : Nat × List Char × List Char).1
    split
    · show _ ≤ skipBlanksNl s.src maximum (maximum - tpos) tpos; omega
    · show _ ≤ skipBlanksNl s.src maximum (maximum - dh.1) dh.1; omega

theorem imageInline_ge (ext : IExt) (s : IState) (labelEnd maximum pos : Nat) (h t : List Char)
    (hi : imageInline ext s labelEnd maximum = some (pos, h, t)) : labelEnd + 1 ≤ pos := by
  unfold imageInline at hi
  simp only at hi
  have hp1 := skipBlanksNl_ge s.src maximum (maximum - (labelEnd + 1)) (labelEnd + 2)
  split at hi
  · cases hi
  · have := imageDestTitle_ge ext s maximum (skipBlanksNl s.src maximum (maximum - (labelEnd + 1)) (labelEnd + 2))
    split at hi
    · cases hi
    · simp only [Option.some.injEq, Prod.mk.injEq] at hi
      omega

theorem pushImage_fields (s : IState) (a : List (String × AttrVal)) (ch : Option (List Tok)) (co : String) (md : List (String × String)) :
    (s.pushImage a ch co md).src = s.src ∧ (s.pushImage a ch co md).level = s.level ∧ (s.pushImage a ch co md).cache = s.cache
      ∧ (s.pushImage a ch co md).scopes = s.scopes ∧ (s.pushImage a ch co md).openAt = s.openAt := by
  unfold IState.pushImage
  simp only
  obtain ⟨a1, _, _, a4⟩ := pushA_frame s "image" "img" 0 a co "" ""
  refine ⟨a1, ?_, pushA_cache _ _ _ _ _ _ _ _, pushA_scopes _ _ _ _ _ _ _ _, pushA_openAt _ _ _ _ _ _ _ _⟩
  rw [a4]; simp

theorem imageEmit4 (lx : LExt) (parse : List Char → Except PyErr (List Tok)) (hparse : ∀ c, ∃ ts, parse c = .ok ts) (s : IState)
    (labelStart labelEnd : Nat) (href title label : List Char) (hk : CacheOK s) :
    ∃ s3, imageEmit lx parse s labelStart labelEnd href title label = .ok s3 ∧ s3.src = s.src ∧ s3.level = s.level
      ∧ s3.scopes = s.scopes ∧ s3.openAt = s.openAt ∧ CacheOK s3 := by
  unfold imageEmit
  simp only
  obtain ⟨ts, hts⟩ := hparse ((s.src.take labelEnd).drop labelStart)
  rw [hts]
  simp only
  obtain ⟨p1, p2, p3, p4, p5⟩ := pushImage_fields s
    ([("src", AttrVal.s (String.ofList href)), ("alt", AttrVal.s "")] ++ if title.isEmpty = true then [] else [("title", AttrVal.s (String.ofList title))])
    (if ts.isEmpty = true then none else some ts) (String.ofList ((s.src.take labelEnd).drop labelStart))
    (if (!label.isEmpty && lx.storeLabels) = true then [("label", String.ofList label)] else [])
  exact ⟨_, rfl, p1, p2, p4, p5, by unfold CacheOK; rw [p3]; exact hk⟩

/-- **the image rule keeps the two-mode contract** when its inner chain does and the nested parser returns -/
theorem iok4_image (ext : IExt) (lx : LExt) (mn : Int) (inner : List IRule) (hok : ∀ r ∈ inner, IOK4 r)
    (parse : List Char → Except PyErr (List Tok)) (hparse : ∀ c, ∃ ts, parse c = .ok ts) : IOK4 (ruleImage ext lx mn inner parse) := by
  intro s silent hc hk
  have hin : s.pos < s.src.length := by have := hc.1; have := hc.2; omega
  unfold ruleImage
  rw [List.getElem?_eq_getElem hin]
  simp only
  split
  · exact ⟨false, s, rfl, Ret4.refl_false s hk⟩
  · -- the second character
    have hsec : ∃ b, imageSecond s = .ok b := by
      unfold imageSecond
      split
      · rename_i hlt
        have : s.pos + 1 < s.src.length := by have := hc.2; omega
        rw [List.getElem?_eq_getElem this]
        exact ⟨_, rfl⟩
      · exact ⟨_, rfl⟩
    obtain ⟨b, hb⟩ := hsec
    rw [hb]
    cases b with
    | true => exact ⟨false, s, rfl, Ret4.refl_false s hk⟩
    | false =>
    simp only
    obtain ⟨r, s1, h1, hfr1, hpos1, hr1⟩ := parseLinkLabel4 inner hok mn s (s.pos + 1) false hc.2 hk
    rw [h1]
    simp only
    have ret_false : ∀ x : IState, Fr4 s x → x.pos = s.pos → Ret4 s false x :=
      fun x hfr hp => ⟨hfr.1, hfr.2.1, hfr.2.2.1, hfr.2.2.2.1, hfr.2.2.2.2.1, hfr.2.2.2.2.2, by simp, fun _ => hp⟩
    split
    · exact ⟨false, s1, rfl, ret_false s1 hfr1 hpos1⟩
    · rename_i hneg
      have hr0 : 0 ≤ r := by omega
      obtain ⟨hlo, hhi⟩ := hr1 hr0
      have hend1 : s1.posMax ≤ s1.src.length := by rw [hfr1.1, hfr1.2.2.1]; exact hc.2
      have hfound : ∃ s2 o, imageFound ext lx mn inner s1 (s.pos + 2) r.toNat s.posMax = .ok (s2, o) ∧ Fr4 s s2 ∧ s2.pos = s.pos
            ∧ (∀ pos h t l, o = some (pos, h, t, l) → r.toNat + 1 ≤ pos) := by
        unfold imageFound
        split
        · cases hi : imageInline ext s1 r.toNat s.posMax with
          | none => exact ⟨s1, none, rfl, hfr1, hpos1, fun _ _ _ _ he => by cases he⟩
          | some q =>
            obtain ⟨pos, href, title⟩ := q
            have hge := imageInline_ge _ _ _ _ _ _ _ hi
            exact ⟨s1, _, rfl, hfr1, hpos1, fun pos' h t l he => by simp only [Option.some.injEq, Prod.mk.injEq] at he; omega⟩
        · obtain ⟨s2, o, h2, hfr2, hpos2, hge⟩ := linkRef4 lx mn inner hok s1 (s.pos + 2) r.toNat s.posMax (r.toNat + 1) hend1 hfr1.2.2.2.2.2
            (Nat.le_refl _)
          exact ⟨s2, o, h2, hfr1.trans hfr2, hpos2.trans hpos1, hge⟩
      obtain ⟨s2, o, h2, hfr2, hpos2, hge⟩ := hfound
      rw [h2]
      cases o with
      | none =>
        simp only
        exact ⟨false, _, rfl, hfr2.1, hfr2.2.1, hfr2.2.2.1, hfr2.2.2.2.1, hfr2.2.2.2.2.1, hfr2.2.2.2.2.2, by simp, fun _ => rfl⟩
      | some q2 =>
        obtain ⟨pos, href, title, label⟩ := q2
        simp only
        have hposge := hge pos href title label rfl
        cases silent with
        | true =>
          simp only [if_true]
          exact ⟨true, _, rfl, hfr2.1, hfr2.2.1, rfl, hfr2.2.2.2.1, hfr2.2.2.2.2.1, hfr2.2.2.2.2.2, fun _ => by show s.pos < pos; omega, by simp⟩
        | false =>
          simp only [Bool.false_eq_true, if_false]
          obtain ⟨s3, h3, e1, e2, e3, e4, e5⟩ := imageEmit4 lx parse hparse s2 (s.pos + 2) r.toNat href title label hfr2.2.2.2.2.2
          rw [h3]
          simp only
          exact ⟨true, _, rfl, e1.trans hfr2.1, e2.trans hfr2.2.1, rfl, e3.trans hfr2.2.2.2.1, e4.trans hfr2.2.2.2.2.1, e5,
            fun _ => by show s.pos < pos; omega, by simp⟩

/-- every rule of every chain with the link and image rules keeps the two-mode contract, whatever the budget -/
theorem imgChain_ok4 (cls : QCls) (ext : IExt) (lx : LExt)
    (text newline escape backticks strike emphasis link image autolink htmlInline entity fragJoin : Bool) (mn : Int) :
    ∀ d : Nat, ∀ r ∈ imgChain cls ext lx text newline escape backticks strike emphasis link image autolink htmlInline entity fragJoin mn d, IOK4 r := by
  intro d
  induction d with
  | zero => intro r hr; simp [imgChain] at hr
  | succ d ih =>
    intro r hr
    simp only [imgChain, List.mem_append] at hr
    rcases hr with (((((((((hr | hr) | hr) | hr) | hr) | hr) | hr) | hr) | hr) | hr) | hr
    · split at hr
      · simp at hr; subst hr; exact iok4_text
      · cases hr
    · split at hr
      · simp at hr; subst hr; exact iok4_newline
      · cases hr
    · split at hr
      · simp at hr; subst hr; exact iok4_escape
      · cases hr
    · split at hr
      · simp at hr; subst hr; exact iok4_backticks
      · cases hr
    · split at hr
      · simp at hr; subst hr; exact iok4_strike cls
      · cases hr
    · split at hr
      · simp at hr; subst hr; exact iok4_emphasis cls
      · cases hr
    · split at hr
      · simp at hr; subst hr; exact iok4_link ext lx mn _ ih
      · cases hr
    · split at hr
      · simp at hr; subst hr
        exact iok4_image ext lx mn _ ih _ (fun c => parse_total_of_ok4 _ ih _ _ _ c)
      · cases hr
    · split at hr
      · simp at hr; subst hr; exact iok4_autolink ext
      · cases hr
    · split at hr
      · simp at hr; subst hr; exact iok4_htmlInline ext
      · cases hr
    · split at hr
      · simp at hr; subst hr; exact iok4_entity ext
      · cases hr

/-- **C01.image_total** — the inline sub-parser with the `link` and `image` rules (eleven of the twelve inline rules; everything the
inline parser can run without the optional linkifier): for every source, every subset of the eleven rules, `maxNesting`, budget,
classification, external functions and reference table the parse — tokenize loop, the nested parses of image descriptions to any
depth, the second chain over all delimiter scopes — returns a token list. -/
theorem image_total (cls : QCls) (ext : IExt) (lx : LExt)
    (text newline escape backticks strike emphasis link image autolink htmlInline entity fragJoin : Bool) (mn : Int) (d : Nat) (src : List Char) :
    ∃ ts, inlineParse (imgChain cls ext lx text newline escape backticks strike emphasis link image autolink htmlInline entity fragJoin mn d)
      (imgPost strike emphasis) fragJoin mn src = .ok ts :=
  parse_total_of_ok4 _ (imgChain_ok4 cls ext lx text newline escape backticks strike emphasis link image autolink htmlInline entity fragJoin mn d) _ _ _ _

/-- the kinds of the tokens of a stream, children in brackets after their image -/
def itypesDeep : List Tok → List String
  | [] => []
  | t :: ts => (t.type :: (match t.children with | some cs => ["("] ++ cs.map Tok.type ++ [")"] | none => [])) ++ itypesDeep ts

/-! non-vacuity: images in the inline and the reference form, one rejected destination, an image in a link, an image in an image -/
example : (match inlineParse (imgChain ⟨fun c => (33 ≤ c && c ≤ 47) || (58 ≤ c && c ≤ 64) || (91 ≤ c && c ≤ 96) || (123 ≤ c && c ≤ 126),
        fun c => c == 32 || c == 9 || c == 10⟩ { entity := fun _ => none, reformat := id, normText := id, html := false } lx0
        true true true true false true true true false false false true 20 30) (imgPost false true) true 20
      "![a *b*](/u \"t\") ![x](javascript:y) ![z][r] [![i](s)](v) ![p ![q](w)](o)".toList with
      | .ok ts => some (itypesDeep ts) | .error _ => none)
    = some ["image", "(", "text", "em_open", "text", "em_close", ")", "text", "image", "(", "text", ")", "text",
            "link_open", "image", "(", "text", ")", "link_close", "text", "image", "(", "text", "image", ")"] := by decide +kernel

end MdIt.C01
