import MdIt.Pipeline
import MdIt.Props.C08e
/-!
# C08 (continued) — verbatim content and recorded markup, for the stream `MarkdownIt.parse` returns end to end

Every token of the whole parse is a block token of the block parse with, at most, other `children` (`full_tokens_of_block`); the
verbatim facts of `m_verbatim` speak about `type`, `content`, `markup`, `info` and `map` only.
-/
namespace MdIt.C08

theorem setChildren_self (t : Tok) : t.setChildren t.children = t := by cases t; rfl

theorem coreInline_tokens (parse : List Char → Except PyErr (List Tok)) : ∀ (bts ts : List Tok), coreInline parse bts = .ok ts →
    ∀ t ∈ ts, ∃ b ∈ bts, ∃ c, t = b.setChildren c := by
  intro bts
  induction bts with
  | nil => intro ts h; simp only [coreInline, Except.ok.injEq] at h; subst h; intro t ht; cases ht
  | cons b rest ih =>
    intro ts h
    unfold coreInline at h
    split at h
    · cases hp : parse b.content.toList with
      | error e => rw [hp] at h; cases h
      | ok cs =>
        rw [hp] at h
        simp only at h
        cases hr : coreInline parse rest with
        | error e => rw [hr] at h; cases h
        | ok r =>
          rw [hr] at h
          simp only [Except.ok.injEq] at h
          subst h
          intro t ht
          rcases List.mem_cons.1 ht with rfl | ht
          · exact ⟨b, List.mem_cons_self, _, rfl⟩
          · obtain ⟨b', hb', c, hc⟩ := ih r hr t ht
            exact ⟨b', List.mem_cons_of_mem _ hb', c, hc⟩
    · cases hr : coreInline parse rest with
      | error e => rw [hr] at h; cases h
      | ok r =>
        rw [hr] at h
        simp only [Except.ok.injEq] at h
        subst h
        intro t ht
        rcases List.mem_cons.1 ht with rfl | ht
        · exact ⟨t, List.mem_cons_self, _, (setChildren_self t).symm⟩
        · obtain ⟨b', hb', c, hc⟩ := ih r hr t ht
          exact ⟨b', List.mem_cons_of_mem _ hb', c, hc⟩

theorem setChildren_setChildren (t : Tok) (c c' : Option (List Tok)) : (t.setChildren c).setChildren c' = t.setChildren c' := by cases t; rfl

/-- every token of the whole parse is a token of the block parse with, at most, other children -/
theorem full_tokens_of_block (cls : QCls) (ext : IExt) (lx : LExt) (bc : MCfg) (ic : ICfg) (ws : List Nat) (mn : Int) (d : Nat) (src : List Char)
    (ts : List Tok) (h : fullParse cls ext lx bc ic ws mn d src = .ok ts) :
    ∃ bts, mParse bc ws mn src = .ok bts ∧ ∀ t ∈ ts, ∃ b ∈ bts, ∃ c, t = b.setChildren c := by
  unfold fullParse at h
  cases hb : mParse bc ws mn src with
  | error e => rw [hb] at h; cases h
  | ok bts =>
    refine ⟨bts, rfl, ?_⟩
    rw [hb] at h
    simp only at h
    cases hc : (if ic.inlineOn = true then coreInline (inlineOf cls ext lx ic mn d) bts else Except.ok bts) with
    | error e => rw [hc] at h; cases h
    | ok its =>
      rw [hc] at h
      simp only [Except.ok.injEq] at h
      have h1 : ∀ t ∈ its, ∃ b ∈ bts, ∃ c, t = b.setChildren c := by
        split at hc
        · exact coreInline_tokens _ bts its hc
        · simp only [Except.ok.injEq] at hc; subst hc
          exact fun t ht => ⟨t, ht, _, (setChildren_self t).symm⟩
      subst h
      split
      · intro t ht
        unfold textJoin at ht
        rw [List.mem_map] at ht
        obtain ⟨u, hu, rfl⟩ := ht
        obtain ⟨b, hb', c, hc'⟩ := h1 u hu
        split
        · exact ⟨b, hb', _, by rw [hc', setChildren_setChildren]⟩
        · exact ⟨b, hb', c, hc'⟩
      · exact h1

theorem verbM_setChildren (lines : List BLine) (b : Tok) (c : Option (List Tok)) (h : VerbM lines b) : VerbM lines (b.setChildren c) := by
  cases b
  exact h

/-- **C08.full_verbatim** — in the stream `MarkdownIt.parse` returns (modelled sub-language) every `code_block`, `fence`, `hr`,
`html_block` and `heading_open` token satisfies the verbatim facts of `m_verbatim`: content is, line for line, the lines its map points
to with only a prefix removed; fence markup and info come from the opening line; `hr` / heading markup is the scanned run -/
theorem full_verbatim (cls : QCls) (ext : IExt) (lx : LExt) (bc : MCfg) (ic : ICfg) (ws : List Nat) (mn : Int) (d : Nat) (src : List Char)
    (ts : List Tok) (h : fullParse cls ext lx bc ic ws mn d src = .ok ts) : ∀ t ∈ ts, VerbM (initBState (normalize src)).lines t := by
  obtain ⟨bts, hb, hall⟩ := full_tokens_of_block cls ext lx bc ic ws mn d src ts h
  intro t ht
  obtain ⟨b, hbm, c, rfl⟩ := hall t ht
  exact verbM_setChildren _ b c (m_verbatim bc ws mn src bts hb b hbm)

end MdIt.C08
