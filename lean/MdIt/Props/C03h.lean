import MdIt.Props.C03f
import MdIt.Props.C03g
/-!
# C03 (continued) — source maps of `MarkdownIt.parse` with the `table` rule, end to end

`t_staged` lifted through the `inline` and `text_join` core rules (they leave the maps of the top-level tokens alone): **`fullT_staged`**.
-/
namespace MdIt.C03

theorem fullT_staged (cls : QCls) (ext : IExt) (lx : LExt) (tc : TCfg) (hnr : tc.reference = false) (ic : ICfg) (ws : List Nat) (mn : Int)
    (d : Nat) (src : List Char) (ts : List Tok) (refs dups) (h : fullParseT cls ext lx tc ic ws mn d src = .ok (ts, refs, dups)) :
    Staged 0 (initBState (normalize src)).lineMax ts := by
  unfold fullParseT at h
  cases hb : tParse ext lx tc ws mn src with
  | error e => rw [hb] at h; cases h
  | ok st =>
    rw [hb] at h
    simp only at h
    have hst := t_staged ext lx tc hnr ws mn src st hb
    refine staged_of_maps hst ts ?_
    cases hc : (if ic.inlineOn = true then coreInline (inlineOf cls ext (envAfter lx st) ic mn d) st.tokens else Except.ok st.tokens) with
    | error e => rw [hc] at h; cases h
    | ok its =>
      rw [hc] at h
      simp only [Except.ok.injEq, Prod.mk.injEq] at h
      obtain ⟨h, _, _⟩ := h
      have h1 : its.map Tok.map = st.tokens.map Tok.map := by
        split at hc
        · exact coreInline_maps _ st.tokens its hc
        · simp only [Except.ok.injEq] at hc; subst hc; rfl
      subst h
      split
      · rw [textJoin_maps, h1]
      · exact h1

end MdIt.C03
