import MdIt.Props.C15
import MdIt.Props.C15b
/-!
# C15 (continued) — a round-tripped stream renders to the same HTML

`roundtrip_list`: converting every token of a well-formed stream to a dictionary (either attribute format, children converted or left as
objects) and back gives the stream itself; hence **`roundtrip_renders_same`**: whatever the renderer makes of the original stream it makes
of the round-tripped one — same HTML, or the same error — for every renderer configuration; and with `tree_roundtrip`,
**`tree_renders_same`**: flattening the syntax tree built from a stream renders the same.
-/
namespace MdIt.C15

/-- `[Token.from_dict(t.as_dict(...)) for t in tokens]` -/
def roundtripList (up ch : Bool) : List Tok → Except PyErr (List Tok)
  | [] => .ok []
  | t :: rest =>
    match fromDict (asDict up ch t) with
    | .error e => .error e
    | .ok t' =>
      match roundtripList up ch rest with
      | .error e => .error e
      | .ok r => .ok (t' :: r)

theorem roundtrip_list (up ch : Bool) : ∀ ts : List Tok, (∀ t ∈ ts, t.WF) → roundtripList up ch ts = .ok ts
  | [], _ => rfl
  | t :: rest, h => by
    simp only [roundtripList, dict_roundtrip up ch t (h t (by simp)), roundtrip_list up ch rest (fun u hu => h u (by simp [hu]))]

/-- **C15.roundtrip_renders_same** -/
theorem roundtrip_renders_same (up ch : Bool) (x : Ext) (o : ROpts) (ts : List Tok) (h : ∀ t ∈ ts, t.WF) :
    ∃ ts', roundtripList up ch ts = .ok ts' ∧ render x o ts' = render x o ts :=
  ⟨ts, roundtrip_list up ch ts h, rfl⟩

/-- **C15.tree_renders_same** — `SyntaxTreeNode(tokens).to_tokens()` renders as `tokens` does -/
theorem tree_renders_same (x : Ext) (o : ROpts) (ts : List Tok) (f : List Node) (h : buildTree ts = .ok f) :
    render x o (Node.toTokensList f) = render x o ts := by
  rw [tree_roundtrip ts f h]

end MdIt.C15
