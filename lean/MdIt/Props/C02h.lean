import MdIt.Props.C02d
import MdIt.Props.C01h
/-!
# C02 (continued) — the block sub-parser with `html_block` and `lheading` emits well-formed streams

`segOK_htmlBlock`, `segOK_lheading`: the segment contract K5 for the two rules; `mChain_seg` is `lChain_seg` for the chains with nine
rules (the container parts are generic in their chains); **`m_wellformed`**: for every source, rule subset, `html` option and
`maxNesting`, the block stream of `mParse` is levelled from 0, ends at depth 0, is balanced, and builds a tree.
-/
namespace MdIt.C02
open MdIt.C01

theorem wellSeg_leaf' (s : BState) (a b : String) (m c d e f) :
    WellSeg s.level [pushedTok s a b 0 m c d e f] := by
  refine ⟨?_, ?_, ?_⟩
  · simp [levelsOK, pushedTok, Tok.level, Tok.nesting]
  · simp [depthAfter, pushedTok, Tok.nesting]
  · simp [balancedFrom, pushedTok, Tok.nesting]

theorem wellSeg_three' (s0 : BState) (a1 b1 : String) (m1 c1 d1 e1 f1) (a2 b2 : String) (m2 c2 d2 e2 f2)
    (a3 b3 : String) (m3 c3 d3 e3 f3) :
    WellSeg s0.level [pushedTok s0 a1 b1 1 m1 c1 d1 e1 f1,
      pushedTok (s0.pushFull a1 b1 1 m1 c1 d1 e1 f1) a2 b2 0 m2 c2 d2 e2 f2,
      pushedTok ((s0.pushFull a1 b1 1 m1 c1 d1 e1 f1).pushFull a2 b2 0 m2 c2 d2 e2 f2) a3 b3 (-1) m3 c3 d3 e3 f3] := by
  refine ⟨?_, ?_, ?_⟩
  · simp [levelsOK, pushedTok, Tok.level, Tok.nesting, BState.pushFull]
  · simp [depthAfter, pushedTok, Tok.nesting]
  · simp [balancedFrom, pushedTok, Tok.nesting]

theorem three_push' {s0 : BState} {a1 b1 : String} {m1 c1 d1 e1 f1} {a2 b2 : String} {m2 c2 d2 e2 f2}
    {a3 b3 : String} {m3 c3 d3 e3 f3} :
    ∃ seg, (((s0.pushFull a1 b1 1 m1 c1 d1 e1 f1).pushFull a2 b2 0 m2 c2 d2 e2 f2).pushFull a3 b3 (-1) m3 c3 d3 e3 f3).tokens
        = s0.tokens ++ seg ∧ WellSeg s0.level seg :=
  ⟨_, by rw [pushFull_tokens, pushFull_tokens, pushFull_tokens, List.append_assoc, List.append_assoc]; rfl,
   wellSeg_three' s0 a1 b1 m1 c1 d1 e1 f1 a2 b2 m2 c2 d2 e2 f2 a3 b3 m3 c3 d3 e3 f3⟩

theorem segOK_htmlBlock (P) (codeOn htmlOn : Bool) : SegOK P WellSegS (ruleHtmlBlock codeOn htmlOn) := by
  refine ⟨?_, ?_⟩
  · intro s line endLine s' hc h
    rcases html_shape P codeOn htmlOn s line endLine hc with h' | ⟨next, c, h1, h2, h'⟩
    · rw [h'] at h; cases h
    · rw [h'] at h; cases h
      exact ⟨[_], pushFull_tokens _ _ _ _ _ _ _ _ _, wellSeg_leaf' { s with line := next } _ _ _ _ _ _ _⟩
  · intro s line endLine s' hc h
    rcases html_shape P codeOn htmlOn s line endLine hc with h' | ⟨next, c, h1, h2, h'⟩
    · rw [h'] at h; cases h; rfl
    · rw [h'] at h; cases h

theorem segOK_lheading (P : BState → Nat → Prop) (codeOn : Bool) (terms : List BRule) (hin : ∀ t ∈ terms, SilentInert t) (ws : List Nat) :
    SegOK P WellSegS (ruleLheading codeOn terms ws) := by
  refine ⟨?_, ?_⟩
  · intro s line endLine s' hc h
    rcases lheading_shape P codeOn terms hin ws s line endLine hc with h' | h' | ⟨next, tag, mk, c, h1, h2, h'⟩
    · rw [h'] at h; cases h
    · rw [h'] at h; cases h
    · rw [h'] at h; cases h
      exact three_push' (s0 := { s with parentType := "paragraph", line := next + 1 })
  · intro s line endLine s' hc h
    rcases lheading_shape P codeOn terms hin ws s line endLine hc with h' | h' | ⟨next, tag, mk, c, h1, h2, h'⟩
    · rw [h'] at h; cases h; rfl
    · rw [h'] at h; cases h; rfl
    · rw [h'] at h; cases h

/-- the leaf rules of the chains with nine rules -/
def mLeaves (c : MCfg) (ws : List Nat) (mn : Int) : List BRule :=
  (if c.code then [ruleCode c.code] else []) ++ (if c.fence then [ruleFence c.code] else [])
    ++ (if c.hr then [ruleHr c.code] else []) ++ (if c.htmlBlock then [ruleHtmlBlock c.code c.html] else [])
    ++ (if c.heading then [ruleHeading c.code ws] else [])
    ++ (if c.lheading then [ruleLheading c.code (mTerminators c ws mn) ws] else [])
    ++ [ruleParagraph (mTerminators c ws mn) ws]

theorem mem_mChain (c : MCfg) (ws : List Nat) (mn : Int) (d : Nat) (r : BRule) (h : r ∈ mChain c ws mn (d + 1)) :
    r ∈ mLeaves c ws mn ∨ r = ruleBlockquote c.code (mTerminators c ws mn) (mChain c ws mn d) mn
      ∨ r = ruleList c.code (mListTerms c mn) (mChain c ws mn d) mn := by
  simp only [mChain, List.mem_append, List.mem_singleton] at h
  simp only [mLeaves, List.mem_append, List.mem_singleton]
  rcases h with (((((((h | h) | h) | h) | h) | h) | h) | h) | h
  · exact .inl (.inl (.inl (.inl (.inl (.inl (.inl h))))))
  · exact .inl (.inl (.inl (.inl (.inl (.inl (.inr h))))))
  · exact .inr (.inl h)
  · exact .inl (.inl (.inl (.inl (.inl (.inr h)))))
  · exact .inr (.inr h)
  · exact .inl (.inl (.inl (.inl (.inr h))))
  · exact .inl (.inl (.inl (.inr h)))
  · exact .inl (.inl (.inr h))
  · exact .inl (.inr h)

def InnerSegM (S : BState → List Tok → Prop) (c : MCfg) (ws : List Nat) (mn : Int) (d : Nat) : Prop :=
  ∀ (s : BState) (startLine endLine : Nat) (s' : BState), s.lineMax + 1 ≤ s.lines.length → endLine ≤ s.lineMax → Lv mn d s endLine →
    blockTokenize (mChain c ws mn d) mn s startLine endLine = .ok s' →
    ∃ segs : List (List Tok), s'.tokens = s.tokens ++ segs.flatten ∧ ∀ g ∈ segs, S s g

theorem mChain_seg (S : BState → List Tok → Prop) (hw : QuoteWrap S) (hlw : ListWrap S) (c : MCfg) (ws : List Nat) (mn : Int)
    (hleaf : ∀ (P : BState → Nat → Prop), ∀ r ∈ mLeaves c ws mn, SegOK P S r) : ∀ d : Nat,
    (∀ r ∈ mChain c ws mn d, SegOK (Lv mn d) S r) ∧ InnerSegM S c ws mn d := by
  intro d
  induction d with
  | zero =>
    have h0 : ∀ r ∈ mChain c ws mn 0, SegOK (Lv mn 0) S r := fun r hr => by simp [mChain] at hr
    refine ⟨h0, ?_⟩
    intro s startLine endLine s' hlen hend hlv hrun
    exact loop_segs (Lv mn 0) (lv_closed mn 0) S hw.closed _ (mChain_ok c ws mn 0).1 h0 mn endLine _ startLine false s s' hlen hend hlv hrun
  | succ d ih =>
    have hq : SegOK (Lv mn (d + 1)) S (ruleBlockquote c.code (mTerminators c ws mn) (mChain c ws mn d) mn) := by
      have key := quote_shape mn d c.code (mTerminators c ws mn) (mTerminators_inert c ws mn) (mChain c ws mn d) (mChain_ok c ws mn d).2
      refine ⟨?_, ?_⟩
      · intro s line endLine s' hc h
        rcases key s line endLine hc with h' | ⟨s'', h', _, _, _, hrunq⟩
        · rw [h'] at h; cases h
        · rw [h'] at h; cases h
          obtain ⟨s3, s4, next, openT, closeT, hl3, hlen3, hend3, hLv3, hrun, htok3, htok, ho1, ho2, ho3, hc1, hc2, hc3, _, _, _, hsuf⟩ :=
            quote_tokens mn d _ s line s' hrunq
          obtain ⟨segs, hs4, hS⟩ := ih.2 s3 line next s4 hlen3 hend3 hLv3 hrun
          obtain ⟨s4', hrun', hfr4, _⟩ := (mChain_ok c ws mn d).2 s3 line next hlen3 hend3 hLv3
          rw [hrun] at hrun'; cases hrun'
          exact ⟨_, htok _ hs4, hw.wrap s s3 s4 line openT closeT segs hl3 hfr4 ho1 ho2 ho3 hc1 hc2 hc3 hsuf hS⟩
      · intro s line endLine s' hc h
        rcases key s line endLine hc with h' | ⟨s'', h', _⟩
        · rw [h'] at h; cases h; rfl
        · rw [h'] at h; cases h
    have hl : SegOK (Lv mn (d + 1)) S (ruleList c.code (mListTerms c mn) (mChain c ws mn d) mn) := by
      have key := list_shape mn d c.code (mListTerms c mn) (mListTerms_inert c mn) (mChain c ws mn d) (mChain_ok c ws mn d).2
      refine ⟨?_, ?_⟩
      · intro s line endLine s' hc h
        obtain ⟨ordered, mc, mlen, mv, hrun⟩ := ruleList_hit _ _ _ _ _ _ _ _ h
        have hitem : ∀ (s : BState) (startLine markerLen : Nat) (s6 : BState) (nt pe : Bool), s.lineMax + 1 ≤ s.lines.length → endLine ≤ s.lineMax →
            startLine < endLine → s.line = startLine → mn + 1 ≤ s.level + 1 + (d : Int) →
            listItem ordered mc (mChain c ws mn d) mn endLine s startLine markerLen = .ok (s6, nt, pe) →
            ∃ seg, s6.tokens = s.tokens ++ seg ∧ S s seg := by
          intro s startLine markerLen s6 nt pe hlen hend hlt hline hlv hit
          obtain ⟨s2, s3, openT, closeT, h2t, h2l, h2m, h2len, hnest, htok, ho1, ho2, ho3, hc1, hc2, hc3, _, _, hsuf2⟩ :=
            listItem_tokens _ _ _ _ _ _ _ _ _ _ _ hit
          rcases hnest with ⟨h3t, h3l⟩ | hrun3
          · refine ⟨_, htok [] (by rw [h3t]; simp), ?_⟩
            have := hlw.wrap s s2 openT closeT (some (startLine, s3.line)) [] h2l hsuf2 ho1 ho2 hc1 (by rw [hc2, h3l, h2l]; omega)
              (by rw [ho3, hc3]; simp) (by simp)
            simpa using this
          · have hlen2 : s2.lineMax + 1 ≤ s2.lines.length := by rw [h2m, h2len]; exact hlen
            have hend2 : endLine ≤ s2.lineMax := by rw [h2m]; exact hend
            have hlv2 : Lv mn d s2 endLine := by unfold Lv; rw [h2l]; omega
            obtain ⟨segs, hs3, hS⟩ := ih.2 s2 startLine endLine s3 hlen2 hend2 hlv2 hrun3
            obtain ⟨s3', hrun', hfr3, _⟩ := (mChain_ok c ws mn d).2 s2 startLine endLine hlen2 hend2 hlv2
            rw [hrun3] at hrun'; cases hrun'
            exact ⟨_, htok _ hs3, hlw.wrap s s2 openT closeT (some (startLine, s3.line)) segs h2l hsuf2 ho1 ho2 hc1
              (by rw [hc2, hfr3.2.2.2, h2l]; omega) (by rw [ho3, hc3]; simp) hS⟩
        obtain ⟨s2, openT, closeT, toks, seg', hf2, hchain, _, htok, hhid, ho1, ho2, ho3, hc1, hc2, hc3, _⟩ :=
          listRun_tokens (fun s _ _ seg => S s seg) (fun s s' _ _ seg hf h => hw.closed s s' seg hf h) mn d c.code ordered mc mlen mv
            (mListTerms c mn) (mListTerms_inert c mn) (mChain c ws mn d) (mChain_ok c ws mn d).2 s line endLine hitem hc s' hrun
        obtain ⟨segs, hsegs, hS⟩ := hchain.segs
        refine ⟨seg', htok, hlw.hid _ _ _ hhid ?_⟩
        rw [hsegs]
        exact hlw.wrap s s2 openT closeT (some (line, s'.line)) segs hf2.2.2.2.2.1 (by rw [hf2.1]; exact SufLines.refl _) ho1 ho2 hc1 hc2
          (by rw [ho3, hc3]; cases ordered <;> simp) hS
      · intro s line endLine s' hc h
        rcases key s line endLine hc with h' | ⟨s'', h', _⟩
        · rw [h'] at h; cases h; rfl
        · rw [h'] at h; cases h
    have hall : ∀ r ∈ mChain c ws mn (d + 1), SegOK (Lv mn (d + 1)) S r := by
      intro r hr
      rcases mem_mChain c ws mn d r hr with h | h | h
      · exact hleaf _ r h
      · subst h; exact hq
      · subst h; exact hl
    refine ⟨hall, ?_⟩
    intro s startLine endLine s' hlen hend hlv hrun
    exact loop_segs (Lv mn (d + 1)) (lv_closed mn (d + 1)) S hw.closed _ (mChain_ok c ws mn (d + 1)).1 hall mn endLine _ startLine false s s' hlen hend hlv hrun

/-- the stream of the sub-parser with quotes and lists is a concatenation of segments satisfying `S` at the top state -/
theorem mParse_segs (S : BState → List Tok → Prop) (hw : QuoteWrap S) (hlw : ListWrap S) (c : MCfg) (ws : List Nat) (mn : Int)
    (hleaf : ∀ (P : BState → Nat → Prop), ∀ r ∈ mLeaves c ws mn, SegOK P S r) (src : List Char) (ts : List Tok)
    (h : mParse c ws mn src = .ok ts) :
    ∃ segs : List (List Tok), ts = segs.flatten ∧ ∀ g ∈ segs, S (initBState (normalize src)) g := by
  unfold mParse at h
  simp only at h
  split at h
  · cases h; exact ⟨[], rfl, by simp⟩
  · split at h
    · rename_i s' hs'
      cases h
      obtain ⟨segs, hn, hS⟩ := (mChain_seg S hw hlw c ws mn hleaf (mn.toNat + 1)).2 (initBState (normalize src)) 0
        (initBState (normalize src)).lineMax s' (initBState_len _) (Nat.le_refl _)
        (by unfold Lv; show mn + 1 ≤ (0 : Int) + ((mn.toNat + 1 : Nat) : Int); omega) hs'
      have : (initBState (normalize src)).tokens = [] := rfl
      rw [this, List.nil_append] at hn
      exact ⟨segs, hn, hS⟩
    · cases h


theorem wellSeg_mLeaves (c : MCfg) (ws : List Nat) (mn : Int) (P : BState → Nat → Prop) :
    ∀ r ∈ mLeaves c ws mn, SegOK P WellSegS r := by
  intro r hr
  simp only [mLeaves, List.mem_append, List.mem_singleton] at hr
  rcases hr with (((((hr | hr) | hr) | hr) | hr) | hr) | hr
  · split at hr
    · simp at hr; subst hr; exact segOK_code _ _
    · cases hr
  · split at hr
    · simp at hr; subst hr; exact segOK_fence _ _
    · cases hr
  · split at hr
    · simp at hr; subst hr; exact segOK_hr _ _
    · cases hr
  · split at hr
    · simp at hr; subst hr; exact segOK_htmlBlock _ _ _
    · cases hr
  · split at hr
    · simp at hr; subst hr; exact segOK_heading _ _ _
    · cases hr
  · split at hr
    · simp at hr; subst hr; exact segOK_lheading _ _ _ (mTerminators_inert c ws mn) ws
    · cases hr
  · subst hr; exact segOK_paragraph _ _ (mTerminators_inert c ws mn) ws

/-- **C02.m_wellformed** — nine of the eleven block rules, containers nested in each other to any depth: for every source, rule subset,
`html` option and `maxNesting`, the block stream is levelled from 0, ends at depth 0, is balanced, and `SyntaxTreeNode(tokens)` builds -/
theorem m_wellformed (c : MCfg) (ws : List Nat) (maxNesting : Int) (src : List Char) (ts : List Tok)
    (h : mParse c ws maxNesting src = .ok ts) :
    levelsOK 0 ts ∧ depthAfter 0 ts = 0 ∧ balancedFrom 0 ts = true ∧ ∃ f, buildTree ts = .ok f := by
  obtain ⟨segs, hts, hS⟩ := mParse_segs WellSegS wellSegS_wrap wellSegS_listWrap c ws maxNesting
    (fun P => wellSeg_mLeaves c ws maxNesting P) src ts h
  have key : WellSeg 0 ts := by rw [hts]; exact wellSegs_flatten 0 segs hS
  exact ⟨key.1, key.2.1, key.2.2, tree_of_balanced ts key.2.2⟩

end MdIt.C02
