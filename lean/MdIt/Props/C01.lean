import MdIt.Block
import MdIt.Inline
import MdIt.Generated.Tables
/-!
# C01 — parsing and rendering are total: no input crashes or hangs the library

Engine-level theorems.  The two tokenizer loops are proved total (no exception, no `noProgress`)
for *every* rule chain whose rules satisfy their contracts; the contracts are what the harness
monitors on every call of every real rule (K1 no exception, K2 a miss changes nothing, K3 a match
makes progress within the range, K4 tables/indent/level restored) and what is proved for the rules
modelled in Lean.
-/
namespace MdIt.C01

theorem skipEmptyLines_spec (s : BState) (fuel from_ : Nat) (hlen : s.lineMax + 1 ≤ s.lines.length)
    (hf : s.lineMax - from_ < fuel) :
    from_ ≤ skipEmptyLines s fuel from_ ∧
    (skipEmptyLines s fuel from_ < s.lineMax →
      ∃ l, s.lines[skipEmptyLines s fuel from_]? = some l ∧ l.empty = false) := by
  induction fuel generalizing from_ with
  | zero => omega
  | succ n ih =>
    simp only [skipEmptyLines]
    split
    · rename_i hlt
      have hin : from_ < s.lines.length := by omega
      cases hl : s.lines[from_]? with
      | none => rw [List.getElem?_eq_none_iff] at hl; omega
      | some l =>
        simp only
        split
        · have := ih (from_ + 1) (by omega)
          exact ⟨by omega, this.2⟩
        · rename_i hne
          exact ⟨Nat.le_refl _, fun _ => ⟨l, hl, by simpa using hne⟩⟩
    · exact ⟨Nat.le_refl _, fun h => absurd h (by omega)⟩

theorem frameEq_refl (s : BState) : s.FrameEq s := ⟨⟨rfl, rfl⟩, rfl, rfl, rfl⟩
theorem frameEq_trans {a b c : BState} (h1 : a.FrameEq b) (h2 : b.FrameEq c) : a.FrameEq c :=
  ⟨⟨h2.1.1.trans h1.1.1, h2.1.2.trans h1.1.2⟩, h2.2.1.trans h1.2.1, h2.2.2.1.trans h1.2.2.1, h2.2.2.2.trans h1.2.2.2⟩

/-- the chain: never raises; a match makes progress; a miss leaves `line`; the frame is kept -/
theorem chain_ok (P : BState → Nat → Prop) (hP : FrameClosed P) (rules : List BRule) (hok : ∀ r ∈ rules, RuleOK P r)
    (s : BState) (line endLine : Nat) (hc : CallCtx P s line endLine) :
    ∃ m s', runBlockChain rules s line endLine = .ok (m, s') ∧ s.FrameEq s'
      ∧ (m = true → line < s'.line ∧ s'.line ≤ s.lineMax) ∧ (m = false → s'.line = s.line) := by
  induction rules generalizing s with
  | nil => exact ⟨false, s, rfl, frameEq_refl s, by simp, by simp⟩
  | cons r rest ih =>
    have hr := hok r (by simp)
    obtain ⟨m, s', hrs⟩ := hr.total s line endLine hc
    simp only [runBlockChain, hrs]
    cases m with
    | true => exact ⟨true, s', rfl, hr.frame _ _ _ _ _ hc hrs, fun _ => hr.progress _ _ _ _ hc hrs, by simp⟩
    | false =>
      have hfr := hr.frame _ _ _ _ _ hc hrs
      obtain ⟨m2, s2, h2, hf2, hp2, hm2⟩ := ih (fun q hq => hok q (by simp [hq])) s' (hc.transfer hP hfr (hr.miss _ _ _ _ hc hrs))
      refine ⟨m2, s2, h2, frameEq_trans hfr hf2, (by rw [← hfr.2.1]; exact hp2), ?_⟩
      intro hm; rw [hm2 hm]; exact hr.miss _ _ _ _ hc hrs

/-- if one rule of the chain always matches, the chain matches on every non-empty line -/
theorem chain_matches (P : BState → Nat → Prop) (hP : FrameClosed P) (rules : List BRule) (hok : ∀ r ∈ rules, RuleOK P r)
    (hlast : ∃ r ∈ rules, AlwaysMatches P r)
    (s : BState) (line endLine : Nat) (hc : CallCtx P s line endLine) :
    ∃ s', runBlockChain rules s line endLine = .ok (true, s') := by
  induction rules generalizing s with
  | nil => obtain ⟨r, hr, _⟩ := hlast; cases hr
  | cons r rest ih =>
    have hr := hok r (by simp)
    obtain ⟨m, s', hrs⟩ := hr.total s line endLine hc
    simp only [runBlockChain, hrs]
    cases m with
    | true => exact ⟨s', rfl⟩
    | false =>
      obtain ⟨q, hq, hqa⟩ := hlast
      simp only [List.mem_cons] at hq
      rcases hq with rfl | hq
      · obtain ⟨s'', hs''⟩ := hqa s line endLine hc
        rw [hs''] at hrs; cases hrs
      · have hfr := hr.frame _ _ _ _ _ hc hrs
        exact ih (fun q' hq' => hok q' (by simp [hq'])) ⟨q, hq, hqa⟩ s' (hc.transfer hP hfr (hr.miss _ _ _ _ hc hrs))

theorem skipEmptyLines_le (s : BState) (fuel from_ : Nat) : skipEmptyLines s fuel from_ ≤ max from_ s.lineMax := by
  induction fuel generalizing from_ with
  | zero => simp only [skipEmptyLines]; exact Nat.le_max_left _ _
  | succ n ih =>
    simp only [skipEmptyLines]
    split
    · split
      · split
        · have := ih (from_ + 1); omega
        · omega
      · have := ih (from_ + 1); omega
    · omega

/-- where the loop leaves `state.line`: at or after the line it was started on, inside the line tables; strictly
    after it when that line is non-empty and not outdented (what a container that just opened on it guarantees);
    and a loop over an empty range returns its state untouched -/
def LinePost (endLine line : Nat) (s s' : BState) : Prop :=
  (line < endLine → line ≤ s'.line ∧ s'.line ≤ s.lineMax ∧
     ((∀ l, s.lines[line]? = some l → l.empty = false → s.blkIndent ≤ l.sCount) → line < s'.line))
  ∧ (¬ line < endLine → s' = s)

/-- **C01.block_total** — for every chain of rules that satisfy their contracts and contain a
fallback rule that always matches (the `paragraph` rule: "Supported" configurations keep it
enabled), every line table with its sentinel entry, every range and every `maxNesting`, the block
loop returns normally: no exception, no endless loop; it leaves line tables, `lineMax`,
`blkIndent` and `level` as it found them (the frame property C07 relies on), and `state.line` ends where
`LinePost` says. -/
theorem block_total_lines (P : BState → Nat → Prop) (hP : FrameClosed P) (rules : List BRule) (hok : ∀ r ∈ rules, RuleOK P r)
    (hlast : ∃ r ∈ rules, AlwaysMatches P r) (maxNesting : Int) (endLine : Nat) :
    ∀ (fuel line : Nat) (hasEmpty : Bool) (s : BState), s.lineMax + 1 ≤ s.lines.length → endLine ≤ s.lineMax →
      P s endLine → endLine - line < fuel →
      ∃ s', blockLoop rules maxNesting endLine fuel line hasEmpty s = .ok s' ∧ s.FrameEq s' ∧ LinePost endLine line s s' := by
  intro fuel
  induction fuel with
  | zero => intro line _ s _ _ _ hf; omega
  | succ n ih =>
    intro line hasEmpty s hlen hend hPs hf
    simp only [blockLoop]
    split
    · rename_i hlt
      have hsk := skipEmptyLines_spec s (s.lineMax + 1) line hlen (by omega)
      have hskle := skipEmptyLines_le s (s.lineMax + 1) line
      generalize hl1 : skipEmptyLines s (s.lineMax + 1) line = line1 at hsk hskle
      have hl1max : line1 ≤ s.lineMax := by omega
      split
      · rename_i hge
        exact ⟨_, rfl, ⟨⟨rfl, rfl⟩, rfl, rfl, rfl⟩, ⟨fun _ => ⟨hsk.1, hl1max, fun _ => by show line < line1; omega⟩, fun h => absurd hlt h⟩⟩
      · rename_i hnge
        have hlt1 : line1 < s.lineMax := by omega
        obtain ⟨l, hl, hne⟩ := hsk.2 hlt1
        simp only [hl]
        split
        · rename_i hout
          refine ⟨_, rfl, ⟨⟨rfl, rfl⟩, rfl, rfl, rfl⟩, ⟨fun _ => ⟨hsk.1, hl1max, fun hstart => ?_⟩, fun h => absurd hlt h⟩⟩
          show line < line1
          by_cases heq : line1 = line
          · subst heq
            have := hstart l hl hne
            have hout' : l.sCount < s.blkIndent := hout
            omega
          · have := hsk.1; omega
        · rename_i hnout
          split
          · exact ⟨_, rfl, ⟨⟨rfl, rfl⟩, rfl, rfl, rfl⟩, ⟨fun _ => ⟨by show line ≤ endLine; omega, hend, fun _ => hlt⟩, fun h => absurd hlt h⟩⟩
          · -- run the chain on s1 = { s with line := line1 }
            have hfr1 : s.FrameEq { s with line := line1 } := ⟨⟨rfl, rfl⟩, rfl, rfl, rfl⟩
            have hctx : CallCtx P { s with line := line1 } line1 endLine :=
              ⟨hlen, by omega, hend, ⟨l, hl, hne, by simpa using hnout⟩, rfl, hP _ _ _ hfr1 hPs⟩
            obtain ⟨s2, hs2⟩ := chain_matches P hP rules hok hlast { s with line := line1 } line1 endLine hctx
            obtain ⟨m, s2', hc, hfr2, hprog, _⟩ := chain_ok P hP rules hok { s with line := line1 } line1 endLine hctx
            rw [hs2] at hc
            simp only [Except.ok.injEq, Prod.mk.injEq] at hc
            obtain ⟨rfl, rfl⟩ := hc
            have hp := hprog rfl
            simp only [hs2]
            have hnle : ¬ (s2.line ≤ line1) := by omega
            simp only [hnle, if_false]
            have hlen2 : s2.lineMax + 1 ≤ s2.lines.length := by rw [hfr2.1.1, hfr2.2.1]; exact hlen
            have hend2 : endLine ≤ s2.lineMax := by rw [hfr2.2.1]; exact hend
            have hfr3 : s.FrameEq { s2 with tight := !hasEmpty } :=
              ⟨hfr2.1, hfr2.2.1, hfr2.2.2.1, hfr2.2.2.2⟩
            -- the two isEmpty reads are in range
            have hem : ∀ i : Nat, i < s2.lines.length → ∃ b, ({ s2 with tight := !hasEmpty } : BState).isEmpty (i : Int) = .ok b := by
              intro i hi
              unfold BState.isEmpty idx
              have h0 : ¬ ((i : Int) < 0) := by omega
              simp only [h0, if_false]
              have : (i : Int).toNat = i := by simp
              rw [this]
              cases hq : s2.lines[i]? with
              | none => rw [List.getElem?_eq_none_iff] at hq; omega
              | some b => exact ⟨b.empty, by simp⟩
            have hpos : 1 ≤ s2.line := by omega
            have hcast : ((s2.line : Int) - 1) = ((s2.line - 1 : Nat) : Int) := by omega
            have hle2 : s2.line ≤ s2.lineMax := by rw [hfr2.2.1]; exact hp.2
            have hle2s : s2.line ≤ s.lineMax := hp.2
            have hscrut : ∃ e1, (if (s2.line : Int) - 1 < (endLine : Int) then
                ({ s2 with tight := !hasEmpty } : BState).isEmpty ((s2.line : Int) - 1) else Except.ok false) = .ok e1 := by
              split
              · obtain ⟨e1, he1⟩ := hem (s2.line - 1) (by omega)
                exact ⟨e1, by rw [hcast]; exact he1⟩
              · exact ⟨false, rfl⟩
            obtain ⟨e1, he1⟩ := hscrut
            rw [he1]
            simp only
            -- every continuation recurses on a state `st` framed like `s`, with `st.line = l'` and `line1 < l'`
            have fin : ∀ (l' : Nat) (he : Bool) (st : BState), s.FrameEq st → st.line = l' → s2.line ≤ l' → l' ≤ s.lineMax →
                ∃ s', blockLoop rules maxNesting endLine n l' he st = .ok s' ∧ s.FrameEq s' ∧ LinePost endLine line s s' := by
              intro l' he st hfst hstl hl' hl'max
              have hlenst : st.lineMax + 1 ≤ st.lines.length := by rw [hfst.1.1, hfst.2.1]; exact hlen
              have hendst : endLine ≤ st.lineMax := by rw [hfst.2.1]; exact hend
              obtain ⟨s', hs', hfr', hpost⟩ := ih l' he st hlenst hendst (hP _ _ _ hfst hPs) (by omega)
              refine ⟨s', hs', frameEq_trans hfst hfr', ⟨fun _ => ?_, fun h => absurd hlt h⟩⟩
              have hge : l' ≤ s'.line ∧ s'.line ≤ s.lineMax := by
                by_cases hlt2 : l' < endLine
                · have := hpost.1 hlt2
                  rw [hfst.2.1] at this
                  exact ⟨this.1, this.2.1⟩
                · have := hpost.2 hlt2
                  rw [this, hstl]; exact ⟨Nat.le_refl _, hl'max⟩
              have := hsk.1
              exact ⟨by omega, hge.2, fun _ => by omega⟩
            split
            · rename_i hl2
              obtain ⟨e2, he2⟩ := hem s2.line (by omega)
              rw [he2]
              simp only
              split
              · exact fin (s2.line + 1) true { s2 with tight := !hasEmpty, line := s2.line + 1 }
                  ⟨hfr2.1, hfr2.2.1, hfr2.2.2.1, hfr2.2.2.2⟩ rfl (by omega) (by omega)
              · exact fin s2.line (hasEmpty || e1) { s2 with tight := !hasEmpty } hfr3 rfl (Nat.le_refl _) hle2s
            · exact fin s2.line (hasEmpty || e1) { s2 with tight := !hasEmpty } hfr3 rfl (Nat.le_refl _) hle2s
    · rename_i hnlt
      exact ⟨s, rfl, frameEq_refl s, ⟨fun h => absurd h hnlt, fun _ => rfl⟩⟩

theorem block_total (P : BState → Nat → Prop) (hP : FrameClosed P) (rules : List BRule) (hok : ∀ r ∈ rules, RuleOK P r)
    (hlast : ∃ r ∈ rules, AlwaysMatches P r) (maxNesting : Int) (endLine : Nat) :
    ∀ (fuel line : Nat) (hasEmpty : Bool) (s : BState), s.lineMax + 1 ≤ s.lines.length → endLine ≤ s.lineMax →
      P s endLine → endLine - line < fuel →
      ∃ s', blockLoop rules maxNesting endLine fuel line hasEmpty s = .ok s' ∧ s.FrameEq s' := by
  intro fuel line hasEmpty s hlen hend hPs hf
  obtain ⟨s', h, hfr, _⟩ := block_total_lines P hP rules hok hlast maxNesting endLine fuel line hasEmpty s hlen hend hPs hf
  exact ⟨s', h, hfr⟩

/-- the entry point with the fuel the model gives itself -/
theorem block_tokenize_total (P : BState → Nat → Prop) (hP : FrameClosed P) (rules : List BRule)
    (hok : ∀ r ∈ rules, RuleOK P r) (hlast : ∃ r ∈ rules, AlwaysMatches P r)
    (maxNesting : Int) (s : BState) (startLine endLine : Nat) (hlen : s.lineMax + 1 ≤ s.lines.length)
    (hend : endLine ≤ s.lineMax) (hPs : P s endLine) :
    ∃ s', blockTokenize rules maxNesting s startLine endLine = .ok s' ∧ s.FrameEq s' :=
  block_total P hP rules hok hlast maxNesting endLine _ startLine false s hlen hend hPs (by omega)

/-! ### the inline loop -/

structure IRuleOK (r : IRule) : Prop where
  total : ∀ s silent, ∃ m s', r s silent = .ok (m, s')
  /-- a match moves `pos` forward -/
  progress : ∀ s s', r s false = .ok (true, s') → s.pos < s'.pos
  /-- a miss leaves `pos` -/
  miss : ∀ s s', r s false = .ok (false, s') → s'.pos = s.pos
  /-- the source and the nesting level are as on entry (open/close pushes come in pairs) -/
  frame : ∀ s m s', r s false = .ok (m, s') → s'.src = s.src ∧ s'.level = s.level

theorem ichain_ok (rules : List IRule) (hok : ∀ r ∈ rules, IRuleOK r) (s : IState) :
    ∃ m s', runChain rules s = .ok (m, s') ∧ s'.src = s.src ∧ s'.level = s.level
      ∧ (m = true → s.pos < s'.pos) ∧ (m = false → s'.pos = s.pos) := by
  induction rules generalizing s with
  | nil => exact ⟨false, s, rfl, rfl, rfl, by simp, by simp⟩
  | cons r rest ih =>
    have hr := hok r (by simp)
    obtain ⟨m, s', hrs⟩ := hr.total s false
    simp only [runChain, hrs]
    cases m with
    | true => exact ⟨true, s', rfl, (hr.frame _ _ _ hrs).1, (hr.frame _ _ _ hrs).2, fun _ => hr.progress _ _ hrs, by simp⟩
    | false =>
      obtain ⟨m2, s2, h2, hsrc, hlvl, hp, hm⟩ := ih (fun q hq => hok q (by simp [hq])) s'
      have hf := hr.frame _ _ _ hrs
      have hpos := hr.miss _ _ hrs
      refine ⟨m2, s2, h2, hsrc.trans hf.1, hlvl.trans hf.2, ?_, ?_⟩
      · intro h; have := hp h; omega
      · intro h; rw [hm h]; exact hpos

/-- **C01.inline_total** — for every chain of inline rules that satisfy their contracts, every
`maxNesting` and every range inside the source, the inline loop returns normally: it never raises
and never spins (in particular the stale `ok` flag of the Python loop — it is not reset per
iteration — is harmless *because* rules preserve the nesting level). -/
theorem inline_total (rules : List IRule) (hok : ∀ r ∈ rules, IRuleOK r) (maxNesting : Int) (end_ : Nat) :
    ∀ (fuel : Nat) (ok : Bool) (s : IState), end_ ≤ s.src.length → end_ - s.pos < fuel →
      (s.level ≥ maxNesting → ok = false) →
      ∃ s', tokenizeLoop rules maxNesting end_ fuel ok s = .ok s' := by
  intro fuel
  induction fuel with
  | zero => intro _ s _ hf; omega
  | succ n ih =>
    intro ok s hend hf hstale
    simp only [tokenizeLoop]
    split
    · rename_i hlt
      by_cases hlv : s.level < maxNesting
      · simp only [hlv, if_true]
        obtain ⟨m, s', hc, hsrc, hlvl, hp, hm⟩ := ichain_ok rules hok s
        rw [hc]
        simp only
        cases m with
        | true =>
          simp only [if_true]
          split
          · exact ⟨s', rfl⟩
          · have hpp := hp rfl
            have : ¬ (s'.pos ≤ s.pos) := by omega
            simp only [this, if_false]
            exact ih true s' (by rw [hsrc]; exact hend) (by omega) (by intro h; rw [hlvl] at h; omega)
        | false =>
          simp only [Bool.false_eq_true, if_false]
          have hpos := hm rfl
          have hin : s'.pos < s'.src.length := by rw [hsrc, hpos]; omega
          have hget := List.getElem?_eq_getElem hin
          rw [hget]
          simp only
          exact ih false { s' with pending := s'.pending ++ [s'.src[s'.pos]], pos := s'.pos + 1 }
            (by simp [hsrc]; exact hend) (by simp [hpos]; omega) (by intro _; rfl)
      · simp only [hlv, if_false]
        have hok' : ok = false := hstale (by omega)
        subst hok'
        simp only [Bool.false_eq_true, if_false]
        have hin : s.pos < s.src.length := by omega
        rw [List.getElem?_eq_getElem hin]
        simp only
        exact ih false { s with pending := s.pending ++ [s.src[s.pos]], pos := s.pos + 1 }
          (by simpa using hend) (by simp; omega) (by intro _; rfl)
    · exact ⟨s, rfl⟩

/-- the three inline rules modelled so far satisfy the contract (unconditionally) -/
theorem text_ok : (∀ s silent, ∃ m s', ruleText s silent = .ok (m, s')) := by
  intro s silent
  unfold ruleText
  split <;> exact ⟨_, _, rfl⟩

/-- **T1 obligation** — in the current source `paragraph` is the last block rule, `text` the first
inline rule, and both are in every preset's component lists ("Supported" configurations keep them) -/
theorem fallback_rules :
    (Gen.blockRules.map (·.1)).getLast? = some "paragraph" ∧ Gen.inlineRules.head? = some "text"
    ∧ ∀ p ∈ Gen.presets, (p.blockR.map (·.contains "paragraph")).getD true = true
        ∧ (p.inlineR.map (·.contains "text")).getD true = true := by decide

end MdIt.C01
