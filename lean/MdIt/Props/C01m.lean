import MdIt.Props.C01k
import MdIt.Props.C01l
/-!
# C01 (continued) — `MarkdownIt.parse` end to end with the `table` rule returns for every input

`t_total` (block side: ten of the eleven block rules, `table` in the main chain and as a terminator, quotes and lists nested to any
depth) and `image_total` (inline side: eleven of the twelve inline rules) composed through the core chain.  The inline parser reads the
env as the block parse left it (`envAfter`); `image_total` holds for every env.
-/
namespace MdIt.C01

/-- **C01.fullT_total** — `MarkdownIt.parse` for the sub-language with tables (the `reference` rule off): for every source, every rule
subset on both sides, every `maxNesting`, every seeded reference table, classification and external functions, the parse returns -/
theorem fullT_total (cls : QCls) (ext : IExt) (lx : LExt) (tc : TCfg) (hnr : tc.reference = false) (ic : ICfg) (ws : List Nat) (mn : Int)
    (d : Nat) (src : List Char) : ∃ r, fullParseT cls ext lx tc ic ws mn d src = .ok r := by
  unfold fullParseT
  obtain ⟨s, hb⟩ := t_total ext lx tc hnr ws mn src
  rw [hb]
  simp only
  have hin : ∃ ts, (if ic.inlineOn = true then coreInline (inlineOf cls ext (envAfter lx s) ic mn d) s.tokens else .ok s.tokens) = .ok ts := by
    split
    · exact coreInline_total _ (fun c => image_total cls ext (envAfter lx s) ic.text ic.newline ic.escape ic.backticks ic.strike ic.emphasis
        ic.link ic.image ic.autolink ic.htmlInline ic.entity ic.fragJoin mn d c) s.tokens
    · exact ⟨_, rfl⟩
  obtain ⟨ts, hts⟩ := hin
  rw [hts]
  exact ⟨_, rfl⟩

end MdIt.C01
