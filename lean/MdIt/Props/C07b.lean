import MdIt.Props.C06c
/-!
# C07 (continued) — what follows a top-level block parses as if it stood alone, with its line numbers shifted

A second simulation, with a *line shift*: two runs of the chains are related (`TR tt pp k n spre pre s s'`) when the line table of the
second, from index `n` on, equals that of the first up to `bsCount`, `line` / `lineMax` of the second are those of the first
plus `n`, levels differ by `k`, and the tokens of the second are a fixed prefix followed by the tokens of the first with
`level + k` and maps shifted by `n`.  What lies before index `n` in the second table, the prefix `pre`, `tight` and
`parentType` are unconstrained: no modelled rule reads them (a rule called at `line ≥ n` never looks at an earlier line).
Every rule of `qChain`, the terminator chains, the loop and the nested runs preserve the relation (`ShSim`), hence
`suffix_shift`: once the loop of a parse stands at the first line of `B` at top level — whatever the tokens, `tight`,
`parentType` and the earlier lines left behind by the blocks before — it appends exactly the stream of `B` parsed alone,
line numbers shifted.
-/
namespace MdIt.C07
open MdIt.C01 MdIt.C06

def shiftM (n : Nat) : Option (Nat × Nat) → Option (Nat × Nat)
  | none => none
  | some (a, b) => some (a + n, b + n)

def _root_.MdIt.Tok.shift2 (k : Int) (n : Nat) : Tok → Tok
  | .mk ty tag ne a m lvl ch c mku info md b h => .mk ty tag ne a (shiftM n m) (lvl + k) ch c mku info md b h

structure TR (tt pp : Bool) (k : Int) (n : Nat) (spre pre : List Tok) (s s' : BState) : Prop where
  lines : LR s.lines (s'.lines.drop n)
  len : s'.lines.length = s.lines.length + n
  notab : NoTab s.lines
  line : s'.line = s.line + n
  lineMax : s'.lineMax = s.lineMax + n
  blkIndent : s'.blkIndent = s.blkIndent
  level : s'.level = s.level + k
  listIndent : s'.listIndent = s.listIndent
  tight : tt = true → s'.tight = s.tight
  parent : pp = true → s'.parentType = s.parentType
  tokens : ∃ ts, s.tokens = spre ++ ts ∧ s'.tokens = pre ++ ts.map (Tok.shift2 k n)

theorem TR.get {tt pp k n spre pre s s'} (h : TR tt pp k n spre pre s s') (i j : Nat) (hj : j = i + n) (l : BLine) (hl : s.lines[i]? = some l) :
    ∃ l', s'.lines[j]? = some l' ∧ zb l' = zb l := by
  obtain ⟨l', h1, h2⟩ := h.lines.get i l hl
  rw [List.getElem?_drop] at h1
  subst hj
  rw [Nat.add_comm] at h1
  exact ⟨l', h1, h2⟩

theorem TR.get_none {tt pp k n spre pre s s'} (h : TR tt pp k n spre pre s s') (i j : Nat) (hj : j = i + n) (hl : s.lines[i]? = none) :
    s'.lines[j]? = none := by
  rw [List.getElem?_eq_none_iff] at hl ⊢
  rw [h.len]; omega

theorem getL_sh {tt pp k n spre pre s s'} (h : TR tt pp k n spre pre s s') (i j : Nat) (hj : j = i + n) (l : BLine) (hg : getL s i = .ok l) :
    ∃ l', getL s' j = .ok l' ∧ zb l' = zb l ∧ '\t' ∉ l.text := by
  have hl : s.lines[i]? = some l := by
    unfold getL at hg
    cases hq : s.lines[i]? with
    | none => rw [hq] at hg; cases hg
    | some x => rw [hq] at hg; cases hg; rfl
  obtain ⟨l', h1, h2⟩ := h.get i j hj l hl
  exact ⟨l', getL_of_here h1, h2, h.notab l (List.mem_of_getElem? hl)⟩

theorem isCode_sh {tt pp k n spre pre s s'} (h : TR tt pp k n spre pre s s') (codeOn : Bool) {l l' : BLine} (hz : zb l' = zb l) :
    isCodeLine codeOn s' l' = isCodeLine codeOn s l := by
  simp [isCodeLine, (zb_eq hz).1, h.blkIndent]

/-! ### pushes -/

theorem shift2_pushed (k : Int) (n : Nat) (s s' : BState) (hl : s'.level = s.level + k) (a b : String) (ne : Int) (m m' c d e f)
    (hm : m' = shiftM n m) :
    pushedTok s' a b ne m' c d e f = (pushedTok s a b ne m c d e f).shift2 k n := by
  subst hm
  by_cases hn : ne < 0
  · simp only [pushedTok, Tok.shift2, hl, hn, if_true]; congr 1; omega
  · simp only [pushedTok, Tok.shift2, hl, hn, if_false]

theorem TR.push {tt pp k n spre pre s s'} (h : TR tt pp k n spre pre s s') (a b : String) (ne : Int) (m m' c d e f) (hm : m' = shiftM n m) :
    TR tt pp k n spre pre (s.pushFull a b ne m c d e f) (s'.pushFull a b ne m' c d e f) := by
  refine ⟨h.lines, h.len, h.notab, h.line, h.lineMax, h.blkIndent, ?_, h.listIndent, h.tight, h.parent, ?_⟩
  · simp only [BState.pushFull, h.level]; split <;> split <;> omega
  · obtain ⟨ts, a1, a2⟩ := h.tokens
    refine ⟨ts ++ [pushedTok s a b ne m c d e f], ?_, ?_⟩
    · rw [pushFull_tokens, a1]; simp
    · rw [pushFull_tokens, a2, shift2_pushed k n s s' h.level a b ne m m' c d e f hm]; simp

theorem shiftM_some {n a b a' b' : Nat} (ha : a' = a + n) (hb : b' = b + n) : some (a', b') = shiftM n (some (a, b)) := by
  subst ha; subst hb; rfl

theorem TR.setLineNo {tt pp k n spre pre s s'} (h : TR tt pp k n spre pre s s') (a a' : Nat) (ha : a' = a + n) :
    TR tt pp k n spre pre { s with line := a } { s' with line := a' } :=
  ⟨h.lines, h.len, h.notab, ha, h.lineMax, h.blkIndent, h.level, h.listIndent, h.tight, h.parent, h.tokens⟩

/-! ### simulation of rules -/

def ShSim (k : Int) (n : Nat) (r r' : BRule) : Prop :=
  ∀ tt pp spre pre s s' line endLine silent m t, TR tt pp k n spre pre s s' → (silent = true → pp = true) →
    r s line endLine silent = .ok (m, t) →
    ∃ t', r' s' (line + n) (endLine + n) silent = .ok (m, t') ∧ TR tt pp k n spre pre t t'

theorem getL_cases {s : BState} {i : Nat} {α} {f : BLine → Except PyErr α} {r : α}
    (h : (match getL s i with | .error e => (Except.error e : Except PyErr α) | .ok l => f l) = .ok r) : ∃ l, getL s i = .ok l ∧ f l = .ok r := by
  cases hg : getL s i with
  | error e => rw [hg] at h; cases h
  | ok l => rw [hg] at h; exact ⟨l, rfl, h⟩

macro "sh_same" h:ident hsr:term : tactic =>
  `(tactic| (simp only [Except.ok.injEq, Prod.mk.injEq] at $h:ident; obtain ⟨h1, h2⟩ := $h:ident; subst h1; subst h2; exact ⟨_, rfl, $hsr⟩))

theorem sh_hr (k : Int) (n : Nat) (codeOn : Bool) : ShSim k n (ruleHr codeOn) (ruleHr codeOn) := by
  intro tt pp spre pre s s' line endLine silent m t hsr hsil h
  unfold ruleHr at h
  obtain ⟨l, hg, h⟩ := getL_cases h
  obtain ⟨l', hg', hz, _⟩ := getL_sh hsr line (line + n) rfl l hg
  simp only [ruleHr, hg', isCode_sh hsr codeOn hz, zb_body hz]
  cases hc : isCodeLine codeOn s l <;> simp only [hc, ↓reduceIte, Bool.false_eq_true] at h ⊢
  · cases hm : hrMarkup l.body <;> simp only [hm] at h ⊢
    · sh_same h hsr
    · cases silent <;> simp only [↓reduceIte, Bool.false_eq_true] at h ⊢
      · sh_same h ((hsr.setLineNo (line + 1) _ (by omega)).push _ _ _ _ _ _ _ _ _ (shiftM_some rfl (by omega)))
      · sh_same h hsr
  · sh_same h hsr

/-! ### `getLines` -/

theorem getLinesGo_sh {tt pp k n spre pre s s'} (h : TR tt pp k n spre pre s s') (end_ : Nat) (indent : Int) (keep : Bool) :
    ∀ (m line : Nat) (acc c : List Char), getLinesGo s end_ indent keep m line acc = .ok c →
      getLinesGo s' (end_ + n) indent keep m (line + n) acc = .ok c := by
  intro m
  induction m with
  | zero => intro line acc c hc; exact hc
  | succ m ih =>
    intro line acc c hc
    unfold getLinesGo at hc
    obtain ⟨l, hg, hc⟩ := getL_cases hc
    obtain ⟨l', hg', hz, hnt⟩ := getL_sh h line (line + n) rfl l hg
    simp only [getLinesGo, hg']
    obtain ⟨_, h2, h3, h4⟩ := zb_eq hz
    rw [h2, h3, h4]
    have c1 : decide (line + n + 1 < end_ + n) = decide (line + 1 < end_) := by
      apply decide_eq_decide.2; omega
    rw [c1]
    have hnt' : '\t' ∉ l.text ++ (if ((decide (line + 1 < end_) || keep) && l.hasLF) = true then ['\n'] else []) := by
      intro hm
      rw [List.mem_append] at hm
      rcases hm with hm | hm
      · exact hnt hm
      · split at hm
        · simp at hm
        · cases hm
    rw [cutLineI_notab _ l.tShift l'.bs l.bs indent hnt']
    have e : line + n + 1 = line + 1 + n := by omega
    rw [e]
    exact ih _ _ _ hc

theorem getLinesB_sh {tt pp k n spre pre s s'} (h : TR tt pp k n spre pre s s') (b e b' e' : Nat) (hb : b' = b + n) (he : e' = e + n) (indent : Int) (keep : Bool)
    (c : List Char) (hc : getLinesB s b e indent keep = .ok c) : getLinesB s' b' e' indent keep = .ok c := by
  subst hb; subst he
  unfold getLinesB at hc ⊢
  by_cases hbe : b ≤ e
  · have : e + n - (b + n) = e - b := by omega
    rw [this]; exact getLinesGo_sh h e indent keep _ _ _ _ hc
  · have h0 : e - b = 0 := by omega
    have h1 : e + n - (b + n) = 0 := by omega
    rw [h0] at hc; rw [h1]
    simpa [getLinesGo] using hc

theorem sh_heading (k : Int) (n : Nat) (codeOn : Bool) (ws : List Nat) : ShSim k n (ruleHeading codeOn ws) (ruleHeading codeOn ws) := by
  intro tt pp spre pre s s' line endLine silent m t hsr hsil h
  unfold ruleHeading at h
  obtain ⟨l, hg, h⟩ := getL_cases h
  obtain ⟨l', hg', hz, _⟩ := getL_sh hsr line (line + n) rfl l hg
  simp only [ruleHeading, hg', isCode_sh hsr codeOn hz, zb_body hz]
  cases hc : isCodeLine codeOn s l <;> simp only [hc, ↓reduceIte, Bool.false_eq_true] at h ⊢
  · cases hb : l.body with
    | nil => simp only [hb] at h ⊢; sh_same h hsr
    | cons c rest =>
      simp only [hb] at h ⊢
      by_cases h1 : (c != '#') = true
      · simp only [h1, ↓reduceIte] at h ⊢; sh_same h hsr
      · simp only [h1, ↓reduceIte, Bool.false_eq_true] at h ⊢
        by_cases h2 : (List.takeWhile (fun x => x == '#') (c :: rest)).length > 6
        · simp only [h2, ↓reduceIte] at h ⊢; sh_same h hsr
        · simp only [h2, ↓reduceIte] at h ⊢
          cases h3 : headingSep (List.drop (List.takeWhile (fun x => x == '#') (c :: rest)).length (c :: rest)) <;>
            simp only [h3, Bool.not_false, Bool.not_true, ↓reduceIte, Bool.false_eq_true] at h ⊢
          · sh_same h hsr
          · cases silent <;> simp only [↓reduceIte, Bool.false_eq_true] at h ⊢
            · sh_same h ((((hsr.setLineNo (line + 1) _ (by omega)).push _ _ _ _ _ _ _ _ _ (shiftM_some rfl (by omega))).push _ _ _ _ _ _ _ _ _
                (shiftM_some rfl (by omega))).push _ _ _ _ _ _ _ _ _ rfl)
            · sh_same h hsr
  · sh_same h hsr

theorem codeScan_sh {tt pp k n spre pre s s'} (h : TR tt pp k n spre pre s s') (codeOn : Bool) (endLine : Nat) :
    ∀ (fuel next last r : Nat), codeScan codeOn s endLine fuel next last = .ok r →
      codeScan codeOn s' (endLine + n) fuel (next + n) (last + n) = .ok (r + n) := by
  intro fuel
  induction fuel with
  | zero => intro next last r hr; simp [codeScan] at hr
  | succ f ih =>
    intro next last r hr
    simp only [codeScan] at hr ⊢
    have c0 : (next + n < endLine + n) = (next < endLine) := propext ⟨fun h => by omega, fun h => by omega⟩
    simp only [c0]
    split at hr
    · rename_i hlt
      simp only [hlt, ↓reduceIte]
      obtain ⟨l, hg, hr⟩ := getL_cases hr
      obtain ⟨l', hg', hz, _⟩ := getL_sh h next (next + n) rfl l hg
      simp only [hg', zb_empty hz, isCode_sh h codeOn hz]
      have e : next + n + 1 = next + 1 + n := by omega
      split at hr
      · rename_i he; simp only [he, ↓reduceIte]; rw [e]; exact ih _ _ _ hr
      · rename_i he
        simp only [he, Bool.false_eq_true, ↓reduceIte]
        split at hr
        · rename_i hc; simp only [hc, ↓reduceIte]; rw [e]; exact ih _ _ _ hr
        · rename_i hc; simp only [hc, Bool.false_eq_true, ↓reduceIte]
          simp only [Except.ok.injEq] at hr ⊢; omega
    · rename_i hlt; simp only [hlt, ↓reduceIte]
      simp only [Except.ok.injEq] at hr ⊢; omega

theorem sh_code (k : Int) (n : Nat) (codeOn : Bool) : ShSim k n (ruleCode codeOn) (ruleCode codeOn) := by
  intro tt pp spre pre s s' line endLine silent m t hsr hsil h
  unfold ruleCode at h
  obtain ⟨l, hg, h⟩ := getL_cases h
  obtain ⟨l', hg', hz, _⟩ := getL_sh hsr line (line + n) rfl l hg
  simp only [ruleCode, hg', isCode_sh hsr codeOn hz]
  cases hc : isCodeLine codeOn s l <;> simp only [hc, ↓reduceIte, Bool.false_eq_true, Bool.not_false, Bool.not_true] at h ⊢
  · sh_same h hsr
  · cases hs : codeScan codeOn s endLine (endLine - line + 1) (line + 1) (line + 1) with
    | error e => rw [hs] at h; cases h
    | ok last =>
      rw [hs] at h
      have hs' := codeScan_sh hsr codeOn endLine _ _ _ _ hs
      have e1 : endLine + n - (line + n) + 1 = endLine - line + 1 := by omega
      have e2 : line + n + 1 = line + 1 + n := by omega
      simp only [e1, e2, hs'] at h ⊢
      cases hgl : getLinesB s line last (4 + s.blkIndent) false with
      | error e => rw [hgl] at h; cases h
      | ok c =>
        rw [hgl] at h
        have e : getLinesB s' (line + n) (last + n) (4 + s'.blkIndent) false = .ok c := by
          rw [hsr.blkIndent]; exact getLinesB_sh hsr _ _ _ _ rfl rfl _ _ _ hgl
        simp only [e]
        sh_same h ((hsr.setLineNo last _ rfl).push _ _ _ _ _ _ _ _ _ rfl)

theorem fenceScan_sh {tt pp k n spre pre s s'} (h : TR tt pp k n spre pre s s') (codeOn : Bool) (endLine : Nat) (marker : Char) (len : Nat) :
    ∀ (fuel prev : Nat) (r : Nat × Bool), fenceScan codeOn s endLine marker len fuel prev = .ok r →
      fenceScan codeOn s' (endLine + n) marker len fuel (prev + n) = .ok (r.1 + n, r.2) := by
  intro fuel
  induction fuel with
  | zero => intro prev r hr; simp [fenceScan] at hr
  | succ f ih =>
    intro prev r hr
    simp only [fenceScan] at hr ⊢
    have c0 : (prev + n + 1 ≥ endLine + n) = (prev + 1 ≥ endLine) := propext ⟨fun h => by omega, fun h => by omega⟩
    have e : prev + n + 1 = prev + 1 + n := by omega
    simp only [c0]
    have fin : ∀ (b : Bool), (Except.ok (prev + 1, b) : Except PyErr (Nat × Bool)) = .ok r →
        (Except.ok (prev + n + 1, b) : Except PyErr (Nat × Bool)) = .ok (r.1 + n, r.2) := by
      intro b hb
      simp only [Except.ok.injEq] at hb; subst hb
      simp only [Except.ok.injEq, Prod.mk.injEq, and_true]; omega
    split at hr
    · rename_i hge; simp only [hge, ↓reduceIte]; exact fin _ hr
    · rename_i hge
      simp only [hge, ↓reduceIte]
      obtain ⟨l, hg, hr⟩ := getL_cases hr
      obtain ⟨l', hg', hz, _⟩ := getL_sh h (prev + 1) (prev + n + 1) e l hg
      obtain ⟨hsc, _, _, hlf⟩ := zb_eq hz
      simp only [hg', zb_empty hz, isCode_sh h codeOn hz, zb_body hz, hsc, hlf, h.blkIndent]
      split at hr
      · rename_i h1; simp only [h1, ↓reduceIte]; exact fin _ hr
      · rename_i h1
        simp only [h1, ↓reduceIte]
        cases hb : l.body with
        | nil =>
          simp only [hb] at hr ⊢
          split at hr
          · rename_i h2; simp only [h2, ↓reduceIte]; rw [e]; exact ih _ _ hr
          · rename_i h2; simp only [h2, ↓reduceIte]; exact fin _ hr
        | cons c rest =>
          simp only [hb] at hr ⊢
          split at hr
          · rename_i h2; simp only [h2, ↓reduceIte]; rw [e]; exact ih _ _ hr
          · rename_i h2
            simp only [h2, ↓reduceIte]
            split at hr
            · rename_i h3; simp only [h3, ↓reduceIte]; rw [e]; exact ih _ _ hr
            · rename_i h3
              simp only [h3, ↓reduceIte]
              split at hr
              · rename_i h4; simp only [h4, ↓reduceIte]; rw [e]; exact ih _ _ hr
              · rename_i h4
                simp only [h4, ↓reduceIte]
                split at hr
                · rename_i h5; simp only [h5, ↓reduceIte]; exact fin _ hr
                · rename_i h5; simp only [h5, ↓reduceIte]; rw [e]; exact ih _ _ hr

theorem sh_fence (k : Int) (n : Nat) (codeOn : Bool) : ShSim k n (ruleFence codeOn) (ruleFence codeOn) := by
  intro tt pp spre pre s s' line endLine silent m t hsr hsil h
  unfold ruleFence at h
  obtain ⟨l, hg, h⟩ := getL_cases h
  obtain ⟨l', hg', hz, _⟩ := getL_sh hsr line (line + n) rfl l hg
  simp only [ruleFence, hg', isCode_sh hsr codeOn hz, zb_body hz, (zb_eq hz).1]
  cases hc : isCodeLine codeOn s l <;> simp only [hc, ↓reduceIte, Bool.false_eq_true] at h ⊢
  · by_cases h1 : l.body.length < 3
    · simp only [h1, ↓reduceIte] at h ⊢; sh_same h hsr
    · simp only [h1, ↓reduceIte] at h ⊢
      cases hb : l.body with
      | nil => simp only [hb] at h ⊢; sh_same h hsr
      | cons marker rest =>
        simp only [hb] at h ⊢
        split at h
        · rename_i h2; simp only [h2, ↓reduceIte]; sh_same h hsr
        · rename_i h2
          simp only [h2, ↓reduceIte]
          split at h
          · rename_i h3; simp only [h3, ↓reduceIte]; sh_same h hsr
          · rename_i h3
            simp only [h3, ↓reduceIte]
            split at h
            · rename_i h4; simp only [h4, ↓reduceIte]; sh_same h hsr
            · rename_i h4
              simp only [h4, ↓reduceIte]
              cases silent <;> simp only [↓reduceIte, Bool.false_eq_true] at h ⊢
              · cases hs : fenceScan codeOn s endLine marker (List.takeWhile (fun x => x == marker) (marker :: rest)).length (endLine - line + 1) line with
                | error e => rw [hs] at h; cases h
                | ok r =>
                  obtain ⟨next, hv⟩ := r
                  rw [hs] at h
                  have hs' := fenceScan_sh hsr codeOn endLine _ _ _ _ _ hs
                  have e1 : endLine + n - (line + n) + 1 = endLine - line + 1 := by omega
                  simp only [e1, hs'] at h ⊢
                  cases hgl : getLinesB s (line + 1) next l.sCount true with
                  | error e => rw [hgl] at h; cases h
                  | ok c =>
                    rw [hgl] at h
                    simp only [getLinesB_sh hsr (line + 1) next (line + n + 1) (next + n) (by omega) rfl _ _ _ hgl]
                    sh_same h ((hsr.setLineNo _ _ (by omega)).push _ _ _ _ _ _ _ _ _ (shiftM_some rfl (by omega)))
              · sh_same h hsr
  · sh_same h hsr

/-! ### chains, terminators, `paragraph` -/

inductive ShSims (k : Int) (n : Nat) : List BRule → List BRule → Prop where
  | nil : ShSims k n [] []
  | cons {r r' rs rs'} : ShSim k n r r' → ShSims k n rs rs' → ShSims k n (r :: rs) (r' :: rs')

theorem ShSims.append {k n} {a a' b b' : List BRule} (h1 : ShSims k n a a') (h2 : ShSims k n b b') : ShSims k n (a ++ b) (a' ++ b') := by
  induction h1 with
  | nil => exact h2
  | cons hr _ ih => exact .cons hr ih

theorem ShSims.opt {k n} (c : Bool) {r r' : BRule} (h : ShSim k n r r') : ShSims k n (if c then [r] else []) (if c then [r'] else []) := by
  cases c
  · exact .nil
  · exact .cons h .nil

theorem runTerminators_sh {k n} {ts ts' : List BRule} (hs : ShSims k n ts ts') :
    ∀ {tt spre pre s s'} (line endLine : Nat) (b : Bool) (s1 : BState), TR tt true k n spre pre s s' → runTerminators ts s line endLine = .ok (b, s1) →
      ∃ s1', runTerminators ts' s' (line + n) (endLine + n) = .ok (b, s1') ∧ TR tt true k n spre pre s1 s1' := by
  induction hs with
  | nil =>
    intro tt spre pre s s' line endLine b s1 hsr h
    simp only [runTerminators, Except.ok.injEq, Prod.mk.injEq] at h
    obtain ⟨h1, h2⟩ := h; subst h1; subst h2
    exact ⟨_, rfl, hsr⟩
  | @cons r r' rs rs' hr _ ih =>
    intro tt spre pre s s' line endLine b s1 hsr h
    simp only [runTerminators] at h ⊢
    cases hq : r s line endLine true with
    | error e => rw [hq] at h; cases h
    | ok v =>
      obtain ⟨m, t⟩ := v
      rw [hq] at h
      obtain ⟨t', hq', hsr'⟩ := hr tt true spre pre s s' line endLine true m t hsr (fun _ => rfl) hq
      rw [hq']
      cases m with
      | true =>
        simp only [Except.ok.injEq, Prod.mk.injEq] at h
        obtain ⟨h1, h2⟩ := h; subst h1; subst h2
        exact ⟨_, rfl, hsr'⟩
      | false => exact ih line endLine b s1 hsr' h

theorem paraScan_sh {k n} {ts ts' : List BRule} (hs : ShSims k n ts ts') (endLine : Nat) :
    ∀ (fuel next : Nat) {tt spre pre s s'} (r : Nat) (s1 : BState), TR tt true k n spre pre s s' → paraScan ts endLine fuel next s = .ok (r, s1) →
      ∃ s1', paraScan ts' (endLine + n) fuel (next + n) s' = .ok (r + n, s1') ∧ TR tt true k n spre pre s1 s1' := by
  intro fuel
  induction fuel with
  | zero => intro next tt spre pre s s' r s1 _ h; simp [paraScan] at h
  | succ f ih =>
    intro next tt spre pre s s' r s1 hsr h
    simp only [paraScan] at h ⊢
    have c0 : (next + n < endLine + n) = (next < endLine) := propext ⟨fun h => by omega, fun h => by omega⟩
    have e : next + n + 1 = next + 1 + n := by omega
    simp only [c0]
    split at h
    · rename_i hlt
      simp only [hlt, ↓reduceIte]
      obtain ⟨l, hg, h⟩ := getL_cases h
      obtain ⟨l', hg', hz, _⟩ := getL_sh hsr next (next + n) rfl l hg
      simp only [hg', zb_empty hz, (zb_eq hz).1, hsr.blkIndent]
      split at h
      · rename_i h1; simp only [h1, ↓reduceIte]
        simp only [Except.ok.injEq, Prod.mk.injEq] at h; obtain ⟨e1, e2⟩ := h; subst e1; subst e2; exact ⟨_, rfl, hsr⟩
      · rename_i h1
        simp only [h1, ↓reduceIte]
        split at h
        · rename_i h2; simp only [h2, ↓reduceIte]; rw [e]; exact ih _ _ _ hsr h
        · rename_i h2
          simp only [h2, ↓reduceIte]
          split at h
          · rename_i h3; simp only [h3, ↓reduceIte]; rw [e]; exact ih _ _ _ hsr h
          · rename_i h3
            simp only [h3, ↓reduceIte]
            cases hq : runTerminators ts s next endLine with
            | error e => rw [hq] at h; cases h
            | ok v =>
              obtain ⟨b, t⟩ := v
              rw [hq] at h
              obtain ⟨t', hq', hsr'⟩ := runTerminators_sh hs next endLine b t hsr hq
              rw [hq']
              cases b with
              | true =>
                simp only [Except.ok.injEq, Prod.mk.injEq] at h; obtain ⟨e1, e2⟩ := h; subst e1; subst e2; exact ⟨_, rfl, hsr'⟩
              | false => simp only at h ⊢; rw [e]; exact ih _ _ _ hsr' h
    · rename_i hlt
      simp only [hlt, ↓reduceIte]
      simp only [Except.ok.injEq, Prod.mk.injEq] at h; obtain ⟨e1, e2⟩ := h; subst e1; subst e2; exact ⟨_, rfl, hsr⟩

theorem TR.setParent {tt pp k n spre pre s s'} (h : TR tt pp k n spre pre s s') (pp0 : Bool) (p p' : String) (hp : pp0 = true → p' = p) :
    TR tt pp0 k n spre pre { s with parentType := p } { s' with parentType := p' } :=
  ⟨h.lines, h.len, h.notab, h.line, h.lineMax, h.blkIndent, h.level, h.listIndent, h.tight, hp, h.tokens⟩

theorem sh_paragraph (k : Int) (n : Nat) {ts ts' : List BRule} (hs : ShSims k n ts ts') (ws : List Nat) :
    ShSim k n (ruleParagraph ts ws) (ruleParagraph ts' ws) := by
  intro tt pp spre pre s s' line endLine silent m t hsr hsil h
  simp only [ruleParagraph] at h ⊢
  cases hq : paraScan ts s.lineMax (s.lineMax - line + 1) (line + 1) { s with parentType := "paragraph" } with
  | error e => rw [hq] at h; cases h
  | ok v =>
    obtain ⟨next, s1⟩ := v
    rw [hq] at h
    obtain ⟨s1', hq', hsr1⟩ := paraScan_sh hs s.lineMax _ _ next s1 (hsr.setParent true "paragraph" "paragraph" (fun _ => rfl)) hq
    have hq'' : paraScan ts' s'.lineMax (s'.lineMax - (line + n) + 1) (line + n + 1) { s' with parentType := "paragraph" } = .ok (next + n, s1') := by
      have e1 : s'.lineMax - (line + n) + 1 = s.lineMax - line + 1 := by rw [hsr.lineMax]; omega
      have e2 : line + n + 1 = line + 1 + n := by omega
      rw [e1, e2]
      have hq3 := hq'
      rw [← hsr.lineMax] at hq3
      exact hq3
    rw [hq'']
    simp only at h ⊢
    cases hgl : getLinesB s1 line next s1.blkIndent false with
    | error e => rw [hgl] at h; cases h
    | ok c =>
      rw [hgl] at h
      have e : getLinesB s1' (line + n) (next + n) s1'.blkIndent false = .ok c := by
        rw [hsr1.blkIndent]; exact getLinesB_sh hsr1 _ _ _ _ rfl rfl _ _ _ hgl
      simp only [e]
      simp only [Except.ok.injEq, Prod.mk.injEq] at h; obtain ⟨e1, e2⟩ := h; subst e1; subst e2
      refine ⟨_, rfl, ?_⟩
      have h3 := (((hsr1.setLineNo next (next + n) rfl).push "paragraph_open" "p" 1 (some (line, next)) (some (line + n, next + n)) none "" "" "" rfl).push
        "inline" "" 0 (some (line, next)) (some (line + n, next + n)) (some []) (String.ofList (pyStrip ws c)) "" "" rfl).push "paragraph_close" "p" (-1) none none none "" "" "" rfl
      exact h3.setParent pp s.parentType s'.parentType hsr.parent

/-! ### the loop -/

theorem skipEmptyLines_sh {tt pp k n spre pre s s'} (h : TR tt pp k n spre pre s s') : ∀ (fuel from_ : Nat),
    skipEmptyLines s' fuel (from_ + n) = skipEmptyLines s fuel from_ + n := by
  intro fuel
  induction fuel with
  | zero => intro f; rfl
  | succ m ih =>
    intro f
    simp only [skipEmptyLines, h.lineMax]
    have c0 : (f + n < s.lineMax + n) = (f < s.lineMax) := propext ⟨fun h => by omega, fun h => by omega⟩
    have e : f + n + 1 = f + 1 + n := by omega
    simp only [c0]
    split
    · cases hq : s.lines[f]? with
      | none =>
        simp only [h.get_none f (f + n) rfl hq]; rw [e]; exact ih _
      | some l =>
        obtain ⟨l', h1, h2⟩ := h.get f (f + n) rfl l hq
        simp only [h1, zb_empty h2]
        split
        · rw [e]; exact ih _
        · rfl
    · rfl

theorem skipEmptyLines_fuel (s : BState) : ∀ (f f' from_ : Nat), s.lineMax - from_ < f → s.lineMax - from_ < f' →
    skipEmptyLines s f from_ = skipEmptyLines s f' from_ := by
  intro f
  induction f with
  | zero => intro f' fr h; omega
  | succ m ih =>
    intro f' fr h1 h2
    cases f' with
    | zero => omega
    | succ m' =>
      simp only [skipEmptyLines]
      split
      · rename_i hlt
        cases s.lines[fr]? with
        | none => simp only; exact ih m' (fr + 1) (by omega) (by omega)
        | some l =>
          simp only
          split
          · exact ih m' (fr + 1) (by omega) (by omega)
          · rfl
      · rfl

theorem isEmpty_sh {tt pp k n spre pre s s'} (h : TR tt pp k n spre pre s s') (i : Nat) : s'.isEmpty ((i + n : Nat) : Int) = s.isEmpty (i : Int) := by
  unfold BState.isEmpty idx
  have h1 : ¬ (((i + n : Nat) : Int) < 0) := by omega
  have h2 : ¬ ((i : Int) < 0) := by omega
  simp only [h1, h2, if_false]
  have e1 : ((i + n : Nat) : Int).toNat = i + n := Int.toNat_natCast _
  have e2 : (i : Int).toNat = i := by simp
  rw [e1, e2]
  cases hq : s.lines[i]? with
  | none => simp only [h.get_none i (i + n) rfl hq]
  | some l =>
    obtain ⟨l', a1, a2⟩ := h.get i (i + n) rfl l hq
    simp only [a1, zb_empty a2]

theorem runBlockChain_sh {k n} {rs rs' : List BRule} (hs : ShSims k n rs rs') :
    ∀ {tt pp spre pre s s'} (line endLine : Nat) (b : Bool) (s1 : BState), TR tt pp k n spre pre s s' → runBlockChain rs s line endLine = .ok (b, s1) →
      ∃ s1', runBlockChain rs' s' (line + n) (endLine + n) = .ok (b, s1') ∧ TR tt pp k n spre pre s1 s1' := by
  induction hs with
  | nil =>
    intro tt pp spre pre s s' line endLine b s1 hsr h
    simp only [runBlockChain, Except.ok.injEq, Prod.mk.injEq] at h
    obtain ⟨h1, h2⟩ := h; subst h1; subst h2
    exact ⟨_, rfl, hsr⟩
  | @cons r r' rs rs' hr _ ih =>
    intro tt pp spre pre s s' line endLine b s1 hsr h
    simp only [runBlockChain] at h ⊢
    cases hq : r s line endLine false with
    | error e => rw [hq] at h; cases h
    | ok v =>
      obtain ⟨m, t⟩ := v
      rw [hq] at h
      obtain ⟨t', hq', hsr'⟩ := hr tt pp spre pre s s' line endLine false m t hsr (fun h => by cases h) hq
      rw [hq']
      cases m with
      | true =>
        simp only [Except.ok.injEq, Prod.mk.injEq] at h
        obtain ⟨h1, h2⟩ := h; subst h1; subst h2
        exact ⟨_, rfl, hsr'⟩
      | false => exact ih line endLine b s1 hsr' h

theorem TR.setTight {tt pp k n spre pre s s'} (h : TR tt pp k n spre pre s s') (b b' : Bool) (hb : tt = true → b' = b) :
    TR tt pp k n spre pre { s with tight := b } { s' with tight := b' } :=
  ⟨h.lines, h.len, h.notab, h.line, h.lineMax, h.blkIndent, h.level, h.listIndent, hb, h.parent, h.tokens⟩

theorem blockLoop_sh {k n} {rules rules' : List BRule} (hs : ShSims k n rules rules') (mn : Int) (endLine : Nat) :
    ∀ (fuel line : Nat) (he he' : Bool) {tt pp spre pre s s'} (t : BState), TR tt pp k n spre pre s s' → (tt = true → he' = he) →
      blockLoop rules mn endLine fuel line he s = .ok t →
      ∃ t', blockLoop rules' (mn + k) (endLine + n) fuel (line + n) he' s' = .ok t' ∧ TR tt pp k n spre pre t t' := by
  intro fuel
  induction fuel with
  | zero =>
    intro line he he' tt pp spre pre s s' t hsr hhe h
    simp only [blockLoop] at h ⊢
    have c0 : (line + n < endLine + n) = (line < endLine) := propext ⟨fun h => by omega, fun h => by omega⟩
    simp only [c0]
    split at h
    · cases h
    · rename_i hn; simp only [hn, ↓reduceIte]
      simp only [Except.ok.injEq] at h; subst h; exact ⟨_, rfl, hsr⟩
  | succ f ih =>
    intro line he he' tt pp spre pre s s' t hsr hhe h
    simp only [blockLoop] at h ⊢
    have c0 : (line + n < endLine + n) = (line < endLine) := propext ⟨fun h => by omega, fun h => by omega⟩
    simp only [c0]
    split at h
    · rename_i hlt
      have e0 : skipEmptyLines s' (s'.lineMax + 1) (line + n) = skipEmptyLines s (s.lineMax + 1) line + n := by
        rw [hsr.lineMax, skipEmptyLines_sh hsr, skipEmptyLines_fuel s (s.lineMax + n + 1) (s.lineMax + 1) line (by omega) (by omega)]
      simp only [hlt, ↓reduceIte, e0]
      generalize skipEmptyLines s (s.lineMax + 1) line = line1 at h ⊢
      have hsr1 := hsr.setLineNo line1 (line1 + n) rfl
      have c1 : (line1 + n ≥ endLine + n) = (line1 ≥ endLine) := propext ⟨fun h => by omega, fun h => by omega⟩
      simp only [c1]
      split at h
      · rename_i h1; simp only [h1, ↓reduceIte]
        simp only [Except.ok.injEq] at h; subst h; exact ⟨_, rfl, hsr1⟩
      · rename_i h1
        simp only [h1, ↓reduceIte]
        cases hq : s.lines[line1]? with
        | none => simp only [hq] at h; cases h
        | some l =>
          simp only [hq] at h
          obtain ⟨l', hq', hz⟩ := hsr.get line1 (line1 + n) rfl l hq
          have c2 : (l'.sCount < s'.blkIndent) = (l.sCount < s.blkIndent) := by rw [(zb_eq hz).1, hsr.blkIndent]
          have c3 : (s'.level ≥ mn + k) = (s.level ≥ mn) := by rw [hsr.level]; exact propext ⟨fun h => by omega, fun h => by omega⟩
          simp only [hq', c2, c3]
          split at h
          · rename_i h2; simp only [h2, ↓reduceIte]
            simp only [Except.ok.injEq] at h; subst h; exact ⟨_, rfl, hsr1⟩
          · rename_i h2
            simp only [h2, ↓reduceIte]
            split at h
            · rename_i h3
              simp only [h3, ↓reduceIte]
              simp only [Except.ok.injEq] at h; subst h; exact ⟨_, rfl, hsr.setLineNo endLine (endLine + n) rfl⟩
            · rename_i h3
              simp only [h3, ↓reduceIte]
              cases hc : runBlockChain rules { s with line := line1 } line1 endLine with
              | error e => rw [hc] at h; cases h
              | ok v =>
                obtain ⟨b, s2⟩ := v
                rw [hc] at h
                obtain ⟨s2', hc', hsr2⟩ := runBlockChain_sh hs line1 endLine b s2 hsr1 hc
                rw [hc']
                simp only at h ⊢
                rcases s2' with ⟨lines', ln', lm', bi', lv', tg', pt', tk', li'⟩
                have hln : ln' = s2.line + n := hsr2.line
                subst hln
                have hsr3 := hsr2.setTight (!he) (!he') (fun h => by rw [hhe h])
                have c4 : (s2.line + n ≤ line1 + n) = (s2.line ≤ line1) := propext ⟨fun h => by omega, fun h => by omega⟩
                simp only [c4]
                split at h
                · cases h
                · rename_i h4
                  have hpos : 1 ≤ s2.line := by
                    have : ¬ s2.line ≤ line1 := h4
                    omega
                  have c5 : (((s2.line + n : Nat) : Int) - 1 < ((endLine + n : Nat) : Int)) = ((s2.line : Int) - 1 < (endLine : Int)) :=
                    propext ⟨fun h => by omega, fun h => by omega⟩
                  have e5 : ((s2.line + n : Nat) : Int) - 1 = ((s2.line - 1 + n : Nat) : Int) := by omega
                  have e6 : (s2.line : Int) - 1 = ((s2.line - 1 : Nat) : Int) := by omega
                  simp only [h4, ↓reduceIte, c5]
                  rw [e5, isEmpty_sh hsr3 (s2.line - 1), ← e6]
                  cases he1 : (if (s2.line : Int) - 1 < ↑endLine then ({ s2 with tight := !he } : BState).isEmpty (↑s2.line - 1) else Except.ok false) with
                  | error e => rw [he1] at h; cases h
                  | ok e1 =>
                    rw [he1] at h
                    simp only at h ⊢
                    have c6 : (s2.line + n < endLine + n) = (s2.line < endLine) := propext ⟨fun h => by omega, fun h => by omega⟩
                    simp only [c6]
                    split at h
                    · rename_i h5
                      simp only [h5, ↓reduceIte]
                      rw [isEmpty_sh hsr3 s2.line]
                      cases he2 : ({ s2 with tight := !he } : BState).isEmpty ↑s2.line with
                      | error e => rw [he2] at h; cases h
                      | ok e2 =>
                        rw [he2] at h
                        simp only at h ⊢
                        have e7 : s2.line + n + 1 = s2.line + 1 + n := by omega
                        split at h
                        · rename_i h6; simp only [h6, ↓reduceIte]
                          rw [e7]
                          exact ih _ _ _ _ (hsr3.setLineNo (s2.line + 1) (s2.line + 1 + n) rfl) (fun _ => rfl) h
                        · rename_i h6; simp only [h6, ↓reduceIte]
                          exact ih _ _ _ _ hsr3 (fun h => by rw [hhe h]) h
                    · rename_i h5
                      simp only [h5, ↓reduceIte]
                      exact ih _ _ _ _ hsr3 (fun h => by rw [hhe h]) h
    · rename_i hlt
      simp only [hlt, ↓reduceIte]
      simp only [Except.ok.injEq] at h; subst h; exact ⟨_, rfl, hsr⟩

/-! ### the quote rule -/

theorem drop_set_shift {α} (l : List α) (i n : Nat) (x : α) : (l.set (i + n) x).drop n = (l.drop n).set i x := by
  rw [List.set_drop, Nat.add_comm]

theorem TR.setLine {tt pp k n spre pre s s'} (h : TR tt pp k n spre pre s s') (i j : Nat) (hj : j = i + n) {a a' : BLine} (hz : zb a' = zb a) (ha : '\t' ∉ a.text) :
    TR tt pp k n spre pre (s.setLine i a) (s'.setLine j a') := by
  subst hj
  refine ⟨?_, ?_, h.notab.set i ha, h.line, h.lineMax, h.blkIndent, h.level, h.listIndent, h.tight, h.parent, h.tokens⟩
  · show LR (s.lines.set i a) ((s'.lines.set (i + n) a').drop n)
    rw [drop_set_shift]; exact h.lines.set i hz
  · show (s'.lines.set (i + n) a').length = (s.lines.set i a).length + n
    simp [h.len]

theorem TR.setLineMax {tt pp k n spre pre s s'} (h : TR tt pp k n spre pre s s') (a a' : Nat) (ha : a' = a + n) :
    TR tt pp k n spre pre { s with lineMax := a } { s' with lineMax := a' } :=
  ⟨h.lines, h.len, h.notab, h.line, ha, h.blkIndent, h.level, h.listIndent, h.tight, h.parent, h.tokens⟩

theorem TR.setBlk {tt pp k n spre pre s s'} (h : TR tt pp k n spre pre s s') (b : Int) : TR tt pp k n spre pre { s with blkIndent := b } { s' with blkIndent := b } :=
  ⟨h.lines, h.len, h.notab, h.line, h.lineMax, rfl, h.level, h.listIndent, h.tight, h.parent, h.tokens⟩

theorem quoteScan_sh {k n} {ts ts' : List BRule} (hs : ShSims k n ts ts') (endLine : Nat) :
    ∀ (fuel next : Nat) (le : Bool) {tt spre pre s s'} (sv sv' : List BLine) (nx : Nat) (s2 : BState) (sv2 : List BLine),
      TR tt true k n spre pre s s' → LRs sv sv' → quoteScan ts endLine fuel next le s sv = .ok (nx, s2, sv2) →
      ∃ s2' sv2', quoteScan ts' (endLine + n) fuel (next + n) le s' sv' = .ok (nx + n, s2', sv2') ∧ TR tt true k n spre pre s2 s2' ∧ LRs sv2 sv2' := by
  intro fuel
  induction fuel with
  | zero => intro next le tt spre pre s s' sv sv' nx s2 sv2 _ _ h; simp [quoteScan] at h
  | succ f ih =>
    intro next le tt spre pre s s' sv sv' nx s2 sv2 hsr hsv h
    simp only [quoteScan] at h ⊢
    have c0 : (next + n < endLine + n) = (next < endLine) := propext ⟨fun h => by omega, fun h => by omega⟩
    have e : next + n + 1 = next + 1 + n := by omega
    simp only [c0]
    have fin : ∀ {x : BState} {x' : BState} {y y' : List BLine}, TR tt true k n spre pre x x' → LRs y y' →
        (Except.ok (next, x, y) : Except PyErr (Nat × BState × List BLine)) = .ok (nx, s2, sv2) →
        ∃ s2' sv2', (Except.ok (next + n, x', y') : Except PyErr (Nat × BState × List BLine)) = .ok (nx + n, s2', sv2') ∧ TR tt true k n spre pre s2 s2' ∧ LRs sv2 sv2' := by
      intro x x' y y' hx hy he
      simp only [Except.ok.injEq, Prod.mk.injEq] at he
      obtain ⟨e1, e2, e3⟩ := he; subst e1; subst e2; subst e3
      exact ⟨_, _, rfl, hx, hy⟩
    split at h
    · rename_i hlt
      simp only [hlt, ↓reduceIte]
      obtain ⟨l, hg, h⟩ := getL_cases h
      obtain ⟨l', hg', hz, hnt⟩ := getL_sh hsr next (next + n) rfl l hg
      have c1 : (l'.sCount < s'.blkIndent) = (l.sCount < s.blkIndent) := by rw [(zb_eq hz).1, hsr.blkIndent]
      simp only [hg', zb_empty hz, zb_body hz, c1]
      split at h
      · rename_i h1; simp only [h1, ↓reduceIte]; exact fin hsr hsv h
      · rename_i h1
        simp only [h1, ↓reduceIte]
        split at h
        · rename_i h2
          simp only [h2, ↓reduceIte]
          obtain ⟨q1, q2, q3⟩ := quoteStrip_sim hz hnt
          rw [q2, e]
          exact ih _ _ _ _ _ _ _ (hsr.setLine next (next + n) rfl q1 q3) (hsv.snoc hz hnt) h
        · rename_i h2
          simp only [h2, ↓reduceIte]
          split at h
          · rename_i h3; simp only [h3, ↓reduceIte]; exact fin hsr hsv h
          · rename_i h3
            have hle : le = false := by simpa using h3
            subst hle
            simp only [Bool.false_eq_true, ↓reduceIte]
            cases hq : runTerminators ts s next endLine with
            | error e => rw [hq] at h; cases h
            | ok v =>
              obtain ⟨b, s1⟩ := v
              rw [hq] at h
              obtain ⟨s1', hq', hsr1⟩ := runTerminators_sh hs next endLine b s1 hsr hq
              rw [hq']
              cases b with
              | true =>
                simp only at h ⊢
                have c2 : (s1'.blkIndent != 0) = (s1.blkIndent != 0) := by rw [hsr1.blkIndent]
                simp only [c2]
                split at h
                · rename_i h4
                  simp only [h4, ↓reduceIte]
                  obtain ⟨l1, hg1, h⟩ := getL_cases h
                  obtain ⟨l1', hg1', hz1, hnt1⟩ := getL_sh hsr1 next (next + n) rfl l1 hg1
                  simp only [hg1']
                  have hz2 : zb ({ l1' with sCount := l1'.sCount - s1'.blkIndent } : BLine) = zb { l1 with sCount := l1.sCount - s1.blkIndent } := by
                    obtain ⟨a1, a2, a3, a4⟩ := zb_eq hz1
                    simp [zb, a1, a2, a3, a4, hsr1.blkIndent]
                  exact fin ((hsr1.setLineMax next (next + n) rfl).setLine next (next + n) rfl hz2 hnt1) (hsv.snoc hz1 hnt1) h
                · rename_i h4
                  simp only [h4, ↓reduceIte]
                  exact fin (hsr1.setLineMax next (next + n) rfl) hsv h
              | false =>
                simp only at h ⊢
                obtain ⟨l1, hg1, h⟩ := getL_cases h
                obtain ⟨l1', hg1', hz1, hnt1⟩ := getL_sh hsr1 next (next + n) rfl l1 hg1
                simp only [hg1']
                have hz2 : zb ({ l1' with sCount := -1 } : BLine) = zb { l1 with sCount := -1 } := by
                  obtain ⟨a1, a2, a3, a4⟩ := zb_eq hz1
                  simp [zb, a2, a3, a4]
                rw [e]
                exact ih _ _ _ _ _ _ _ (hsr1.setLine next (next + n) rfl hz2 hnt1) (hsv.snoc hz1 hnt1) h
    · rename_i hlt; simp only [hlt, ↓reduceIte]; exact fin hsr hsv h

theorem restoreLines_sh {tt pp k n spre pre} : ∀ (sv sv' : List BLine) (s s' : BState) (start : Nat), TR tt pp k n spre pre s s' → LRs sv sv' →
    TR tt pp k n spre pre (restoreLines s start sv) (restoreLines s' (start + n) sv') := by
  intro sv
  induction sv with
  | nil =>
    intro sv' s s' start hsr hsv
    have : sv' = [] := by
      have := congrArg List.length hsv.1; simp at this; exact List.eq_nil_of_length_eq_zero this.symm
    subst this; exact hsr
  | cons a rest ih =>
    intro sv' s s' start hsr hsv
    cases sv' with
    | nil => have := congrArg List.length hsv.1; simp at this
    | cons a' rest' =>
      have hm := hsv.1
      simp only [List.map_cons, List.cons.injEq] at hm
      simp only [restoreLines]
      have e : start + n + 1 = start + 1 + n := by omega
      rw [e]
      exact ih rest' _ _ _ (hsr.setLine start (start + n) rfl hm.1.symm (hsv.2 a (by simp))) ⟨hm.2, fun l hl => hsv.2 l (by simp [hl])⟩

theorem shift2_setMap (k : Int) (n : Nat) (t : Tok) (m) : (t.setMap m).shift2 k n = (t.shift2 k n).setMap (shiftM n m) := by cases t; rfl

theorem modify_sh (k : Int) (n : Nat) (pre ts : List Tok) (i : Nat) (m m' : Option (Nat × Nat)) (hm : m' = shiftM n m) :
    (pre ++ ts.map (Tok.shift2 k n)).modify (pre.length + i) (fun t => t.setMap m') = pre ++ (ts.modify i (fun t => t.setMap m)).map (Tok.shift2 k n) := by
  subst hm
  induction pre with
  | nil =>
    simp only [List.nil_append, List.length_nil, Nat.zero_add]
    induction ts generalizing i with
    | nil => simp
    | cons t rest ih =>
      cases i with
      | zero => simp [shift2_setMap]
      | succ j => simp [ih]
  | cons p ps ih =>
    simp only [List.cons_append, List.length_cons]
    have : ps.length + 1 + i = (ps.length + i) + 1 := by omega
    rw [this, List.modify_succ_cons, ih]

theorem blockTokenize_sh {k n} {rules rules' : List BRule} (hs : ShSims k n rules rules') (mn : Int) {tt pp spre pre s s'} (a b : Nat) (t : BState)
    (hsr : TR tt pp k n spre pre s s') (h : blockTokenize rules mn s a b = .ok t) :
    ∃ t', blockTokenize rules' (mn + k) s' (a + n) (b + n) = .ok t' ∧ TR tt pp k n spre pre t t' := by
  unfold blockTokenize at h ⊢
  have e : b + n - (a + n) + 1 = b - a + 1 := by omega
  rw [e]
  exact blockLoop_sh hs mn b _ a false false t hsr (fun _ => rfl) h


/-- start a new token segment: both prefixes become the whole token lists -/
theorem TR.rebase {tt pp k n spre pre s s'} (h : TR tt pp k n spre pre s s') : TR tt pp k n s.tokens s'.tokens s s' :=
  ⟨h.lines, h.len, h.notab, h.line, h.lineMax, h.blkIndent, h.level, h.listIndent, h.tight, h.parent, ⟨[], by simp, by simp⟩⟩

/-- a push whose two maps need not be related yet (the opening token of a container, patched later): related after a rebase -/
theorem TR.pushRebase {tt pp k n spre pre s s'} (h : TR tt pp k n spre pre s s') (a b : String) (ne : Int) (m m' c d e f) :
    TR tt pp k n (s.pushFull a b ne m c d e f).tokens (s'.pushFull a b ne m' c d e f).tokens (s.pushFull a b ne m c d e f) (s'.pushFull a b ne m' c d e f) := by
  refine ⟨h.lines, h.len, h.notab, h.line, h.lineMax, h.blkIndent, ?_, h.listIndent, h.tight, h.parent, ⟨[], by simp, by simp⟩⟩
  simp only [BState.pushFull, h.level]; split <;> split <;> omega

theorem setMap_pushed_shift (k : Int) (n : Nat) (s s' : BState) (hl : s'.level = s.level + k) (a b : String) (ne : Int) (m0 m0' m m' c d e f)
    (hm : m' = shiftM n m) :
    (pushedTok s' a b ne m0' c d e f).setMap m' = ((pushedTok s a b ne m0 c d e f).setMap m).shift2 k n := by
  subst hm
  by_cases hn : ne < 0
  · simp only [pushedTok, Tok.setMap, Tok.shift2, hl, hn, if_true]; congr 1; omega
  · simp only [pushedTok, Tok.setMap, Tok.shift2, hl, hn, if_false]

theorem sh_quote (k : Int) (n : Nat) (codeOn : Bool) {ts ts' inner inner' : List BRule} (hts : ShSims k n ts ts') (hin : ShSims k n inner inner') (mn : Int) :
    ShSim k n (ruleBlockquote codeOn ts inner mn) (ruleBlockquote codeOn ts' inner' (mn + k)) := by
  intro tt pp spre pre s s' line endLine silent m t hsr hsil h
  unfold ruleBlockquote at h
  obtain ⟨l, hg, h⟩ := getL_cases h
  obtain ⟨l', hg', hz, hnt⟩ := getL_sh hsr line (line + n) rfl l hg
  simp only [ruleBlockquote, hg', isCode_sh hsr codeOn hz, zb_body hz]
  cases hc : isCodeLine codeOn s l <;> simp only [hc, ↓reduceIte, Bool.false_eq_true] at h ⊢
  · cases hh : (!l.body.head? == some '>') <;> simp only [hh, ↓reduceIte, Bool.false_eq_true] at h ⊢
    · cases silent <;> simp only [↓reduceIte, Bool.false_eq_true] at h ⊢
      · -- the real work
        obtain ⟨q1, q2, q3⟩ := quoteStrip_sim hz hnt
        have hsr1 := ((hsr.setLine line (line + n) rfl q1 q3).setParent true "blockquote" "blockquote" (fun _ => rfl))
        cases hq : quoteScan ts endLine (endLine - line + 1) (line + 1) (quoteStrip l).2
            { (s.setLine line (quoteStrip l).1) with parentType := "blockquote" } [l] with
        | error e => rw [hq] at h; cases h
        | ok v =>
          obtain ⟨next, s2, saved⟩ := v
          rw [hq] at h
          obtain ⟨s2', saved', hq', hsr2, hsv2⟩ := quoteScan_sh hts endLine _ _ _ [l] [l'] next s2 saved hsr1
            ⟨by simp [hz], fun x hx => by simp at hx; subst hx; exact hnt⟩ hq
          have e1 : endLine + n - (line + n) + 1 = endLine - line + 1 := by omega
          have e2 : line + n + 1 = line + 1 + n := by omega
          rw [q2, e1, e2, hq']
          simp only at h ⊢
          have hsr3 := ((hsr2.setBlk 0).pushRebase "blockquote_open" "blockquote" 1 (some (line, 0)) (some (line + n, 0)) none "" ">" "")
          cases hr : blockTokenize inner mn (({ s2 with blkIndent := 0 }).pushFull "blockquote_open" "blockquote" 1 (some (line, 0)) none "" ">" "") line next with
          | error e => rw [hr] at h; cases h
          | ok s4 =>
            rw [hr] at h
            obtain ⟨s4', hr', hsr4⟩ := blockTokenize_sh hin mn line next s4 hsr3 hr
            rw [hr']
            simp only [Except.ok.injEq, Prod.mk.injEq] at h ⊢
            obtain ⟨e1, e2⟩ := h; subst e1; subst e2
            refine ⟨_, ⟨rfl, rfl⟩, ?_⟩
            -- the state after the closing token and the map patch
            obtain ⟨ts2, a2, b2⟩ := hsr2.tokens
            obtain ⟨ts4, a4, b4⟩ := hsr4.tokens
            have hsr6 : TR tt pp k n spre pre
                (finish6 (s4.pushFull "blockquote_close" "blockquote" (-1) none none "" ">" "") s.lineMax s.parentType s2.tokens.length line)
                (finish6 (s4'.pushFull "blockquote_close" "blockquote" (-1) none none "" ">" "") s'.lineMax s'.parentType s2'.tokens.length (line + n)) := by
              refine ⟨hsr4.lines, hsr4.len, hsr4.notab, hsr4.line, hsr.lineMax, hsr4.blkIndent, ?_, hsr4.listIndent, hsr4.tight, hsr.parent, ?_⟩
              · unfold finish6
                show (s4'.pushFull "blockquote_close" "blockquote" (-1) none none "" ">" "").level
                  = (s4.pushFull "blockquote_close" "blockquote" (-1) none none "" ">" "").level + k
                rw [pushFull_level_close, pushFull_level_close, hsr4.level]; omega
              · refine ⟨ts2 ++ [(pushedTok { s2 with blkIndent := 0 } "blockquote_open" "blockquote" 1 (some (line, 0)) none "" ">" "").setMap (some (line, s4.line))]
                    ++ ts4 ++ [pushedTok s4 "blockquote_close" "blockquote" (-1) none none "" ">" ""], ?_, ?_⟩
                · show List.modify (s4.pushFull _ _ _ _ _ _ _ _).tokens _ _ = _
                  rw [pushFull_tokens, a4, pushFull_tokens]
                  show List.modify (s2.tokens ++ [_] ++ ts4 ++ [_]) _ _ = _
                  simp only [List.append_assoc, List.cons_append, List.nil_append]
                  rw [C02.modify_append_len, a2]
                  simp
                · show List.modify (s4'.pushFull _ _ _ _ _ _ _ _).tokens _ _ = _
                  rw [pushFull_tokens, b4, pushFull_tokens]
                  show List.modify (s2'.tokens ++ [_] ++ ts4.map _ ++ [_]) _ _ = _
                  simp only [List.append_assoc, List.cons_append, List.nil_append]
                  rw [C02.modify_append_len]
                  have hlv2 : ({ s2' with blkIndent := 0 } : BState).level = ({ s2 with blkIndent := 0 } : BState).level + k := hsr2.level
                  rw [setMap_pushed_shift k n { s2 with blkIndent := 0 } { s2' with blkIndent := 0 } hlv2 "blockquote_open" "blockquote" 1
                    (some (line, 0)) (some (line + n, 0)) (some (line, s4.line)) (some (line + n, (s4'.pushFull "blockquote_close" "blockquote" (-1) none none "" ">" "").line))
                    none "" ">" "" (shiftM_some rfl hsr4.line)]
                  rw [shift2_pushed k n s4 s4' hsr4.level "blockquote_close" "blockquote" (-1) none none none "" ">" "" rfl, b2]
                  simp
            have hsr7 := restoreLines_sh saved saved' _ _ line hsr6 hsv2
            have hfin := hsr7.setBlk s2.blkIndent
            rw [hsr2.blkIndent]
            exact hfin
      · sh_same h hsr
    · sh_same h hsr
  · sh_same h hsr

/-! ### the chains -/

theorem qTerminators_shs (k : Int) (n : Nat) (c : MiniCfg) (ws : List Nat) (mn : Int) :
    ShSims k n (qTerminators c ws mn) (qTerminators c ws (mn + k)) := by
  unfold qTerminators
  exact (((ShSims.opt c.fence (sh_fence k n c.code)).append (.cons (sh_quote k n c.code .nil .nil mn) .nil)).append
    (ShSims.opt c.hr (sh_hr k n c.code))).append (ShSims.opt c.heading (sh_heading k n c.code ws))

theorem qChain_shs (k : Int) (n : Nat) (c : MiniCfg) (ws : List Nat) (mn : Int) : ∀ d : Nat,
    ShSims k n (qChain c ws mn d) (qChain c ws (mn + k) d) := by
  intro d
  induction d with
  | zero => exact .nil
  | succ d ih =>
    unfold qChain
    exact (((((ShSims.opt c.code (sh_code k n c.code)).append (ShSims.opt c.fence (sh_fence k n c.code))).append
      (.cons (sh_quote k n c.code (qTerminators_shs k n c ws mn) ih mn) .nil)).append (ShSims.opt c.hr (sh_hr k n c.code))).append
      (ShSims.opt c.heading (sh_heading k n c.code ws))).append (.cons (sh_paragraph k n (qTerminators_shs k n c ws mn) ws) .nil)

/-- a loop that returns with some fuel returns the same with more -/
theorem blockLoop_fuel (rules : List BRule) (mn : Int) (endLine : Nat) : ∀ (f line : Nat) (he : Bool) (s t : BState),
    blockLoop rules mn endLine f line he s = .ok t → ∀ f', f ≤ f' → blockLoop rules mn endLine f' line he s = .ok t := by
  intro f
  induction f with
  | zero =>
    intro line he s t h f' _
    simp only [blockLoop] at h
    split at h
    · cases h
    · rename_i hn
      cases f' with
      | zero => simp only [blockLoop, hn, ↓reduceIte]; exact h
      | succ m => simp only [blockLoop, hn, ↓reduceIte]; exact h
  | succ m ih =>
    intro line he s t h f' hf
    cases f' with
    | zero => omega
    | succ m' =>
      simp only [blockLoop] at h ⊢
      by_cases hlt : line < endLine
      · simp only [hlt, ↓reduceIte] at h ⊢
        generalize skipEmptyLines s (s.lineMax + 1) line = line1 at h ⊢
        by_cases h1 : line1 ≥ endLine
        · simp only [h1, ↓reduceIte] at h ⊢; exact h
        · simp only [h1, ↓reduceIte] at h ⊢
          cases hq : s.lines[line1]? with
          | none => simp only [hq] at h; cases h
          | some l =>
            simp only [hq] at h ⊢
            by_cases h2 : l.sCount < s.blkIndent
            · simp only [h2, ↓reduceIte] at h ⊢; exact h
            · simp only [h2, ↓reduceIte] at h ⊢
              by_cases h3 : s.level ≥ mn
              · simp only [h3, ↓reduceIte] at h ⊢; exact h
              · simp only [h3, ↓reduceIte] at h ⊢
                cases hc : runBlockChain rules { s with line := line1 } line1 endLine with
                | error e => rw [hc] at h; cases h
                | ok v =>
                  obtain ⟨b, s2⟩ := v
                  rw [hc] at h
                  simp only at h ⊢
                  by_cases h4 : s2.line ≤ line1
                  · simp only [h4, ↓reduceIte] at h; cases h
                  · simp only [h4, ↓reduceIte] at h ⊢
                    cases he1 : (if (s2.line : Int) - 1 < ↑endLine then ({ s2 with tight := !he } : BState).isEmpty (↑s2.line - 1) else Except.ok false) with
                    | error e => rw [he1] at h; cases h
                    | ok e1 =>
                      rw [he1] at h
                      simp only at h ⊢
                      by_cases h5 : s2.line < endLine
                      · simp only [h5, ↓reduceIte] at h ⊢
                        cases he2 : ({ s2 with tight := !he } : BState).isEmpty ↑s2.line with
                        | error e => rw [he2] at h; cases h
                        | ok e2 =>
                          rw [he2] at h
                          simp only at h ⊢
                          by_cases h6 : e2 = true
                          · simp only [h6, ↓reduceIte] at h ⊢; exact ih _ _ _ _ h m' (by omega)
                          · simp only [h6, ↓reduceIte] at h ⊢; exact ih _ _ _ _ h m' (by omega)
                      · simp only [h5, ↓reduceIte] at h ⊢
                        exact ih _ _ _ _ h m' (by omega)
      · simp only [hlt, ↓reduceIte] at h ⊢; exact h

/-! ### the law -/

/-- the state of a parse whose top-level loop stands at the first line of `B`: `n` earlier lines of any content, any tokens so
    far, any `tight` / `parentType`; the frame fields are those of the top level (`C07.frame`: the loop restores them after every block) -/
structure AtSeam (n : Nat) (lsB : List (List Char)) (s' : BState) : Prop where
  lines : s'.lines.drop n = (stD lsB).lines
  len : s'.lines.length = lsB.length + 1 + n
  line : s'.line = n
  lineMax : s'.lineMax = lsB.length + n
  blkIndent : s'.blkIndent = 0
  level : s'.level = 0
  listIndent : s'.listIndent = -1

@[simp] theorem shift2_level0 (n : Nat) (t : Tok) : (t.shift2 0 n).level = t.level := by cases t; simp [Tok.shift2, Tok.level]
@[simp] theorem shift2_type (k : Int) (n : Nat) (t : Tok) : (t.shift2 k n).type = t.type := by cases t; rfl
@[simp] theorem shift2_map (k : Int) (n : Nat) (t : Tok) : (t.shift2 k n).map = shiftM n t.map := by cases t; rfl

/-- **C07.suffix_shift** — for every document `B` given by its lines (no tab, CR, NUL, LF inside a line; at least one line), every
subset of `code`, `fence`, `hr`, `heading`, every `maxNesting`: once the top-level loop of a parse (chains of the sub-parser with
block quotes) stands at the first line of `B`, `n` lines into the table — whatever those `n` lines contain, whatever tokens,
`tight`, `parentType` and `hasEmptyLines` the blocks before left behind, with any sufficient fuel — it returns, and what it appends
is exactly the token stream of `B` parsed on its own, every map shifted by `n`. -/
theorem suffix_shift (c : MiniCfg) (ws : List Nat) (mn : Int) (lsB : List (List Char)) (hne : lsB ≠ []) (hcl : ∀ l ∈ lsB, Clean l)
    (n : Nat) (s' : BState) (hs : AtSeam n lsB s') (tsB : List Tok) (hB : qParse c ws mn (srcOf lsB) = .ok tsB)
    (f : Nat) (hf : lsB.length + 1 ≤ f) (he : Bool) :
    ∃ t', blockLoop (qChain c ws mn (mn.toNat + 1)) mn (lsB.length + n) f n he s' = .ok t'
      ∧ t'.tokens = s'.tokens ++ tsB.map (Tok.shift2 0 n) := by
  obtain ⟨l0, rest, rfl⟩ := List.exists_cons_of_ne_nil hne
  have hsrc : (srcOf (l0 :: rest)).isEmpty = false := by simp [srcOf]
  unfold qParse at hB
  simp only [hsrc, Bool.false_eq_true, ↓reduceIte, normalize_srcOf _ (fun l hl => ⟨(hcl l hl).2.2.1, (hcl l hl).2.2.2⟩),
    init_srcOf _ (fun l hl => ⟨(hcl l hl).1, (hcl l hl).2.1⟩)] at hB
  have hmaxD : (stD (l0 :: rest)).lineMax = (l0 :: rest).length := rfl
  rw [hmaxD] at hB
  cases hrun : blockTokenize (qChain c ws mn (mn.toNat + 1)) mn (stD (l0 :: rest)) 0 (l0 :: rest).length with
  | error e => rw [hrun] at hB; cases hB
  | ok tD =>
    rw [hrun] at hB
    simp only [Except.ok.injEq] at hB
    subst hB
    have hNT : NoTab (stD (l0 :: rest)).lines := by
      intro l hl
      simp only [stD, List.mem_append, List.mem_map, List.mem_singleton] at hl
      rcases hl with ⟨x, hx, rfl⟩ | rfl
      · exact (hcl x hx).2.1
      · simp [sentinelLine]
    have htr : TR false false 0 n [] s'.tokens (stD (l0 :: rest)) s' := by
      refine ⟨?_, ?_, hNT, ?_, ?_, hs.blkIndent, ?_, hs.listIndent, (fun h => by cases h), (fun h => by cases h), ⟨[], rfl, by simp⟩⟩
      · rw [hs.lines]; rfl
      · rw [hs.len, stD_len]
      · rw [hs.line]; show n = 0 + n; omega
      · rw [hs.lineMax]; rfl
      · rw [hs.level]; rfl
    unfold blockTokenize at hrun
    obtain ⟨t', hrun', htr'⟩ := blockLoop_sh (qChain_shs 0 n c ws mn (mn.toNat + 1)) mn (l0 :: rest).length _ 0 false he tD htr (fun h => by cases h) hrun
    rw [Int.add_zero, Nat.zero_add] at hrun'
    refine ⟨t', blockLoop_fuel _ _ _ _ _ _ _ _ hrun' f (by omega), ?_⟩
    obtain ⟨ts, a1, a2⟩ := htr'.tokens
    rw [List.nil_append] at a1
    rw [a2, a1]

/-- the same for a whole document `A ++ B`: if the top-level loop of its parse comes to stand at the first line of `B` (an
iteration of the loop starts there — "A ends closed, B begins a new top-level block"), the stream of the document is what the
loop had produced by then followed by the stream of `B` alone, maps shifted by the number of lines of `A` -/
theorem concat_law (c : MiniCfg) (ws : List Nat) (mn : Int) (lsA lsB : List (List Char)) (hne : lsB ≠ [])
    (hclA : ∀ l ∈ lsA, Clean l) (hclB : ∀ l ∈ lsB, Clean l) (tsB : List Tok) (hB : qParse c ws mn (srcOf lsB) = .ok tsB)
    (f : Nat) (he : Bool) (sM : BState) (hf : lsB.length + 1 ≤ f) (hM : AtSeam lsA.length lsB sM)
    (hseam : blockLoop (qChain c ws mn (mn.toNat + 1)) mn (lsA ++ lsB).length ((lsA ++ lsB).length - 0 + 1) 0 false (stD (lsA ++ lsB))
      = blockLoop (qChain c ws mn (mn.toNat + 1)) mn (lsA ++ lsB).length f lsA.length he sM) :
    qParse c ws mn (srcOf (lsA ++ lsB)) = .ok (sM.tokens ++ tsB.map (Tok.shift2 0 lsA.length)) := by
  have hcl : ∀ l ∈ lsA ++ lsB, Clean l := by
    intro l hl; rcases List.mem_append.1 hl with h | h
    · exact hclA l h
    · exact hclB l h
  have hne' : lsA ++ lsB ≠ [] := by
    intro h; exact hne (List.append_eq_nil_iff.1 h).2
  obtain ⟨l0, rest, hD⟩ := List.exists_cons_of_ne_nil hne'
  have hsrc : (srcOf (lsA ++ lsB)).isEmpty = false := by rw [hD]; simp [srcOf]
  obtain ⟨t', hrun, htok⟩ := suffix_shift c ws mn lsB hne hclB lsA.length sM hM tsB hB f hf he
  unfold qParse
  simp only [hsrc, Bool.false_eq_true, ↓reduceIte, normalize_srcOf _ (fun l hl => ⟨(hcl l hl).2.2.1, (hcl l hl).2.2.2⟩),
    init_srcOf _ (fun l hl => ⟨(hcl l hl).1, (hcl l hl).2.1⟩)]
  have hmaxD : (stD (lsA ++ lsB)).lineMax = (lsA ++ lsB).length := rfl
  have hlen : (lsA ++ lsB).length = lsB.length + lsA.length := by simp; omega
  unfold blockTokenize
  rw [hmaxD, hseam, hlen, hrun]
  simp only [htok]

/-! non-vacuity: a state at a seam (two earlier lines, tokens left behind by them, `tight` and `parentType` of the earlier blocks) -/
def demoB : List (List Char) := ["para".toList, "> q".toList, "".toList, "***".toList]

def demoSeam : BState :=
  { (stD (["# h".toList, "".toList] ++ demoB)) with line := 2, tight := true, parentType := "paragraph", tokens := [quoteClose] }

example : AtSeam 2 demoB demoSeam := by
  refine ⟨by decide, by decide, rfl, by decide, rfl, rfl, rfl⟩

example : demoB ≠ [] ∧ (∀ l ∈ demoB, Clean l) := by
  refine ⟨by decide, ?_⟩
  intro l hl
  simp only [demoB, List.mem_cons, List.not_mem_nil, or_false] at hl
  rcases hl with rfl | rfl | rfl | rfl <;> (unfold Clean; decide)

/-- type, map and level of every token: the observable the law is about -/
def shape (r : Except PyErr (List Tok)) : Option (List (String × Option (Nat × Nat) × Int)) :=
  match r with
  | .ok ts => some (ts.map (fun t => (t.type, t.map, t.level)))
  | .error _ => none

example : shape (qParse ⟨true, true, true, true⟩ [32, 9, 10] 20 (srcOf (["# h".toList, "".toList] ++ demoB)))
    = (do let a ← shape (qParse ⟨true, true, true, true⟩ [32, 9, 10] 20 (srcOf ["# h".toList, "".toList]))
          let b ← shape ((qParse ⟨true, true, true, true⟩ [32, 9, 10] 20 (srcOf demoB)).map (List.map (Tok.shift2 0 2)))
          pure (a ++ b)) := by decide +kernel

end MdIt.C07
