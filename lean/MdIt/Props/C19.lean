import MdIt.Core
import MdIt.Proofs.Smart
import MdIt.Generated.Tables
/-!
# C19 — typographic replacements are local to text and never touch structure or literals

Model: `MdIt/Core.lean` (`replacements`, `replacePass`, `replaceAt`).  The regex substitutions are
parameters: the shape theorems hold for *every* substitution function, hence for the eleven patterns
of `replacements.py` whatever they rewrite.
-/
namespace MdIt.C19

theorem setContent_same (t : Tok) (s : String) (h : t.type = "text") : SameButText t (t.setContent s) := by
  cases t
  simp only [Tok.setContent, SameButText, Tok.type, Tok.tag, Tok.nesting, Tok.attrs, Tok.map, Tok.level,
    Tok.markup, Tok.info, Tok.metaD, Tok.block, Tok.hidden] at h ⊢
  simp [h]

theorem sameButText_refl (t : Tok) : SameButText t t := by
  unfold SameButText; simp

/-- **C19.shape (one pass)** — a replacement pass returns the same number of tokens, in the same
order, and token by token everything is identical except the `content` of `text` tokens; every
non-`text` token (code spans, raw HTML, links with their destinations and titles, `text_special`
tokens holding escaped/entity characters, …) is identical. -/
theorem replacePass_shape (sub : String → String) (k : Int) (ts : List Tok) :
    AllRel SameButText ts (replacePass sub k ts) := by
  induction ts generalizing k with
  | nil => exact .nil
  | cons t rest ih =>
    simp only [replacePass]
    refine .cons ?_ (ih _)
    by_cases h : (t.type == "text" && k == 0) = true
    · simp only [h, if_true]
      simp only [Bool.and_eq_true, beq_iff_eq] at h
      exact setContent_same t _ h.1
    · simp only [h, Bool.false_eq_true, if_false]; exact sameButText_refl t

/-- **C19.autolink** — inside an autolink (counter ≠ 0) a pass leaves even `text` tokens identical -/
theorem replacePass_autolink (sub : String → String) (k : Int) (hk : k ≠ 0) (t : Tok) (rest : List Tok) :
    (replacePass sub k (t :: rest)).head? = some t := by
  have : (k == 0) = false := by simpa using hk
  simp [replacePass, this]

/-- the counter is non-zero exactly between an `auto` link_open and its link_close -/
theorem replacePass_counter (sub : String → String) (o txt c : Tok) (rest : List Tok)
    (ho : (o.type == "link_open" && o.info == "auto") = true) (hoc : (o.type == "link_close" && o.info == "auto") = false)
    (ht1 : (txt.type == "link_open" && txt.info == "auto") = false)
    (ht2 : (txt.type == "link_close" && txt.info == "auto") = false) :
    (replacePass sub 0 (o :: txt :: c :: rest))[1]? = some txt := by
  simp [replacePass, ho, hoc, ht1, ht2]

theorem forall₂_trans {α} {R : α → α → Prop} (htr : ∀ a b c, R a b → R b c → R a c) :
    ∀ {l1 l2 l3 : List α}, AllRel R l1 l2 → AllRel R l2 l3 → AllRel R l1 l3 := by
  intro l1 l2 l3 h12 h23
  induction h12 generalizing l3 with
  | nil => cases h23; exact .nil
  | cons hab _ ih =>
    cases h23 with
    | cons hbc t23 => exact .cons (htr _ _ _ hab hbc) (ih t23)

theorem sameButText_trans (a b c : Tok) (h1 : SameButText a b) (h2 : SameButText b c) : SameButText a c := by
  obtain ⟨a1, a2, a3, a4, a5, a6, a7, a8, a9, a10, a11, a12⟩ := h1
  obtain ⟨b1, b2, b3, b4, b5, b6, b7, b8, b9, b10, b11, b12⟩ := h2
  refine ⟨a1.trans b1, a2.trans b2, a3.trans b3, a4.trans b4, a5.trans b5, a6.trans b6, a7.trans b7,
    a8.trans b8, a9.trans b9, a10.trans b10, a11.trans b11, ?_⟩
  intro hne
  rw [a12 hne]
  exact b12 (by rw [← a1]; exact hne)

/-- what `replacements` may change in a top-level token: nothing, or (for `inline` tokens) the
content of `text` children -/
def TopSame (a b : Tok) : Prop :=
  a.setChildren none = b.setChildren none ∧
  (match a.children, b.children with
   | none, none => True
   | some x, some y => AllRel SameButText x y
   | _, _ => False)

/-- **C19.shape** — the whole `replacements` rule: same top-level tokens (every field, including an
inline token's own `content`), and for inline tokens the children obey `replacePass_shape`. -/
theorem replacements_shape (scopedHit rareHit : String → Bool) (subScoped subRare : String → String)
    (ts : List Tok) :
    AllRel TopSame ts (replacements scopedHit rareHit subScoped subRare ts) := by
  unfold replacements
  induction ts with
  | nil => exact .nil
  | cons t rest ih =>
    simp only [List.map_cons]
    refine .cons ?_ ih
    have hrefl : ∀ l : List Tok, AllRel SameButText l l := by
      intro l; induction l with
      | nil => exact .nil
      | cons x xs ihx => exact .cons (sameButText_refl x) ihx
    by_cases hin : (t.type == "inline") = true
    · simp only [hin, if_true]
      cases hc : t.children with
      | none => simp only; constructor; rfl; simp [hc]
      | some cs =>
        simp only
        constructor
        · cases t; simp [Tok.setChildren]
        · have : (t.setChildren (some (if rareHit t.content = true then
              replacePass subRare 0 (if scopedHit t.content = true then replacePass subScoped 0 cs else cs)
              else if scopedHit t.content = true then replacePass subScoped 0 cs else cs))).children
              = some (if rareHit t.content = true then
              replacePass subRare 0 (if scopedHit t.content = true then replacePass subScoped 0 cs else cs)
              else if scopedHit t.content = true then replacePass subScoped 0 cs else cs) := by
            cases t; simp [Tok.setChildren, Tok.children]
          rw [hc, this]
          simp only
          have h1 : AllRel SameButText cs (if scopedHit t.content = true then replacePass subScoped 0 cs else cs) := by
            split
            · exact replacePass_shape _ _ _
            · exact hrefl cs
          split
          · exact forall₂_trans sameButText_trans h1 (replacePass_shape _ _ _)
          · exact h1
    · simp only [hin, Bool.false_eq_true, if_false]
      constructor
      · rfl
      · cases t.children with
        | none => trivial
        | some cs => exact hrefl cs

/-! ### smartquotes -/

theorem allRel_of_getElem {α} {R : α → α → Prop} : ∀ (l1 l2 : List α), l1.length = l2.length →
    (∀ (j : Nat) a b, l1[j]? = some a → l2[j]? = some b → R a b) → AllRel R l1 l2 := by
  intro l1
  induction l1 with
  | nil => intro l2 hl _; cases l2 with
    | nil => exact .nil
    | cons _ _ => simp at hl
  | cons x xs ih => intro l2 hl h; cases l2 with
    | nil => simp at hl
    | cons y ys =>
      refine .cons (h 0 x y rfl rfl) (ih ys (by simpa using hl) ?_)
      intro j a b ha hb
      exact h (j + 1) a b (by simpa using ha) (by simpa using hb)

/-- **C19.smart_frame** — `process_inlines` writes only to `text` tokens outside autolinks: the
content of every other token of the list (code spans, raw HTML, `text_special`, link tokens,
autolink text, images, …) is what it was. -/
theorem smart_frame (cls : QCls) (q : Quotes) (toks : List Tok) (j : Nat) (hj : editable toks j = false) :
    (processInlines cls q toks toks.length 0 ⟨toks.map (·.content.toList), []⟩).contents[j]?
      = (toks.map (·.content.toList))[j]? := by
  have := processInlines_framed cls q toks toks.length 0 ⟨toks.map (·.content.toList), []⟩ (by intro it h; cases h)
  exact this.same j (by simp [hj])

theorem editable_text (toks : List Tok) (j : Nat) (t : Tok) (ht : toks[j]? = some t)
    (he : editable toks j = true) : t.type = "text" := by
  unfold editable at he
  rw [ht] at he
  split at he
  · rename_i t' _ heq _
    simp only [Option.some.injEq] at heq; subst heq
    simpa using he
  · cases he

/-- **C19.shape (smartquotes)** — the children after `process_inlines`, for every quotes option
(strings of any length, also empty) and every classification of characters: same length, same
order, identical tokens except the `content` of `text` tokens outside autolinks. -/
theorem smartInline_shape (cls : QCls) (q : Quotes) (toks : List Tok) :
    AllRel SameButText toks (smartInline cls q toks)
    ∧ ∀ j, editable toks j = false → (smartInline cls q toks)[j]? = toks[j]? := by
  have hfr := processInlines_framed cls q toks toks.length 0 ⟨toks.map (·.content.toList), []⟩ (by intro it h; cases h)
  have hlen : (processInlines cls q toks toks.length 0 ⟨toks.map (·.content.toList), []⟩).contents.length = toks.length := by
    rw [hfr.len]; simp
  generalize hst : processInlines cls q toks toks.length 0 ⟨toks.map (·.content.toList), []⟩ = st at hfr hlen
  have hout : ∀ j : Nat, (smartInline cls q toks)[j]? =
      (match toks[j]?, st.contents[j]? with
       | some (t : Tok), some (c : List Char) => some (if t.content.toList = c then t else t.setContent (String.ofList c))
       | _, _ => none) := by
    intro j
    simp only [smartInline, hst]
    rw [List.getElem?_zipWith]
    cases toks[j]? <;> cases st.contents[j]? <;> rfl
  have hsame : ∀ j, editable toks j = false → st.contents[j]? = (toks.map (·.content.toList))[j]? :=
    fun j hj => hfr.same j (by simp [hj])
  constructor
  · apply allRel_of_getElem
    · simp [smartInline, hst, hlen]
    · intro j a b ha hb
      rw [hout j, ha] at hb
      cases hc : st.contents[j]? with
      | none => rw [hc] at hb; cases hb
      | some c =>
        rw [hc] at hb
        simp only [Option.some.injEq] at hb
        subst hb
        by_cases he : editable toks j = true
        · have htext := editable_text toks j a ha he
          split
          · exact sameButText_refl a
          · exact setContent_same a _ htext
        · have := hsame j (by simpa using he)
          rw [hc, List.getElem?_map, ha] at this
          simp only [Option.map_some, Option.some.injEq] at this
          simp [this, sameButText_refl]
  · intro j hj
    rw [hout j]
    cases ha : toks[j]? with
    | none => rfl
    | some a =>
      have := hsame j hj
      rw [List.getElem?_map, ha] at this
      simp only [Option.map_some] at this
      rw [this]
      simp

/-- text inside an autolink is not editable (the flag is on from the `auto` link_open on) -/
example :
    let o := Tok.mk "link_open" "a" 1 [("href", .s "u")] none 0 none "" "autolink" "auto" [] false false
    let x := Tok.mk "text" "" 0 [] none 1 none "a'b" "" "" [] false false
    let c := Tok.mk "link_close" "a" (-1) [] none 0 none "" "autolink" "auto" [] false false
    let y := Tok.mk "text" "" 0 [] none 0 none "'q'" "" "" [] false false
    (editable [o, x, c, y] 1, editable [o, x, c, y] 3) = (false, true) := by decide

/-! ### `replaceAt` (the only string edit smartquotes performs) -/

/-- the edit is in place: everything before and after the index is unchanged -/
theorem replaceAt_spec (s : List Char) (i : Nat) (ch : List Char) (hi : i < s.length) :
    (replaceAt s i ch).take i = s.take i ∧ (replaceAt s i ch).drop (i + ch.length) = s.drop (i + 1)
    ∧ (replaceAt s i ch).length = s.length - 1 + ch.length := by
  unfold replaceAt
  have hl : (s.take i).length = i := by simp; omega
  refine ⟨?_, ?_, ?_⟩
  · rw [List.append_assoc, List.take_append_of_le_length (by omega)]
    simp [List.take_take]
  · rw [List.append_assoc]
    have : i + ch.length = (s.take i).length + ch.length := by omega
    rw [this, List.drop_append, List.drop_append]
    simp
  · simp; omega

/-- **T1 obligation** — escaped/entity characters are `text_special` until `text_join`, which runs
after both typographic rules in the core chain of the current source -/
theorem text_join_last :
    Gen.coreRules.idxOf "replacements" < Gen.coreRules.idxOf "text_join"
    ∧ Gen.coreRules.idxOf "smartquotes" < Gen.coreRules.idxOf "text_join"
    ∧ Gen.coreRules.idxOf "inline" < Gen.coreRules.idxOf "replacements" := by decide

end MdIt.C19
