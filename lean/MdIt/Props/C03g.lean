import MdIt.Props.C02k
import MdIt.Props.C03e
/-!
# C03 (continued) — source maps of the block stream with the `table` rule in the chain

`AppM a b s s'` ("a segment was appended whose maps all lie in `[a, b)` and are non-empty") through the header and the row loop;
`table_tokens_maps`: the exact shape of what a match leaves — `table_open' :: header ++ (tbody_open' :: rows ++ [tbody_close])? ++
[table_close]` with the two placeholders `[startLine, 0]` / `[startLine + 2, 0]` replaced by the final line — so that every map of the
segment lies in `[startLine, state.line)`: **`mapOK_table`**.  With the container contracts (generic in their chains): `tChain_maps` and
**`t_staged`** — the top-level blocks of the parse with ten of eleven rules, `table` included, are staged inside the document (maps in
range, non-empty, increasing, disjoint), and everything between a container's tokens lies inside the container's map.
-/
namespace MdIt.C03
open MdIt.C01 MdIt.C02 MdIt.C10

def AppM (a b : Nat) (s s' : BState) : Prop := ∃ seg, s'.tokens = s.tokens ++ seg ∧ MapsIn a b seg

theorem appM_refl (a b : Nat) (s : BState) : AppM a b s s := ⟨[], by simp, fun t ht => by cases ht⟩

theorem appM_trans {a b : Nat} {x y z : BState} (h1 : AppM a b x y) (h2 : AppM a b y z) : AppM a b x z := by
  obtain ⟨g1, e1, m1⟩ := h1
  obtain ⟨g2, e2, m2⟩ := h2
  refine ⟨g1 ++ g2, by rw [e2, e1, List.append_assoc], ?_⟩
  intro t ht
  rcases List.mem_append.mp ht with h | h
  · exact m1 t h
  · exact m2 t h

theorem appM_weaken {a b a' b' : Nat} {x y : BState} (h : AppM a b x y) (ha : a' ≤ a) (hb : b ≤ b') : AppM a' b' x y := by
  obtain ⟨g, e, m⟩ := h
  exact ⟨g, e, fun t ht u v hm => by have := m t ht u v hm; omega⟩

theorem appM_none (a b : Nat) (s : BState) (ty tag : String) (n : Int) (at_ c d) : AppM a b s (s.pushT ty tag n at_ none c d) :=
  ⟨[tokT s ty tag n at_ none c d], rfl, fun t ht u v hm => by simp only [List.mem_singleton] at ht; subst ht; simp [tokT, Tok.map] at hm⟩

theorem appM_some (a b : Nat) (s : BState) (ty tag : String) (n : Int) (at_ c d) (u v : Nat) (h1 : a ≤ u) (h2 : u < v) (h3 : v ≤ b) :
    AppM a b s (s.pushT ty tag n at_ (some (u, v)) c d) :=
  ⟨[tokT s ty tag n at_ (some (u, v)) c d], rfl, fun t ht x y hm => by
    simp only [List.mem_singleton] at ht; subst ht
    simp only [tokT, Tok.map, Option.some.injEq, Prod.mk.injEq] at hm
    obtain ⟨rfl, rfl⟩ := hm; exact ⟨h1, h2, h3⟩⟩

theorem appM_cells (ws : List Nat) (o c tg : String) (line : Nat) (cols : List (List Char)) :
    ∀ (as : List String) (i : Nat) (s : BState), AppM line (line + 1) s (pushCells ws o c tg line cols as i s) := by
  intro as
  induction as with
  | nil => intro i s; exact appM_refl _ _ s
  | cons a rest ih =>
    intro i s
    simp only [pushCells]
    exact appM_trans (appM_trans (appM_trans (appM_none _ _ _ _ _ _ _ _ _) (appM_some _ _ _ _ _ _ _ _ _ _ _ (Nat.le_refl _) (by omega) (Nat.le_refl _)))
      (appM_none _ _ _ _ _ _ _ _ _)) (ih _ _)

/-- the body loop: the rows' maps lie in `[next, r)` — relative to the state after the `tbody_open` push, if the loop made it -/
theorem appM_body (codeOn : Bool) (terms : List BRule) (hin : ∀ t ∈ terms, SilentInert t) (ws : List Nat)
    (aligns : List String) (startLine endLine : Nat) :
    ∀ (fuel next : Nat) (s : BState) (r : Nat) (s' : BState), endLine < s.lines.length → startLine + 2 ≤ next →
      tableBody codeOn terms ws aligns startLine endLine fuel next s = .ok (r, s') →
      next ≤ r ∧ AppM next r (if next = startLine + 2 ∧ next < r then s.pushT "tbody_open" "tbody" 1 [] (some (startLine + 2, 0)) none "" else s) s' := by
  intro fuel
  induction fuel with
  | zero => intro next s r s' _ _ h; simp [tableBody] at h
  | succ n ih =>
    intro next s r s' hlen hge h
    have stop : ∀ {r s'}, (Except.ok (next, s) : Except PyErr (Nat × BState)) = .ok (r, s') →
        next ≤ r ∧ AppM next r (if next = startLine + 2 ∧ next < r then s.pushT "tbody_open" "tbody" 1 [] (some (startLine + 2, 0)) none "" else s) s' := by
      intro r s' h; cases h
      exact ⟨Nat.le_refl _, by rw [if_neg (by omega)]; exact appM_refl _ _ _⟩
    simp only [tableBody] at h
    split at h
    · rename_i hlt
      obtain ⟨l, hg, _⟩ := getL_ok s next (by omega)
      simp only [hg] at h
      split at h
      · exact stop h
      · obtain ⟨b, hb⟩ := runTerminators_inert terms hin s next endLine (by omega)
        simp only [hb] at h
        cases b with
        | true => exact stop h
        | false =>
          simp only [hg] at h
          split at h
          · exact stop h
          · split at h
            · exact stop h
            · obtain ⟨hr, hrest⟩ := ih _ _ _ _ (by
                  rw [pushT_lines, (pushCells_same _ _ _ _ _ _ _ _ _).1.1, pushT_lines]
                  split <;> simpa using hlen) (by omega) h
              rw [if_neg (by omega)] at hrest
              refine ⟨by omega, ?_⟩
              have hrow : ∀ s2 : BState, AppM next r s2 ((pushCells ws "td_open" "td_close" "td" next (popEnds (escSplitGo (pyStrip ws l.body) false []))
                  aligns 0 (s2.pushT "tr_open" "tr" 1 [] (some (next, next + 1)) none "")).pushT "tr_close" "tr" (-1) [] none none "") :=
                fun s2 => appM_trans (appM_trans (appM_some _ _ _ _ _ _ _ _ _ _ _ (Nat.le_refl _) (by omega) (by omega))
                  (appM_weaken (appM_cells ws _ _ _ _ _ _ _ _) (Nat.le_refl _) (by omega))) (appM_none _ _ _ _ _ _ _ _ _)
              have hrest' := appM_weaken hrest (show next ≤ next + 1 by omega) (Nat.le_refl r)
              by_cases hq : next = startLine + 2
              · rw [if_pos ⟨hq, by omega⟩]
                have hb2 : (next == startLine + 2) = true := by simpa using hq
                simp only [hb2, if_true] at hrest'
                exact appM_trans (hrow _) hrest'
              · rw [if_neg (fun h => hq h.1)]
                have hb2 : (next == startLine + 2) = false := by simpa using hq
                simp only [hb2, Bool.false_eq_true, if_false] at hrest'
                exact appM_trans (hrow _) hrest'
    · exact stop h

/-- what a match of the table rule leaves in the token list, with its maps -/
theorem table_appendsM (codeOn : Bool) (terms : List BRule) (hin : ∀ t ∈ terms, SilentInert t) (ws : List Nat) (s : BState) (line endLine : Nat)
    (hlen : endLine < s.lines.length) (s' : BState) (h : ruleTable codeOn terms ws s line endLine false = .ok (true, s')) :
    ∃ seg, s'.tokens = s.tokens ++ seg ∧ MapsIn line s'.line seg := by
  unfold ruleTable at h
  split at h
  · cases h
  · cases h
  · rename_i aligns cols _
    simp only [Bool.false_eq_true, if_false] at h
    split at h
    · cases h
    · rename_i next s7 hb
      -- header: everything after the `table_open` push up to `thead_close`
      have hhead : AppM line (line + 1) (({ s with parentType := "table" }).pushT "table_open" "table" 1 [] (some (line, 0)) none "")
          (((pushCells ws "th_open" "th_close" "th" line cols aligns 0 (((({ s with parentType := "table" }).pushT "table_open" "table" 1 []
            (some (line, 0)) none "").pushT "thead_open" "thead" 1 [] (some (line, line + 1)) none "").pushT "tr_open" "tr" 1 []
            (some (line, line + 1)) none "")).pushT "tr_close" "tr" (-1) [] none none "").pushT "thead_close" "thead" (-1) [] none none "") :=
        appM_trans (appM_trans (appM_trans (appM_trans (appM_some _ _ _ _ _ _ _ _ _ _ _ (Nat.le_refl _) (by omega) (Nat.le_refl _))
          (appM_some _ _ _ _ _ _ _ _ _ _ _ (Nat.le_refl _) (by omega) (Nat.le_refl _))) (appM_cells ws _ _ _ _ _ _ _ _))
          (appM_none _ _ _ _ _ _ _ _ _)) (appM_none _ _ _ _ _ _ _ _ _)
      have hlen6 : endLine < (((pushCells ws "th_open" "th_close" "th" line cols aligns 0 (((({ s with parentType := "table" }).pushT "table_open" "table" 1 []
            (some (line, 0)) none "").pushT "thead_open" "thead" 1 [] (some (line, line + 1)) none "").pushT "tr_open" "tr" 1 []
            (some (line, line + 1)) none "")).pushT "tr_close" "tr" (-1) [] none none "").pushT "thead_close" "thead" (-1) [] none none "").lines.length := by
        rw [pushT_lines, pushT_lines, (pushCells_same _ _ _ _ _ _ _ _ _).1.1]; exact hlen
      generalize hS6 : BState.pushT (BState.pushT (pushCells ws "th_open" "th_close" "th" line cols aligns 0 _) "tr_close" "tr" (-1) [] none none "")
        "thead_close" "thead" (-1) [] none none "" = S6 at hb h hhead hlen6
      cases h
      obtain ⟨hr, hbody⟩ := appM_body codeOn terms hin ws aligns line endLine _ _ _ _ _ hlen6 (Nat.le_refl _) hb
      obtain ⟨head, eh, mh⟩ := hhead
      rw [pushT_tokens] at eh
      dsimp only at eh
      dsimp only
      by_cases hq : next > line + 2
      · rw [if_pos ⟨rfl, by omega⟩] at hbody
        obtain ⟨rows, er, mr⟩ := hbody
        rw [pushT_tokens] at er
        simp only [show decide (next > line + 2) = true by simpa using hq, if_true, pushT_tokens, er, eh]
        refine ⟨(tokT { s with parentType := "table" } "table_open" "table" 1 [] (some (line, 0)) none "").setMap (some (line, next)) ::
          (head ++ (tokT S6 "tbody_open" "tbody" 1 [] (some (line + 2, 0)) none "").setMap (some (line + 2, next)) :: (rows ++
            [tokT s7 "tbody_close" "tbody" (-1) [] none none "",
             tokT (s7.pushT "tbody_close" "tbody" (-1) [] none none "") "table_close" "table" (-1) [] none none ""])), ?_, ?_⟩
        · have e1 : ∀ (A : List Tok) (x : Tok) (H : List Tok) (y : Tok) (R : List Tok) (z w : Tok) (f g : Tok → Tok),
              ((((A ++ [x] ++ H ++ [y]) ++ R) ++ [z] ++ [w]).modify A.length f).modify (A ++ [x] ++ H).length g
                = A ++ f x :: (H ++ g y :: (R ++ [z, w])) := by
            intro A x H y R z w f g
            have h1 : (((A ++ [x] ++ H ++ [y]) ++ R) ++ [z] ++ [w]) = A ++ x :: (H ++ y :: (R ++ [z, w])) := by simp [List.append_assoc]
            rw [h1, C02.modify_append_len]
            have h2 : A ++ f x :: (H ++ y :: (R ++ [z, w])) = (A ++ f x :: H) ++ y :: (R ++ [z, w]) := by simp [List.append_assoc]
            have h3 : (A ++ [x] ++ H).length = (A ++ f x :: H).length := by simp
            rw [h2, h3, C02.modify_append_len]; simp [List.append_assoc]
          exact e1 _ _ _ _ _ _ _ _ _
        · intro t ht x y hm
          simp only [List.mem_cons, List.mem_append, List.not_mem_nil, or_false] at ht
          rcases ht with rfl | ht | rfl | ht | rfl | rfl
          · rw [C03.setMap_map] at hm; cases hm; exact ⟨Nat.le_refl _, by omega, Nat.le_refl _⟩
          · have := mh t ht x y hm; omega
          · rw [C03.setMap_map] at hm; cases hm; exact ⟨by omega, hq, Nat.le_refl _⟩
          · have := mr t ht x y hm; omega
          · simp [tokT, Tok.map] at hm
          · simp [tokT, Tok.map] at hm
      · rw [if_neg (fun h => hq (by omega))] at hbody
        obtain ⟨rows, er, mr⟩ := hbody
        simp only [show decide (next > line + 2) = false by simpa using hq, Bool.false_eq_true, if_false, pushT_tokens, er, eh]
        refine ⟨(tokT { s with parentType := "table" } "table_open" "table" 1 [] (some (line, 0)) none "").setMap (some (line, next)) ::
          (head ++ (rows ++ [tokT s7 "table_close" "table" (-1) [] none none ""])), ?_, ?_⟩
        · have e1 : ∀ (A : List Tok) (x : Tok) (H R : List Tok) (w : Tok) (f : Tok → Tok),
              ((((A ++ [x]) ++ H) ++ R) ++ [w]).modify A.length f = A ++ f x :: (H ++ (R ++ [w])) := by
            intro A x H R w f
            have h1 : ((((A ++ [x]) ++ H) ++ R) ++ [w]) = A ++ x :: (H ++ (R ++ [w])) := by simp [List.append_assoc]
            rw [h1, C02.modify_append_len]
          exact e1 _ _ _ _ _ _
        · intro t ht x y hm
          simp only [List.mem_cons, List.mem_append, List.not_mem_nil, or_false] at ht
          rcases ht with rfl | ht | ht | rfl
          · rw [C03.setMap_map] at hm; cases hm; exact ⟨Nat.le_refl _, by omega, Nat.le_refl _⟩
          · have := mh t ht x y hm; omega
          · have := mr t ht x y hm; omega
          · simp [tokT, Tok.map] at hm

theorem mapOK_table (P : BState → Nat → Prop) (codeOn : Bool) (terms : List BRule) (hin : ∀ t ∈ terms, SilentInert t) (ws : List Nat) :
    MapOK P (ruleTable codeOn terms ws) := by
  refine ⟨?_, ?_⟩
  · intro s line endLine s' hc h
    exact table_appendsM codeOn terms hin ws s line endLine (by have := hc.len; have := hc.le; omega) s' h
  · intro s line endLine s' hc h
    rw [table_miss_pure _ _ _ _ _ _ _ _ h]

theorem mapOK_paragraphE (P : BState → Nat → Prop) (terms : List BRule) (hin : ∀ t ∈ terms, SilentInertE t) (ws : List Nat) :
    MapOK P (ruleParagraph terms ws) := by
  refine ⟨?_, ?_⟩
  · intro s line endLine s' hc h
    obtain ⟨n, c, h1, h2, h'⟩ := paragraph_shapeE P terms hin ws s line endLine hc
    rw [h'] at h; cases h
    refine ⟨?seg, ?heq, ?hmaps⟩
    case heq =>
      show (BState.pushFull _ _ _ _ _ _ _ _ _).tokens = _
      rw [pushFull_tokens, pushFull_tokens, pushFull_tokens, List.append_assoc, List.append_assoc]
    case hmaps =>
      intro t ht x y hm
      simp only [List.mem_append, List.mem_singleton] at ht
      rcases ht with rfl | rfl | rfl
      · simp at hm; obtain ⟨rfl, rfl⟩ := hm; simp; omega
      · simp at hm; obtain ⟨rfl, rfl⟩ := hm; simp; omega
      · simp at hm
  · intro s line endLine s' hc h
    obtain ⟨n, c, h1, h2, h'⟩ := paragraph_shapeE P terms hin ws s line endLine hc
    rw [h'] at h; cases h

theorem mapOK_lheadingE (P : BState → Nat → Prop) (codeOn : Bool) (terms : List BRule) (hin : ∀ t ∈ terms, SilentInertE t) (ws : List Nat) :
    MapOK P (ruleLheading codeOn terms ws) := by
  refine ⟨?_, ?_⟩
  · intro s line endLine s' hc h
    rcases lheading_shapeE P codeOn terms hin ws s line endLine hc with h' | h' | ⟨next, tag, mk, c, h1, h2, h'⟩
    · rw [h'] at h; cases h
    · rw [h'] at h; cases h
    · rw [h'] at h; cases h
      refine ⟨?seg, ?heq, ?hmaps⟩
      case heq =>
        show (BState.pushFull _ _ _ _ _ _ _ _ _).tokens = _
        rw [pushFull_tokens, pushFull_tokens, pushFull_tokens, List.append_assoc, List.append_assoc]
      case hmaps =>
        intro t ht x y hm
        simp only [List.mem_append, List.mem_singleton] at ht
        rcases ht with rfl | rfl | rfl
        · simp at hm; obtain ⟨rfl, rfl⟩ := hm; simp; omega
        · simp at hm; obtain ⟨rfl, rfl⟩ := hm; simp; omega
        · simp at hm
  · intro s line endLine s' hc h
    rcases lheading_shapeE P codeOn terms hin ws s line endLine hc with h' | h' | ⟨next, tag, mk, c, h1, h2, h'⟩
    · rw [h'] at h; cases h; rfl
    · rw [h'] at h; cases h; rfl
    · rw [h'] at h; cases h

theorem mapOK_tLeaves (c : TCfg) (ws : List Nat) (mn : Int) (P : BState → Nat → Prop) :
    ∀ r ∈ tLeaves c ws mn, MapOK P r := by
  intro r hr
  have hpara := tParaTerms_inertE c ws mn
  simp only [tLeaves, List.mem_append, List.mem_singleton] at hr
  rcases hr with ((((((hr | hr) | hr) | hr) | hr) | hr) | hr) | hr
  · split at hr
    · simp at hr; subst hr; exact mapOK_table _ _ _ (mTerminators_inert c.toMCfg ws mn) ws
    · cases hr
  · split at hr
    · simp at hr; subst hr; exact mapOK_code _ _
    · cases hr
  · split at hr
    · simp at hr; subst hr; exact mapOK_fence _ _
    · cases hr
  · split at hr
    · simp at hr; subst hr; exact mapOK_hr _ _
    · cases hr
  · split at hr
    · simp at hr; subst hr; exact mapOK_htmlBlock _ _ _
    · cases hr
  · split at hr
    · simp at hr; subst hr; exact mapOK_heading _ _ _
    · cases hr
  · split at hr
    · simp at hr; subst hr; exact mapOK_lheadingE _ _ _ hpara ws
    · cases hr
  · subst hr; exact mapOK_paragraphE _ _ hpara ws

def InnerMapsT (ext : IExt) (lx : LExt) (c : TCfg) (ws : List Nat) (mn : Int) (d : Nat) : Prop :=
  ∀ (s : BState) (startLine endLine : Nat) (s' : BState), s.lineMax + 1 ≤ s.lines.length → endLine ≤ s.lineMax → Lv mn d s endLine →
    blockTokenize (tChain ext lx c ws mn d) mn s startLine endLine = .ok s' →
    ∃ new, s'.tokens = s.tokens ++ new ∧ Staged startLine s'.line new

theorem tChain_maps (ext : IExt) (lx : LExt) (c : TCfg) (hnr : c.reference = false) (ws : List Nat) (mn : Int) : ∀ d : Nat,
    (∀ r ∈ tChain ext lx c ws mn d, MapOK (Lv mn d) r) ∧ InnerMapsT ext lx c ws mn d := by
  intro d
  induction d with
  | zero =>
    have h0 : ∀ r ∈ tChain ext lx c ws mn 0, MapOK (Lv mn 0) r := fun r hr => by simp [tChain] at hr
    refine ⟨h0, ?_⟩
    intro s startLine endLine s' hlen hend hlv hrun
    exact loop_maps_final (Lv mn 0) (lv_closed mn 0) _ (tChain_ok ext lx c hnr ws mn 0).1 h0 mn endLine _ startLine false s s' hlen hend hlv hrun
  | succ d ih =>
    have hq : MapOK (Lv mn (d + 1)) (ruleBlockquote c.code (mTerminators c.toMCfg ws mn) (tChain ext lx c ws mn d) mn) := by
      have key := quote_shape mn d c.code (mTerminators c.toMCfg ws mn) (mTerminators_inert c.toMCfg ws mn) (tChain ext lx c ws mn d) (tChain_ok ext lx c hnr ws mn d).2
      refine ⟨?_, ?_⟩
      · intro s line endLine s' hc h
        rcases key s line endLine hc with h' | ⟨s'', h', _, hlt, _, hrunq⟩
        · rw [h'] at h; cases h
        · rw [h'] at h; cases h
          obtain ⟨s3, s4, next, openT, closeT, hl3, hlen3, hend3, hLv3, hrun, htok3, htok, _, _, _, _, _, _, hline, hom, hcm, _⟩ :=
            quote_tokens mn d _ s line s' hrunq
          obtain ⟨new, hs4, hst⟩ := ih.2 s3 line next s4 hlen3 hend3 hLv3 hrun
          refine ⟨_, htok new hs4, ?_⟩
          intro t ht x y hm
          simp only [List.mem_append, List.mem_singleton] at ht
          rcases ht with (rfl | ht) | rfl
          · simp at hm; obtain ⟨rfl, rfl⟩ := hm
            rw [hline] at hlt ⊢
            exact ⟨Nat.le_refl _, hlt, Nat.le_refl _⟩
          · have := hst.mapsIn t ht x y hm
            rw [hline]; exact this
          · rw [hcm] at hm; cases hm
      · intro s line endLine s' hc h
        rcases key s line endLine hc with h' | ⟨s'', h', _⟩
        · rw [h'] at h; cases h; rfl
        · rw [h'] at h; cases h
    have hl : MapOK (Lv mn (d + 1)) (ruleList c.code (mListTerms c.toMCfg mn) (tChain ext lx c ws mn d) mn) := by
      have key := list_shape mn d c.code (mListTerms c.toMCfg mn) (mListTerms_inert c.toMCfg mn) (tChain ext lx c ws mn d) (tChain_ok ext lx c hnr ws mn d).2
      refine ⟨?_, ?_⟩
      · intro s line endLine s' hc h
        obtain ⟨ordered, mc, mlen, mv, hrun⟩ := ruleList_hit _ _ _ _ _ _ _ _ h
        have hitem : ∀ (s : BState) (startLine markerLen : Nat) (s6 : BState) (nt pe : Bool), s.lineMax + 1 ≤ s.lines.length → endLine ≤ s.lineMax →
            startLine < endLine → s.line = startLine → mn + 1 ≤ s.level + 1 + (d : Int) →
            listItem ordered mc (tChain ext lx c ws mn d) mn endLine s startLine markerLen = .ok (s6, nt, pe) →
            ∃ seg, s6.tokens = s.tokens ++ seg ∧ MapsIn startLine s6.line seg := by
          intro s startLine markerLen s6 nt pe hlen hend hlt hline hlv hit
          obtain ⟨s6', nt', pe', hit', _, hgt6, _⟩ := listItem_ok mn d ordered mc (tChain ext lx c ws mn d) (tChain_ok ext lx c hnr ws mn d).2 endLine s startLine markerLen
            hlen hend hlt hline hlv
          rw [hit] at hit'; cases hit'
          obtain ⟨s2, s3, openT, closeT, h2t, h2l, h2m, h2len, hnest, htok, _, _, _, _, _, _, hcm, h6l, _⟩ :=
            listItem_tokens _ _ _ _ _ _ _ _ _ _ _ hit
          have fin : ∀ innerToks, MapsIn startLine s3.line innerToks →
              MapsIn startLine s6.line ([openT.setMap (some (startLine, s3.line))] ++ innerToks ++ [closeT]) := by
            intro innerToks hin t ht x y hm
            simp only [List.mem_append, List.mem_singleton] at ht
            rcases ht with (rfl | ht) | rfl
            · simp at hm; obtain ⟨rfl, rfl⟩ := hm
              rw [h6l] at hgt6 ⊢
              exact ⟨Nat.le_refl _, hgt6, Nat.le_refl _⟩
            · rw [h6l]; exact hin t ht x y hm
            · rw [hcm] at hm; cases hm
          rcases hnest with ⟨h3t, _⟩ | hrun3
          · exact ⟨_, htok [] (by rw [h3t]; simp), fin [] (fun t ht => by cases ht)⟩
          · have hlen2 : s2.lineMax + 1 ≤ s2.lines.length := by rw [h2m, h2len]; exact hlen
            have hend2 : endLine ≤ s2.lineMax := by rw [h2m]; exact hend
            have hlv2 : Lv mn d s2 endLine := by unfold Lv; rw [h2l]; omega
            obtain ⟨new, hs3, hst⟩ := ih.2 s2 startLine endLine s3 hlen2 hend2 hlv2 hrun3
            exact ⟨_, htok _ hs3, fin new hst.mapsIn⟩
        obtain ⟨s2, openT, closeT, toks, seg', _, hchain, hlt, htok, hhid, _, _, _, _, _, _, hcm⟩ :=
          listRun_tokens (fun _ a b seg => MapsIn a b seg) (fun _ _ _ _ _ _ h => h) mn d c.code ordered mc mlen mv
            (mListTerms c.toMCfg mn) (mListTerms_inert c.toMCfg mn) (tChain ext lx c ws mn d) (tChain_ok ext lx c hnr ws mn d).2 s line endLine hitem hc s' hrun
        refine ⟨seg', htok, mapsIn_hid hhid ?_⟩
        intro t ht x y hm
        simp only [List.mem_append, List.mem_singleton] at ht
        rcases ht with (rfl | ht) | rfl
        · simp at hm; obtain ⟨rfl, rfl⟩ := hm
          exact ⟨Nat.le_refl _, hlt, Nat.le_refl _⟩
        · exact itemChain_mapsIn hchain line (Nat.le_refl _) t ht x y hm
        · rw [hcm] at hm; cases hm
      · intro s line endLine s' hc h
        rcases key s line endLine hc with h' | ⟨s'', h', _⟩
        · rw [h'] at h; cases h; rfl
        · rw [h'] at h; cases h
    have hall : ∀ r ∈ tChain ext lx c ws mn (d + 1), MapOK (Lv mn (d + 1)) r := by
      intro r hr
      rcases mem_tChain ext lx c hnr ws mn d r hr with h | h | h
      · exact mapOK_tLeaves c ws mn _ r h
      · subst h; exact hq
      · subst h; exact hl
    refine ⟨hall, ?_⟩
    intro s startLine endLine s' hlen hend hlv hrun
    exact loop_maps_final (Lv mn (d + 1)) (lv_closed mn (d + 1)) _ (tChain_ok ext lx c hnr ws mn (d + 1)).1 hall mn endLine _ startLine false s s' hlen hend hlv hrun


/-- **C03.t_staged** — the parse with the `table` rule in the chain (ten of eleven rules), block quotes and lists nested in each other to
any depth: the top-level blocks of the stream are staged inside the document (maps in range, non-empty, increasing, disjoint); by
`tChain_maps`, every token between a container's opening and closing token has its map inside the container's map, and every token of a
table (header, body, rows, cells' inline tokens) inside the table's -/
theorem t_staged (ext : IExt) (lx : LExt) (c : TCfg) (hnr : c.reference = false) (ws : List Nat) (maxNesting : Int) (src : List Char)
    (st : BState) (h : tParse ext lx c ws maxNesting src = .ok st) : Staged 0 (initBState (normalize src)).lineMax st.tokens := by
  unfold tParse at h
  simp only at h
  split at h
  · cases h; exact .nil _ _
  · have hlv : Lv maxNesting (maxNesting.toNat + 1) (initBState (normalize src)) (initBState (normalize src)).lineMax := by
      unfold Lv; show maxNesting + 1 ≤ (0 : Int) + ((maxNesting.toNat + 1 : Nat) : Int); omega
    obtain ⟨new, hn, hst⟩ := loop_maps_staged (Lv maxNesting (maxNesting.toNat + 1)) (lv_closed _ _) _
      (tChain_ok ext lx c hnr ws maxNesting (maxNesting.toNat + 1)).1 (tChain_maps ext lx c hnr ws maxNesting (maxNesting.toNat + 1)).1
      maxNesting (initBState (normalize src)).lineMax _ 0 false (initBState (normalize src)) st (initBState_len _) (Nat.le_refl _) hlv h
    have : (initBState (normalize src)).tokens = [] := rfl
    rw [this, List.nil_append] at hn
    rw [hn]; exact hst

end MdIt.C03
