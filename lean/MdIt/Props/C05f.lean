import MdIt.Props.C16c
import MdIt.Props.C05e
/-!
# C05 (continued) — with the `reference` block rule: every destination the parse resolves *through its own definitions* is validated

`rChain` (ten of the eleven block rules) threads `env["references"]` through the parse; `C16.keeps_*` show that every rule, loop and
container hands the tables on and that `reference` only appends validated destinations, so the final block state satisfies
`RefsValid` (`rParse_refsValid`), the env the inline rules read is acceptable (`C16.envAfter_refsOK`), and `image_sources` applies to
every `inline` token: **`fullR_hrefs`** — for a parse started from an acceptable (possibly empty) env, every `link_open` / `image`
below every `inline` token, at any depth, carries an empty or URL-safe destination with no dangerous scheme, *including reference links
and images resolved through definitions that stand in the document itself*.  The `RefsOK` hypothesis of `full_hrefs` is thereby reduced
to the env the caller passes in.  (The statement is about results: that the ten-rule parse always returns is not a theorem, see `C16b`.)
-/
namespace MdIt.C05
open MdIt.C01 MdIt.C16

theorem mTerminators_keeps (ext : IExt) (c : MCfg) (ws : List Nat) (mn : Int) : ∀ t ∈ mTerminators c ws mn, Keeps (RefsValid ext) t := by
  have hJ := refsValid_onTables ext
  have nil : ∀ r ∈ ([] : List BRule), Keeps (RefsValid ext) r := fun r hr => by cases hr
  intro t ht
  simp only [mTerminators, List.mem_append, List.mem_singleton] at ht
  rcases ht with ((((ht | ht) | ht) | ht) | ht) | ht
  · split at ht
    · simp at ht; subst ht; exact keeps_of_untouched hJ (untouched_fence _)
    · cases ht
  · subst ht; exact keeps_blockquote hJ _ nil nil mn
  · split at ht
    · simp at ht; subst ht; exact keeps_of_untouched hJ (untouched_hr _)
    · cases ht
  · subst ht; exact keeps_list hJ _ nil nil mn
  · split at ht
    · simp at ht; subst ht; exact keeps_of_untouched hJ (untouched_htmlBlock _ _)
    · cases ht
  · split at ht
    · simp at ht; subst ht; exact keeps_of_untouched hJ (untouched_heading _ _)
    · cases ht

theorem mListTerms_keeps (ext : IExt) (c : MCfg) (mn : Int) : ∀ t ∈ mListTerms c mn, Keeps (RefsValid ext) t := by
  have hJ := refsValid_onTables ext
  have nil : ∀ r ∈ ([] : List BRule), Keeps (RefsValid ext) r := fun r hr => by cases hr
  intro t ht
  simp only [mListTerms, lListTerms, List.mem_append, List.mem_singleton] at ht
  rcases ht with (ht | ht) | ht
  · split at ht
    · simp at ht; subst ht; exact keeps_of_untouched hJ (untouched_fence _)
    · cases ht
  · subst ht; exact keeps_blockquote hJ _ nil nil mn
  · split at ht
    · simp at ht; subst ht; exact keeps_of_untouched hJ (untouched_hr _)
    · cases ht

/-- every rule of every ten-rule chain keeps "every recorded destination is validated" -/
theorem rChain_keeps (ext : IExt) (lx : LExt) (c : RCfg) (ws : List Nat) (mn : Int) :
    ∀ d : Nat, ∀ r ∈ rChain ext lx c ws mn d, Keeps (RefsValid ext) r := by
  have hJ := refsValid_onTables ext
  have hT := mTerminators_keeps ext c.toMCfg ws mn
  have hLT := mListTerms_keeps ext c.toMCfg mn
  intro d
  induction d with
  | zero => intro r hr; simp [rChain] at hr
  | succ d ih =>
    intro r hr
    simp only [rChain, List.mem_append, List.mem_singleton] at hr
    rcases hr with ((((((((hr | hr) | hr) | hr) | hr) | hr) | hr) | hr) | hr) | hr
    · split at hr
      · simp at hr; subst hr; exact keeps_of_untouched hJ (untouched_code _)
      · cases hr
    · split at hr
      · simp at hr; subst hr; exact keeps_of_untouched hJ (untouched_fence _)
      · cases hr
    · subst hr; exact keeps_blockquote hJ _ hT ih mn
    · split at hr
      · simp at hr; subst hr; exact keeps_of_untouched hJ (untouched_hr _)
      · cases hr
    · subst hr; exact keeps_list hJ _ hLT ih mn
    · split at hr
      · simp at hr; subst hr; exact keeps_reference ext lx _ _ hT ws
      · cases hr
    · split at hr
      · simp at hr; subst hr; exact keeps_of_untouched hJ (untouched_htmlBlock _ _)
      · cases hr
    · split at hr
      · simp at hr; subst hr; exact keeps_of_untouched hJ (untouched_heading _ _)
      · cases hr
    · split at hr
      · simp at hr; subst hr; exact keeps_lheading hJ _ hT ws
      · cases hr
    · subst hr; exact keeps_paragraph hJ hT ws

/-- **every entry the block parse records in `env["references"]` / `env["duplicate_refs"]` is a validated destination** -/
theorem rParse_refsValid (ext : IExt) (lx : LExt) (c : RCfg) (ws : List Nat) (mn : Int) (src : List Char) (s : BState)
    (h : rParse ext lx c ws mn src = .ok s) : RefsValid ext s := by
  have h0 : RefsValid ext (initBState (normalize src)) := by
    constructor
    · intro e he; exact absurd he (by simp [initBState])
    · intro e he; exact absurd he (by simp [initBState])
  unfold rParse at h
  simp only at h
  split at h
  · cases h; exact h0
  · exact blockTokenize_keeps (refsValid_onTables ext) (rChain_keeps ext lx c ws mn _) mn _ _ _ h0 s h

/-- **C05.fullR_hrefs** -/
theorem fullR_hrefs (cls : QCls) (ext : IExt) (lx : LExt) (hrefs : RefsOK lx) (rc : RCfg) (ic : ICfg) (hon : ic.inlineOn = true) (ws : List Nat)
    (mn : Int) (d : Nat) (src : List Char) (ts : List Tok) (refs dups : List (List Char × List Char × List Char))
    (h : fullParseR cls ext lx rc ic ws mn d src = .ok (ts, refs, dups)) :
    (∀ e ∈ refs ++ dups, DestOK e.2.1)
    ∧ ∀ t ∈ ts, t.type = "inline" → ∀ x ∈ descOpt t.children,
      (x.type = "link_open" → ∃ href : List Char, x.attrs.head? = some ("href", .s (String.ofList href)) ∧ DestOK href)
      ∧ (x.type = "image" → ∃ s : List Char, x.attrs.head? = some ("src", .s (String.ofList s)) ∧ DestOK s) := by
  unfold fullParseR at h
  cases hb : rParse ext lx rc ws mn src with
  | error e => rw [hb] at h; cases h
  | ok s =>
    rw [hb] at h
    simp only [hon, if_true] at h
    have hv := rParse_refsValid ext lx rc ws mn src s hb
    have henv := envAfter_refsOK ext lx s hrefs hv
    cases hc : coreInline (inlineOf cls ext (envAfter lx s) ic mn d) s.tokens with
    | error e => rw [hc] at h; cases h
    | ok its =>
      rw [hc] at h
      simp only [Except.ok.injEq, Prod.mk.injEq] at h
      obtain ⟨hts, hr, hd⟩ := h
      constructor
      · intro e he
        rw [← hr, ← hd] at he
        have hval : ValidHref ext e.2.1 := by
          rcases List.mem_append.1 he with he | he
          · exact hv.1 e he
          · exact hv.2 e he
        obtain ⟨u, hu, hval⟩ := hval
        right
        rw [hu]
        rw [hu] at hval
        exact ⟨encode_range _, api ext.reformat u hval⟩
      · have hparse : ∀ c cs, inlineOf cls ext (envAfter lx s) ic mn d c = .ok cs → ∀ x ∈ descList cs, UTok ext (envAfter lx s) x := by
          intro c cs hp
          exact image_sources cls ext (envAfter lx s) ic.text ic.newline ic.escape ic.backticks ic.strike ic.emphasis ic.link ic.image ic.autolink
            ic.htmlInline ic.entity ic.fragJoin mn d c cs hp
        have h1 := coreInline_deep (N := UTok ext (envAfter lx s)) (s.tokens.map Tok.type) _ hparse s.tokens its
          (fun b hb => List.mem_map.2 ⟨b, hb, rfl⟩) hc
        have h2 : ∀ t ∈ ts, t.type ∈ s.tokens.map Tok.type ∧ InlineDeep (UTok ext (envAfter lx s)) t := by
          subst hts
          split
          · exact textJoin_deep (utok_joinClosed ext (envAfter lx s)) _ _ h1
          · exact h1
        intro t ht hty x hx
        obtain ⟨hl, hi⟩ := (h2 t ht).2 hty x hx
        constructor
        · intro hxt
          obtain ⟨href, ha, hsrc⟩ := hl hxt
          exact ⟨href, ha, destOK_of_src ext (envAfter lx s) henv href hsrc⟩
        · intro hxt
          obtain ⟨s', ha, hsrc⟩ := hi hxt
          exact ⟨s', ha, destOK_of_src ext (envAfter lx s) henv s' hsrc⟩

end MdIt.C05

namespace MdIt.C05
open MdIt.C01

/-- the destinations a whole parse resolves, and the labels it records -/
def fullRDests (r : Except PyErr (List Tok × List (List Char × List Char × List Char) × List (List Char × List Char × List Char))) :
    Option (List (String × Option (String × AttrVal)) × List String) :=
  match r with
  | .ok (ts, refs, _) => some ((ts.flatMap (fun t => descOpt t.children)).filterMap
      (fun t => if t.type == "link_open" || t.type == "image" then some (t.type, t.attrs.head?) else none), refs.map (fun e => String.ofList e.1))
  | .error _ => none

/-! non-vacuity: definitions at top level and inside a quote, one with a multi-line title, one with a dangerous destination (not
recorded: its lines stay a paragraph and `[bad]` stays text), uses before and after -/
example : fullRDests (fullParseR C02f.asciiCls ext0 { C01.lx0 with hasRefs := false, refs := fun _ => none }
      { code := true, fence := true, hr := true, heading := true, htmlBlock := false, lheading := true, html := false, reference := true,
        inlineDefs := false }
      { text := true, newline := true, escape := true, backticks := false, strike := false, emphasis := true, link := true, image := true,
        autolink := false, htmlInline := false, entity := false, fragJoin := true, inlineOn := true, textJoinOn := true }
      [32, 9, 10, 11, 12, 13] 20 40
      "[a] ![b]\n\n[a]: /x\n  'multi\n  line'\n> [b]: <y z>\n\n[bad]: javascript:q\n\n[bad] [b]\n".toList)
    = some ([("link_open", some ("href", .s "/x")), ("image", some ("src", .s "y%20z")), ("link_open", some ("href", .s "y%20z"))], ["A", "B"]) := by
  decide +kernel

end MdIt.C05
