import MdIt.Props.C18b
/-!
# C18 (continued) — inline text means the same in a table cell as anywhere else (end-to-end model with all eleven block rules)

`fullT_inline_local`: every `inline` token of a whole parse with tables — the paragraph's, the heading's, and the one the table rule makes
for each header and body **cell** — carries as children exactly what the core chain makes of its own `content` under the configuration
and the env the block parse left: nothing of the block context enters.  Hence two `inline` tokens with the same content, one in a
paragraph and one in a cell, have the same children (`cell_same_as_paragraph`).
-/
namespace MdIt.C18

theorem fullT_inline_local (cls : QCls) (ext : IExt) (lx : LExt) (tc : TCfg) (ic : ICfg) (hon : ic.inlineOn = true) (ws : List Nat) (mn : Int)
    (d : Nat) (src : List Char) (ts : List Tok) (refs dups) (h : fullParseT cls ext lx tc ic ws mn d src = .ok (ts, refs, dups)) :
    ∃ env, ∀ t ∈ ts, t.type = "inline" → childrenOf cls ext env ic mn d t.content.toList = .ok (t.children.getD []) ∧ t.children.isSome = true := by
  unfold fullParseT at h
  cases hb : tParse ext lx tc ws mn src with
  | error e => rw [hb] at h; cases h
  | ok s =>
    rw [hb] at h
    simp only [hon, if_true] at h
    cases hc : coreInline (inlineOf cls ext (envAfter lx s) ic mn d) s.tokens with
    | error e => rw [hc] at h; cases h
    | ok its =>
      rw [hc] at h
      simp only [Except.ok.injEq, Prod.mk.injEq] at h
      obtain ⟨h1, _, _⟩ := h
      subst h1
      exact ⟨envAfter lx s, core_local cls ext (envAfter lx s) ic hon mn d s.tokens its hc⟩

/-- two inline tokens of one parse with the same content — say a paragraph's and a table cell's — have the same children -/
theorem cell_same_as_paragraph (cls : QCls) (ext : IExt) (lx : LExt) (tc : TCfg) (ic : ICfg) (hon : ic.inlineOn = true) (ws : List Nat) (mn : Int)
    (d : Nat) (src : List Char) (ts : List Tok) (refs dups) (h : fullParseT cls ext lx tc ic ws mn d src = .ok (ts, refs, dups))
    (t u : Tok) (ht : t ∈ ts) (hu : u ∈ ts) (ht' : t.type = "inline") (hu' : u.type = "inline") (hc : t.content = u.content) :
    t.children = u.children := by
  obtain ⟨env, hloc⟩ := fullT_inline_local cls ext lx tc ic hon ws mn d src ts refs dups h
  obtain ⟨a1, a2⟩ := hloc t ht ht'
  obtain ⟨b1, b2⟩ := hloc u hu hu'
  rw [hc, b1] at a1
  simp only [Except.ok.injEq] at a1
  cases ht2 : t.children with
  | none => rw [ht2] at a2; cases a2
  | some x =>
    cases hu2 : u.children with
    | none => rw [hu2] at b2; cases b2
    | some y => rw [ht2, hu2] at a1; simp at a1; rw [a1]

end MdIt.C18
